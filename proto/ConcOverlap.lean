/-! Prototype for M6: a resolver whose construction overlaps a Close.
    Repaired protocol (planned D8 fix):
      resolver:  USER ctor ; [lock disposablesMu] if disposed then dispose it yourself else append [unlock]
      closer:    CAS disposed ; [lock] take list, list := [] [unlock] ; USER Close each taken
    Claim: for every interleaving of any number of resolvers and closers, once everybody has
    finished and at least one closer ran, every created instance was closed exactly once. -/
namespace Godi.Conc

inductive Thr
  | rNew (i : Nat)            -- resolver about to run the constructor for instance i
  | rMade (i : Nat)           -- constructor returned, instance not yet tracked
  | rDone
  | cNew                      -- closer before the CAS
  | cWon                      -- passed the CAS, has not drained yet
  | cDrain (todo : List Nat)  -- closing the taken instances one by one
  | cDone
deriving DecidableEq, Repr

structure Sys where
  thr : List Thr
  disposed : Bool
  list : List Nat
  closed : List Nat       -- log of USER Close calls
  created : List Nat      -- log of USER ctor completions
deriving Repr

/-- one atomic action of one thread; `none` = thread has nothing to do -/
def act (s : Sys) : Thr → Option (Thr × Sys)
  | .rNew i => some (.rMade i, { s with created := i :: s.created })
  | .rMade i =>
    if s.disposed then some (.rDone, { s with closed := i :: s.closed })   -- dispose it yourself
    else some (.rDone, { s with list := s.list ++ [i] })
  | .rDone => none
  | .cNew => if s.disposed then some (.cDone, s) else some (.cWon, { s with disposed := true })
  | .cWon => some (.cDrain s.list.reverse, { s with list := [] })
  | .cDrain [] => some (.cDone, s)
  | .cDrain (i :: rest) => some (.cDrain rest, { s with closed := i :: s.closed })
  | .cDone => none

inductive Step : Sys → Sys → Prop
  | mk (s : Sys) (pre post : List Thr) (t t' : Thr) (s' : Sys) :
      s.thr = pre ++ t :: post → act s t = some (t', s') →
      Step s { s' with thr := pre ++ t' :: post }

inductive Reach : Sys → Sys → Prop
  | refl (s) : Reach s s
  | step {a b c} : Reach a b → Step b c → Reach a c

/-- instances a thread is still responsible for -/
def holds : Thr → List Nat
  | .rNew _ => []
  | .rMade i => [i]
  | .cDrain todo => todo
  | _ => []

def willCreate : Thr → List Nat
  | .rNew i => [i]
  | _ => []

def held (ts : List Thr) : List Nat := ts.flatMap holds
def future (ts : List Thr) : List Nat := ts.flatMap willCreate

def pastCas : Thr → Bool
  | .cWon => true | .cDrain _ => true | _ => false

theorem held_split (pre post : List Thr) (t : Thr) (i : Nat) :
    (held (pre ++ t :: post)).count i = (held pre).count i + (holds t).count i + (held post).count i := by
  simp [held, List.flatMap_append, List.flatMap_cons, List.count_append]; omega

theorem future_split (pre post : List Thr) (t : Thr) (i : Nat) :
    (future (pre ++ t :: post)).count i
      = (future pre).count i + (willCreate t).count i + (future post).count i := by
  simp [future, List.flatMap_append, List.flatMap_cons, List.count_append]; omega

/-- everything created is in exactly one place: the scope's list, some thread's hands, or closed;
    nothing is closed before the gate is passed; after the drain the list stays empty -/
structure Inv (s : Sys) : Prop where
  uniq : ∀ i, s.closed.count i + s.list.count i + (held s.thr).count i + (future s.thr).count i ≤ 1
  acct : ∀ i, s.created.count i = s.closed.count i + s.list.count i + (held s.thr).count i
  gate : s.disposed = false → s.closed = [] ∧ ∀ t ∈ s.thr, pastCas t = false
  empt : s.disposed = true → (∃ t ∈ s.thr, t = .cWon) ∨ s.list = []

theorem gate_keep {pre post : List Thr} {t t' : Thr}
    (h : ∀ x ∈ pre ++ t :: post, pastCas x = false) (ht' : pastCas t' = false) :
    ∀ x ∈ pre ++ t' :: post, pastCas x = false := by
  intro x hx
  simp only [List.mem_append, List.mem_cons] at hx
  rcases hx with hx | hx | hx
  · exact h x (by simp [hx])
  · subst hx; exact ht'
  · exact h x (by simp [hx])

theorem won_keep {pre post : List Thr} {t t' : Thr}
    (h : ∃ x ∈ pre ++ t :: post, x = Thr.cWon) (ht : t ≠ .cWon) :
    ∃ x ∈ pre ++ t' :: post, x = Thr.cWon := by
  obtain ⟨x, hx, rfl⟩ := h
  simp only [List.mem_append, List.mem_cons] at hx
  refine ⟨.cWon, ?_, rfl⟩
  simp only [List.mem_append, List.mem_cons]
  rcases hx with hx | hx | hx
  · exact Or.inl hx
  · exact absurd hx.symm ht
  · exact Or.inr (Or.inr hx)

theorem inv_step {s s' : Sys} (inv : Inv s) (st : Step s s') : Inv s' := by
  cases st with
  | mk pre post t t' s'' hthr hact =>
    have hu := inv.uniq
    have ha := inv.acct
    have hg := inv.gate
    have he := inv.empt
    rw [hthr] at hu ha hg he
    simp only [held_split, future_split] at hu ha
    cases t with
    | rNew i =>
      simp only [act, Option.some.injEq, Prod.mk.injEq] at hact
      obtain ⟨rfl, rfl⟩ := hact
      refine ⟨?_, ?_, ?_, ?_⟩
      · intro j; have := hu j
        simp only [held_split, future_split, holds, willCreate, List.count_cons, List.count_nil,
          beq_iff_eq] at this ⊢
        split at this <;> simp_all <;> omega
      · intro j; have h1 := ha j; have h2 := hu j
        simp only [held_split, holds, willCreate, List.count_cons, List.count_nil, beq_iff_eq] at h1 h2 ⊢
        split <;> simp_all <;> omega
      · intro hd
        have ⟨g1, g2⟩ := hg hd
        exact ⟨g1, gate_keep g2 rfl⟩
      · intro hd
        rcases he hd with h | h
        · exact Or.inl (won_keep h (by simp))
        · exact Or.inr h
    | rMade i =>
      by_cases hd : s.disposed = true
      · simp only [act, hd, if_true, Option.some.injEq, Prod.mk.injEq] at hact
        obtain ⟨rfl, rfl⟩ := hact
        refine ⟨?_, ?_, ?_, ?_⟩
        · intro j; have := hu j
          simp only [held_split, future_split, holds, willCreate, List.count_cons, List.count_nil,
            beq_iff_eq] at this ⊢
          split at this <;> simp_all <;> omega
        · intro j; have h1 := ha j
          simp only [held_split, holds, List.count_cons, List.count_nil, beq_iff_eq] at h1 ⊢
          split at h1 <;> simp_all <;> omega
        · intro hd'; simp [hd] at hd'
        · intro _
          rcases he hd with h | h
          · exact Or.inl (won_keep h (by simp))
          · exact Or.inr h
      · have hd' : s.disposed = false := by simpa using hd
        simp only [act, hd', Bool.false_eq_true, if_false, Option.some.injEq, Prod.mk.injEq] at hact
        obtain ⟨rfl, rfl⟩ := hact
        refine ⟨?_, ?_, ?_, ?_⟩
        · intro j; have := hu j
          simp only [held_split, future_split, holds, willCreate, List.count_cons, List.count_nil,
            List.count_append, beq_iff_eq] at this ⊢
          split at this <;> simp_all <;> omega
        · intro j; have h1 := ha j
          simp only [held_split, holds, List.count_cons, List.count_nil, List.count_append,
            beq_iff_eq] at h1 ⊢
          split at h1 <;> simp_all <;> omega
        · intro _
          have ⟨g1, g2⟩ := hg hd'
          exact ⟨g1, gate_keep g2 rfl⟩
        · intro h; simp [hd'] at h
    | rDone => simp [act] at hact
    | cDone => simp [act] at hact
    | cNew =>
      by_cases hd : s.disposed = true
      · simp only [act, hd, if_true, Option.some.injEq, Prod.mk.injEq] at hact
        obtain ⟨rfl, rfl⟩ := hact
        refine ⟨?_, ?_, ?_, ?_⟩
        · intro j; have := hu j
          simpa only [held_split, future_split, holds, willCreate] using this
        · intro j; have h1 := ha j
          simpa only [held_split, holds] using h1
        · intro hd'; simp [hd] at hd'
        · intro _
          rcases he hd with h | h
          · exact Or.inl (won_keep h (by simp))
          · exact Or.inr h
      · have hd' : s.disposed = false := by simpa using hd
        simp only [act, hd', Bool.false_eq_true, if_false, Option.some.injEq, Prod.mk.injEq] at hact
        obtain ⟨rfl, rfl⟩ := hact
        refine ⟨?_, ?_, ?_, ?_⟩
        · intro j; have := hu j
          simpa only [held_split, future_split, holds, willCreate] using this
        · intro j; have h1 := ha j
          simpa only [held_split, holds] using h1
        · intro h; simp at h
        · intro _
          exact Or.inl ⟨.cWon, by simp, rfl⟩
    | cWon =>
      simp only [act, Option.some.injEq, Prod.mk.injEq] at hact
      obtain ⟨rfl, rfl⟩ := hact
      have hdisp : s.disposed = true := by
        cases h : s.disposed
        · have := (hg h).2 .cWon (by simp)
          simp [pastCas] at this
        · rfl
      refine ⟨?_, ?_, ?_, ?_⟩
      · intro j; have := hu j
        simp only [held_split, future_split, holds, willCreate, List.count_nil, List.count_reverse] at this ⊢
        omega
      · intro j; have h1 := ha j
        simp only [held_split, holds, List.count_nil, List.count_reverse] at h1 ⊢
        omega
      · intro h; simp [hdisp] at h
      · intro _; exact Or.inr rfl
    | cDrain todo =>
      have hdisp : s.disposed = true := by
        cases h : s.disposed
        · have := (hg h).2 (.cDrain todo) (by simp)
          simp [pastCas] at this
        · rfl
      cases todo with
      | nil =>
        simp only [act, Option.some.injEq, Prod.mk.injEq] at hact
        obtain ⟨rfl, rfl⟩ := hact
        refine ⟨?_, ?_, ?_, ?_⟩
        · intro j; have := hu j
          simpa only [held_split, future_split, holds, willCreate] using this
        · intro j; have h1 := ha j
          simpa only [held_split, holds] using h1
        · intro h; simp [hdisp] at h
        · intro _
          rcases he hdisp with h | h
          · exact Or.inl (won_keep h (by simp))
          · exact Or.inr h
      | cons i rest =>
        simp only [act, Option.some.injEq, Prod.mk.injEq] at hact
        obtain ⟨rfl, rfl⟩ := hact
        refine ⟨?_, ?_, ?_, ?_⟩
        · intro j; have := hu j
          simp only [held_split, future_split, holds, willCreate, List.count_cons, List.count_nil,
            beq_iff_eq] at this ⊢
          split at this <;> simp_all <;> omega
        · intro j; have h1 := ha j
          simp only [held_split, holds, List.count_cons, List.count_nil, beq_iff_eq] at h1 ⊢
          split at h1 <;> simp_all <;> omega
        · intro h; simp [hdisp] at h
        · intro _
          rcases he hdisp with h | h
          · exact Or.inl (won_keep h (by simp))
          · exact Or.inr h

theorem inv_reach {s s' : Sys} (inv : Inv s) (r : Reach s s') : Inv s' := by
  induction r with
  | refl => exact inv
  | step _ st ih => exact inv_step ih st

def finished : Thr → Bool
  | .rDone => true | .cDone => true | _ => false

/-- EXACTLY ONCE UNDER OVERLAP: any number of resolvers and closers, any interleaving. -/
theorem closed_exactly_once (s0 s : Sys) (inv0 : Inv s0) (r : Reach s0 s)
    (hfin : ∀ t ∈ s.thr, finished t = true) (hdisp : s.disposed = true) :
    s.closed.Nodup ∧ ∀ i, i ∈ s.created ↔ i ∈ s.closed := by
  have inv := inv_reach inv0 r
  have hheld : ∀ i, (held s.thr).count i = 0 := by
    intro i
    rw [List.count_eq_zero]
    intro hi
    simp only [held, List.mem_flatMap] at hi
    obtain ⟨t, ht, hit⟩ := hi
    have := hfin t ht
    cases t <;> simp_all [finished, holds]
  have hlist : s.list = [] := by
    rcases inv.empt hdisp with ⟨t, ht, rfl⟩ | h
    · have := hfin _ ht; simp [finished] at this
    · exact h
  refine ⟨?_, ?_⟩
  · rw [List.nodup_iff_count]
    intro i; have := inv.uniq i; omega
  · intro i
    have h1 := inv.acct i
    rw [hlist, hheld i] at h1
    simp only [List.count_nil, Nat.add_zero] at h1
    rw [← List.count_pos_iff, ← List.count_pos_iff, h1]

/-- NEVER EARLY: nothing is closed while the scope is still open. -/
theorem not_closed_early (s0 s : Sys) (inv0 : Inv s0) (r : Reach s0 s) (h : s.disposed = false) :
    s.closed = [] := ((inv_reach inv0 r).gate h).1

/-- the initial states: distinct resolvers, any number of closers -/
theorem inv_init (thr : List Thr) (hshape : ∀ t ∈ thr, (∃ i, t = .rNew i) ∨ t = .cNew)
    (hnd : (future thr).Nodup) :
    Inv { thr := thr, disposed := false, list := [], closed := [], created := [] } := by
  have hheld : ∀ i, (held thr).count i = 0 := by
    intro i
    rw [List.count_eq_zero]
    intro hi
    simp only [held, List.mem_flatMap] at hi
    obtain ⟨t, ht, hit⟩ := hi
    rcases hshape t ht with ⟨j, rfl⟩ | rfl <;> simp [holds] at hit
  refine ⟨?_, ?_, ?_, ?_⟩
  · intro i
    have := List.nodup_iff_count.1 hnd i
    simp [hheld i]; exact this
  · intro i; simp [hheld i]
  · intro _
    refine ⟨rfl, ?_⟩
    intro t ht
    rcases hshape t ht with ⟨j, rfl⟩ | rfl <;> rfl
  · intro h; simp at h

#print axioms closed_exactly_once
#print axioms not_closed_early
end Godi.Conc
