package graph

// Correspondence + monitor harness for the dependency graph (M1; properties C05, C06, C19).
// Injected into /repo/internal/graph with `go test -overlay`; never committed to /repo.
//
// It generates operation sequences in the line protocol of /verif/lean/Driver/Graph.lean, runs them
// on the real DependencyGraph, writes
//   ops.txt  the lines the Lean model will execute (observed nondeterministic answers attached),
//   obs.txt  what the implementation answered, canonicalised, one line per op line,
//   mon.txt  failures of the direct monitors (the property statements evaluated against a plain
//            reference digraph written independently of both the model and godi),
//   stats.json  what was generated.

import (
	"bufio"
	"encoding/json"
	"fmt"
	"math/rand"
	"os"
	"path/filepath"
	"reflect"
	"sort"
	"strconv"
	"strings"
	"testing"
	"time"

	"github.com/junioryono/godi/v4/internal/reflection"
)

type vgT0 struct{}
type vgT1 struct{}
type vgT2 struct{}
type vgT3 struct{}

// identity pool: types x keys x groups
var vgPool = []NodeKey{
	{Type: reflect.TypeOf(vgT0{})},
	{Type: reflect.TypeOf(vgT1{})},
	{Type: reflect.TypeOf(vgT2{})},
	{Type: reflect.TypeOf(vgT3{})},
	{Type: reflect.TypeOf(vgT0{}), Key: "k"},
	{Type: reflect.TypeOf(vgT1{}), Group: "grp"},
	{Type: reflect.TypeOf(&vgT2{}), Key: 7},
}

func vgIdx(k NodeKey) int {
	for i, p := range vgPool {
		if p == k {
			return i
		}
	}
	return -1
}

type vgProv struct {
	id   int
	key  NodeKey
	deps []*reflection.Dependency
}

func (p *vgProv) GetType() reflect.Type                     { return p.key.Type }
func (p *vgProv) GetKey() any                               { return p.key.Key }
func (p *vgProv) GetGroup() string                          { return p.key.Group }
func (p *vgProv) GetDependencies() []*reflection.Dependency { return p.deps }

// ---------------------------------------------------------------- reference digraph (monitor)

type vgRef struct {
	nodes map[int]bool
	edges map[int][]int
}

func newRef() *vgRef { return &vgRef{nodes: map[int]bool{}, edges: map[int][]int{}} }
func (r *vgRef) clone() *vgRef {
	c := newRef()
	for k := range r.nodes {
		c.nodes[k] = true
	}
	for k, v := range r.edges {
		c.edges[k] = append([]int(nil), v...)
	}
	return c
}
func (r *vgRef) add(n int, deps []int) {
	r.nodes[n] = true
	r.edges[n] = append([]int(nil), deps...)
	for _, d := range deps {
		r.nodes[d] = true
	}
}
func (r *vgRef) remove(n int) {
	if !r.nodes[n] {
		return
	}
	delete(r.nodes, n)
	delete(r.edges, n)
	for k, v := range r.edges {
		var f []int
		for _, x := range v {
			if x != n {
				f = append(f, x)
			}
		}
		r.edges[k] = f
	}
}
func (r *vgRef) dependents(n int) []int {
	var out []int
	for k, v := range r.edges {
		for _, x := range v {
			if x == n {
				out = append(out, k)
			}
		}
	}
	sort.Ints(out)
	return out
}
func (r *vgRef) reach(n int) map[int]bool { // one or more edges
	seen := map[int]bool{}
	var walk func(int)
	walk = func(u int) {
		for _, v := range r.edges[u] {
			if !seen[v] {
				seen[v] = true
				walk(v)
			}
		}
	}
	walk(n)
	return seen
}
func (r *vgRef) trans(n int) []int {
	seen := r.reach(n)
	delete(seen, n)
	var out []int
	for k := range seen {
		out = append(out, k)
	}
	sort.Ints(out)
	return out
}
func (r *vgRef) onCycle(n int) bool { return r.reach(n)[n] }
func (r *vgRef) hasCycle() bool {
	for n := range r.nodes {
		if r.onCycle(n) {
			return true
		}
	}
	return false
}
func (r *vgRef) cycleReachableFrom(n int) bool {
	if r.onCycle(n) {
		return true
	}
	for u := range r.reach(n) {
		if r.onCycle(u) {
			return true
		}
	}
	return false
}
func (r *vgRef) longest(n int, memo map[int]int) int { // acyclic only
	if v, ok := memo[n]; ok {
		return v
	}
	best := 0
	for _, d := range r.edges[n] {
		if l := r.longest(d, memo) + 1; l > best {
			best = l
		}
	}
	memo[n] = best
	return best
}

// ---------------------------------------------------------------- executor

type vgRun struct {
	g      *DependencyGraph
	ref    *vgRef
	nextP  int
	ops    *bufio.Writer
	obs    *bufio.Writer
	mon    *bufio.Writer
	scen   int
	nline  int
	monBad int
	cur    []string // op lines of the current scenario
	stats  map[string]int
	cyclic int
}

func ints(a []int) string {
	s := make([]string, len(a))
	for i, x := range a {
		s[i] = strconv.Itoa(x)
	}
	return strings.Join(s, " ")
}
func keys(ks []NodeKey) []int {
	out := make([]int, 0, len(ks))
	for _, k := range ks {
		out = append(out, vgIdx(k))
	}
	return out
}
func sortedInts(a []int) []int { b := append([]int{}, a...); sort.Ints(b); return b }
func eqInts(a, b []int) bool {
	if len(a) != len(b) {
		return false
	}
	for i := range a {
		if a[i] != b[i] {
			return false
		}
	}
	return true
}

func (r *vgRun) emit(op, obs string) {
	fmt.Fprintln(r.ops, op)
	fmt.Fprintln(r.obs, obs)
	r.cur = append(r.cur, op)
	r.nline++
}

func (r *vgRun) fail(props, what string) {
	r.monBad++
	fmt.Fprintf(r.mon, "scenario=%d props=%s what=%s\n", r.scen, props, what)
	for _, l := range r.cur {
		fmt.Fprintf(r.mon, "  %s\n", l)
	}
	r.stats["monitor_fail:"+props]++
}

func (r *vgRun) prov(n int, deps []int) *vgProv {
	r.nextP++
	p := &vgProv{id: r.nextP, key: vgPool[n]}
	for i, d := range deps {
		k := vgPool[d]
		// whether a dependency is optional is irrelevant to the graph: it is an edge like any other
		p.deps = append(p.deps, &reflection.Dependency{Type: k.Type, Key: k.Key, Group: k.Group, Optional: (r.nextP+i)%3 == 0})
	}
	return p
}

func cycleObs(err error) (string, *CircularDependencyError) {
	if err == nil {
		return "ok", nil
	}
	if ce, ok := err.(*CircularDependencyError); ok {
		return "cycle", ce
	}
	return "error:" + err.Error(), nil
}

// exec runs one op line (without observed attachments) on the implementation.
func (r *vgRun) exec(line string) {
	w := strings.Fields(line)
	r.stats["op:"+w[1]]++
	num := func(i int) int { v, _ := strconv.Atoi(w[i]); return v }
	rest := func(i int) []int {
		var out []int
		for ; i < len(w); i++ {
			v, _ := strconv.Atoi(w[i])
			out = append(out, v)
		}
		return out
	}
	switch w[1] {
	case "new":
		r.g = NewDependencyGraph()
		r.ref = newRef()
		r.scen++
		r.cur = nil
		r.emit("g new", "ok")
	case "clear":
		r.g.Clear()
		r.ref = newRef()
		r.emit(line, "ok")
	case "add":
		n, deps := num(2), rest(4)
		p := r.prov(n, deps)
		w[3] = strconv.Itoa(p.id)
		trial := r.ref.clone()
		trial.add(n, deps)
		err := r.g.AddProvider(p)
		o, ce := cycleObs(err)
		if ce != nil {
			o = fmt.Sprintf("cycle %d %s", vgIdx(ce.Node), ints(keys(ce.Path)))
			if len(ce.Path) == 0 {
				o = fmt.Sprintf("cycle %d nopath", vgIdx(ce.Node))
			}
			r.stats["add_rejected"]++
		}
		r.emit(strings.Join(w, " "), o)
		// monitor C19/C05: rejected iff a cycle is reachable from the added node; reported path is a real cycle
		want := trial.cycleReachableFrom(n)
		if (err != nil) != want {
			r.fail("C19,C05", fmt.Sprintf("AddProvider verdict: got err=%v, reference says cycle reachable=%v", err != nil, want))
		}
		if ce != nil {
			r.checkPath("C05,C19", trial, ce)
		}
		if err == nil {
			r.ref = trial
		}
	case "addd":
		n, deps := num(2), rest(4)
		p := r.prov(n, deps)
		w[3] = strconv.Itoa(p.id)
		r.g.AddProviderDeferred(p)
		r.ref.add(n, deps)
		r.emit(strings.Join(w, " "), "ok")
	case "rm":
		k := vgPool[num(2)]
		r.g.RemoveProvider(k.Type, k.Key, k.Group)
		r.ref.remove(num(2))
		r.emit(line, "ok")
	case "detect":
		err := r.g.DetectCycles()
		o, ce := cycleObs(err)
		att := o
		if ce != nil {
			att = fmt.Sprintf("cycle %d %s", vgIdx(ce.Node), ints(keys(ce.Path)))
			r.cyclic++
		}
		r.emit("g detect "+att, o)
		if (err != nil) != r.ref.hasCycle() {
			r.fail("C05,C19", fmt.Sprintf("DetectCycles: got err=%v, reference hasCycle=%v", err != nil, r.ref.hasCycle()))
		}
		if ce != nil {
			r.checkPath("C05", r.ref, ce)
		}
	case "topo":
		order, err := r.g.TopologicalSort()
		if err != nil {
			r.emit("g topo err", "err")
		} else {
			var l []int
			for _, nd := range order {
				l = append(l, vgIdx(nd.Key))
			}
			r.emit("g topo ok "+ints(l), "ok")
			r.stats["topo_ok"]++
		}
		cyc := r.ref.hasCycle()
		if (err != nil) != cyc {
			r.fail("C05,C06,C19", fmt.Sprintf("TopologicalSort: got err=%v (its only error is the circular-dependency report), reference hasCycle=%v", err != nil, cyc))
		}
		if err == nil {
			pos := map[int]int{}
			for i, nd := range order {
				pos[vgIdx(nd.Key)] = i
			}
			if len(pos) != len(r.ref.nodes) || len(order) != len(r.ref.nodes) {
				r.fail("C06,C19", "TopologicalSort: result is not a permutation of the nodes")
			} else {
				for u, ds := range r.ref.edges {
					for _, d := range ds {
						if pos[d] >= pos[u] {
							r.fail("C06,C19", fmt.Sprintf("TopologicalSort: dependency %d not before %d", d, u))
						}
					}
				}
			}
		}
	case "size":
		r.emit(line, strconv.Itoa(r.g.Size()))
		if r.g.Size() != len(r.ref.nodes) {
			r.fail("C19", fmt.Sprintf("Size %d, reference %d", r.g.Size(), len(r.ref.nodes)))
		}
	case "has":
		k := vgPool[num(2)]
		got := r.g.HasNode(k.Type, k.Key, k.Group)
		r.emit(line, strconv.FormatBool(got))
		if got != r.ref.nodes[num(2)] {
			r.fail("C19", fmt.Sprintf("HasNode(%d)=%v", num(2), got))
		}
	case "deps":
		k := vgPool[num(2)]
		got := r.g.GetDependencies(k.Type, k.Key, k.Group)
		if got == nil {
			r.emit(line, "nil")
		} else {
			r.emit(line, "["+ints(keys(got))+"]")
		}
		if r.ref.nodes[num(2)] != (got != nil) || (got != nil && !eqInts(keys(got), r.ref.edges[num(2)])) {
			r.fail("C19", fmt.Sprintf("GetDependencies(%d)=%v reference %v", num(2), keys(got), r.ref.edges[num(2)]))
		}
	case "dependents":
		k := vgPool[num(2)]
		got := r.g.GetDependents(k.Type, k.Key, k.Group)
		if got == nil {
			r.emit(line, "nil")
		} else {
			r.emit(line, "["+ints(sortedInts(keys(got)))+"]")
		}
		if r.ref.nodes[num(2)] != (got != nil) || (got != nil && !eqInts(sortedInts(keys(got)), r.ref.dependents(num(2)))) {
			r.fail("C19,C06", fmt.Sprintf("GetDependents(%d)=%v reference %v", num(2), keys(got), r.ref.dependents(num(2))))
		}
	case "trans":
		k := vgPool[num(2)]
		got := r.g.GetTransitiveDependencies(k.Type, k.Key, k.Group)
		r.emit(line, "["+ints(keys(got))+"]")
		if !eqInts(sortedInts(keys(got)), r.ref.trans(num(2))) {
			r.fail("C19", fmt.Sprintf("GetTransitiveDependencies(%d)=%v reference %v", num(2), keys(got), r.ref.trans(num(2))))
		}
	case "roots", "leaves":
		var nds []*Node
		if w[1] == "roots" {
			nds = r.g.GetRoots()
		} else {
			nds = r.g.GetLeaves()
		}
		var l []int
		for _, nd := range nds {
			l = append(l, vgIdx(nd.Key))
		}
		sort.Ints(l)
		r.emit(line, "["+ints(l)+"]")
		var want []int
		for u := range r.ref.nodes {
			if w[1] == "roots" && len(r.ref.dependents(u)) == 0 {
				want = append(want, u)
			}
			if w[1] == "leaves" && len(r.ref.edges[u]) == 0 {
				want = append(want, u)
			}
		}
		sort.Ints(want)
		if !eqInts(l, want) {
			r.fail("C19,C06", fmt.Sprintf("%s=%v reference %v", w[1], l, want))
		}
	case "node":
		k := vgPool[num(2)]
		nd := r.g.GetNode(k.Type, k.Key, k.Group)
		if nd == nil {
			r.emit(line, "nil")
		} else {
			p := "nil"
			if nd.Provider != nil {
				p = strconv.Itoa(nd.Provider.(*vgProv).id)
			}
			r.emit(line, fmt.Sprintf("p=%s in=%d out=%d", p, nd.InDegree, nd.OutDegree))
			if nd.InDegree != len(r.ref.dependents(num(2))) || nd.OutDegree != len(r.ref.edges[num(2)]) {
				r.fail("C19,C06", fmt.Sprintf("degrees of %d: in=%d out=%d reference in=%d out=%d", num(2), nd.InDegree, nd.OutDegree, len(r.ref.dependents(num(2))), len(r.ref.edges[num(2)])))
			}
		}
	case "depths":
		done := make(chan struct{})
		go func() { r.g.CalculateDepths(); close(done) }()
		select {
		case <-done:
		case <-time.After(5 * time.Second):
			r.emit(line, "hang")
			r.fail("C19", "CalculateDepths does not terminate")
			return
		}
		if r.ref.hasCycle() { // depths are specified on acyclic graphs only; termination is required on all
			r.emit("g size", strconv.Itoa(r.g.Size()))
			return
		}
		var ks []int
		for u := range r.ref.nodes {
			ks = append(ks, u)
		}
		sort.Ints(ks)
		var parts []string
		memo := map[int]int{}
		for _, u := range ks {
			k := vgPool[u]
			nd := r.g.GetNode(k.Type, k.Key, k.Group)
			d := -99
			if nd != nil {
				d = nd.Depth
			}
			parts = append(parts, fmt.Sprintf("%d:%d", u, d))
			if d != r.ref.longest(u, memo) {
				r.fail("C19", fmt.Sprintf("depth of %d is %d, reference (longest dependency chain) %d", u, d, r.ref.longest(u, memo)))
			}
		}
		r.emit(line, strings.Join(parts, " "))
	default:
		panic("unknown op " + line)
	}
}

// checkPath: the reported path must be a closed walk of the reference digraph starting at Node.
func (r *vgRun) checkPath(props string, ref *vgRef, ce *CircularDependencyError) {
	p := keys(ce.Path)
	ok := len(p) >= 2 && p[0] == p[len(p)-1] && p[0] == vgIdx(ce.Node)
	for i := 0; ok && i+1 < len(p); i++ {
		found := false
		for _, d := range ref.edges[p[i]] {
			if d == p[i+1] {
				found = true
			}
		}
		ok = found
	}
	if !ok {
		r.fail(props, fmt.Sprintf("reported cycle path %v (node %d) is not a cycle of the dependency relation", p, vgIdx(ce.Node)))
	}
}

// allQueries appends every query for the first n identities.
func (r *vgRun) allQueries(n int, full bool) {
	r.exec("g size")
	for i := 0; i < n; i++ {
		r.exec(fmt.Sprintf("g has %d", i))
		r.exec(fmt.Sprintf("g deps %d", i))
		r.exec(fmt.Sprintf("g dependents %d", i))
		r.exec(fmt.Sprintf("g trans %d", i))
		if full {
			r.exec(fmt.Sprintf("g node %d", i))
		}
	}
	r.exec("g detect")
	r.exec("g topo")
	r.exec("g roots")
	r.exec("g leaves")
	r.exec("g depths")
}

// ---------------------------------------------------------------- streams

func (r *vgRun) streamCorpus(dir string) int {
	files, _ := filepath.Glob(filepath.Join(dir, "*.ops"))
	sort.Strings(files)
	for _, f := range files {
		data, err := os.ReadFile(f)
		if err != nil {
			continue
		}
		for _, line := range strings.Split(string(data), "\n") {
			w := strings.Fields(line)
			if len(w) < 2 || w[0] != "g" {
				continue
			}
			if w[1] == "detect" || w[1] == "topo" { // strip recorded observations
				line = "g " + w[1]
			}
			r.exec(line)
		}
		r.stats["corpus_files"]++
	}
	return len(files)
}

// every digraph on n nodes (self-loops included): adjacency bit i*n+j = edge i -> j
func (r *vgRun) streamDigraphs(n int) {
	total := 1 << (n * n)
	for m := 0; m < total; m++ {
		adj := make([][]int, n)
		for i := 0; i < n; i++ {
			for j := 0; j < n; j++ {
				if m&(1<<(i*n+j)) != 0 {
					adj[i] = append(adj[i], j)
				}
			}
		}
		// deferred build (what Build does), then the cycle check and the sort
		r.exec("g new")
		for i := 0; i < n; i++ {
			r.exec(fmt.Sprintf("g addd %d 0 %s", i, ints(adj[i])))
		}
		r.exec("g detect")
		r.exec("g topo")
		// immediate adds in index order
		r.exec("g new")
		for i := 0; i < n; i++ {
			r.exec(fmt.Sprintf("g add %d 0 %s", i, ints(adj[i])))
		}
		r.exec("g detect")
		r.exec("g topo")
		r.stats["digraphs"]++
	}
}

// every op sequence of the given length over `ids` identities with dependency lists of length <= 1,
// queries after every step
func (r *vgRun) streamOpSeqs(ids, length int) {
	var alphabet []string
	for n := 0; n < ids; n++ {
		alphabet = append(alphabet, fmt.Sprintf("g rm %d", n))
		deplists := [][]int{{}}
		for d := 0; d < ids; d++ {
			deplists = append(deplists, []int{d})
		}
		for _, dl := range deplists {
			alphabet = append(alphabet, fmt.Sprintf("g add %d 0 %s", n, ints(dl)))
			alphabet = append(alphabet, fmt.Sprintf("g addd %d 0 %s", n, ints(dl)))
		}
	}
	idx := make([]int, length)
	for {
		r.exec("g new")
		for _, a := range idx {
			op := alphabet[a]
			r.exec(op)
			if strings.HasPrefix(op, "g addd") {
				r.exec("g detect")
			}
			r.allQueries(ids, false)
		}
		r.stats["opseqs"]++
		i := length - 1
		for ; i >= 0; i-- {
			idx[i]++
			if idx[i] < len(alphabet) {
				break
			}
			idx[i] = 0
		}
		if i < 0 {
			return
		}
	}
}

func (r *vgRun) streamRandom(rng *rand.Rand, count int) {
	for it := 0; it < count; it++ {
		r.exec("g new")
		ids := 3 + rng.Intn(len(vgPool)-2)
		nops := 2 + rng.Intn(12)
		for op := 0; op < nops; op++ {
			node := rng.Intn(ids)
			var deps []int
			for k := rng.Intn(4); k > 0; k-- {
				deps = append(deps, rng.Intn(ids))
			}
			switch k := rng.Intn(20); {
			case k < 7:
				r.exec(fmt.Sprintf("g add %d 0 %s", node, ints(deps)))
			case k < 13:
				r.exec(fmt.Sprintf("g addd %d 0 %s", node, ints(deps)))
				for rng.Intn(3) == 0 { // a batch of deferred adds before the documented check
					n2 := rng.Intn(ids)
					var d2 []int
					for k := rng.Intn(3); k > 0; k-- {
						d2 = append(d2, rng.Intn(ids))
					}
					r.exec(fmt.Sprintf("g addd %d 0 %s", n2, ints(d2)))
				}
				if rng.Intn(3) == 0 { // a mutation between the deferred adds and the check: derived fields are stale here
					if rng.Intn(2) == 0 {
						r.exec(fmt.Sprintf("g rm %d", rng.Intn(ids)))
					} else {
						r.exec(fmt.Sprintf("g add %d 0 %s", rng.Intn(ids), ints(deps)))
					}
					r.stats["mutation_before_detect"]++
				}
				r.exec("g detect")
			case k < 18:
				r.exec(fmt.Sprintf("g rm %d", node))
			case k < 19:
				r.exec("g clear")
			default:
				r.exec("g detect") // repeated check: cached answer
				r.exec("g topo")
				r.exec("g topo")
			}
			r.allQueries(ids, true)
		}
		r.stats["random_seqs"]++
	}
}

// larger random DAGs / cyclic graphs, deferred build then sort: C05/C06 beyond the exhaustive sizes
func (r *vgRun) streamBigRandom(rng *rand.Rand, count int) {
	for it := 0; it < count; it++ {
		n := len(vgPool)
		perm := rng.Perm(n)
		r.exec("g new")
		cyclic := rng.Intn(3) == 0
		for i := 0; i < n; i++ {
			var deps []int
			for j := 0; j < n; j++ {
				if (perm[j] < perm[i] || (cyclic && rng.Intn(12) == 0)) && rng.Intn(3) == 0 {
					deps = append(deps, j)
				}
			}
			r.exec(fmt.Sprintf("g addd %d 0 %s", i, ints(deps)))
		}
		r.exec("g detect")
		r.exec("g topo")
		r.exec("g depths")
		r.stats["big_random"]++
	}
}


// ---- overlapping calls on one DependencyGraph --------------------------------------------------------------
// The graph is documented as safe for concurrent use (its own mutex). One goroutine keeps asking (DetectCycles,
// IsAcyclic, TopologicalSort, Size) while another performs ONE mutation of a long chain. Every answer given during
// the overlap must be right for the graph before or after that mutation; every answer on the quiescent graph
// afterwards must be right for the graph after it (reference digraph). Not replayed by the model (no op lines): the
// model's theorems are about the sequential semantics these answers must linearise to.

type vcKey int

func vcNode(i int) NodeKey { return NodeKey{Type: reflect.TypeOf(vgT3{}), Key: vcKey(i)} }
func vcProv(id, n int, deps []int) *vgProv {
	p := &vgProv{id: id, key: vcNode(n)}
	for _, d := range deps {
		k := vcNode(d)
		p.deps = append(p.deps, &reflection.Dependency{Type: k.Type, Key: k.Key})
	}
	return p
}
func vcIdx(k NodeKey) int {
	if v, ok := k.Key.(vcKey); ok {
		return int(v)
	}
	return -1
}

// validOrder: order is a permutation of ref's nodes with every dependency earlier
func vcValidOrder(ref *vgRef, order []*Node) string {
	pos := map[int]int{}
	for i, nd := range order {
		pos[vcIdx(nd.Key)] = i
	}
	if len(pos) != len(ref.nodes) || len(order) != len(ref.nodes) {
		return fmt.Sprintf("%d entries (%d distinct) for %d nodes", len(order), len(pos), len(ref.nodes))
	}
	for n := range ref.nodes {
		if _, ok := pos[n]; !ok {
			return fmt.Sprintf("node %d missing", n)
		}
	}
	for u, ds := range ref.edges {
		for _, d := range ds {
			if pos[d] >= pos[u] {
				return fmt.Sprintf("dependency %d not before %d", d, u)
			}
		}
	}
	return ""
}

type vcAnswer struct {
	what string
	err  bool
	ord  []*Node
	n    int
}

func (r *vgRun) streamOverlap(rng *rand.Rand, rounds int) {
	for it := 0; it < rounds; it++ {
		n := 200 + rng.Intn(400)
		g := NewDependencyGraph()
		before := newRef()
		id := 0
		for i := 0; i < n; i++ { // chain: i depends on i+1
			var deps []int
			if i+1 < n {
				deps = []int{i + 1}
			}
			id++
			g.AddProviderDeferred(vcProv(id, i, deps))
			before.add(i, deps)
		}
		if (it/4)%2 == 0 { // half of the rounds start from a validated graph (caches filled)
			g.DetectCycles()
			g.TopologicalSort()
		}
		after := before.clone()
		kind := it % 4
		var mutate func()
		var desc string
		switch kind {
		case 0: // deferred add that closes the ring
			desc = fmt.Sprintf("AddProviderDeferred(%d -> 0) closing a ring of %d", n-1, n)
			after.add(n-1, []int{0})
			id++
			p := vcProv(id, n-1, []int{0})
			mutate = func() { g.AddProviderDeferred(p) }
		case 1: // immediate add of a new node on top of the chain
			desc = fmt.Sprintf("AddProvider(new node %d -> 0)", n)
			after.add(n, []int{0})
			id++
			p := vcProv(id, n, []int{0})
			mutate = func() { g.AddProvider(p) }
		case 2: // removal in the middle
			desc = fmt.Sprintf("RemoveProvider(%d)", n/2)
			after.remove(n / 2)
			k := vcNode(n / 2)
			mutate = func() { g.RemoveProvider(k.Type, k.Key, k.Group) }
		default: // deferred add of a new leaf consumer
			desc = fmt.Sprintf("AddProviderDeferred(new node %d -> %d)", n, n-1)
			after.add(n, []int{n - 1})
			id++
			p := vcProv(id, n, []int{n - 1})
			mutate = func() { g.AddProviderDeferred(p) }
		}
		stop := make(chan struct{})
		done := make(chan []vcAnswer, 1)
		started := make(chan struct{})
		go func() {
			var as []vcAnswer
			close(started)
			for i := 0; ; i++ {
				select {
				case <-stop:
					done <- as
					return
				default:
				}
				switch i % 4 {
				case 0:
					as = append(as, vcAnswer{what: "DetectCycles", err: g.DetectCycles() != nil})
				case 1:
					o, err := g.TopologicalSort()
					as = append(as, vcAnswer{what: "TopologicalSort", err: err != nil, ord: o})
				case 2:
					as = append(as, vcAnswer{what: "IsAcyclic", err: !g.IsAcyclic()})
				default:
					as = append(as, vcAnswer{what: "Size", n: g.Size()})
				}
				if len(as) > 4000 {
					as = as[len(as)-2000:]
				}
			}
		}()
		<-started
		for spin := rng.Intn(60000); spin > 0; spin-- {
			_ = spin * spin
		}
		mutate()
		for spin := rng.Intn(2000); spin > 0; spin-- {
			_ = spin * spin
		}
		close(stop)
		answers := <-done
		r.scen++
		r.cur = []string{fmt.Sprintf("# overlap round %d: chain of %d nodes, %s while another goroutine asks", it, n, desc)}
		bc, ac := before.hasCycle(), after.hasCycle()
		for _, a := range answers {
			switch a.what {
			case "DetectCycles", "IsAcyclic":
				if a.err != bc && a.err != ac {
					r.fail("C05,C09,C19", fmt.Sprintf("%s during the overlap said cyclic=%v; the graph is cyclic=%v before and cyclic=%v after the mutation", a.what, a.err, bc, ac))
				}
			case "TopologicalSort":
				if kind == 0 || kind == 3 {
					// contract of AddProviderDeferred: "call DetectCycles() after all providers are added" - a sort
					// between the deferred add and the next DetectCycles is outside it (degrees not recomputed yet)
					continue
				}
				if a.err {
					if !bc && !ac {
						r.fail("C05,C06,C09", "TopologicalSort during the overlap failed although the graph is acyclic before and after the mutation")
					}
				} else if w1, w2 := vcValidOrder(before, a.ord), vcValidOrder(after, a.ord); (bc || w1 != "") && (ac || w2 != "") {
					r.fail("C06,C09,C19", fmt.Sprintf("TopologicalSort during the overlap returned an order valid neither before (%s) nor after (%s) the mutation", w1, w2))
				}
			case "Size":
				if a.n != len(before.nodes) && a.n != len(after.nodes) {
					r.fail("C09,C19", fmt.Sprintf("Size during the overlap = %d; %d before, %d after", a.n, len(before.nodes), len(after.nodes)))
				}
			}
		}
		// quiescent: twice (the second answers come from the caches the overlap may have left behind)
		for rep := 0; rep < 2; rep++ {
			if got := g.DetectCycles() != nil; got != ac {
				r.fail("C05,C09,C19", fmt.Sprintf("after the overlap (query %d) DetectCycles says cyclic=%v, the graph is cyclic=%v", rep, got, ac))
			}
			if got := !g.IsAcyclic(); got != ac {
				r.fail("C05,C09,C19", fmt.Sprintf("after the overlap (query %d) IsAcyclic says cyclic=%v, the graph is cyclic=%v", rep, got, ac))
			}
			o, err := g.TopologicalSort()
			if (err != nil) != ac {
				r.fail("C05,C06,C09", fmt.Sprintf("after the overlap (query %d) TopologicalSort err=%v, the graph is cyclic=%v", rep, err != nil, ac))
			} else if err == nil {
				if w := vcValidOrder(after, o); w != "" {
					r.fail("C06,C09,C19", fmt.Sprintf("after the overlap (query %d) TopologicalSort returned an invalid order: %s", rep, w))
				}
			}
			if g.Size() != len(after.nodes) {
				r.fail("C09,C19", fmt.Sprintf("after the overlap Size = %d, reference %d", g.Size(), len(after.nodes)))
			}
		}
		tr := keys2(g.GetTransitiveDependencies(vcNode(0).Type, vcNode(0).Key, ""))
		if want := sortedInts(after.trans(0)); !eqInts(sortedInts(tr), want) {
			r.fail("C19,C09", fmt.Sprintf("after the overlap GetTransitiveDependencies(0) has %d entries, reference %d", len(tr), len(want)))
		}
		r.stats["overlap_rounds"]++
		r.stats["overlap_answers"] += len(answers)
	}
}

func keys2(ks []NodeKey) []int {
	var out []int
	for _, k := range ks {
		out = append(out, vcIdx(k))
	}
	return out
}

func envInt(name string, def int) int {
	if v := os.Getenv(name); v != "" {
		if n, err := strconv.Atoi(v); err == nil {
			return n
		}
	}
	return def
}

func TestVerifGraph(t *testing.T) {
	out := os.Getenv("VERIF_OUT")
	if out == "" {
		t.Skip("VERIF_OUT not set")
	}
	seed := int64(envInt("VERIF_SEED", 1))
	open := func(name string) (*os.File, *bufio.Writer) {
		f, err := os.Create(filepath.Join(out, name))
		if err != nil {
			t.Fatal(err)
		}
		return f, bufio.NewWriterSize(f, 1<<20)
	}
	fo, wo := open("ops.txt")
	fb, wb := open("obs.txt")
	fm, wm := open("mon.txt")
	r := &vgRun{ops: wo, obs: wb, mon: wm, stats: map[string]int{}}
	rng := rand.New(rand.NewSource(seed))
	start := time.Now()
	if d := os.Getenv("VERIF_REPLAY"); d != "" {
		r.streamCorpus(d)
	} else {
		r.streamCorpus(os.Getenv("VERIF_CORPUS"))
		r.streamDigraphs(envInt("VERIF_DIGRAPH_N", 3))
		if l := envInt("VERIF_OPSEQ_LEN", 2); l > 0 {
			r.streamOpSeqs(3, l)
		}
		r.streamRandom(rng, envInt("VERIF_RANDOM", 300))
		r.streamBigRandom(rng, envInt("VERIF_BIGRANDOM", 300))
		r.streamOverlap(rng, envInt("VERIF_OVERLAP", 48))
	}
	wo.Flush()
	wb.Flush()
	wm.Flush()
	fo.Close()
	fb.Close()
	fm.Close()
	r.stats["scenarios"] = r.scen
	r.stats["lines"] = r.nline
	r.stats["monitor_failures"] = r.monBad
	r.stats["detect_cyclic"] = r.cyclic
	r.stats["wall_ms"] = int(time.Since(start).Milliseconds())
	js, _ := json.MarshalIndent(r.stats, "", " ")
	os.WriteFile(filepath.Join(out, "stats.json"), js, 0o644)
	t.Logf("graph harness: %d scenarios, %d lines, %d monitor failures", r.scen, r.nline, r.monBad)
}
