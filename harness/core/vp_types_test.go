package godi

// Type pool of the container harness (injected by -overlay, never committed to /repo).

import "sync/atomic"

type vpBase struct {
	Ctor   int // constructor (registration) id
	Inv    int // invocation number of that constructor
	Out    int // output index within the invocation
	Inst   int // instance id (global per scenario)
	Life   Lifetime
	ScopeN int // model id of the scope it was created through
	w      *vpWorld
	closes atomic.Int32
}

func (b *vpBase) base() *vpBase { return b }
func (b *vpBase) vi0()          {}
func (b *vpBase) vi1()          {}
func (b *vpBase) vi2()          {}

type vpObj interface{ base() *vpBase }
type VI0 interface{ vi0() }
type VI1 interface{ vi1() }
type VI2 interface{ vi2() }

func (b *vpBase) doClose() error {
	b.closes.Add(1)
	return b.w.closed(b)
}

type PS0 struct{ vpBase }
type PS1 struct{ vpBase }
type PS2 struct{ vpBase }
type PS3 struct{ vpBase }
type PS4 struct{ vpBase }
type PS5 struct{ vpBase }
type PD0 struct{ vpBase }
type PD1 struct{ vpBase }
type PD2 struct{ vpBase }
type PD3 struct{ vpBase }
type PD4 struct{ vpBase }
type PD5 struct{ vpBase }

func (d *PD0) Close() error { return d.doClose() }
func (d *PD1) Close() error { return d.doClose() }
func (d *PD2) Close() error { return d.doClose() }
func (d *PD3) Close() error { return d.doClose() }
func (d *PD4) Close() error { return d.doClose() }
func (d *PD5) Close() error { return d.doClose() }

// slot k < 6: plain, slot k >= 6: disposable
var vpSlots = []any{(*PS0)(nil), (*PS1)(nil), (*PS2)(nil), (*PS3)(nil), (*PS4)(nil), (*PS5)(nil),
	(*PD0)(nil), (*PD1)(nil), (*PD2)(nil), (*PD3)(nil), (*PD4)(nil), (*PD5)(nil)}

type vpMissing struct{ X int }
