package godi

// Container harness (M5): scenario generator + executor + direct monitors.
// Injected into /repo's root package with `go test -overlay`; never committed to /repo.
//
// One scenario = a registration set (built with reflect.MakeFunc / reflect.StructOf from a pool of
// service types), a behaviour table (which constructor invocation fails / panics, which Close
// fails), and a history of Build / CreateScope / Get* / Close / cancel calls. The real container
// executes it; every line of ops.txt is also executed by the Lean model, whose output must equal
// obs.txt. The descriptors are dumped from the real collection (`p desc` lines), so the model runs on
// what godi's own analysis produced; the monitors use only what the harness itself registered.

import (
	"bufio"
	"context"
	"encoding/json"
	"errors"
	"fmt"
	"math/rand"
	"os"
	"path/filepath"
	"reflect"
	"runtime"
	"runtime/debug"
	"sort"
	"strconv"
	"strings"
	"sync"
	"sync/atomic"
	"testing"
	"unsafe"
	"weak"
	"time"
)

type vpOut struct {
	typ   reflect.Type // service type of this output (pointer type of a slot, or an interface for aliases)
	slot  int          // concrete slot that is instantiated (aliases: slot of output 0)
	name  string
	group string
	alias bool
	// with As[...] godi registers the service under the interface types only: the concrete type of
	// output 0 is instantiated but is not an identity
	hidden bool
	// the identity was taken out of the collection again (Remove / RemoveKeyed) before Build: the
	// constructor still produces a value for it, godi neither stores nor owns that value
	removed bool
}

type vpDep struct {
	typ      reflect.Type
	name     string
	group    string
	optional bool
	extraTag bool // a group field that also carries a name tag (parameter objects only): the group alone decides
}

type vpReg struct {
	idx      int // constructor id = idx+1
	life     Lifetime
	form     string // plain | alias | multi | ro | inst | void
	outs     []vpOut
	deps     []vpDep
	useIn    bool
	withErr  bool
	inst     *vpBase
	fn       any
	opts     []AddOption
	descLo   int // range of allDescriptors indices this registration produced
	descHi   int
	added    bool
	descPtrs []*Descriptor // the descriptors this registration produced (some may have been removed again)
	doomed   bool          // generated to be rejected by godi
}

type vpClose struct {
	b  *vpBase
	ok bool
}

type vpWorld struct {
	mu     sync.Mutex
	failMu sync.Mutex
	rng    *rand.Rand
	regs   []*vpReg
	coll   *collection
	prov   Provider
	built  bool

	ctxSeenMu sync.Mutex
	ctxSeen   map[int]context.Context // scope number -> the context constructors running in it received
	scopes    map[int]Scope           // model scope id -> handle (0 = root scope, reachable only through the provider)
	live      []int                   // model ids of scopes created and not known closed
	closedSc  map[int]bool
	ctxs      map[int]context.Context
	cancels   map[int]context.CancelFunc
	ctxPar    map[int]int

	typeIDs map[reflect.Type]int
	keyIDs  map[string]int
	grpIDs  map[string]int

	beh   map[[2]int]string
	cbeh  map[[2]int]bool
	nbeh  map[[2]int]int // result-object constructor (ctor, invocation) -> index of the field it leaves nil
	calls map[int]int

	nextInst int
	topo     []string // descriptor indices in the order Build creates singletons (Kahn's output)
	evs      []string
	closes   []vpClose
	all      []*vpBase
	byInst   map[int]*vpBase

	// monitor state
	singletonOf    map[string]*vpBase // identity -> instance seen
	scopedOf       map[string]*vpBase // scope|identity -> instance
	handed         map[*vpBase]string // transient instances already handed out
	buildDone      bool
	provClosed     bool
	hung           bool
	baseGoroutines int
	scopeFrom      map[int]context.Context // scope -> the context it was created from (nil: the provider's own)
	preFail        int   // constructor that fails during the preliminary Build of a rebuild scenario only (0 = none)
	preFailed      bool
	preFailedOnce  bool // some preliminary Build of this scenario failed in a constructor
	preFailWanted  bool // the scenario asks for a constructor failure in the preliminary Build
	injErr         []int // constructors that returned an injected error during the current API call
	injPanic       []int
	fails          []string
}

func (w *vpWorld) fail(props, format string, a ...any) {
	w.failMu.Lock()
	w.fails = append(w.fails, props+"\x00"+fmt.Sprintf(format, a...))
	w.failMu.Unlock()
}

// ---------------------------------------------------------------- ids

func (w *vpWorld) typeID(t reflect.Type) int {
	switch t {
	case contextType:
		return 0
	case providerType:
		return 1
	case scopeType:
		return 2
	}
	if id, ok := w.typeIDs[t]; ok {
		return id
	}
	id := len(w.typeIDs) + 3
	w.typeIDs[t] = id
	return id
}

func (w *vpWorld) keyID(k any) int {
	switch v := k.(type) {
	case nil:
		return 0
	case int: // numeric key of a group member
		return 100 + v
	case string:
		if id, ok := w.keyIDs[v]; ok {
			return id
		}
		id := len(w.keyIDs) + 1
		w.keyIDs[v] = id
		return id
	}
	return 999
}

func (w *vpWorld) grpID(g string) int {
	if g == "" {
		return 0
	}
	if id, ok := w.grpIDs[g]; ok {
		return id
	}
	id := len(w.grpIDs) + 1
	w.grpIDs[g] = id
	return id
}

func scopeNum(s interface{ ID() string }) int {
	id := s.ID()
	n, err := strconv.ParseUint(id[1:], 36, 64)
	if err != nil {
		return -1
	}
	return int(n) - 1
}

func slotType(slot int) reflect.Type { return reflect.TypeOf(vpSlots[slot]) }
func slotDisp(slot int) bool         { return slot >= 6 }

var vpIfaces = []reflect.Type{reflect.TypeOf((*VI0)(nil)).Elem(), reflect.TypeOf((*VI1)(nil)).Elem(), reflect.TypeOf((*VI2)(nil)).Elem()}
var vpErrType = reflect.TypeOf((*error)(nil)).Elem()

type vpInjected struct{ ctor int }

func (e *vpInjected) Error() string { return "injected failure of constructor " + strconv.Itoa(e.ctor) }

type vpCloseErr struct{ inst int }

func (e *vpCloseErr) Error() string {
	return "injected Close failure of instance " + strconv.Itoa(e.inst)
}

// a Close method may well fail with an error that wraps a context error (a transaction bound to the scope's
// context, which Close has just cancelled): it is a failed Close like any other
func (e *vpCloseErr) Unwrap() error {
	switch e.inst % 3 {
	case 1:
		return context.Canceled
	case 2:
		return context.DeadlineExceeded
	}
	return nil
}

// ---------------------------------------------------------------- values → protocol text

func (w *vpWorld) showVal(v reflect.Value) string {
	if !v.IsValid() {
		return "nil"
	}
	switch v.Kind() {
	case reflect.Slice:
		if v.IsNil() { // a group field left at its zero value (optional, and the group could not be resolved)
			return "nil"
		}
		var parts []string
		for i := 0; i < v.Len(); i++ {
			parts = append(parts, w.showVal(v.Index(i)))
		}
		return "[" + strings.Join(parts, " ") + "]"
	case reflect.Pointer, reflect.Interface:
		if v.IsNil() {
			return "nil"
		}
	}
	return w.showAny(v.Interface())
}

func (w *vpWorld) showAny(x any) string {
	switch v := x.(type) {
	case nil:
		return "nil"
	case vpObj:
		if reflect.ValueOf(v).IsNil() {
			return "nil"
		}
		return "i" + strconv.Itoa(v.base().Inst)
	case Scope:
		return "scope:s" + strconv.Itoa(scopeNum(v))
	case Provider:
		return "provider"
	case context.Context:
		if sc, err := FromContext(v); err == nil && sc.Context() == v {
			return "ctx:s" + strconv.Itoa(scopeNum(sc))
		}
		return "ctx:?"
	case struct{}:
		return "unit"
	case []any:
		var parts []string
		for _, e := range v {
			parts = append(parts, w.showAny(e))
		}
		return "[" + strings.Join(parts, " ") + "]"
	}
	return fmt.Sprintf("?%T", x)
}

// monitorInjected (C15): a constructor that returned an error or panicked during this call makes the call
// fail, and the failure exposes the constructor's own error / the panic value
func (w *vpWorld) monitorInjected(what string, err error) {
	defer func() { w.injErr, w.injPanic = nil, nil }()
	if len(w.injErr) == 0 && len(w.injPanic) == 0 {
		// no constructor failed during this call: the call must not report a constructor failure (a remembered one)
		var inj *vpInjected
		var pe *ConstructorPanicError
		if err != nil && (errors.As(err, &inj) || errors.As(err, &pe)) {
			w.fail("C15,C08", "%s reports a constructor failure (%q) although no constructor failed during this call", what, err.Error())
		}
		return
	}
	if err == nil {
		w.fail("C15,C04", "%s succeeded although constructor(s) %v returned an error / %v panicked during it", what, w.injErr, w.injPanic)
		return
	}
	for _, c := range w.injErr {
		var inj *vpInjected
		if !errors.As(err, &inj) || inj.ctor != c {
			w.fail("C15", "%s: constructor %d returned an error, but that error is not reachable with errors.As from %q", what, c, err.Error())
		}
		var ie *ConstructorInvocationError
		if !errors.As(err, &ie) {
			w.fail("C15", "%s: constructor %d returned an error, but no ConstructorInvocationError is on the chain", what, c)
		}
	}
	for _, c := range w.injPanic {
		var pe *ConstructorPanicError
		if !errors.As(err, &pe) {
			w.fail("C15", "%s: constructor %d panicked, but no ConstructorPanicError is on the chain of %q", what, c, err.Error())
		} else if p, ok := pe.Panic.(*vpInjected); !ok || p.ctor != c {
			w.fail("C15", "%s: constructor %d panicked, the reported panic value is %v", what, c, pe.Panic)
		}
	}
}

// canonical error: sorted set of the layers reachable with errors.Is / errors.As
func (w *vpWorld) showErr(err error) string {
	var ls []string
	add := func(ok bool, name string) {
		if ok {
			ls = append(ls, name)
		}
	}
	var be *BuildError
	var re *ResolutionError
	var ie *ConstructorInvocationError
	var pe *ConstructorPanicError
	var ve *ValidationError
	var de *DisposalError
	var ce *CircularDependencyError
	var le *LifetimeConflictError
	var ge *GraphOperationError
	var inj *vpInjected
	add(errors.As(err, &be), "build")
	add(errors.As(err, &re), "resolution")
	add(errors.As(err, &ie), "invocation")
	add(errors.As(err, &pe), "panic")
	add(errors.As(err, &ve), "validation")
	add(errors.As(err, &de), "disposal")
	add(errors.As(err, &ce), "circular")
	add(errors.As(err, &le), "lifetime")
	add(errors.As(err, &ge), "graphop")
	add(errors.Is(err, ErrServiceNotFound), "notfound")
	add(errors.Is(err, ErrScopeDisposed), "scope-disposed")
	add(errors.Is(err, ErrProviderDisposed), "provider-disposed")
	add(errors.Is(err, ErrSingletonNotInitialized), "singleton-not-init")
	if errors.As(err, &inj) {
		ls = append(ls, "injected"+strconv.Itoa(inj.ctor))
	}
	if pe != nil {
		if p, ok := pe.Panic.(*vpInjected); !ok || p == nil {
			w.fail("C15", "ConstructorPanicError does not expose the panic value: %v", pe.Panic)
		}
	}
	sort.Strings(ls)
	if len(ls) == 0 {
		return "err unclassified:" + strings.ReplaceAll(err.Error(), " ", "_")
	}
	return "err " + strings.Join(ls, " ")
}

// pending constructor events and Close events since the last flush, in the model's format
func (w *vpWorld) flushEvents() string {
	a := strings.Join(w.evs, " ")
	w.evs = nil
	groups := map[string][]string{}
	var owners []int
	seen := map[int]bool{}
	for _, c := range w.closes {
		o := c.b.ScopeN
		if c.b.Life == Singleton {
			o = 1000000
		}
		if !seen[o] {
			seen[o] = true
			owners = append(owners, o)
		}
		mark := "+"
		if !c.ok {
			mark = "-"
		}
		groups[strconv.Itoa(o)] = append(groups[strconv.Itoa(o)], "i"+strconv.Itoa(c.b.Inst)+mark)
	}
	w.closes = nil
	sort.Ints(owners)
	var gs []string
	for _, o := range owners {
		name := "s" + strconv.Itoa(o)
		if o == 1000000 {
			name = "P"
		}
		gs = append(gs, name+":["+strings.Join(groups[strconv.Itoa(o)], " ")+"]")
	}
	out := ""
	if a != "" {
		out += " | " + a
	}
	if len(gs) > 0 {
		out += " | closed " + strings.Join(gs, " ")
	}
	return out
}

// ---------------------------------------------------------------- user code: constructors and Close

func (w *vpWorld) closed(b *vpBase) error {
	w.mu.Lock() // after a cancellation sibling scopes are closed by concurrent watcher goroutines
	defer w.mu.Unlock()
	if b.Inst == 0 {
		// the value a constructor produced for an output whose identity was removed from the collection
		// again: godi must neither store nor own it, so it can never reach a disposal list
		w.fail("C04,C17,C10,C01", "constructor %d: the value produced for output %d, whose registration was removed before Build, was stored by the container (it is being closed)", b.Ctor, b.Out)
		return nil
	}
	bad := w.cbeh[[2]int{b.Ctor, b.Inv}]
	w.closes = append(w.closes, vpClose{b, !bad})
	// monitors: C10 exactly once / not early
	if n := b.closes.Load(); n > 1 && b.Life != Transient {
		w.fail("C10,C12", "instance i%d (constructor %d) closed %d times", b.Inst, b.Ctor, n)
	} else if n > 1 && !w.regs[b.Ctor-1].isInst() {
		w.fail("C10,C12", "transient instance i%d (constructor %d) closed %d times", b.Inst, b.Ctor, n)
	}
	if bad {
		return &vpCloseErr{b.Inst}
	}
	return nil
}

func (r *vpReg) isInst() bool { return r.form == "inst" }

func (w *vpWorld) depFieldType(d vpDep) reflect.Type {
	if d.group != "" {
		return reflect.SliceOf(d.typ)
	}
	return d.typ
}

func (w *vpWorld) makeConstructor(r *vpReg) any {
	var depTypes []reflect.Type
	for _, d := range r.deps {
		depTypes = append(depTypes, w.depFieldType(d))
	}
	var in []reflect.Type
	if r.useIn {
		fields := []reflect.StructField{{Name: "In", Type: reflect.TypeOf(In{}), Anonymous: true}}
		for k, d := range r.deps {
			var tags []string
			if d.name != "" {
				tags = append(tags, `name:"`+d.name+`"`)
			}
			if d.group != "" && d.extraTag {
				tags = append(tags, `name:"main"`)
			}
			if d.group != "" {
				tags = append(tags, `group:"`+d.group+`"`)
			}
			if d.optional {
				tags = append(tags, `optional:"true"`)
			}
			fields = append(fields, reflect.StructField{Name: "F" + strconv.Itoa(k), Type: depTypes[k], Tag: reflect.StructTag(strings.Join(tags, " "))})
		}
		fields = append(fields, reflect.StructField{Name: "Sc", Type: scopeType})
		fields = append(fields, reflect.StructField{Name: "Cx", Type: contextType})
		in = []reflect.Type{reflect.StructOf(fields)}
	} else {
		in = append(in, depTypes...)
		in = append(in, scopeType, contextType)
	}
	var out []reflect.Type
	var roType reflect.Type
	switch r.form {
	case "void":
	case "ro":
		fields := []reflect.StructField{{Name: "Out", Type: reflect.TypeOf(Out{}), Anonymous: true}}
		for k, o := range r.outs {
			var tags []string
			if o.name != "" {
				tags = append(tags, `name:"`+o.name+`"`)
			}
			if o.group != "" {
				tags = append(tags, `group:"`+o.group+`"`)
			}
			fields = append(fields, reflect.StructField{Name: "R" + strconv.Itoa(k), Type: o.typ, Tag: reflect.StructTag(strings.Join(tags, " "))})
		}
		roType = reflect.StructOf(fields)
		out = []reflect.Type{roType}
	default:
		for _, o := range r.outs {
			if !o.alias {
				out = append(out, o.typ)
			}
		}
	}
	if r.withErr {
		out = append(out, vpErrType)
	}
	ctor := r.idx + 1
	ft := reflect.FuncOf(in, out, false)
	fn := reflect.MakeFunc(ft, func(args []reflect.Value) []reflect.Value {
		w.calls[ctor]++
		inv := w.calls[ctor]
		var vals []reflect.Value
		if r.useIn {
			st := args[0]
			for k := range r.deps {
				vals = append(vals, st.Field(1+k))
			}
			vals = append(vals, st.Field(1+len(r.deps)), st.Field(2+len(r.deps)))
		} else {
			vals = args
		}
		scV, cxV := vals[len(r.deps)], vals[len(r.deps)+1]
		scN := -1
		if !scV.IsNil() {
			scN = scopeNum(scV.Interface().(Scope))
			if !cxV.IsNil() {
				w.ctxSeenMu.Lock()
				w.ctxSeen[scN] = cxV.Interface().(context.Context) // what the scope handed to user code as its context
				w.ctxSeenMu.Unlock()
			}
			if !w.buildDone && w.topo == nil {
				w.captureTopo(scV.Interface().(*scope).rootProvider)
			}
		}
		// what this invocation received is checked (and remembered as handed out) whether or not it is about to fail
		w.monitorArgs(r, inv, scN, vals)
		if w.preFail == ctor && r.withErr { // fails in the preliminary Build only: the later Build must not remember it
			w.preFailed = true
			w.preFailedOnce = true
			w.injErr = append(w.injErr, ctor)
			res := make([]reflect.Value, len(out))
			for i, t := range out {
				res[i] = reflect.Zero(t)
			}
			res[len(out)-1] = reflect.ValueOf(error(&vpInjected{ctor})).Convert(vpErrType)
			return res
		}
		switch w.beh[[2]int{ctor, inv}] {
		case "err":
			w.injErr = append(w.injErr, ctor)
			w.evs = append(w.evs, fmt.Sprintf("c%d#%d@s%d!err", ctor, inv, scN))
			res := make([]reflect.Value, len(out))
			for i, t := range out {
				res[i] = reflect.Zero(t)
			}
			res[len(out)-1] = reflect.ValueOf(error(&vpInjected{ctor})).Convert(vpErrType)
			return res
		case "panic":
			w.injPanic = append(w.injPanic, ctor)
			w.evs = append(w.evs, fmt.Sprintf("c%d#%d@s%d!panic", ctor, inv, scN))
			panic(&vpInjected{ctor})
		}
		// arguments, in declaration order, then the two built-ins
		var shown []string
		for k := range r.deps {
			shown = append(shown, w.showVal(vals[k]))
		}
		shown = append(shown, w.showVal(scV), w.showVal(cxV))
		// outputs
		var objs []reflect.Value
		var ids []string
		nilField, hasNil := w.nbeh[[2]int{ctor, inv}]
		for k, o := range r.outs {
			if o.alias {
				continue
			}
			if hasNil && (r.form == "ro" || (r.form == "multi" && o.typ.Kind() == reflect.Interface)) && k == nilField {
				objs = append(objs, reflect.Zero(o.typ)) // this field / return value stays nil
				continue
			}
			obj := reflect.New(slotType(o.slot).Elem())
			b := obj.Interface().(vpObj).base()
			if o.removed { // produced, but not an identity any more: godi drops it, it is nobody's instance
				*b = vpBase{Ctor: ctor, Inv: inv, Out: k, Inst: 0, Life: r.life, ScopeN: scN, w: w}
				objs = append(objs, obj)
				continue
			}
			w.nextInst++
			*b = vpBase{Ctor: ctor, Inv: inv, Out: k, Inst: w.nextInst, Life: r.life, ScopeN: scN, w: w}
			w.all = append(w.all, b)
			w.byInst[b.Inst] = b
			objs = append(objs, obj)
			ids = append(ids, "i"+strconv.Itoa(b.Inst))
		}
		w.evs = append(w.evs, fmt.Sprintf("c%d#%d@s%d(%s)->[%s]", ctor, inv, scN, strings.Join(shown, ","), strings.Join(ids, " ")))
		w.monitorCtor(r, inv, scN)
		var res []reflect.Value
		switch r.form {
		case "void":
		case "ro":
			st := reflect.New(roType).Elem()
			for k := range r.outs {
				st.Field(1 + k).Set(objs[k])
			}
			res = append(res, st)
		default:
			n := 0
			for _, o := range r.outs {
				if o.alias {
					continue
				}
				v := objs[n]
				if o.typ.Kind() == reflect.Interface && v.Type() != o.typ {
					v = v.Convert(o.typ)
				}
				res = append(res, v)
				n++
			}
		}
		if r.withErr {
			res = append(res, reflect.Zero(vpErrType))
		}
		return res
	})
	return fn.Interface()
}

// captureTopo reads the (cached) topological order the provider is iterating during Build
func (w *vpWorld) captureTopo(p *provider) {
	nodes, err := p.graph.TopologicalSort()
	if err != nil {
		return
	}
	index := map[*Descriptor]int{}
	for i, d := range w.coll.allDescriptors {
		index[d] = i
	}
	w.topo = []string{}
	for _, n := range nodes {
		if d, ok := n.Provider.(*Descriptor); ok && d != nil {
			w.topo = append(w.topo, strconv.Itoa(index[d]))
		}
	}
}

// ---------------------------------------------------------------- monitors inside user code

func (w *vpWorld) identOf(t reflect.Type, name string) string { return t.String() + "|" + name }

// regFor: which registration provides (typ,name) / the members of (typ,group), by the harness's own bookkeeping
func (w *vpWorld) providerOf(t reflect.Type, name string) (*vpReg, int) {
	for _, r := range w.regs {
		if !r.added {
			continue
		}
		for k, o := range r.outs {
			if o.typ == t && o.name == name && o.group == "" && !o.hidden {
				return r, k
			}
		}
	}
	return nil, -1
}

func (w *vpWorld) membersOf(t reflect.Type, group string) (rs []*vpReg, ks []int) {
	for _, r := range w.regs {
		if !r.added {
			continue
		}
		for k, o := range r.outs {
			if o.typ == t && o.group == group && !o.hidden {
				rs = append(rs, r)
				ks = append(ks, k)
			}
		}
	}
	return
}

// monitorArgs: C04 (right service under the right identity, group order), C07 (no captive), C18 (built-ins)
func (w *vpWorld) monitorArgs(r *vpReg, inv, scN int, vals []reflect.Value) {
	ctor := r.idx + 1
	for k, d := range r.deps {
		v := vals[k]
		if d.group != "" {
			rs, ks := w.membersOf(d.typ, d.group)
			if d.optional && v.IsNil() {
				continue // optional group field left zero: legitimate only if a member could not be resolved, checked by the correspondence
			}
			if v.Len() != len(rs) {
				w.fail("C04", "constructor %d: group field %d has %d members, %d registered", ctor, k, v.Len(), len(rs))
				continue
			}
			for i := 0; i < v.Len(); i++ {
				b := v.Index(i).Interface().(vpObj).base()
				want := rs[i]
				outIdx := ks[i]
				if want.outs[outIdx].alias {
					outIdx = 0
				}
				if b.Ctor != want.idx+1 || (b.Out != outIdx && !want.isInst()) {
					w.fail("C04", "constructor %d: group member %d comes from constructor %d output %d, registration order says constructor %d output %d", ctor, i, b.Ctor, b.Out, want.idx+1, outIdx)
				}
				w.monitorHandOut(fmt.Sprintf("argument of constructor %d", ctor), want, b, scN)
				w.monitorCaptive(r, want, b)
			}
			continue
		}
		want, outIdx := w.providerOf(d.typ, d.name)
		isNil := !v.IsValid() || ((v.Kind() == reflect.Pointer || v.Kind() == reflect.Interface) && v.IsNil())
		if want == nil {
			if !isNil {
				w.fail("C04", "constructor %d: dependency %d is not registered but a value was injected", ctor, k)
			}
			continue
		}
		if isNil {
			if !d.optional {
				w.fail("C04", "constructor %d: required dependency %d received nil", ctor, k)
			}
			continue // optional field left zero: legitimate only if the dependency could not be built, checked by the correspondence
		}
		b := v.Interface().(vpObj).base()
		if want.outs[outIdx].alias {
			outIdx = 0
		}
		if b.Ctor != want.idx+1 || (b.Out != outIdx && !want.isInst()) {
			w.fail("C04", "constructor %d: dependency %d (%v,%q) received an instance of constructor %d output %d, registered provider is constructor %d output %d", ctor, k, d.typ, d.name, b.Ctor, b.Out, want.idx+1, outIdx)
		}
		w.monitorHandOut(fmt.Sprintf("argument of constructor %d", ctor), want, b, scN)
		w.monitorCaptive(r, want, b)
	}
	// built-ins: the scope it is constructed in, that scope's context
	scV, cxV := vals[len(r.deps)], vals[len(r.deps)+1]
	if scV.IsNil() || cxV.IsNil() {
		w.fail("C18", "constructor %d received a nil Scope or Context", ctor)
		return
	}
	sc := scV.Interface().(Scope)
	if cxV.Interface().(context.Context) != sc.Context() {
		w.fail("C18", "constructor %d: injected context is not the context of the injected scope", ctor)
	}
	if got, err := FromContext(cxV.Interface().(context.Context)); err != nil || got != sc {
		w.fail("C18", "constructor %d: FromContext(injected context) is not the injected scope", ctor)
	}
	if r.life == Singleton && scN != 0 {
		w.fail("C18,C01", "singleton constructor %d ran in scope s%d, not in the root scope", ctor, scN)
	}
}

// a long-lived service must never receive an instance of a scoped registration
func (w *vpWorld) monitorCaptive(consumer, provider *vpReg, b *vpBase) {
	if consumer.life != Scoped && provider.life == Scoped {
		w.fail("C07", "constructor %d (%v) received instance i%d of scoped constructor %d", consumer.idx+1, consumer.life, b.Inst, provider.idx+1)
	}
}

// monitorHandOut: lifetime rules for an instance of `reg` seen in scope scN (as a result or as an argument)
func (w *vpWorld) monitorHandOut(where string, reg *vpReg, b *vpBase, scN int) {
	if reg.isInst() {
		return
	}
	key := fmt.Sprintf("%d/%d", reg.idx, b.Out)
	switch reg.life {
	case Singleton:
		if prev, ok := w.singletonOf[key]; ok && prev != b {
			w.fail("C01", "%s: second instance (i%d, first i%d) of singleton constructor %d", where, b.Inst, prev.Inst, reg.idx+1)
		}
		w.singletonOf[key] = b
	case Scoped:
		k2 := fmt.Sprintf("%d|%s", scN, key)
		if prev, ok := w.scopedOf[k2]; ok && prev != b {
			w.fail("C02", "%s: second instance (i%d, first i%d) of scoped constructor %d in scope s%d", where, b.Inst, prev.Inst, reg.idx+1, scN)
		}
		w.scopedOf[k2] = b
		if b.ScopeN != scN {
			w.fail("C02", "%s: scope s%d was handed instance i%d that scope s%d created", where, scN, b.Inst, b.ScopeN)
		}
	case Transient:
		k3 := fmt.Sprintf("%s", where)
		_ = k3
		if b.Out == 0 || reg.form == "multi" || reg.form == "ro" {
			if prev, ok := w.handed[b]; ok && (reg.form == "plain" || reg.form == "alias") {
				w.fail("C03", "%s: transient instance i%d was already handed out (%s)", where, b.Inst, prev)
			}
			w.handed[b] = where
		}
	}
	if b.closes.Load() > 0 {
		w.fail("C10,C13", "%s: instance i%d handed out after it was closed", where, b.Inst)
	}
}

func (w *vpWorld) monitorCtor(r *vpReg, inv, scN int) {
	ctor := r.idx + 1
	if r.life == Singleton && (w.buildDone || inv > 1) {
		w.fail("C01", "singleton constructor %d ran again (invocation %d, after Build=%v)", ctor, inv, w.buildDone)
	}
	if scN >= 0 && w.closedSc[scN] {
		w.fail("C13", "constructor %d ran in scope s%d after its Close returned", ctor, scN)
	}
}

// ---------------------------------------------------------------- executor

type vpRun struct {
	ops, obs, mon *bufio.Writer
	scen, nline   int
	monBad        int
	cur           []string
	stats         map[string]int
	w             *vpWorld
	flushEach     bool // single-scenario re-run: ops.txt is complete up to the operation that kills the process
}

func (r *vpRun) emit(op, obs string) {
	fmt.Fprintln(r.ops, op)
	fmt.Fprintln(r.obs, obs)
	r.cur = append(r.cur, op)
	r.nline++
	if r.flushEach {
		r.ops.Flush()
		r.obs.Flush()
	}
	// drain monitor failures raised while executing this op
	r.w.failMu.Lock()
	fails := r.w.fails
	r.w.fails = nil
	r.w.failMu.Unlock()
	for _, f := range fails {
		parts := strings.SplitN(f, "\x00", 2)
		r.monBad++
		r.stats["monitor_fail:"+parts[0]]++
		fmt.Fprintf(r.mon, "scenario=%d props=%s what=%s\n", r.scen, parts[0], parts[1])
		for _, l := range r.cur {
			fmt.Fprintf(r.mon, "  %s\n", l)
		}
	}
}

func (r *vpRun) newWorld(rng *rand.Rand) *vpWorld {
	w := &vpWorld{rng: rng, ctxSeen: map[int]context.Context{}, scopes: map[int]Scope{}, closedSc: map[int]bool{}, ctxs: map[int]context.Context{}, cancels: map[int]context.CancelFunc{}, ctxPar: map[int]int{},
		typeIDs: map[reflect.Type]int{}, keyIDs: map[string]int{}, grpIDs: map[string]int{},
		beh: map[[2]int]string{}, cbeh: map[[2]int]bool{}, nbeh: map[[2]int]int{}, calls: map[int]int{}, byInst: map[int]*vpBase{},
		singletonOf: map[string]*vpBase{}, scopedOf: map[string]*vpBase{}, handed: map[*vpBase]string{}}
	r.w = w
	r.scen++
	r.cur = nil
	w.baseGoroutines = runtime.NumGoroutine()
	w.coll = NewCollection().(*collection)
	// a fatal crash (stack overflow of an unbounded resolution) loses what is buffered: flush per scenario
	r.ops.Flush()
	r.obs.Flush()
	r.mon.Flush()
	r.emit("p new", "ok")
	return w
}

// removeAndReplace: in some scenarios one identity is taken out of the collection again (Remove / RemoveKeyed)
// before Build — one output of a multi-output registration, one alias, or a whole single-output
// registration — and, half of the time, registered anew with a different constructor (the documented
// "replace by a mock" recipe). The model sees the collection's final descriptors; the monitors use the
// harness's own bookkeeping (`removed` outputs are no identities).
func (r *vpRun) removeAndReplace(w *vpWorld) {
	rng := w.rng
	// (always after a preliminary Build that failed in a constructor: what that Build left in the collection must not
	// bring a removed registration back)
	if rng.Intn(4) != 0 && !w.preFailedOnce {
		return
	}
	type cand struct {
		reg *vpReg
		k   int
	}
	var cands []cand
	for _, reg := range w.regs {
		if !reg.added || reg.form == "inst" || reg.form == "void" {
			continue
		}
		if _, faulty := w.nbeh[[2]int{reg.idx + 1, 1}]; faulty {
			continue
		}
		skip := false
		for inv := 1; inv <= 3; inv++ {
			if _, ok := w.nbeh[[2]int{reg.idx + 1, inv}]; ok {
				skip = true // field indices of nil-field faults refer to the original field list
			}
		}
		if skip {
			continue
		}
		first := true
		for k, o := range reg.outs {
			if !o.hidden && !o.removed && o.group == "" { // group members cannot be removed
				cands = append(cands, cand{reg, k})
				if len(reg.outs) > 1 { // one output of several: the surviving siblings still share the constructor
					cands = append(cands, cand{reg, k}, cand{reg, k})
					if first { // the first descriptor of the registration is the one shortcuts like to look at
						cands = append(cands, cand{reg, k}, cand{reg, k})
					}
				}
				first = false
			}
		}
	}
	if len(cands) == 0 {
		return
	}
	c := cands[rng.Intn(len(cands))]
	o := &c.reg.outs[c.k]
	if o.name == "" {
		w.coll.Remove(o.typ)
	} else {
		w.coll.RemoveKeyed(o.typ, o.name)
	}
	if (o.name != "" && w.coll.ContainsKeyed(o.typ, o.name)) || (o.name == "" && w.coll.Contains(o.typ)) {
		w.fail("C17", "Remove(%v,%q) left the identity registered", o.typ, o.name)
	}
	o.removed, o.hidden = true, true
	r.stats["removed_identities"]++
	left := 0
	for _, x := range c.reg.outs {
		if !x.hidden {
			left++
		}
	}
	if left == 0 {
		c.reg.added = false // nothing of the registration is left
	}
	if rng.Intn(2) == 0 {
		return
	}
	// registered anew: a plain registration of the same identity with its own constructor
	slot := -1
	for sl := range vpSlots {
		if slotType(sl) == o.typ {
			slot = sl
		}
	}
	if slot < 0 {
		return // an interface identity: replaced only through concrete slots
	}
	nr := &vpReg{idx: len(w.regs), life: c.reg.life, form: "plain", outs: []vpOut{{typ: o.typ, slot: slot, name: o.name}}}
	nr.fn = w.makeConstructor(nr)
	if o.name != "" {
		nr.opts = append(nr.opts, Name(o.name))
	}
	w.regs = append(w.regs, nr)
	lo := len(w.coll.allDescriptors)
	err := w.coll.addService(nr.fn, nr.life, nr.opts...)
	nr.descLo, nr.descHi = lo, len(w.coll.allDescriptors)
	nr.descPtrs = append([]*Descriptor(nil), w.coll.allDescriptors[lo:]...)
	nr.added = err == nil
	if err != nil {
		w.fail("C17", "registering the removed identity (%v,%q) anew was rejected: %v", o.typ, o.name, err)
	}
	r.stats["replaced_identities"]++
}

// register everything, then dump godi's own descriptors as `p desc` lines
func (r *vpRun) register(w *vpWorld) {
	r.addRegs(w, w.regs)
	r.finishRegister(w)
}

// preBuild: the collection is built once before the scenario proper - with only a prefix of the
// registrations, or with all of them (a start-up retry), sometimes with a constructor that fails in this
// preliminary Build only. Build's verdict is a function of the registrations made so far (monitorVerdict);
// whatever the preliminary Build did is then forgotten by the harness, and the scenario goes on with the same
// collection: nothing Build computed may survive in the collection (C06: rebuilding gives the same verdict
// and wiring as a fresh collection; C07/C08: the validation is repeated; C17: Build takes a snapshot).
func (r *vpRun) preBuild(w *vpWorld, rng *rand.Rand) {
	r.stats["prebuild"]++
	w.preFail, w.preFailed = 0, false
	if rng.Intn(3) == 0 || w.preFailWanted {
		var cands []int
		for _, reg := range w.regs {
			if reg.added && reg.life == Singleton && reg.withErr && reg.form != "inst" {
				cands = append(cands, reg.idx+1)
			}
		}
		if len(cands) > 0 {
			w.preFail = cands[rng.Intn(len(cands))]
		}
	}
	var err error
	var prov Provider
	panicked := guard(w, "Build", func() { prov, err = w.coll.Build() })
	if !w.hung && !panicked {
		w.monitorInjected("Build", err)
		r.monitorVerdict(w, err)
		if err == nil {
			r.stats["prebuild_ok"]++
		} else {
			r.stats["prebuild_err"]++
		}
		if w.preFailed {
			r.stats["prebuild_injected_failure"]++
			if err == nil {
				w.fail("C15", "Build returned nil although singleton constructor %d returned an error", w.preFail)
			}
		}
	}
	_ = prov // not closed: a registered instance value must not be closed by a provider the scenario does not follow
	// forget the preliminary Build
	w.preFail, w.preFailed = 0, false
	w.calls = map[int]int{}
	w.topo = nil
	w.evs, w.closes, w.all = nil, nil, nil
	for k, b := range w.byInst {
		keep := false
		for _, reg := range w.regs {
			if reg.form == "inst" && reg.inst == b {
				keep = true
			}
		}
		if !keep {
			delete(w.byInst, k)
		}
	}
	w.singletonOf, w.scopedOf, w.handed = map[string]*vpBase{}, map[string]*vpBase{}, map[*vpBase]string{}
	w.ctxSeen = map[int]context.Context{}
	w.injErr, w.injPanic = nil, nil
	w.buildDone, w.built = false, false
	// a preliminary Build that failed has closed the registered instance values it had stored (its own clean-up):
	// they are the user's objects, not "created by the container"; the scenario proper counts from zero
	for _, reg := range w.regs {
		if reg.form == "inst" && reg.inst != nil {
			reg.inst.closes.Store(0)
		}
	}
}

func (r *vpRun) addRegs(w *vpWorld, regs []*vpReg) {
	for _, reg := range regs {
		lo := len(w.coll.allDescriptors)
		var err error
		func() {
			defer func() {
				if p := recover(); p != nil {
					err = fmt.Errorf("panic: %v", p)
					w.fail("C15", "Add* panicked: %v", p)
				}
			}()
			switch {
			case reg.form == "inst":
				err = w.coll.addService(reg.fn, reg.life, reg.opts...)
			default:
				err = w.coll.addService(reg.fn, reg.life, reg.opts...)
			}
		}()
		reg.descLo, reg.descHi = lo, len(w.coll.allDescriptors)
		reg.descPtrs = append([]*Descriptor(nil), w.coll.allDescriptors[lo:]...)
		reg.added = err == nil
		for _, d := range reg.descPtrs {
			// the lifetime a registration asked for is the lifetime of every descriptor it produced (instance values:
			// the lifetime they were registered with)
			if d.Lifetime != reg.life {
				w.fail("C17,C01,C02,C03", "registration #%d asked for lifetime %v, its descriptor for %v carries %v", reg.idx+1, reg.life, d.Type, d.Lifetime)
			}
			if reg.form != "inst" && d.Constructor.IsValid() && d.Constructor.Kind() == reflect.Func && reflect.ValueOf(reg.fn).Kind() == reflect.Func &&
				d.Constructor.Type() != reflect.TypeOf(reg.fn) {
				w.fail("C17,C04", "registration #%d: the descriptor for %v does not carry the registered constructor (type %v, registered %v)", reg.idx+1, d.Type, d.Constructor.Type(), reflect.TypeOf(reg.fn))
			}
		}
		if reg.doomed && err == nil {
			w.fail("C17", "a result object whose second field claims an identity that is already registered was accepted")
		}
		if err != nil {
			r.stats["reg_rejected"]++
			if reg.descHi != lo {
				w.fail("C17", "rejected registration left %d descriptors behind", reg.descHi-lo)
			}
		}
		r.stats["reg_form:"+reg.form]++
	}
}

func (r *vpRun) finishRegister(w *vpWorld) {
	r.removeAndReplace(w)
	// the collection's three views agree (a rejected or removed registration leaves nothing behind in any of them)
	inAll := map[*Descriptor]bool{}
	for _, d := range w.coll.allDescriptors {
		inAll[d] = true
	}
	for k, d := range w.coll.services {
		if !inAll[d] {
			w.fail("C17,C08,C05", "the service map still holds %v (key %v), which is not among the descriptors Build iterates (its dependencies are in no graph)", k.Type, k.Key)
		}
	}
	for k, ms := range w.coll.groups {
		for _, d := range ms {
			if !inAll[d] {
				w.fail("C17,C08,C05", "group %q of %v still holds a member that is not among the descriptors Build iterates (its dependencies are in no graph)", k.Group, k.Type)
			}
		}
	}
	// constructors number their products after the registered values that made it into the collection
	w.nextInst = 0
	for _, reg := range w.regs {
		if reg.form != "inst" {
			continue
		}
		if !reg.added {
			delete(w.byInst, reg.inst.Inst)
		} else if reg.inst.Inst > w.nextInst {
			w.nextInst = reg.inst.Inst
		}
	}
	index := map[*Descriptor]int{}
	for i, d := range w.coll.allDescriptors {
		index[d] = i
	}
	for i, d := range w.coll.allDescriptors {
		var reg *vpReg
		regK := 0
		for _, x := range w.regs {
			for k, p := range x.descPtrs {
				if p == d {
					reg, regK = x, k
				}
			}
		}
		kind := "plain"
		switch {
		case d.IsInstance:
			kind = "inst:" + strconv.Itoa(reg.inst.Inst)
		case d.VoidReturn:
			kind = "void"
		case d.isResultObject || d.MultiReturnIndex >= 0:
			kind = "multi"
		}
		disp := 0
		// the value stored under this descriptor: output i-descLo (aliases share output 0)
		k := regK
		if k < len(reg.outs) && slotDisp(reg.outs[k].slot) && reg.form != "void" {
			disp = 1
		}
		var sibs []string
		for _, s := range d.siblings {
			if j, ok := index[s]; ok { // a sibling that was removed again is no descriptor of the provider
				sibs = append(sibs, strconv.Itoa(j))
			}
		}
		var deps []string
		for _, dep := range d.Dependencies {
			opt := 0
			if dep.Optional {
				opt = 1
			}
			deps = append(deps, fmt.Sprintf("%d:%d:%d:%d", w.typeID(dep.Type), w.keyID(dep.Key), w.grpID(dep.Group), opt))
		}
		life := map[Lifetime]string{Singleton: "S", Scoped: "C", Transient: "T"}[d.Lifetime]
		dash := func(l []string, sep string) string {
			if len(l) == 0 {
				return "-"
			}
			return strings.Join(l, sep)
		}
		r.emit(fmt.Sprintf("p desc %d %d %d %d %s %d %s %d %s %s", i, w.typeID(d.Type), w.keyID(d.Key), w.grpID(d.Group), life, reg.idx+1, kind, disp, dash(sibs, ","), dash(deps, ";")), "ok")
	}
	// the structural hypotheses of the container theorems (WF, RegWF, InstSingleton, InstDistinct) are
	// evaluated by the model driver on the descriptors just dumped: they must hold for everything godi registers
	r.emit("p hyp", "ok")
	for k, v := range w.beh {
		r.emit(fmt.Sprintf("p beh %d %d %s", k[0], k[1], v), "ok")
	}
	for k := range w.cbeh {
		r.emit(fmt.Sprintf("p cbeh %d %d", k[0], k[1]), "ok")
	}
	for k, v := range w.nbeh {
		r.emit(fmt.Sprintf("p nbeh %d %d %d", k[0], k[1], v), "ok")
	}
}

// guard runs one API call with a recover (C15: no panic may escape) and a watchdog (C09/C13: no hang).
// After a hang the scenario is abandoned: the stuck goroutine still owns the world.
func guard(w *vpWorld, what string, f func()) (panicked bool) {
	done := make(chan bool, 1)
	go func() {
		defer func() {
			if p := recover(); p != nil {
				w.fail("C15,C09,C13", "%s panicked: %v", what, p)
				done <- true
				return
			}
			done <- false
		}()
		f()
	}()
	select {
	case panicked = <-done:
		return panicked
	case <-time.After(vpHangTimeout):
		w.hung = true
		w.fail("C09,C12,C13", "%s did not return within %v (deadlock or lost wake-up)", what, vpHangTimeout)
		return true
	}
}

var vpHangTimeout = 20 * time.Second

func (r *vpRun) build(w *vpWorld) bool {
	var err error
	var prov Provider
	panicked := guard(w, "Build", func() { prov, err = w.coll.Build() })
	if w.hung {
		r.emit("p build", "hang")
		return false
	}
	if panicked { // reported by guard (C15); there is no provider to go on with
		r.emit("p build", "panic"+w.flushEvents())
		return false
	}
	// the creation order: Kahn's output as captured inside the first constructor call; if no
	// constructor ran, the order in which the (instance-valued) singletons were stored
	order := w.topo
	if order == nil && err == nil {
		pp := prov.(*provider)
		index := map[instanceKey]int{}
		for i, d := range w.coll.allDescriptors {
			index[instanceKey{Type: d.Type, Key: d.Key, Group: d.Group}] = i
		}
		for _, k := range pp.singletonKeys {
			order = append(order, strconv.Itoa(index[k]))
		}
	}
	op := strings.TrimSpace("p build " + strings.Join(order, " "))
	w.monitorInjected("Build", err)
	r.monitorVerdict(w, err)
	if err != nil {
		r.stats["build_err"]++
		r.monitorFailedBuild(w, err)
		r.emit(op, w.showErr(err)+w.flushEvents())
		return false
	}
	r.stats["build_ok"]++
	w.prov = prov
	w.built = true
	w.buildDone = true
	// monitors: every singleton constructor ran exactly once during Build
	for _, reg := range w.regs {
		if reg.added && reg.life == Singleton && reg.form != "inst" && w.calls[reg.idx+1] != 1 {
			w.fail("C01", "after Build singleton constructor %d has run %d times", reg.idx+1, w.calls[reg.idx+1])
		}
	}
	r.emit(op, "ok"+w.flushEvents())
	return true
}

func (w *vpWorld) describe() string {
	if os.Getenv("VERIF_DEBUG") == "" {
		return ""
	}
	var b strings.Builder
	for _, r := range w.regs {
		fmt.Fprintf(&b, " || reg%d %s %v added=%v outs=", r.idx+1, r.form, r.life, r.added)
		for _, o := range r.outs {
			fmt.Fprintf(&b, "(%v,%q,%q,alias=%v)", o.typ, o.name, o.group, o.alias)
		}
		b.WriteString(" deps=")
		for _, d := range r.deps {
			fmt.Fprintf(&b, "(%v,%q,%q,opt=%v)", d.typ, d.name, d.group, d.optional)
		}
	}
	return b.String()
}

// referenceVerdict: the verdict Build must give, computed from the harness's own bookkeeping of what it
// registered (independent of godi's descriptors and of the Lean model): cycle > lifetime > missing > ok
func (w *vpWorld) referenceVerdict() string {
	var regs []*vpReg
	for _, r := range w.regs {
		if r.added {
			regs = append(regs, r)
		}
	}
	// providers of a dependency
	provs := func(d vpDep) (out []*vpReg, builtin bool) {
		if d.group != "" {
			rs, _ := w.membersOf(d.typ, d.group)
			return rs, false
		}
		if d.name == "" && (d.typ == contextType || d.typ == scopeType || d.typ == providerType) {
			return nil, true
		}
		if r, _ := w.providerOf(d.typ, d.name); r != nil {
			return []*vpReg{r}, false
		}
		return nil, false
	}
	// cycle among registrations (all outputs of a registration share its dependencies)
	color := map[*vpReg]int{}
	var dfs func(r *vpReg) bool
	dfs = func(r *vpReg) bool {
		color[r] = 1
		for _, d := range r.deps {
			ps, _ := provs(d)
			for _, p := range ps {
				if color[p] == 1 || (color[p] == 0 && dfs(p)) {
					return true
				}
			}
		}
		color[r] = 2
		return false
	}
	for _, r := range regs {
		if color[r] == 0 && dfs(r) {
			return "circular"
		}
	}
	for _, r := range regs {
		if r.life == Scoped {
			continue
		}
		for _, d := range r.deps {
			ps, _ := provs(d)
			for _, p := range ps {
				if p.life == Scoped {
					return "lifetime"
				}
			}
		}
	}
	for _, r := range regs {
		for _, d := range r.deps {
			if d.optional || d.group != "" {
				continue
			}
			if ps, b := provs(d); len(ps) == 0 && !b {
				return "missing"
			}
		}
	}
	return "ok"
}

// monitorVerdict compares Build's outcome with the reference verdict (C05, C07, C08) and checks that a
// reported cycle path is a real cycle of the registered dependency relation (C05)
func (r *vpRun) monitorVerdict(w *vpWorld, err error) {
	want := w.referenceVerdict()
	r.stats["verdict:"+want]++
	got := "ok"
	var ce *CircularDependencyError
	var le *LifetimeConflictError
	var be *BuildError
	switch {
	case err == nil:
	case errors.As(err, &ce):
		got = "circular"
	case errors.As(err, &le):
		got = "lifetime"
	case errors.As(err, &be) && be.Phase == "validation" && errors.Is(err, ErrServiceNotFound):
		got = "missing"
	default:
		got = "runtime-failure"
	}
	if got == "runtime-failure" {
		// a constructor fault injected by the scenario is legitimate; anything else on a valid set is not
		var inj *vpInjected
		var pe *ConstructorPanicError
		// (a result object with a field left nil makes the resolution of that field fail: also a scenario fault)
		if want == "ok" && !errors.As(err, &inj) && !errors.As(err, &pe) && len(w.nbeh) == 0 {
			w.fail("C08,C06", "Build failed on a valid registration set without any constructor failing: %v", err)
		}
		if want != "ok" {
			w.fail(map[string]string{"circular": "C05", "lifetime": "C07", "missing": "C08"}[want], "Build reached constructors although the registration set is %s", want)
		}
		return
	}
	if got != want {
		props := map[string]bool{}
		for _, v := range []string{got, want} {
			switch v {
			case "circular":
				props["C05"] = true
			case "lifetime":
				props["C07"] = true
			case "missing", "ok":
				props["C08"] = true
			}
		}
		var ps []string
		for p := range props {
			ps = append(ps, p)
		}
		sort.Strings(ps)
		w.fail(strings.Join(ps, ","), "Build verdict %q, the registered dependency relation says %q%s", got, want, w.describe())
	}
	if ce != nil {
		// the reported path must be a closed walk of the dependency relation godi itself recorded
		edges := map[graphKey][]graphKey{}
		for _, d := range w.coll.allDescriptors {
			from := graphKey{d.Type, d.Key, d.Group}
			for _, dep := range d.Dependencies {
				edges[from] = append(edges[from], graphKey{dep.Type, dep.Key, dep.Group})
			}
		}
		for gk, members := range w.coll.groups {
			from := graphKey{gk.Type, nil, gk.Group}
			for _, m := range members {
				edges[from] = append(edges[from], graphKey{m.Type, m.Key, m.Group})
			}
		}
		ok := len(ce.Path) >= 2 && ce.Path[0] == ce.Path[len(ce.Path)-1] && ce.Path[0] == ce.Node
		for i := 0; ok && i+1 < len(ce.Path); i++ {
			a, b := ce.Path[i], ce.Path[i+1]
			found := false
			for _, e := range edges[graphKey{a.Type, a.Key, a.Group}] {
				if e == (graphKey{b.Type, b.Key, b.Group}) {
					found = true
				}
			}
			ok = found
		}
		if !ok {
			w.fail("C05", "the reported cycle path %v is not a cycle of the registered dependency relation", ce.Path)
		}
	}
}

type graphKey struct {
	t reflect.Type
	k any
	g string
}

// a failed Build must have disposed everything it created, exactly once (C10), and report a classifiable error (C15)
func (r *vpRun) monitorFailedBuild(w *vpWorld, err error) {
	for _, b := range w.all {
		if slotDisp(w.regs[b.Ctor-1].outs[b.Out].slot) && b.closes.Load() != 1 {
			w.fail("C10", "Build failed but instance i%d (constructor %d) was closed %d times", b.Inst, b.Ctor, b.closes.Load())
		}
	}
	var be *BuildError
	if !errors.As(err, &be) {
		w.fail("C15", "Build error is not a BuildError: %v", err)
	}
}

func (w *vpWorld) target(s int) (Provider, string) {
	if s < 0 {
		return w.prov, "P"
	}
	return w.scopes[s], "s" + strconv.Itoa(s)
}

func (r *vpRun) createScope(w *vpWorld, from int, ctx int) {
	var c context.Context
	if ctx != 0 {
		c = w.ctxs[ctx]
	}
	t, name := w.target(from)
	var sc Scope
	var err error
	panicked := guard(w, "CreateScope", func() { sc, err = t.CreateScope(c) })
	op := fmt.Sprintf("p scope %s %d", name, ctx)
	if w.hung {
		r.emit(op, "hang")
		return
	}
	if panicked { // reported by guard (C15); no scope was handed out
		r.emit(op, "panic"+w.flushEvents())
		return
	}
	w.monitorInjected("CreateScope", err)
	if err != nil {
		// a scope whose creation failed was never handed out: whatever its initializers created must
		// have been disposed already (C10 / C14 "a failed creation leaves nothing" / C15 "later disposed")
		for _, b := range w.all {
			if _, known := w.scopes[b.ScopeN]; !known && b.ScopeN > 0 && b.Life != Singleton &&
				slotDisp(w.regs[b.Ctor-1].outs[b.Out].slot) && b.closes.Load() != 1 {
				w.fail("C10,C14,C15", "CreateScope failed but instance i%d created for the half-made scope s%d was closed %d times", b.Inst, b.ScopeN, b.closes.Load())
			}
		}
		// ... and its context must have been cancelled (C14: a failed creation leaves nothing behind)
		w.ctxSeenMu.Lock()
		for scN, cx := range w.ctxSeen {
			if _, known := w.scopes[scN]; !known && scN > 0 && cx.Err() == nil {
				w.fail("C14", "CreateScope failed (%v) but the context of the half-made scope s%d, which its initializers received, is not cancelled", err, scN)
				delete(w.ctxSeen, scN)
			}
		}
		w.ctxSeenMu.Unlock()
		r.emit(op, w.showErr(err)+w.flushEvents())
		return
	}
	n := scopeNum(sc)
	w.scopes[n] = sc
	w.live = append(w.live, n)
	r.stats["scopes"]++
	if sc.Context().Err() != nil { // created with a context that is already done: its watcher closes it at once
		w.waitClosed(sc, "scope created with a cancelled context")
		w.closedSc[n] = true
		r.stats["scope_born_cancelled"]++
	}
	// C18: context linkage
	if got, e := FromContext(sc.Context()); e != nil || got != sc {
		w.fail("C18", "FromContext(scope.Context()) is not the scope s%d", n)
	}
	if c != nil {
		if v := c.Value(vpCtxKey{}); v != nil && sc.Context().Value(vpCtxKey{}) != v {
			w.fail("C18", "scope s%d: context value of the creating context not visible", n)
		}
	}
	fromCtx := c
	if fromCtx == nil && from >= 0 {
		if h, ok := w.scopes[from]; ok {
			fromCtx = h.Context()
		}
	}
	if w.scopeFrom == nil {
		w.scopeFrom = map[int]context.Context{}
	}
	w.scopeFrom[n] = fromCtx
	w.monitorCtxLink(n, sc, fromCtx)
	r.emit(op, "ok s"+strconv.Itoa(n)+w.flushEvents())
}

type vpCtxKey struct{}

type vpCause struct{ ctx int }

func (c *vpCause) Error() string { return "harness cancelled context " + strconv.Itoa(c.ctx) }

var vpEpoch = time.Now().Add(1000 * time.Hour)

// monitorCtxLink (C18): the scope's context carries the deadline, the values and the cancellation (with its
// cause) of the context it was created from - the context passed to CreateScope, or the creating scope's own
// context when none was passed
func (w *vpWorld) monitorCtxLink(n int, sc Scope, from context.Context) {
	if from == nil {
		return
	}
	d1, ok1 := sc.Context().Deadline()
	d2, ok2 := from.Deadline()
	if ok1 != ok2 || !d1.Equal(d2) {
		w.fail("C18", "scope s%d: its context has deadline (%v,%v), the context it was created from has (%v,%v)", n, d1, ok1, d2, ok2)
	}
	if v := from.Value(vpCtxKey{}); v != nil && sc.Context().Value(vpCtxKey{}) != v {
		w.fail("C18", "scope s%d: context value of the context it was created from is not visible", n)
	}
	if from.Err() != nil {
		if sc.Context().Err() == nil {
			w.fail("C18,C13", "scope s%d: the context it was created from is done, its own context is not", n)
		} else if c, own := context.Cause(from), context.Cause(sc.Context()); c != own {
			// a nested scope may be closed by its parent's cascade (plain cancel) while the cancellation of the shared
			// context is still being propagated child by child: context.Canceled is then a legitimate cause. A scope
			// without a parent scope is only ever ended by the propagation itself.
			nested := vpPtrField(sc, "parentScope") != nil
			if !(nested && own == context.Canceled) {
				w.fail("C18", "scope s%d: cancellation cause %v of the context it was created from is not the cause %v its own context reports", n, c, own)
			}
		}
	}
}

// the generic helpers Resolve / ResolveKeyed / ResolveGroup are thin wrappers over Get*: for the types
// below the harness goes through them, so that they take part in the correspondence
func vpHelperGet(tg Provider, t reflect.Type, name string) (any, error, bool) {
	switch t {
	case slotType(0):
		if name == "" {
			v, err := Resolve[*PS0](tg)
			return vpNilIfZero(v, err)
		}
		v, err := ResolveKeyed[*PS0](tg, name)
		return vpNilIfZero(v, err)
	case slotType(6):
		if name == "" {
			v, err := Resolve[*PD0](tg)
			return vpNilIfZero(v, err)
		}
		v, err := ResolveKeyed[*PD0](tg, name)
		return vpNilIfZero(v, err)
	case vpIfaces[0]:
		if name == "" {
			v, err := Resolve[VI0](tg)
			if err != nil {
				return nil, err, true
			}
			return v, nil, true
		}
	}
	return nil, nil, false
}

func vpNilIfZero[T any](v T, err error) (any, error, bool) {
	if err != nil {
		return nil, err, true
	}
	return v, nil, true
}

func vpHelperGroup(tg Provider, t reflect.Type, group string) ([]any, error, bool) {
	conv := func(n int, at func(int) any, err error) ([]any, error, bool) {
		if err != nil {
			return nil, err, true
		}
		out := make([]any, n)
		for i := range out {
			out[i] = at(i)
		}
		return out, nil, true
	}
	switch t {
	case slotType(0):
		v, err := ResolveGroup[*PS0](tg, group)
		return conv(len(v), func(i int) any { return v[i] }, err)
	case slotType(6):
		v, err := ResolveGroup[*PD0](tg, group)
		return conv(len(v), func(i int) any { return v[i] }, err)
	}
	return nil, nil, false
}

func (r *vpRun) get(w *vpWorld, s int, t reflect.Type, name string) {
	tg, tn := w.target(s)
	var v any
	var err error
	key := 0
	if name != "" {
		key = w.keyID(name)
	}
	op := fmt.Sprintf("p get %s %d %d", tn, w.typeID(t), key)
	if guard(w, "Get", func() {
		if hv, herr, ok := vpHelperGet(tg, t, name); ok {
			r.stats["generic_helper_calls"]++
			v, err = hv, herr
		} else if name == "" {
			v, err = tg.Get(t)
		} else {
			v, err = tg.GetKeyed(t, name)
		}
	}) {
		r.emit(op, map[bool]string{true: "hang", false: "panic"}[w.hung]+w.flushEvents())
		return
	}
	w.monitorInjected("Get", err)
	if err != nil {
		r.stats["get_err"]++
		r.emit(op, w.showErr(err)+w.flushEvents())
		return
	}
	r.stats["get_ok"]++
	scN := s
	if s < 0 {
		scN = 0
	}
	if b, ok := v.(vpObj); ok {
		if reg, outIdx := w.providerOf(t, name); reg != nil {
			if reg.outs[outIdx].alias {
				outIdx = 0
			}
			if b.base().Ctor != reg.idx+1 {
				w.fail("C04", "Get(%v,%q) returned an instance of constructor %d, registered is constructor %d", t, name, b.base().Ctor, reg.idx+1)
			} else if b.base().Out != outIdx && !reg.isInst() {
				w.fail("C04", "Get(%v,%q) returned the value constructor %d placed in output %d, the output registered under that identity is %d", t, name, reg.idx+1, b.base().Out, outIdx)
			}
			w.monitorHandOut(fmt.Sprintf("Get(%v,%q) in s%d", t, name, scN), reg, b.base(), scN)
		} else {
			w.fail("C04", "Get(%v,%q) returned an instance although nothing is registered under that identity", t, name)
		}
	}
	r.emit(op, "ok "+w.showAny(v)+w.flushEvents())
}

func (r *vpRun) getGroup(w *vpWorld, s int, t reflect.Type, group string) {
	tg, tn := w.target(s)
	var v []any
	var err error
	op := fmt.Sprintf("p getg %s %d %d", tn, w.typeID(t), w.grpID(group))
	if guard(w, "GetGroup", func() {
		if hv, herr, ok := vpHelperGroup(tg, t, group); ok {
			r.stats["generic_helper_calls"]++
			v, err = hv, herr
		} else {
			v, err = tg.GetGroup(t, group)
		}
	}) {
		r.emit(op, map[bool]string{true: "hang", false: "panic"}[w.hung]+w.flushEvents())
		return
	}
	w.monitorInjected("GetGroup", err)
	if err != nil {
		r.emit(op, w.showErr(err)+w.flushEvents())
		return
	}
	scN := s
	if s < 0 {
		scN = 0
	}
	rs, ks := w.membersOf(t, group)
	if len(rs) != len(v) {
		w.fail("C04", "GetGroup(%v,%q) returned %d members, %d registered", t, group, len(v), len(rs))
	} else {
		for i := range v {
			b := v[i].(vpObj).base()
			outIdx := ks[i]
			if rs[i].outs[outIdx].alias { // an alias of output 0
				outIdx = 0
			}
			if b.Ctor != rs[i].idx+1 || (b.Out != outIdx && !rs[i].isInst()) {
				w.fail("C04", "GetGroup(%v,%q) member %d comes from constructor %d, registration order says %d", t, group, i, b.Ctor, rs[i].idx+1)
			}
			w.monitorHandOut(fmt.Sprintf("GetGroup(%v,%q) in s%d", t, group, scN), rs[i], b, scN)
		}
	}
	r.emit(op, "ok "+w.showAny(v)+w.flushEvents())
}

// ---- the container's bookkeeping, read by field name -----------------------------------------------------------
// The monitors below look into unexported tables (provider.scopes, scope.children, scope.instances, ...). They are
// read through reflection by NAME, so that a change of the container that renames, retypes or removes one of them
// still leaves a harness that builds and runs: a monitor whose field is gone says "unknown" (and the `p state` line
// prints "?", which the model does not), the behavioural monitors keep deciding.
func vpInternal(obj any, name string) (reflect.Value, bool) {
	v := reflect.ValueOf(obj)
	for v.IsValid() && (v.Kind() == reflect.Pointer || v.Kind() == reflect.Interface) {
		if v.IsNil() {
			return reflect.Value{}, false
		}
		v = v.Elem()
	}
	if !v.IsValid() || v.Kind() != reflect.Struct {
		return reflect.Value{}, false
	}
	f := v.FieldByName(name)
	if !f.IsValid() || !f.CanAddr() {
		return reflect.Value{}, false
	}
	return reflect.NewAt(f.Type(), unsafe.Pointer(f.UnsafeAddr())).Elem(), true
}

func vpWithLock(obj any, mu string, f func()) {
	if m, ok := vpInternal(obj, mu); ok && m.CanAddr() {
		if l, ok := m.Addr().Interface().(sync.Locker); ok {
			l.Lock()
			defer l.Unlock()
		}
	}
	f()
}

// vpTableLen: length of a map/slice-typed table ("nil" when it is nil, "?" when there is no such field)
func vpTableLen(obj any, mu, field string) (n int, show string) {
	show = "?"
	vpWithLock(obj, mu, func() {
		t, ok := vpInternal(obj, field)
		if !ok || (t.Kind() != reflect.Map && t.Kind() != reflect.Slice) {
			return
		}
		if t.IsNil() {
			show = "nil"
			return
		}
		n = t.Len()
		show = strconv.Itoa(n)
	})
	return
}

// vpTableHas: does the table hold key (map key / slice element)? known=false when there is no such table
func vpTableHas(obj any, mu, field string, key any) (has, known bool) {
	vpWithLock(obj, mu, func() {
		t, ok := vpInternal(obj, field)
		if !ok {
			return
		}
		kv := reflect.ValueOf(key)
		switch t.Kind() {
		case reflect.Map:
			known = true
			if !t.IsNil() && kv.Type().AssignableTo(t.Type().Key()) {
				has = t.MapIndex(kv).IsValid()
			}
		case reflect.Slice:
			known = true
			for i := 0; i < t.Len(); i++ {
				if e := t.Index(i); e.CanInterface() && e.Interface() == key {
					has = true
				}
			}
		}
	})
	return
}

func vpFlag(obj any, name string) bool {
	f, ok := vpInternal(obj, name)
	if !ok {
		return false
	}
	switch f.Kind() {
	case reflect.Int32:
		return atomic.LoadInt32(f.Addr().Interface().(*int32)) != 0
	case reflect.Bool:
		return f.Bool()
	case reflect.Struct:
		if b, ok := f.Addr().Interface().(*atomic.Bool); ok {
			return b.Load()
		}
		if b, ok := f.Addr().Interface().(*atomic.Int32); ok {
			return b.Load() != 0
		}
	}
	return false
}

func vpPtrField(obj any, name string) any {
	f, ok := vpInternal(obj, name)
	if !ok || (f.Kind() != reflect.Pointer && f.Kind() != reflect.Interface) || f.IsNil() {
		return nil
	}
	return f.Interface()
}

func (w *vpWorld) waitClosed(sc Scope, what string) {
	deadline := time.After(10 * time.Second)
	if ch, ok := vpInternal(sc, "closed"); ok && ch.Kind() == reflect.Chan {
		chosen, _, _ := reflect.Select([]reflect.SelectCase{
			{Dir: reflect.SelectRecv, Chan: ch},
			{Dir: reflect.SelectRecv, Chan: reflect.ValueOf(deadline)},
		})
		if chosen == 1 {
			w.fail("C13,C14", "%s: scope not closed within 10s", what)
		}
		return
	}
	for { // no completion channel to wait on: poll the behaviour
		if _, e := sc.Get(scopeType); errors.Is(e, ErrScopeDisposed) || errors.Is(e, ErrProviderDisposed) {
			return
		}
		select {
		case <-deadline:
			w.fail("C13,C14", "%s: scope not closed within 10s", what)
			return
		case <-time.After(2 * time.Millisecond):
		}
	}
}

// descendants (by the harness's own bookkeeping of who created whom)
func (w *vpWorld) markClosed(n int, parentOf map[int]int) {
	w.closedSc[n] = true
	for c, p := range parentOf {
		if p == n && !w.closedSc[c] {
			w.markClosed(c, parentOf)
		}
	}
}

func (r *vpRun) closeScope(w *vpWorld, s int, parentOf map[int]int) {
	sc := w.scopes[s]
	var err error
	guard(w, "Scope.Close", func() { err = sc.Close() })
	if w.hung {
		r.emit(fmt.Sprintf("p close s%d", s), "hang")
		return
	}
	obs := "ok"
	if err != nil {
		obs = w.showErr(err)
	}
	wasClosed := w.closedSc[s]
	w.markClosed(s, parentOf)
	// C12: error iff some Close in this call failed; second Close returns nil and closes nothing
	bad := false
	for _, c := range w.closes {
		if !c.ok {
			bad = true
		}
		if c.b.Life == Singleton {
			w.fail("C10", "Scope.Close(s%d) closed singleton instance i%d", s, c.b.Inst)
		}
		if !w.closedSc[c.b.ScopeN] {
			w.fail("C10", "Scope.Close(s%d) closed instance i%d owned by scope s%d which is not in its subtree", s, c.b.Inst, c.b.ScopeN)
		}
	}
	if wasClosed && (err != nil || len(w.closes) > 0) {
		w.fail("C12", "second Close of s%d returned %v and closed %d instances", s, err, len(w.closes))
	}
	if !wasClosed && bad != (err != nil) {
		w.fail("C12", "Close(s%d): some Close failed=%v but returned error=%v", s, bad, err)
	}
	w.monitorCloseOrder("Scope.Close")
	// C14: once Close has returned - with or without a disposal error - neither the provider nor the parent
	// keeps the scope
	{
		if has, known := vpTableHas(w.prov, "scopesMu", "scopes", sc); known && has {
			w.fail("C14", "the provider still tracks scope s%d after its Close returned (%v)", s, err)
		}
		if par := vpPtrField(sc, "parentScope"); par != nil {
			if has, known := vpTableHas(par, "childrenMu", "children", sc); known && has {
				w.fail("C14", "the parent still references scope s%d after its Close returned (%v)", s, err)
			}
		}
		if _, show := vpTableLen(sc, "instancesMu", "instances"); show != "nil" && show != "?" {
			w.fail("C14", "closed scope s%d still holds its instance cache (%v)", s, err)
		}
	}
	// C13: every scope in the subtree refuses further use
	for n := range w.closedSc {
		if h, ok := w.scopes[n]; ok {
			if _, e := h.Get(slotType(0)); !errors.Is(e, ErrScopeDisposed) {
				w.fail("C13", "closed scope s%d still answers Get: %v", n, e)
			}
			if _, e := h.CreateScope(nil); !errors.Is(e, ErrScopeDisposed) {
				w.fail("C13", "closed scope s%d still creates child scopes: %v", n, e)
			}
			if h.Context().Err() == nil {
				w.fail("C14", "context of closed scope s%d is not cancelled", n)
			}
		}
	}
	r.emit(fmt.Sprintf("p close s%d", s), obs+w.flushEvents())
}

// C11: within one owner reverse creation order; descendants completely before ancestors; scopes before singletons
func (w *vpWorld) monitorCloseOrder(what string) {
	lastOf := map[int]int{} // owner -> last instance id closed
	firstPos := map[int]int{}
	lastPos := map[int]int{}
	for i, c := range w.closes {
		o := c.b.ScopeN
		if c.b.Life == Singleton {
			o = 1000000
		}
		if prev, ok := lastOf[o]; ok && c.b.Inst > prev && !w.regs[c.b.Ctor-1].isInst() && !w.regs[w.byInst[prev].Ctor-1].isInst() {
			w.fail("C11", "%s: owner %d closed i%d before i%d, which was created later", what, o, prev, c.b.Inst)
		}
		lastOf[o] = c.b.Inst
		if _, ok := firstPos[o]; !ok {
			firstPos[o] = i
		}
		lastPos[o] = i
	}
	if p, ok := firstPos[1000000]; ok {
		for o, l := range lastPos {
			if o != 1000000 && l > p {
				w.fail("C11", "%s: scope s%d still closing instances after the first singleton was closed", what, o)
			}
		}
	}
}

func (r *vpRun) closeProvider(w *vpWorld, parentOf map[int]int) {
	var err error
	guard(w, "Provider.Close", func() { err = w.prov.Close() })
	if w.hung {
		r.emit("p close P", "hang")
		return
	}
	obs := "ok"
	if err != nil {
		obs = w.showErr(err)
	}
	was := w.provClosed
	w.provClosed = true
	for n := range w.scopes {
		w.closedSc[n] = true
	}
	w.closedSc[0] = true
	bad := false
	for _, c := range w.closes {
		if !c.ok {
			bad = true
		}
	}
	if was && (err != nil || len(w.closes) > 0) {
		w.fail("C12", "second Provider.Close returned %v and closed %d instances", err, len(w.closes))
	}
	if !was && bad != (err != nil) {
		w.fail("C12", "Provider.Close: some Close failed=%v but returned error=%v", bad, err)
	}
	w.monitorCloseOrder("Provider.Close")
	// C10: everything disposable the container created has now been closed exactly once
	for _, b := range w.all {
		reg := w.regs[b.Ctor-1]
		if reg.isInst() {
			continue
		}
		if slotDisp(reg.outs[b.Out].slot) && b.closes.Load() != 1 {
			props := "C10"
			if bad { // some Close failed during this call: everything else must still have been attempted (C12)
				props = "C10,C12"
			}
			w.fail(props, "after Provider.Close instance i%d (constructor %d, %v, scope s%d) has been closed %d times", b.Inst, b.Ctor, b.Life, b.ScopeN, b.closes.Load())
		}
	}
	// instance values registered as singletons are owned by the provider as well: closed once, at Provider.Close
	if !was {
		for _, reg := range w.regs {
			if reg.added && reg.isInst() && reg.life == Singleton && slotDisp(reg.outs[0].slot) && reg.inst.closes.Load() != 1 {
				props := "C10"
				if bad {
					props = "C10,C12"
				}
				w.fail(props, "after Provider.Close the registered singleton instance i%d has been closed %d times", reg.inst.Inst, reg.inst.closes.Load())
			}
		}
	}
	// C13: provider and all scopes refuse
	if _, e := w.prov.Get(slotType(0)); !errors.Is(e, ErrProviderDisposed) {
		w.fail("C13", "closed provider still answers Get: %v", e)
	}
	if _, e := w.prov.CreateScope(nil); !errors.Is(e, ErrProviderDisposed) {
		w.fail("C13", "closed provider still creates scopes: %v", e)
	}
	for n, h := range w.scopes {
		if _, e := h.Get(slotType(0)); !errors.Is(e, ErrScopeDisposed) {
			w.fail("C13", "scope s%d still answers Get after Provider.Close: %v", n, e)
		}
	}
	// C14: nothing tracked any more
	if n, _ := vpTableLen(w.prov, "scopesMu", "scopes"); n != 0 {
		w.fail("C14", "closed provider still tracks %d scopes", n)
	}
	r.emit("p close P", obs+w.flushEvents())
}

func (r *vpRun) cancel(w *vpWorld, x int, parentOf map[int]int, scopeCtx map[int]int) {
	w.cancels[x]()
	for n, h := range w.scopes {
		if !w.closedSc[n] { // (a scope closed earlier cancelled its context itself, with the plain cause)
			w.monitorCtxLink(n, h, w.scopeFrom[n])
		}
	}
	// wait for the watchers of every scope whose context is now done
	for n, h := range w.scopes {
		if h.Context().Err() != nil {
			w.waitClosed(h, fmt.Sprintf("cancel ctx %d", x))
			if !w.closedSc[n] {
				w.markClosed(n, parentOf)
			}
		}
	}
	w.monitorCloseOrderPerOwner("cancel")
	r.emit(fmt.Sprintf("p cancel %d", x), "ok"+w.flushEvents())
}

// after a cancellation sibling scopes are closed by concurrent watchers: only the per-owner order is defined
func (w *vpWorld) monitorCloseOrderPerOwner(what string) {
	lastOf := map[int]int{}
	for _, c := range w.closes {
		o := c.b.ScopeN
		if prev, ok := lastOf[o]; ok && c.b.Inst > prev && !w.regs[c.b.Ctor-1].isInst() && !w.regs[w.byInst[prev].Ctor-1].isInst() {
			w.fail("C11", "%s: owner s%d closed i%d before i%d, which was created later", what, o, prev, c.b.Inst)
		}
		lastOf[o] = c.b.Inst
		if c.b.Life == Singleton {
			w.fail("C10", "%s closed singleton instance i%d", what, c.b.Inst)
		}
	}
}

// state lines: table sizes the model predicts (C14)
func (r *vpRun) state(w *vpWorld, s int) {
	if s < 0 {
		_, n := vpTableLen(w.prov, "scopesMu", "scopes")
		r.emit("p state P", fmt.Sprintf("scopes=%s disposed=%v", n, vpFlag(w.prov, "disposed")))
		return
	}
	_, n := vpTableLen(w.scopes[s], "childrenMu", "children")
	r.emit(fmt.Sprintf("p state s%d", s), fmt.Sprintf("children=%s disposed=%v", n, vpFlag(w.scopes[s], "disposed")))
}

// ---------------------------------------------------------------- generator

type vpGenOpts struct {
	n       int
	defects bool // allow cycles / lifetime conflicts / missing dependencies
	faults  bool // constructor and Close failures
	forms   bool // multi-output, aliases, instances, initializers
	rebuild bool // the collection is built once (partially registered, or as a retry) before the scenario proper
	split   int  // rebuild: number of registrations made before the preliminary Build (0 = chosen at random)
}

type vpIdentity struct {
	typ   reflect.Type
	name  string
	group string
	reg   int
}

func (w *vpWorld) generate(o vpGenOpts) {
	rng := w.rng
	usedPlain := map[reflect.Type]bool{}
	keyCount := map[reflect.Type]int{}
	usedIface := map[reflect.Type]bool{}
	var idents []vpIdentity // every identity produced so far (group members: one entry per member)
	for i := 0; i < o.n; i++ {
		reg := &vpReg{idx: len(w.regs), life: Lifetime(rng.Intn(3))}
		newOut := func() (vpOut, bool) {
			for tries := 0; tries < 20; tries++ {
				slot := rng.Intn(len(vpSlots))
				t := slotType(slot)
				out := vpOut{typ: t, slot: slot}
				switch c := rng.Intn(10); {
				case c < 6:
					if usedPlain[t] {
						continue
					}
					usedPlain[t] = true
				case c < 8:
					keyCount[t]++
					out.name = fmt.Sprintf("k%d_%d", slot, keyCount[t])
				default:
					out.group = fmt.Sprintf("g%d", slot%3)
				}
				return out, true
			}
			return vpOut{}, false
		}
		form := "plain"
		if o.forms {
			switch c := rng.Intn(20); {
			case c < 10:
			case c < 12:
				form = "alias"
			case c < 14:
				form = "multi"
			case c < 16:
				form = "ro"
			case c < 18:
				form = "inst"
			default:
				form = "void"
			}
		}
		reg.form = form
		switch form {
		case "plain", "inst":
			out, ok := newOut()
			if !ok {
				continue
			}
			reg.outs = []vpOut{out}
			if form == "inst" && out.group == "" && rng.Intn(2) == 0 {
				// a value registered under one or two interface types (As): one service, several identities
				for _, it := range rng.Perm(len(vpIfaces))[:1+rng.Intn(2)] {
					if out.name == "" && usedIface[vpIfaces[it]] {
						continue
					}
					if out.name == "" {
						usedIface[vpIfaces[it]] = true
					}
					reg.outs = append(reg.outs, vpOut{typ: vpIfaces[it], slot: out.slot, name: out.name, alias: true})
				}
				if len(reg.outs) > 1 {
					reg.outs[0].hidden = true
					if reg.outs[0].name == "" {
						usedPlain[reg.outs[0].typ] = false
					}
				}
			}
		case "alias":
			out, ok := newOut()
			if !ok {
				continue
			}
			reg.outs = []vpOut{out}
			for _, it := range rng.Perm(len(vpIfaces))[:1+rng.Intn(2)] {
				if out.name == "" && out.group == "" && usedIface[vpIfaces[it]] {
					continue
				}
				if out.name == "" && out.group == "" {
					usedIface[vpIfaces[it]] = true
				}
				// (with Group every alias joins the group of its own interface type: the groups may have different sizes)
				reg.outs = append(reg.outs, vpOut{typ: vpIfaces[it], slot: out.slot, name: out.name, group: out.group, alias: true})
			}
			if len(reg.outs) == 1 {
				reg.form = "plain"
			} else {
				reg.outs[0].hidden = true
				if reg.outs[0].name == "" {
					usedPlain[reg.outs[0].typ] = false
				}
			}
		case "multi":
			// two or three distinct unkeyed types
			k := 2 + rng.Intn(2)
			for len(reg.outs) < k {
				slot := rng.Intn(len(vpSlots))
				t := slotType(slot)
				if usedPlain[t] {
					if rng.Intn(8) == 0 {
						break
					}
					continue
				}
				usedPlain[t] = true
				reg.outs = append(reg.outs, vpOut{typ: t, slot: slot})
			}
			if len(reg.outs) >= 2 && rng.Intn(3) == 0 {
				// one return value declared as an interface type (the constructor may return it nil)
				j, it := 1+rng.Intn(len(reg.outs)-1), rng.Intn(len(vpIfaces))
				if !usedIface[vpIfaces[it]] {
					usedIface[vpIfaces[it]] = true
					usedPlain[reg.outs[j].typ] = false
					reg.outs[j].typ = vpIfaces[it]
				}
			}
			if len(reg.outs) < 2 {
				reg.form = "plain"
				if len(reg.outs) == 0 {
					continue
				}
			} else {
				switch rng.Intn(4) {
				case 0: // Name applies to the first return value only, the others stay unkeyed
					usedPlain[reg.outs[0].typ] = false
					keyCount[reg.outs[0].typ]++
					reg.outs[0].name = fmt.Sprintf("k%d_%d", reg.outs[0].slot, keyCount[reg.outs[0].typ])
				case 1: // Group applies to every return value
					g := fmt.Sprintf("g%d", rng.Intn(3))
					for k := range reg.outs {
						usedPlain[reg.outs[k].typ] = false
						reg.outs[k].group = g
					}
				}
			}
		case "ro":
			k := 2 + rng.Intn(2)
			for len(reg.outs) < k {
				out, ok := newOut()
				if !ok {
					break
				}
				reg.outs = append(reg.outs, out)
			}
			if len(reg.outs) == 0 {
				continue
			}
		case "void":
			reg.life = Scoped
			if rng.Intn(4) == 0 {
				reg.life = Lifetime(rng.Intn(3))
			}
			reg.outs = nil
		}
		if reg.form == "inst" {
			// instance values are registered as singletons only: a scoped/transient instance value is
			// tracked again by every scope that resolves it, which is outside "created by the container"
			reg.life = Singleton
		}
		// dependencies
		nd := rng.Intn(4)
		seen := map[string]bool{}
		for k := 0; k < nd && len(idents) > 0 && reg.form != "inst"; k++ {
			t := idents[rng.Intn(len(idents))]
			d := vpDep{typ: t.typ, name: t.name, group: t.group}
			key := t.typ.String() + "|" + t.name + "|" + t.group
			if seen[key] && rng.Intn(4) != 0 { // the same dependency twice is legal, but rare
				continue
			}
			// a registration depending on a group it belongs to is a cycle
			selfGroup := false
			for _, out := range reg.outs {
				if out.group != "" && out.group == t.group && out.typ == t.typ {
					selfGroup = true
				}
			}
			if selfGroup && !o.defects {
				continue
			}
			if !o.defects && reg.life != Scoped && w.identityScoped(idents, t) {
				continue
			}
			if rng.Intn(5) == 0 { // (an optional group field tolerates nothing a plain group field does not: groups are never absent)
				d.optional = true
			}
			if d.group != "" && rng.Intn(4) == 0 {
				d.extraTag = true
			}
			seen[key] = true
			reg.deps = append(reg.deps, d)
		}
		if rng.Intn(6) == 0 && reg.form != "inst" { // optional dependency on something never registered
			reg.deps = append(reg.deps, vpDep{typ: reflect.TypeOf((*vpMissing)(nil)), optional: true})
		}
		if rng.Intn(8) == 0 && reg.form != "inst" { // empty group
			reg.deps = append(reg.deps, vpDep{typ: slotType(rng.Intn(len(vpSlots))), group: "gempty"})
		}
		if o.defects && reg.form != "inst" {
			switch rng.Intn(12) {
			case 0: // required dependency that is not registered
				reg.deps = append(reg.deps, vpDep{typ: reflect.TypeOf((*vpMissing)(nil))})
			case 1: // forward edge to a later registration's plain type: may close a cycle
				slot := rng.Intn(len(vpSlots))
				reg.deps = append(reg.deps, vpDep{typ: slotType(slot)})
			case 2, 3: // a registered type under a key nobody registered (the same type is provided under other identities)
				if len(idents) > 0 {
					t := idents[rng.Intn(len(idents))]
					reg.deps = append(reg.deps, vpDep{typ: t.typ, name: "nobody"})
					if rng.Intn(2) == 0 && t.group == "" { // and, first, the identity that does exist
						reg.deps = append([]vpDep{{typ: t.typ, name: t.name}}, reg.deps...)
					}
				}
			case 5: // a built-in type under a name: the built-ins are served for the plain identity only, so this one is missing
				reg.deps = append(reg.deps, vpDep{typ: []reflect.Type{contextType, scopeType, providerType}[rng.Intn(3)], name: "request", optional: rng.Intn(4) == 0})
			case 4: // an unkeyed request for a type that is only registered under keys
				if len(idents) > 0 {
					t := idents[rng.Intn(len(idents))]
					if t.name != "" {
						reg.deps = append(reg.deps, vpDep{typ: t.typ})
					}
				}
			}
		}
		for _, d := range reg.deps {
			if d.group != "" || d.optional || d.name != "" {
				reg.useIn = true
			}
		}
		if !reg.useIn && rng.Intn(3) == 0 {
			reg.useIn = true
		}
		reg.withErr = rng.Intn(3) == 0
		for k, out := range reg.outs {
			_ = k
			if out.hidden {
				continue
			}
			idents = append(idents, vpIdentity{typ: out.typ, name: out.name, group: out.group, reg: len(w.regs)})
		}
		w.regs = append(w.regs, reg)
		// a twin: a second registration with exactly the same signature (same return types, same group, same
		// dependencies) but its own function value - the two share code pointer AND signature, so anything that
		// looks a constructor up by those (the analysis cache) must still call the right one (C04)
		allGrouped := len(reg.outs) >= 2
		for _, out := range reg.outs {
			if out.group == "" {
				allGrouped = false
			}
		}
		if reg.form == "alias" && len(reg.outs) >= 2 && reg.outs[0].group != "" && rng.Intn(2) == 0 {
			// a companion in the same group under a different number of interface types: the (interface, group)
			// groups then have different sizes, so an alias's position differs from group to group
			comp := &vpReg{idx: len(w.regs), life: reg.life, form: "alias", useIn: reg.useIn, withErr: reg.withErr,
				deps: append([]vpDep(nil), reg.deps...)}
			first := reg.outs[0]
			comp.outs = []vpOut{first}
			var ifaces []reflect.Type
			if len(reg.outs) == 2 { // one alias so far: the companion takes that one and another one
				ifaces = append(ifaces, reg.outs[1].typ)
				for _, it := range vpIfaces {
					if it != reg.outs[1].typ {
						ifaces = append(ifaces, it)
						break
					}
				}
				if rng.Intn(2) == 0 {
					ifaces[0], ifaces[1] = ifaces[1], ifaces[0]
				}
			} else { // two aliases: the companion takes the second one only
				ifaces = append(ifaces, reg.outs[2].typ)
			}
			for _, it := range ifaces {
				comp.outs = append(comp.outs, vpOut{typ: it, slot: first.slot, group: first.group, alias: true})
			}
			for _, out := range comp.outs {
				if !out.hidden {
					idents = append(idents, vpIdentity{typ: out.typ, name: out.name, group: out.group, reg: len(w.regs)})
				}
			}
			w.regs = append(w.regs, comp)
		}
		if (reg.form == "multi" || reg.form == "ro") && allGrouped && rng.Intn(2) == 0 {
			twin := &vpReg{idx: len(w.regs), life: reg.life, form: reg.form, useIn: reg.useIn, withErr: reg.withErr,
				outs: append([]vpOut(nil), reg.outs...), deps: append([]vpDep(nil), reg.deps...)}
			for _, out := range twin.outs {
				idents = append(idents, vpIdentity{typ: out.typ, name: out.name, group: out.group, reg: len(w.regs)})
			}
			w.regs = append(w.regs, twin)
		}
	}
	// seeded cycles: an earlier registration depends on an identity a later one produces
	if o.defects && len(w.regs) >= 2 && len(idents) > 0 && rng.Intn(2) == 0 {
		for tries := 0; tries < 6; tries++ {
			id := idents[rng.Intn(len(idents))]
			if id.reg == 0 {
				continue
			}
			early := w.regs[rng.Intn(id.reg)]
			if early.form == "inst" {
				continue
			}
			d := vpDep{typ: id.typ, name: id.name, group: id.group}
			if d.group == "" && rng.Intn(3) == 0 {
				d.optional = true // a cycle through an optional dependency is a cycle
			}
			early.deps = append(early.deps, d)
			early.useIn = true
			break
		}
	}
	// a registration godi must REJECT as a whole, after it has already accepted one of its outputs: a result
	// object whose first field is a new group member (or a new named service) and whose second field claims an
	// identity that is taken. Nothing of it may stay behind in any of the collection's views (C17), hence
	// nothing at run time either: the group has no phantom member (C04/C08).
	if o.forms && rng.Intn(4) == 0 {
		var taken *vpIdentity
		for i := range idents {
			if idents[i].name == "" && idents[i].group == "" && w.regs[idents[i].reg].form != "inst" {
				for sl := range vpSlots {
					if slotType(sl) == idents[i].typ {
						taken = &idents[i]
					}
				}
			}
		}
		if taken != nil {
			slotOf := func(t reflect.Type) int {
				for sl := range vpSlots {
					if slotType(sl) == t {
						return sl
					}
				}
				return 0
			}
			first := vpOut{typ: taken.typ, slot: slotOf(taken.typ), group: fmt.Sprintf("g%d", rng.Intn(3))}
			if rng.Intn(2) == 0 {
				first = vpOut{typ: taken.typ, slot: slotOf(taken.typ), name: "rej" + strconv.Itoa(len(w.regs))}
			}
			second := vpOut{typ: taken.typ, slot: slotOf(taken.typ)} // already registered: the whole call is rejected
			outs := []vpOut{first, second}
			if first.group != "" && rng.Intn(2) == 0 {
				// two members of one group before the offending field: the undo has to take both out again
				outs = []vpOut{first, first, second}
			}
			w.regs = append(w.regs, &vpReg{life: Lifetime(rng.Intn(3)), form: "ro", outs: outs, doomed: true})
		}
	}
	w.materialize()
	w.generateFaults(o)
}

// materialize: constructor values and registration options for the registrations described in w.regs
func (w *vpWorld) materialize() {
	// renumber (some iterations were skipped)
	for i, reg := range w.regs {
		reg.idx = i
	}
	for _, reg := range w.regs {
		switch reg.form {
		case "inst":
			obj := reflect.New(slotType(reg.outs[0].slot).Elem())
			b := obj.Interface().(vpObj).base()
			// registered values exist before Build: they carry the smallest instance ids
			w.nextInst++
			*b = vpBase{Ctor: reg.idx + 1, Inst: w.nextInst, Life: reg.life, ScopeN: 0, w: w}
			w.byInst[b.Inst] = b
			reg.inst = b
			reg.fn = obj.Interface()
		default:
			reg.fn = w.makeConstructor(reg)
		}
		if len(reg.outs) > 0 && reg.form != "ro" {
			if reg.outs[0].name != "" {
				reg.opts = append(reg.opts, Name(reg.outs[0].name))
			}
			if reg.outs[0].group != "" {
				reg.opts = append(reg.opts, Group(reg.outs[0].group))
			}
		}
		for _, out := range reg.outs {
			if out.alias {
				switch out.typ {
				case vpIfaces[0]:
					reg.opts = append(reg.opts, As[VI0]())
				case vpIfaces[1]:
					reg.opts = append(reg.opts, As[VI1]())
				case vpIfaces[2]:
					reg.opts = append(reg.opts, As[VI2]())
				}
			}
		}
	}
}

func (w *vpWorld) generateFaults(o vpGenOpts) {
	rng := w.rng
	if o.faults {
		for k := rng.Intn(3); k > 0; k-- {
			reg := w.regs[rng.Intn(len(w.regs))]
			if reg.form == "inst" {
				continue
			}
			how := "panic"
			if reg.withErr && rng.Intn(2) == 0 {
				how = "err"
			}
			w.beh[[2]int{reg.idx + 1, 1 + rng.Intn(3)}] = how
		}
		for k := rng.Intn(4); k > 0; k-- {
			reg := w.regs[rng.Intn(len(w.regs))]
			w.cbeh[[2]int{reg.idx + 1, 1 + rng.Intn(3)}] = true
		}
		// a multi-output constructor (result object, several return values) that returns an error at one of its first
		// invocations - and is asked again later (a failed attempt leaves nothing behind, C15)
		for _, reg := range w.regs {
			if (reg.form == "ro" || reg.form == "multi") && reg.withErr && rng.Intn(2) == 0 {
				w.beh[[2]int{reg.idx + 1, 1 + rng.Intn(2)}] = "err"
			}
			// a consumer (it has dependencies) that fails once and is resolved again: the retry builds its arguments anew
			if reg.form != "inst" && reg.withErr && len(reg.deps) > 0 && rng.Intn(3) == 0 {
				w.beh[[2]int{reg.idx + 1, 1 + rng.Intn(2)}] = "err"
			}
		}
		// a result-object constructor that leaves one field nil at some invocation (any lifetime: D15 is repaired,
		// the identity of the nil field is remembered as constructed-without-value)
		for _, reg := range w.regs {
			if reg.form == "ro" && len(reg.outs) >= 2 && rng.Intn(2) == 0 {
				w.nbeh[[2]int{reg.idx + 1, 1 + rng.Intn(3)}] = rng.Intn(len(reg.outs))
			}
			// a multi-return constructor that returns nil for a return value of interface type
			if reg.form == "multi" && rng.Intn(2) == 0 {
				for k, o := range reg.outs {
					if o.typ.Kind() == reflect.Interface {
						w.nbeh[[2]int{reg.idx + 1, 1 + rng.Intn(3)}] = k
					}
				}
			}
		}
		// an initializer that fails when a later scope is created (its first run is the root scope at Build)
		for _, reg := range w.regs {
			if reg.form == "void" && reg.life == Scoped && rng.Intn(2) == 0 {
				how := "panic"
				if reg.withErr && rng.Intn(2) == 0 {
					how = "err"
				}
				// (the 2nd .. 6th scope: later ones fail while the creating scope already has live children)
				w.beh[[2]int{reg.idx + 1, 2 + rng.Intn(5)}] = how
			}
		}
	}
}

func (w *vpWorld) identityScoped(idents []vpIdentity, t vpIdentity) bool {
	for _, x := range idents {
		if x.typ == t.typ && ((t.group != "" && x.group == t.group) || (t.group == "" && x.group == "" && x.name == t.name)) {
			if w.regs[x.reg].life == Scoped {
				return true
			}
		}
	}
	return false
}

// ---------------------------------------------------------------- one scenario

func (r *vpRun) scenario(rng *rand.Rand, o vpGenOpts) {
	w := r.newWorld(rng)
	w.generate(o)
	r.runWorld(w, rng, o)
}

// regroup: a group gains a member between two Builds of one collection. The late member joins through a
// registration form whose first output is not the group's element type (result-object field, second return
// value with Group), and it has dependencies of its own, two levels deep; a singleton consumes the group.
// The second Build must order the late member's dependencies before the consumer exactly as a fresh collection
// would (C06), and the consumer receives every member in registration order (C04). Runs through the ordinary
// scenario machinery (model correspondence + monitors).
func (r *vpRun) regroup(rng *rand.Rand) {
	w := r.newWorld(rng)
	p := rng.Perm(len(vpSlots))
	m, a, c, d, x := p[0], p[1], p[2], p[3], p[4]
	g := "g" + strconv.Itoa(rng.Intn(3))
	life := Singleton
	if rng.Intn(4) == 0 {
		life = Lifetime(rng.Intn(3))
	}
	out := func(slot int, group string) vpOut { return vpOut{typ: slotType(slot), slot: slot, group: group} }
	early := []*vpReg{
		{life: life, form: "plain", outs: []vpOut{out(m, g)}},
		{life: life, form: "plain", outs: []vpOut{out(a, "")}, deps: []vpDep{{typ: slotType(m), group: g}}, useIn: true},
	}
	if rng.Intn(2) == 0 {
		early[0], early[1] = early[1], early[0]
	}
	late := []*vpReg{
		{life: life, form: "plain", outs: []vpOut{out(c, "")}},
		{life: life, form: "plain", outs: []vpOut{out(d, "")}, deps: []vpDep{{typ: slotType(c)}}},
	}
	lateLife := life
	if rng.Intn(3) == 0 {
		// the late member is scoped: if the consumer is long-lived the second Build must report the lifetime conflict,
		// whatever the first Build did (it may have failed in a constructor)
		lateLife = Scoped
	}
	switch rng.Intn(3) {
	case 0:
		late = append(late, &vpReg{life: lateLife, form: "ro", outs: []vpOut{out(x, ""), out(m, g)}, deps: []vpDep{{typ: slotType(d)}}})
	case 1:
		late = append(late, &vpReg{life: lateLife, form: "multi", outs: []vpOut{out(x, g), out(m, g)}, deps: []vpDep{{typ: slotType(d)}}})
	default:
		late = append(late, &vpReg{life: lateLife, form: "plain", outs: []vpOut{out(m, g)}, deps: []vpDep{{typ: slotType(d)}}})
	}
	rng.Shuffle(len(late), func(i, j int) { late[i], late[j] = late[j], late[i] })
	w.regs = append(early, late...)
	for _, reg := range w.regs {
		reg.withErr = rng.Intn(3) == 0
	}
	if lateLife != life {
		for _, reg := range early {
			reg.withErr = true // so that the preliminary Build can be made to fail in a constructor
		}
		w.preFailWanted = true
	}
	w.materialize()
	r.stats["regroup"]++
	r.runWorld(w, rng, vpGenOpts{rebuild: true, split: len(early)})
}

func (r *vpRun) runWorld(w *vpWorld, rng *rand.Rand, o vpGenOpts) {
	if len(w.regs) == 0 {
		return
	}
	if o.rebuild && !w.hung {
		rr := rand.New(rand.NewSource(int64(len(w.regs))*7919 + int64(r.scen)))
		k := len(w.regs)
		if rr.Intn(2) == 0 {
			k = rr.Intn(len(w.regs) + 1)
		}
		if o.split > 0 {
			k = o.split
		}
		r.addRegs(w, w.regs[:k])
		r.preBuild(w, rr)
		if w.hung {
			return
		}
		r.addRegs(w, w.regs[k:])
		r.finishRegister(w)
	} else {
		r.register(w)
	}
	r.stats["services"] += len(w.regs)
	if !r.build(w) {
		return
	}
	r.stats["nontrivial"]++
	parentOf := map[int]int{}
	scopeCtx := map[int]int{}
	nops := 4 + rng.Intn(14)
	nctx := 0
	privateCtx := map[int]bool{}
	var identities []vpIdentity
	for _, reg := range w.regs {
		for _, out := range reg.outs {
			if !out.hidden {
				identities = append(identities, vpIdentity{typ: out.typ, name: out.name, group: out.group, reg: reg.idx})
			}
		}
	}
	pickScope := func(allowClosed bool) int {
		var cands []int
		for _, n := range w.live {
			if allowClosed || !w.closedSc[n] {
				cands = append(cands, n)
			}
		}
		if len(cands) == 0 || rng.Intn(6) == 0 {
			return -1
		}
		return cands[rng.Intn(len(cands))]
	}
	for op := 0; op < nops; op++ {
		if w.hung {
			return
		}
		switch c := rng.Intn(20); {
		case c < 4: // create scope
			from := pickScope(rng.Intn(10) == 0)
			ctx := 0
			if rng.Intn(3) == 0 {
				nctx++
				par := 0
				var pc context.Context = context.Background()
				if nctx > 1 && rng.Intn(2) == 0 {
					if cand := 1 + rng.Intn(nctx-1); !privateCtx[cand] {
						par = cand
						pc = w.ctxs[par]
					}
				}
				if par == 0 && from >= 0 && !w.closedSc[from] && rng.Intn(3) == 0 {
					// derived from the creating scope's own context (a handler opening a sub-scope with a
					// timeout): used for this one child only, so it behaves like any fresh context —
					// cancelling it closes the child, closing the creating scope cancels it
					pc = w.scopes[from].Context()
					privateCtx[nctx] = true
					r.stats["ctx_derived_from_scope"]++
				}
				pc = context.WithValue(pc, vpCtxKey{}, nctx)
				// a deadline of its own (far away) and a cancellation cause: both must be visible through every
				// scope context derived from it, nested scopes created without a context included (C18)
				pc, _ = context.WithDeadline(pc, vpEpoch.Add(time.Duration(nctx)*time.Hour))
				cx, cancelCause := context.WithCancelCause(pc)
				cause := &vpCause{nctx}
				cancel := func() { cancelCause(cause) }
				w.ctxs[nctx], w.cancels[nctx], w.ctxPar[nctx] = cx, cancel, par
				r.emit(fmt.Sprintf("p ctx %d %d", nctx, par), "ok")
				ctx = nctx
			} else if nctx > 0 && rng.Intn(4) == 0 {
				if cand := 1 + rng.Intn(nctx); !privateCtx[cand] {
					ctx = cand
				}
			}
			before := len(w.live)
			if w.provClosed && from < 0 {
				r.createScope(w, from, ctx)
				break
			}
			r.createScope(w, from, ctx)
			if len(w.live) > before {
				n := w.live[len(w.live)-1]
				if from >= 0 {
					parentOf[n] = from
				}
				scopeCtx[n] = ctx
			}
		case c < 13: // resolve
			s := pickScope(rng.Intn(12) == 0)
			if len(identities) == 0 {
				break
			}
			id := identities[rng.Intn(len(identities))]
			if id.group != "" {
				r.getGroup(w, s, id.typ, id.group)
			} else if rng.Intn(15) == 0 {
				r.get(w, s, reflect.TypeOf((*vpMissing)(nil)), "")
			} else if rng.Intn(15) == 0 {
				r.get(w, s, []reflect.Type{contextType, scopeType, providerType}[rng.Intn(3)], "")
			} else {
				r.get(w, s, id.typ, id.name)
			}
		case c < 16: // close a scope (sometimes again)
			s := pickScope(rng.Intn(4) == 0)
			if s >= 0 {
				r.closeScope(w, s, parentOf)
				r.state(w, s)
				if p, ok := parentOf[s]; ok && !w.closedSc[p] {
					r.state(w, p)
				}
				if !w.provClosed {
					r.state(w, -1)
				}
			}
		case c < 17: // cancel a context
			if nctx > 0 {
				x := 1 + rng.Intn(nctx)
				r.cancel(w, x, parentOf, scopeCtx)
			}
		case c < 18:
			if rng.Intn(3) == 0 {
				r.closeProvider(w, parentOf)
			}
		default:
			s := pickScope(false)
			if s >= 0 {
				r.state(w, s)
			}
		}
	}
	if w.hung {
		return
	}
	r.closeProvider(w, parentOf)
	if !w.hung && rng.Intn(3) == 0 {
		r.closeProvider(w, parentOf)
	}
	// C14: every scope is closed now, so no goroutine started on behalf of a scope may remain -
	// although the contexts the caller passed in have NOT been cancelled yet
	if !w.hung {
		deadline := time.Now().Add(5 * time.Second)
		for runtime.NumGoroutine() > w.baseGoroutines && time.Now().Before(deadline) {
			time.Sleep(2 * time.Millisecond)
		}
		if n := runtime.NumGoroutine(); n > w.baseGoroutines {
			w.fail("C14", "%d goroutine(s) started for scopes are still alive after every scope and the provider were closed (contexts passed by the caller not cancelled)", n-w.baseGoroutines)
			r.emit("p state P", "leak") // flushes the monitor failure with the scenario
		}
	}
	for _, cancel := range w.cancels {
		cancel()
	}
}

// reserved types can never be registered, whatever the form (C18 last sentence)
type vpCtxImpl struct{ context.Context }
type vpProvImpl struct{ Provider }
type vpScopeOut struct {
	Out
	S  Scope
	P0 *PS0
}

func (r *vpRun) reservedTypes(rng *rand.Rand) {
	w := r.newWorld(rng)
	attempts := []struct {
		name string
		add  func(c *collection) error
	}{
		{"context.Context as a second return value", func(c *collection) error {
			return c.AddSingleton(func() (*PS0, context.Context) { return &PS0{}, context.Background() })
		}},
		{"As[context.Context]", func(c *collection) error {
			return c.AddScoped(func() *vpCtxImpl { return &vpCtxImpl{context.Background()} }, As[context.Context]())
		}},
		{"Scope as a result-object field", func(c *collection) error {
			return c.AddTransient(func() vpScopeOut { return vpScopeOut{} })
		}},
		{"Provider as the service type", func(c *collection) error {
			return c.AddSingleton(func() Provider { return nil })
		}},
		{"Scope instance value", func(c *collection) error {
			var s Scope
			return c.AddSingleton(&s)
		}},
		{"Provider as a named second return", func(c *collection) error {
			return c.AddSingleton(func() (*PS1, Provider) { return &PS1{}, nil }, Name("x"))
		}},
		{"context.Context under a name", func(c *collection) error {
			return c.AddScoped(func() context.Context { return context.Background() }, Name("request"))
		}},
		{"Scope in a group", func(c *collection) error {
			return c.AddTransient(func() Scope { return nil }, Group("scopes"))
		}},
		{"As[context.Context] under a name", func(c *collection) error {
			return c.AddSingleton(func() *vpCtxImpl { return &vpCtxImpl{context.Background()} }, As[context.Context](), Name("bg"))
		}},
		{"Provider in a group through an alias", func(c *collection) error {
			return c.AddSingleton(func() *vpProvImpl { return &vpProvImpl{} }, As[Provider](), Group("providers"))
		}},
	}
	rng.Shuffle(len(attempts), func(i, j int) { attempts[i], attempts[j] = attempts[j], attempts[i] })
	for _, a := range attempts[:5+rng.Intn(6)] {
		before := len(w.coll.allDescriptors)
		var err error
		guard(w, "Add*", func() { err = a.add(w.coll) })
		for _, d := range w.coll.allDescriptors {
			if d.Type == contextType || d.Type == scopeType || d.Type == providerType {
				w.fail("C18", "reserved type %v was registered (%s)", d.Type, a.name)
			}
		}
		_ = before
		_ = err
		r.stats["reserved_attempts"]++
	}
	// whatever was accepted, the built-ins still win
	prov, err := w.coll.Build()
	if err == nil {
		if sc, e := prov.CreateScope(nil); e == nil {
			if v, e := sc.Get(contextType); e != nil || v != sc.Context() {
				w.fail("C18", "scope.Get(context.Context) is not the scope's context after reserved-type registration attempts")
			}
			if v, e := sc.Get(scopeType); e != nil || v != sc {
				w.fail("C18", "scope.Get(Scope) is not the scope itself after reserved-type registration attempts")
			}
		}
		prov.Close()
	}
	r.emit("p verdict", "ok")
}

// reentrant: constructors that call back into the container through the injected Provider while Build is
// creating the singletons (a warm-up scope opened and closed inside a singleton constructor). Callbacks are
// not part of the model M5, so this scenario has monitors only (labelled as a test, not a proof): the set is
// valid, so Build must accept it (C08); every scope opened after Build runs every initializer once with the
// built singleton (C02/C08); everything disposable is closed exactly once by Provider.Close (C10).
type vrW struct{ closes atomic.Int32 }
type vrZ struct{ closes atomic.Int32 }
type vrS struct{ z *vrZ }

func (x *vrW) Close() error { x.closes.Add(1); return nil }
func (x *vrZ) Close() error { x.closes.Add(1); return nil }

func (r *vpRun) reentrant(rng *rand.Rand) {
	w := r.newWorld(rng)
	zDependsOnW := rng.Intn(2) == 0 // otherwise the order comes from the map iteration of the sort
	viaScope := rng.Intn(2) == 0
	var ws []*vrW
	var zs []*vrZ
	var warmErr error
	inits := 0
	var initZ *vrZ
	c := w.coll
	var err error
	add := func(e error) {
		if e != nil && err == nil {
			err = e
		}
	}
	var located *vrZ // what the constructor of W finds when it looks the singleton Z up through the container
	var locErr error
	locate := rng.Intn(2) == 0
	if viaScope {
		add(c.AddSingleton(func(sc Scope) *vrW {
			x := &vrW{}
			ws = append(ws, x)
			if locate {
				located, locErr = Resolve[*vrZ](sc)
			}
			child, e := sc.CreateScope(context.Background())
			if e != nil {
				warmErr = e
			} else if e := child.Close(); e != nil {
				warmErr = e
			}
			return x
		}))
	} else {
		add(c.AddSingleton(func(p Provider) *vrW {
			x := &vrW{}
			ws = append(ws, x)
			if locate {
				located, locErr = Resolve[*vrZ](p)
			}
			child, e := p.CreateScope(context.Background())
			if e != nil {
				warmErr = e
			} else if e := child.Close(); e != nil {
				warmErr = e
			}
			return x
		}))
	}
	if zDependsOnW {
		add(c.AddSingleton(func(_ *vrW) *vrZ { x := &vrZ{}; zs = append(zs, x); return x }))
	} else {
		add(c.AddSingleton(func() *vrZ { x := &vrZ{}; zs = append(zs, x); return x }))
	}
	add(c.AddScoped(func(z *vrZ) { inits++; initZ = z }))
	add(c.AddScoped(func(z *vrZ) *vrS { return &vrS{z: z} }))
	if err != nil {
		w.fail("C17", "re-entrant scenario: a valid registration was rejected: %v", err)
		r.emit("p verdict", "ok")
		return
	}
	var prov Provider
	if guard(w, "Build", func() { prov, err = c.Build() }) {
		r.emit("p verdict", "ok")
		return
	}
	r.stats["reentrant"]++
	if err != nil {
		w.fail("C08", "Build rejected a valid registration set whose singleton constructor opens a scope through the injected %s: %v",
			map[bool]string{true: "Scope", false: "Provider"}[viaScope], err)
		r.emit("p verdict", "ok")
		return
	}
	if warmErr != nil {
		w.fail("C08,C13", "the scope opened inside a singleton constructor during Build failed: %v", warmErr)
	}
	if len(ws) != 1 || len(zs) != 1 {
		w.fail("C01", "re-entrant Build ran the singleton constructors %d and %d times", len(ws), len(zs))
	}
	// a singleton looked up through the container from inside another singleton's constructor: either it is not there
	// yet (an error) or it is THE singleton - never a second instance
	if locate {
		if z, e := Resolve[*vrZ](prov); e != nil || (located != nil && located != z) {
			w.fail("C01", "the singleton a constructor located through the injected container during Build (err %v) is not the instance the provider resolves (err %v)", locErr, e)
		}
	}
	before := inits // the root scope has run the initializer once
	if before != 1 {
		w.fail("C02,C08", "after Build the scoped initializer has run %d times (want once, for the root scope)", before)
	}
	for k := 0; k < 1+rng.Intn(3); k++ {
		var sc Scope
		guard(w, "CreateScope", func() { sc, err = prov.CreateScope(nil) })
		if err != nil || sc == nil {
			w.fail("C08", "CreateScope failed after a re-entrant Build: %v", err)
			break
		}
		if inits != before+1 || (len(zs) == 1 && initZ != zs[0]) {
			w.fail("C02,C08", "a new scope ran the initializer %d times / with a singleton that is not the built one", inits-before)
		}
		before = inits
		if v, e := Resolve[*vrS](sc); e != nil || (len(zs) == 1 && v.z != zs[0]) {
			w.fail("C01,C04", "scoped service after a re-entrant Build: err=%v or wrong singleton", e)
		}
		sc.Close()
	}
	guard(w, "Provider.Close", func() { err = prov.Close() })
	for _, x := range ws {
		if n := x.closes.Load(); n != 1 {
			w.fail("C10", "re-entrant scenario: singleton W closed %d times by Provider.Close", n)
		}
	}
	for _, x := range zs {
		if n := x.closes.Load(); n != 1 {
			w.fail("C10", "re-entrant scenario: singleton Z closed %d times by Provider.Close", n)
		}
	}
	r.emit("p verdict", "ok")
}

// midCreation: the owner (a parent scope, or the provider) is closed while a scope is being created from it,
// at the one point where the container calls user code during creation: inside a scoped initializer.
// Deterministic (channels), monitors only: CreateScope then reports the disposed error, and whatever the
// initializers created for the refused scope has been closed exactly once (C10, C13, C14).
type vmD struct {
	scope  string
	closes atomic.Int32
}

func (d *vmD) Close() error { d.closes.Add(1); return nil }

type vmG struct {
	entered chan struct{}
	release chan struct{}
	armed   *atomic.Bool
}

func (g *vmG) Close() error {
	if g.armed.Load() {
		g.entered <- struct{}{}
		<-g.release
	}
	return nil
}

func (r *vpRun) midCreation(rng *rand.Rand) {
	w := r.newWorld(rng)
	viaProvider := rng.Intn(2) == 0
	var mu sync.Mutex
	var made []*vmD
	entered := make(chan struct{}, 8)
	release := make(chan struct{})
	armed := atomic.Bool{}
	c := w.coll
	// a singleton whose Close can be held: Provider.Close is then parked in its last phase (the singletons), after
	// it has dealt with the scopes, while the scope creation it overlaps goes on
	gArmed := atomic.Bool{}
	singleton := &vmG{entered: make(chan struct{}, 1), release: make(chan struct{}), armed: &gArmed}
	holdSingleton := viaProvider && rng.Intn(2) == 0
	if holdSingleton {
		if err := c.AddSingleton(func() *vmG { return singleton }); err != nil {
			w.fail("C17", "mid-creation scenario: %v", err)
		}
	}
	if err := c.AddScoped(func(sc Scope) *vmD {
		d := &vmD{scope: sc.ID()}
		mu.Lock()
		made = append(made, d)
		mu.Unlock()
		return d
	}); err != nil {
		w.fail("C17", "mid-creation scenario: %v", err)
	}
	if err := c.AddScoped(func(_ *vmD) {
		if armed.Load() {
			entered <- struct{}{}
			<-release
		}
	}); err != nil {
		w.fail("C17", "mid-creation scenario: %v", err)
	}
	var prov Provider
	var err error
	if guard(w, "Build", func() { prov, err = c.Build() }) || err != nil {
		w.fail("C08", "mid-creation scenario: Build failed: %v", err)
		r.emit("p verdict", "ok")
		return
	}
	r.stats["mid_creation"]++
	var owner interface {
		CreateScope(context.Context) (Scope, error)
		Close() error
	} = prov
	if !viaProvider {
		p, e := prov.CreateScope(nil)
		if e != nil {
			w.fail("C08", "mid-creation scenario: CreateScope failed: %v", e)
			r.emit("p verdict", "ok")
			return
		}
		owner = p
	}
	armed.Store(true)
	type res struct {
		sc  Scope
		err error
	}
	done := make(chan res, 1)
	go func() {
		defer func() {
			if p := recover(); p != nil {
				done <- res{nil, fmt.Errorf("panic: %v", p)}
			}
		}()
		sc, e := owner.CreateScope(context.Background())
		done <- res{sc, e}
	}()
	select {
	case <-entered:
	case <-time.After(10 * time.Second):
		w.fail("C13", "mid-creation scenario: the initializer of the new scope never ran")
		close(release)
		r.emit("p verdict", "ok")
		return
	}
	closed := make(chan error, 1)
	gArmed.Store(holdSingleton)
	go func() { closed <- owner.Close() }()
	ownerClosed := false
	heldInSingleton := false
	select {
	case <-closed:
		ownerClosed = true
	case <-singleton.entered:
		heldInSingleton = true // Provider.Close has finished with the scopes and is closing the singletons
	case <-time.After(500 * time.Millisecond):
		// the owner's Close may legitimately wait for the creation: let the initializer go on
	}
	armed.Store(false)
	close(release)
	var got res
	select {
	case got = <-done:
	case <-time.After(10 * time.Second):
		w.fail("C09,C13", "CreateScope overlapping the owner's Close never returned")
		gArmed.Store(false)
		close(singleton.release)
		r.emit("p verdict", "ok")
		return
	}
	gArmed.Store(false)
	if heldInSingleton {
		close(singleton.release)
	} else {
		select { // (Close may reach the singleton only now)
		case <-singleton.entered:
			close(singleton.release)
		default:
			close(singleton.release)
		}
	}
	if !ownerClosed {
		select {
		case <-closed:
		case <-time.After(10 * time.Second):
			w.fail("C09,C12,C13", "the owner's Close overlapping a scope creation never returned")
		}
	}
	if viaProvider {
		// Provider.Close has returned: every scope - the one whose creation it overlapped included - is closed, so
		// every instance made for a scope has been closed already, before (not after) the provider finished
		mu.Lock()
		for _, d := range made {
			if n := d.closes.Load(); n != 1 {
				w.fail("C10,C11,C13", "Provider.Close returned while the disposable created for scope %s (its creation overlapped the Close, CreateScope returned err=%v) has been closed %d times", d.scope, got.err, n)
			}
		}
		mu.Unlock()
	}
	if got.err == nil && got.sc != nil {
		// accepted: then it is a live scope of a closed owner only if the owner's Close closed it
		if _, e := got.sc.Get(scopeType); e == nil {
			w.fail("C13", "CreateScope overlapping the owner's Close returned a scope that is still usable after that Close returned")
		}
	} else if got.err != nil && !errors.Is(got.err, ErrScopeDisposed) && !errors.Is(got.err, ErrProviderDisposed) {
		w.fail("C13,C15", "CreateScope overlapping the owner's Close returned %v (want the disposed error)", got.err)
	}
	prov.Close()
	time.Sleep(20 * time.Millisecond) // cancellation watchers
	mu.Lock()
	for _, d := range made {
		if n := d.closes.Load(); n != 1 {
			w.fail("C10,C14", "the disposable created by the initializer of scope %s (its creation overlapped the owner's Close, CreateScope returned err=%v) was closed %d times", d.scope, got.err, n)
		}
	}
	mu.Unlock()
	r.emit("p verdict", "ok")
}

// cancelledCreation (C14, C13): the context passed to CreateScope is cancelled while the scope is being created
// (inside a scoped initializer, the one place where creation calls user code). Whatever CreateScope returns,
// once the dust has settled the scope is closed, the provider (and the parent) no longer track it, its
// disposable has been closed exactly once, and no goroutine is left. Deterministic, monitors only.
func (r *vpRun) cancelledCreation(rng *rand.Rand) {
	w := r.newWorld(rng)
	nested := rng.Intn(2) == 0
	var mu sync.Mutex
	var made []*vmD
	var cancelNow atomic.Value // func()
	c := w.coll
	if err := c.AddScoped(func(sc Scope) *vmD {
		d := &vmD{scope: sc.ID()}
		mu.Lock()
		made = append(made, d)
		mu.Unlock()
		return d
	}); err != nil {
		w.fail("C17", "cancelled-creation scenario: %v", err)
	}
	if err := c.AddScoped(func(_ *vmD) {
		if f, ok := cancelNow.Load().(func()); ok && f != nil {
			f()
			time.Sleep(time.Duration(rng.Intn(3)) * time.Millisecond) // let a watcher (if one is running already) act
		}
	}); err != nil {
		w.fail("C17", "cancelled-creation scenario: %v", err)
	}
	var prov Provider
	var err error
	if guard(w, "Build", func() { prov, err = c.Build() }) || err != nil {
		w.fail("C08", "cancelled-creation scenario: Build failed: %v", err)
		r.emit("p verdict", "ok")
		return
	}
	r.stats["cancelled_creation"]++
	var owner interface {
		CreateScope(context.Context) (Scope, error)
	} = prov
	var parent Scope
	if nested {
		p, e := prov.CreateScope(nil)
		if e != nil {
			w.fail("C08", "cancelled-creation scenario: CreateScope failed: %v", e)
			r.emit("p verdict", "ok")
			return
		}
		owner, parent = p, p
	}
	tracked := func() (int, int) {
		n, _ := vpTableLen(prov, "scopesMu", "scopes")
		k := 0
		if parent != nil {
			k, _ = vpTableLen(parent, "childrenMu", "children")
		}
		return n, k
	}
	baseN, baseK := tracked()
	rounds := 3 + rng.Intn(4)
	for i := 0; i < rounds; i++ {
		ctx, cancel := context.WithCancel(context.Background())
		cancelNow.Store(func() { cancel() })
		var sc Scope
		var e error
		guard(w, "CreateScope", func() { sc, e = owner.CreateScope(ctx) })
		cancelNow.Store(func() {})
		if e == nil && sc != nil {
			w.waitClosed(sc, "scope whose context was cancelled during its creation")
			if _, ge := sc.Get(scopeType); ge == nil {
				w.fail("C13", "a scope whose context was cancelled during its creation is still usable")
			}
		} else if e != nil && !errors.Is(e, context.Canceled) && !errors.Is(e, ErrScopeDisposed) {
			// refusing is legitimate as well; anything else is not
			var re *ResolutionError
			if !errors.As(e, &re) {
				w.fail("C15", "CreateScope with a context cancelled during creation returned %v", e)
			}
		}
		cancel()
	}
	deadline := time.Now().Add(3 * time.Second)
	for {
		n, k := tracked()
		if (n <= baseN && k <= baseK) || time.Now().After(deadline) {
			if n > baseN || k > baseK {
				w.fail("C14", "after %d scope creations whose context was cancelled during the creation, the provider tracks %d scopes (before: %d) and the parent %d children (before: %d), although every one of these scopes is closed", rounds, n, baseN, k, baseK)
			}
			break
		}
		time.Sleep(2 * time.Millisecond)
	}
	mu.Lock()
	for _, d := range made {
		if d.scope == "s1" || (nested && d.scope == "s2") {
			continue // the root scope's / the parent's own instance
		}
		if n := d.closes.Load(); n != 1 {
			w.fail("C10,C14", "the disposable of scope %s, whose context was cancelled during its creation, was closed %d times", d.scope, n)
		}
	}
	mu.Unlock()
	prov.Close()
	r.emit("p verdict", "ok")
}

// lateOutputs (C10, C13): a constructor with several disposable outputs (multiple returns, result object, one value
// under two aliases) closes the scope it is being resolved in before it returns - the sequential form of "the
// construction overlaps a Close". The resolution reports the disposed error and every output that has a Close
// method is closed exactly once. Monitors only.
type vlA struct{ closes atomic.Int32 }
type vlB struct{ closes atomic.Int32 }
type vlC struct{ closes atomic.Int32 }

func (x *vlA) Close() error { x.closes.Add(1); return nil }
func (x *vlB) Close() error { x.closes.Add(1); return nil }
func (x *vlC) Close() error { x.closes.Add(1); return nil }
func (x *vlA) ia()          {}
func (x *vlA) ib()          {}

type vlOut struct {
	Out
	A *vlA
	B *vlB `name:"b"`
	C *vlC `group:"cs"`
}

func (r *vpRun) lateOutputs(rng *rand.Rand) {
	w := r.newWorld(rng)
	c := w.coll
	armed := false
	var as []*vlA
	var bs []*vlB
	var cs []*vlC
	closeIt := func(sc Scope) {
		if armed {
			sc.Close()
		}
	}
	shape := rng.Intn(3)
	life := []Lifetime{Scoped, Transient}[rng.Intn(2)]
	var err error
	switch shape {
	case 0:
		err = c.addService(func(sc Scope) (*vlA, *vlB, *vlC) {
			a, b, x := &vlA{}, &vlB{}, &vlC{}
			as, bs, cs = append(as, a), append(bs, b), append(cs, x)
			closeIt(sc)
			return a, b, x
		}, life)
	case 1:
		err = c.addService(func(sc Scope) vlOut {
			a, b, x := &vlA{}, &vlB{}, &vlC{}
			as, bs, cs = append(as, a), append(bs, b), append(cs, x)
			closeIt(sc)
			return vlOut{A: a, B: b, C: x}
		}, life)
	default:
		err = c.addService(func(sc Scope) *vlA {
			a := &vlA{}
			as = append(as, a)
			closeIt(sc)
			return a
		}, life, As[vsIA](), As[vsIB]())
	}
	if err != nil {
		w.fail("C17", "late-outputs scenario: a valid registration was rejected: %v", err)
		r.emit("p verdict", "ok")
		return
	}
	var prov Provider
	if guard(w, "Build", func() { prov, err = c.Build() }) || err != nil {
		w.fail("C08", "late-outputs scenario: Build failed: %v", err)
		r.emit("p verdict", "ok")
		return
	}
	r.stats["late_outputs"]++
	sc, e := prov.CreateScope(nil)
	if e != nil {
		w.fail("C08", "late-outputs scenario: CreateScope failed: %v", e)
		r.emit("p verdict", "ok")
		return
	}
	armed = true
	var ge error
	guard(w, "Get", func() {
		switch {
		case shape == 2:
			_, ge = Resolve[vsIA](sc)
		case rng.Intn(2) == 0:
			_, ge = Resolve[*vlA](sc)
		default:
			_, ge = ResolveKeyed[*vlB](sc, "b")
		}
	})
	armed = false
	if shape == 1 && ge == nil {
		// (multi-return with a key on output B does not exist in shape 0: only the result object names it)
	}
	if ge == nil {
		w.fail("C13", "late-outputs scenario: the resolution whose constructor closed the scope returned no error")
	} else if !errors.Is(ge, ErrScopeDisposed) && !(shape == 0 && errors.Is(ge, ErrServiceNotFound)) {
		w.fail("C13,C15", "late-outputs scenario: the resolution whose constructor closed the scope returned %v (want the scope-disposed error)", ge)
	}
	prov.Close()
	count := func(what string, n int32) {
		if n != 1 {
			w.fail("C10", "late-outputs scenario (shape %d, %v): output %s of a constructor that returned after its scope was closed has been closed %d times", shape, life, what, n)
		}
	}
	for _, a := range as {
		count("A", a.closes.Load())
	}
	if shape != 2 {
		for _, b := range bs {
			count("B", b.closes.Load())
		}
		for _, x := range cs {
			count("C", x.closes.Load())
		}
	}
	r.emit("p verdict", "ok")
}

// cancelledBuild (C01, C10): the context given to BuildWithContext is cancelled by one of the singleton
// constructors. Either Build reports the cancellation - then everything it created has been closed exactly once -
// or it returns a provider - then that provider is complete: every singleton constructor has run exactly once and
// every singleton identity (plain, named, group member) is resolvable. Monitors only.
type vlT struct{}
type vlAllIn struct {
	In
	A  *vlA
	B  *vlB   `name:"b"`
	Cs []*vlC `group:"cs"`
}

func (r *vpRun) cancelledBuild(rng *rand.Rand) {
	w := r.newWorld(rng)
	c := w.coll
	ctx, cancel := context.WithCancel(context.Background())
	defer cancel()
	calls := map[string]int{}
	var as []*vlA
	var bs []*vlB
	var cs []*vlC
	cancelAt := rng.Intn(4) // which constructor cancels
	tick := func(name string, k int) {
		calls[name]++
		if k == cancelAt {
			cancel()
		}
	}
	withT := rng.Intn(2) == 0
	mk := func(c Collection, tick func(string, int), keep bool) []func() error {
		return []func() error{
			func() error {
				return c.AddSingleton(func() *vlA {
					tick("A", 0)
					a := &vlA{}
					if keep {
						as = append(as, a)
					}
					return a
				})
			},
			func() error {
				return c.AddSingleton(func(_ *vlA) *vlB {
					tick("B", 1)
					b := &vlB{}
					if keep {
						bs = append(bs, b)
					}
					return b
				}, Name("b"))
			},
			func() error {
				return c.AddSingleton(func() *vlC {
					tick("C1", 2)
					x := &vlC{}
					if keep {
						cs = append(cs, x)
					}
					return x
				}, Group("cs"))
			},
			func() error {
				return c.AddSingleton(func(_ *vlA) *vlC {
					tick("C2", 3)
					x := &vlC{}
					if keep {
						cs = append(cs, x)
					}
					return x
				}, Group("cs"))
			},
			// a transient that depends on every singleton: its graph node comes after all of them in every valid order
			func() error {
				if !withT {
					return nil
				}
				return c.AddTransient(func(in vlAllIn) *vlT { return &vlT{} })
			},
		}
	}
	regs := mk(c, tick, true)
	rng.Shuffle(len(regs), func(i, j int) { regs[i], regs[j] = regs[j], regs[i] })
	for _, f := range regs {
		if e := f(); e != nil {
			w.fail("C17", "cancelled-build scenario: a valid registration was rejected: %v", e)
			r.emit("p verdict", "ok")
			return
		}
	}
	var prov Provider
	var err error
	if guard(w, "BuildWithContext", func() { prov, err = c.BuildWithContext(ctx) }) {
		r.emit("p verdict", "ok")
		return
	}
	r.stats["cancelled_build"]++
	// C06: the same registration set with the same constructor behaviour, registered in another order and built again
	// (fresh map seeds), has the same outcome
	for rep := 0; rep < 5 && withT; rep++ {
		c2 := NewCollection()
		ctx2, cancel2 := context.WithCancel(context.Background())
		regs2 := mk(c2, func(_ string, k int) {
			if k == cancelAt {
				cancel2()
			}
		}, false)
		rng.Shuffle(len(regs2), func(i, j int) { regs2[i], regs2[j] = regs2[j], regs2[i] })
		bad := false
		for _, f := range regs2 {
			if f() != nil {
				bad = true
			}
		}
		var p2 Provider
		var err2 error
		if bad || guard(w, "BuildWithContext", func() { p2, err2 = c2.BuildWithContext(ctx2) }) {
			cancel2()
			break
		}
		if p2 != nil {
			p2.Close()
		}
		cancel2()
		if (err2 == nil) != (err == nil) {
			w.fail("C06,C15", "cancelled-build scenario: the context is cancelled inside the constructor of singleton #%d; one Build of this registration set returned err=%v, another (other registration order) err=%v", cancelAt, err, err2)
			break
		}
	}
	closedOnce := func(when, tags string) {
		for _, a := range as {
			if n := a.closes.Load(); n != 1 {
				w.fail(tags, "cancelled-build scenario: singleton A closed %d times %s", n, when)
			}
		}
		for _, b := range bs {
			if n := b.closes.Load(); n != 1 {
				w.fail(tags, "cancelled-build scenario: singleton B closed %d times %s", n, when)
			}
		}
		for _, x := range cs {
			if n := x.closes.Load(); n != 1 {
				w.fail(tags, "cancelled-build scenario: a group singleton closed %d times %s", n, when)
			}
		}
	}
	if err != nil {
		var be *BuildError
		if !errors.As(err, &be) || !errors.Is(err, context.Canceled) {
			w.fail("C15", "cancelled-build scenario: Build failed with %v (want a BuildError wrapping context.Canceled)", err)
		}
		closedOnce("by a Build that reported the cancellation (a failed Build leaves no partial state behind)", "C10,C15")
		r.emit("p verdict", "ok")
		return
	}
	for _, name := range []string{"A", "B", "C1", "C2"} {
		if calls[name] != 1 {
			w.fail("C01", "cancelled-build scenario: Build returned a provider although the constructor of singleton %s has run %d times", name, calls[name])
		}
	}
	if _, e := Resolve[*vlA](prov); e != nil {
		w.fail("C01,C08", "cancelled-build scenario: Build returned a provider whose singleton A does not resolve: %v", e)
	}
	if _, e := ResolveKeyed[*vlB](prov, "b"); e != nil {
		w.fail("C01,C08", "cancelled-build scenario: Build returned a provider whose named singleton B does not resolve: %v", e)
	}
	if l, e := ResolveGroup[*vlC](prov, "cs"); e != nil || len(l) != 2 {
		w.fail("C01,C08", "cancelled-build scenario: Build returned a provider whose singleton group does not resolve: %d members, %v", len(l), e)
	}
	if sc, e := prov.CreateScope(nil); e == nil {
		if l, e := ResolveGroup[*vlC](sc, "cs"); e != nil || len(l) != 2 {
			w.fail("C01,C08", "cancelled-build scenario: the singleton group does not resolve from a scope: %d members, %v", len(l), e)
		}
	}
	prov.Close()
	closedOnce("after Provider.Close", "C10")
	r.emit("p verdict", "ok")
}

// typedNilOutputs (C01, C02): a multi-return constructor returns a nil *pointer* for one return value. A typed nil is a
// value like any other: the constructor has run once, the identity resolves (to that nil pointer) and resolving it
// never runs the constructor again - for singletons (Build's creation loop) and for scoped registrations alike.
type vnA struct{ call int }
type vnB struct{ call int }

func (r *vpRun) typedNilOutputs(rng *rand.Rand) {
	w := r.newWorld(rng)
	c := w.coll
	calls := 0
	life := []Lifetime{Singleton, Scoped}[rng.Intn(2)]
	var err error
	if rng.Intn(2) == 0 {
		err = c.addService(func() (*vnA, *vnB) { calls++; return &vnA{call: calls}, nil }, life)
	} else {
		err = c.addService(func() (*vnB, *vnA) { calls++; return nil, &vnA{call: calls} }, life)
	}
	if err != nil {
		w.fail("C17", "typed-nil scenario: a valid registration was rejected: %v", err)
		r.emit("p verdict", "ok")
		return
	}
	var prov Provider
	if guard(w, "Build", func() { prov, err = c.Build() }) {
		r.emit("p verdict", "ok")
		return
	}
	r.stats["typed_nil"]++
	if err != nil {
		// refusing the registration at Build is a legitimate reading; running the constructor twice is not
		if calls > 1 {
			w.fail("C01", "typed-nil scenario: Build failed after running the %v constructor %d times", life, calls)
		}
		r.emit("p verdict", "ok")
		return
	}
	defer prov.Close()
	if life == Singleton && calls != 1 {
		w.fail("C01", "typed-nil scenario: after Build the singleton constructor (one nil pointer among its return values) has run %d times", calls)
	}
	sc, e := prov.CreateScope(nil)
	if e != nil {
		w.fail("C08", "typed-nil scenario: CreateScope failed: %v", e)
		r.emit("p verdict", "ok")
		return
	}
	var first *vnA
	for k := 0; k < 3; k++ {
		a, ea := Resolve[*vnA](sc)
		_, eb := Resolve[*vnB](sc)
		if ea != nil || a == nil {
			w.fail("C04,C08", "typed-nil scenario: the non-nil return value does not resolve: %v", ea)
			break
		}
		if errors.Is(eb, ErrServiceNotFound) {
			w.fail("C08,C01", "typed-nil scenario: the identity of the nil pointer return value is 'not found' on a provider Build accepted: %v", eb)
		}
		if first == nil {
			first = a
		} else if a != first {
			w.fail("C01,C02", "typed-nil scenario: the %v service was replaced by a second instance (constructor ran %d times)", life, calls)
		}
	}
	if calls != 1 {
		w.fail("C01,C02", "typed-nil scenario: the %v constructor has run %d times for one provider / one scope", life, calls)
	}
	r.emit("p verdict", "ok")
}

// varyingConcrete (C10, C12): a transient registered under an interface type whose constructor returns values of
// different concrete types - some with a Close method, some without. Whether an instance is disposable is a property
// of the instance: every instance that has a Close method is closed exactly once when the scope is closed, whatever
// the instances produced before it looked like.
type vcPlain struct{}
type vcCloser struct{ closes atomic.Int32 }

func (*vcPlain) ia()            {}
func (*vcCloser) ia()           {}
func (x *vcCloser) Close() error { x.closes.Add(1); return nil }

func (r *vpRun) varyingConcrete(rng *rand.Rand) {
	w := r.newWorld(rng)
	c := w.coll
	n := 0
	pattern := rng.Intn(4) // which invocations return a closer
	var closers []*vcCloser
	life := []Lifetime{Transient, Scoped}[rng.Intn(2)]
	err := c.addService(func() vsIA {
		n++
		if (n+pattern)%2 == 0 {
			return &vcPlain{}
		}
		x := &vcCloser{}
		closers = append(closers, x)
		return x
	}, life)
	if err != nil {
		w.fail("C17", "varying-concrete scenario: a valid registration was rejected: %v", err)
		r.emit("p verdict", "ok")
		return
	}
	var prov Provider
	if guard(w, "Build", func() { prov, err = c.Build() }) || err != nil {
		w.fail("C08", "varying-concrete scenario: Build failed: %v", err)
		r.emit("p verdict", "ok")
		return
	}
	r.stats["varying_concrete"]++
	for round := 0; round < 2; round++ {
		sc, e := prov.CreateScope(nil)
		if e != nil {
			w.fail("C08", "varying-concrete scenario: CreateScope failed: %v", e)
			break
		}
		before := len(closers)
		for k := 0; k < 2+rng.Intn(3); k++ {
			if _, e := Resolve[vsIA](sc); e != nil {
				w.fail("C08", "varying-concrete scenario: Resolve failed: %v", e)
			}
		}
		if e := sc.Close(); e != nil {
			w.fail("C12", "varying-concrete scenario: Close returned %v", e)
		}
		for _, x := range closers[before:] {
			if k := x.closes.Load(); k != 1 {
				w.fail("C10,C12", "varying-concrete scenario (%v): an instance with a Close method, produced by a constructor that also returns instances without one, has been closed %d times when its scope was closed", life, k)
			}
		}
	}
	prov.Close()
	r.emit("p verdict", "ok")
}

// overlappingClose: several Close calls overlap while an instance's Close method is running and fails.
// Deterministic (the instance's Close blocks on a channel), monitors only (C12): the call that performs the
// disposal reports the failure, every other overlapping Close of the same scope waits for it and returns nil,
// the Close of an ancestor (or of the provider) that overlaps it reports the failure as well, and the instance
// is closed exactly once.
type voF struct {
	entered chan struct{}
	release chan struct{}
	closes  atomic.Int32
}

func (f *voF) Close() error {
	f.closes.Add(1)
	f.entered <- struct{}{}
	<-f.release
	return errors.New("close of F failed")
}

func (r *vpRun) overlappingClose(rng *rand.Rand) {
	w := r.newWorld(rng)
	mode := rng.Intn(3) // 0: same scope; 1: parent scope over a child in flight; 2: provider over a scope in flight
	f := &voF{entered: make(chan struct{}, 4), release: make(chan struct{})}
	c := w.coll
	if err := c.AddScoped(func() *voF { return f }); err != nil {
		w.fail("C17", "overlapping-close scenario: %v", err)
	}
	var prov Provider
	var err error
	if guard(w, "Build", func() { prov, err = c.Build() }) || err != nil {
		w.fail("C08", "overlapping-close scenario: Build failed: %v", err)
		r.emit("p verdict", "ok")
		return
	}
	r.stats["overlapping_close"]++
	parent, e1 := prov.CreateScope(nil)
	if e1 != nil {
		w.fail("C08", "overlapping-close scenario: CreateScope failed: %v", e1)
		r.emit("p verdict", "ok")
		return
	}
	target := parent
	if mode == 1 {
		if target, e1 = parent.CreateScope(nil); e1 != nil {
			w.fail("C08", "overlapping-close scenario: CreateScope failed: %v", e1)
			r.emit("p verdict", "ok")
			return
		}
	}
	if _, e := Resolve[*voF](target); e != nil {
		w.fail("C08", "overlapping-close scenario: resolution failed: %v", e)
	}
	first := make(chan error, 1)
	go func() { first <- target.Close() }()
	select {
	case <-f.entered:
	case <-time.After(10 * time.Second):
		w.fail("C12,C13", "overlapping-close scenario: Close never reached the instance")
		r.emit("p verdict", "ok")
		return
	}
	// the disposal is in flight; now the overlapping calls
	n := 2 + rng.Intn(2)
	others := make(chan error, n)
	for k := 0; k < n; k++ {
		go func() { others <- target.Close() }()
	}
	var owner chan error
	if mode != 0 {
		owner = make(chan error, 1)
		go func() {
			if mode == 1 {
				owner <- parent.Close()
			} else {
				owner <- prov.Close()
			}
		}()
	}
	time.Sleep(30 * time.Millisecond) // let them reach the wait
	select {
	case e := <-others:
		w.fail("C12,C11", "a Close overlapping the disposal of the same scope returned (%v) while the instance's Close was still running", e)
	default:
	}
	if owner != nil {
		select {
		case e := <-owner:
			w.fail("C12,C11", "the Close of the owner returned (%v) while the disposal of its scope was still running", e)
		default:
		}
	}
	close(f.release)
	wait := func(ch chan error, what string) (error, bool) {
		select {
		case e := <-ch:
			return e, true
		case <-time.After(10 * time.Second):
			w.fail("C12,C13,C09", "%s never returned", what)
			return nil, false
		}
	}
	var de *DisposalError
	if e, ok := wait(first, "the Close that performs the disposal"); ok && (e == nil || !errors.As(e, &de)) {
		w.fail("C12", "the Close that performed the disposal returned %v although the instance's Close failed", e)
	}
	for k := 0; k < n; k++ {
		if e, ok := wait(others, "an overlapping Close"); ok && e != nil {
			w.fail("C12", "a Close that overlapped the disposal (and did not perform it) returned %v, want nil", e)
		}
	}
	if owner != nil {
		if e, ok := wait(owner, "the Close of the owner"); ok && (e == nil || !errors.As(e, &de)) {
			w.fail("C12", "the Close of the %s returned %v although an instance in its subtree failed to close",
				map[int]string{1: "parent scope", 2: "provider"}[mode], e)
		}
	}
	if e := target.Close(); e != nil {
		w.fail("C12", "a later Close returned %v", e)
	}
	prov.Close()
	if k := f.closes.Load(); k != 1 {
		w.fail("C10,C12", "the instance was closed %d times", k)
	}
	r.emit("p verdict", "ok")
}

// siblingRemoved: a multi-output registration (two return values, or two As aliases) whose constructor
// has one dependency; one of its identities is removed again before Build. Whatever is wrong with the
// constructor's dependency (scoped under a long-lived consumer, not registered) is still wrong for the
// surviving identity, and nothing is wrong if the dependency is fine. Monitors only (C07/C08/C05).
type vsDep struct{ id int }
type vsA struct{ d *vsDep }
type vsB struct{ d *vsDep }
type vsIA interface{ ia() }
type vsIB interface{ ib() }

func (*vsA) ia() {}
func (*vsA) ib() {}

func (r *vpRun) siblingRemoved(rng *rand.Rand, idx int) {
	// the shape is enumerated (index of the invocation), every pair of lifetimes is run each time
	aliases, removeFirst, regDep := idx%2 == 0, (idx/2)%2 == 0, (idx/4)%4 != 0
	for _, lifeDep := range []Lifetime{Singleton, Scoped, Transient} {
		for _, lifeM := range []Lifetime{Singleton, Scoped, Transient} {
			r.siblingRemovedOne(rng, lifeDep, lifeM, regDep, aliases, removeFirst)
			r.emit("p verdict", "ok") // drains the monitor failures of this world
		}
	}
}

func (r *vpRun) siblingRemovedOne(rng *rand.Rand, lifeDep, lifeM Lifetime, regDep, aliases, removeFirst bool) {
	w := r.newWorld(rng)
	c := w.coll
	var err error
	if regDep {
		err = c.addService(func() *vsDep { return &vsDep{1} }, lifeDep)
	}
	if err == nil {
		if aliases {
			err = c.addService(func(d *vsDep) *vsA { return &vsA{d} }, lifeM, As[vsIA](), As[vsIB]())
		} else {
			err = c.addService(func(d *vsDep) (*vsA, *vsB) { return &vsA{d}, &vsB{d} }, lifeM)
		}
	}
	if err != nil {
		w.fail("C17", "sibling-removed scenario: a valid registration was rejected: %v", err)
		return
	}
	switch {
	case aliases && removeFirst:
		c.Remove(reflect.TypeOf((*vsIA)(nil)).Elem())
	case aliases:
		c.Remove(reflect.TypeOf((*vsIB)(nil)).Elem())
	case removeFirst:
		c.Remove(reflect.TypeOf(&vsA{}))
	default:
		c.Remove(reflect.TypeOf(&vsB{}))
	}
	want := "ok"
	switch {
	case regDep && lifeDep == Scoped && lifeM != Scoped:
		want = "lifetime"
	case !regDep:
		want = "missing"
	}
	r.stats["sibling_removed"]++
	var prov Provider
	if guard(w, "Build", func() { prov, err = c.Build() }) {
		return
	}
	got := "ok"
	var le *LifetimeConflictError
	var be *BuildError
	switch {
	case err == nil:
	case errors.As(err, &le):
		got = "lifetime"
	case errors.As(err, &be) && be.Phase == "validation" && errors.Is(err, ErrServiceNotFound):
		got = "missing"
	default:
		got = "other: " + err.Error()
	}
	if got != want {
		w.fail("C07,C08", "Build verdict %q after one identity (first=%v) of a %v two-identity registration (aliases=%v) was removed; its constructor depends on *Dep (%v, registered=%v): the registered dependency relation says %q",
			got, removeFirst, lifeM, aliases, lifeDep, regDep, want)
	}
	if err == nil {
		if sc, e := prov.CreateScope(nil); e == nil {
			var e2 error
			switch {
			case aliases && removeFirst:
				_, e2 = Resolve[vsIB](sc)
			case aliases:
				_, e2 = Resolve[vsIA](sc)
			case removeFirst:
				_, e2 = Resolve[*vsB](sc)
			default:
				_, e2 = Resolve[*vsA](sc)
			}
			if e2 != nil {
				w.fail("C08,C17", "the surviving identity of the registration does not resolve after its sibling was removed: %v", e2)
			}
			sc.Close()
		}
		prov.Close()
	}
}

// oddShapes: dependency shapes the generic generator cannot build with reflect.StructOf / MakeFunc — a
// parameter object with an EMBEDDED dependency field, and a plain (ungrouped) dependency of slice type.
// Monitors only (a test of these shapes, not a proof): Build's verdict against the reference verdict of the
// four-service registry (C07/C08), and what the consumers received (C04/C07).
type VoA struct{ id int }
type voP struct{ id int }
type voC struct {
	a  *VoA
	ps []*voP
}
type voInEmb struct {
	In
	*VoA        // embedded dependency (exported through its type name): injected like any other exported field
	Ps   []*voP // plain dependency of slice type (no group tag)
}

func (r *vpRun) oddShapes(rng *rand.Rand) {
	w := r.newWorld(rng)
	lifes := []Lifetime{Singleton, Scoped, Transient}
	lifeA, lifeC, lifeS := lifes[rng.Intn(3)], lifes[rng.Intn(3)], lifes[rng.Intn(3)]
	regA, regS, regP := rng.Intn(4) != 0, rng.Intn(4) != 0, rng.Intn(2) == 0
	ids := 0
	c := w.coll
	var err error
	add := func(life Lifetime, fn any, opts ...AddOption) {
		if e := c.addService(fn, life, opts...); e != nil && err == nil {
			err = e
		}
	}
	if regA {
		add(lifeA, func() *VoA { ids++; return &VoA{ids} })
	}
	if regS { // the SLICE itself is the service
		add(lifeS, func() []*voP { ids++; return []*voP{{ids}} })
	}
	if regP { // an element-typed service must not satisfy (or be required by) the slice dependency
		add(Singleton, func() *voP { ids++; return &voP{ids} })
	}
	add(lifeC, func(in voInEmb) *voC { return &voC{a: in.VoA, ps: in.Ps} })
	if err != nil {
		w.fail("C17", "odd-shapes scenario: a valid registration was rejected: %v", err)
		r.emit("p verdict", "ok")
		return
	}
	// reference verdict: cycle-free by construction
	want := "ok"
	long := lifeC == Singleton || lifeC == Transient
	switch {
	case long && ((regA && lifeA == Scoped) || (regS && lifeS == Scoped)):
		want = "lifetime"
	case !regA || !regS:
		want = "missing"
	}
	r.stats["odd_shapes"]++
	r.stats["odd_verdict:"+want]++
	var prov Provider
	if guard(w, "Build", func() { prov, err = c.Build() }) {
		r.emit("p verdict", "ok")
		return
	}
	got := "ok"
	var le *LifetimeConflictError
	var be *BuildError
	switch {
	case err == nil:
	case errors.As(err, &le):
		got = "lifetime"
	case errors.As(err, &be) && be.Phase == "validation" && errors.Is(err, ErrServiceNotFound):
		got = "missing"
	default:
		got = "other: " + err.Error()
	}
	if got != want {
		w.fail("C07,C08", "Build verdict %q for a consumer (%v) with an embedded parameter-object field (*A %v, registered=%v) and a plain slice dependency ([]*P %v, registered=%v; *P registered=%v): the registered dependency relation says %q",
			got, lifeC, lifeA, regA, lifeS, regS, regP, want)
	}
	if err == nil {
		var sc Scope
		guard(w, "CreateScope", func() { sc, err = prov.CreateScope(nil) })
		if err == nil && sc != nil {
			v, e := Resolve[*voC](sc)
			if e != nil {
				w.fail("C08", "Build accepted the set but the consumer does not resolve: %v", e)
			} else {
				if v.a == nil || len(v.ps) != 1 || v.ps[0] == nil {
					w.fail("C04", "the consumer received a=%v ps=%v (embedded field / slice dependency not injected)", v.a, v.ps)
				}
				if a2, e2 := Resolve[*VoA](sc); e2 == nil && lifeA != Transient && v.a != nil && lifeC != Singleton && a2 != v.a {
					w.fail("C04,C02", "the embedded field received *A #%d, the scope resolves *A #%d", v.a.id, a2.id)
				}
			}
			sc.Close()
		}
		prov.Close()
	}
	r.emit("p verdict", "ok")
}

// watched runs a hand-written scenario (which calls the container directly, without the per-call watchdog of the
// generated scenarios) under a watchdog: a scenario that does not come back within the limit is a hang of the
// implementation (C09/C13: no operation hangs). It is reported as a monitor failure with the scenario's name and
// the run stops there - the stuck goroutine still owns the world.
// buildOverlap (C17 "Build takes a snapshot", C08, C07, C09): one goroutine keeps building one collection while another
// keeps changing it. Every method of the collection takes the collection's lock, so each Build sees the registry
// before or after each change, never in between: a provider Build returned is the provider of a registry that passed
// validation. Monitors: (a) dependency removed and re-added: a provider that was built resolves the consumer from a
// fresh scope; (b) scoped member joining a group that a singleton consumes: either Build reports the lifetime
// conflict or the singleton receives no scoped member; (c) a scoped initializer added after a removal: never both the
// removed service and the later initializer in one provider. No op lines: the model is sequential; what is compared is
// the monitors' verdict.
type voDep struct{}
type voUse struct{ d *voDep }
type voMem struct{ scoped bool }
type voHost struct{ ms []*voMem }
type voHostIn struct {
	In
	Ms []*voMem `group:"vo"`
}
type voGone struct{}

func (r *vpRun) buildOverlap(rng *rand.Rand) {
	w := r.newWorld(rng)
	defer r.emit("p verdict", "ok")
	kind := rng.Intn(3)
	deadline := time.Now().Add(500 * time.Millisecond)
	switch kind {
	case 0:
		c := NewCollection()
		c.AddTransient(func() *voDep { return &voDep{} })
		c.AddTransient(func(d *voDep) *voUse { return &voUse{d: d} })
		var stop atomic.Bool
		done := make(chan struct{})
		go func() {
			defer close(done)
			for !stop.Load() {
				c.Remove(reflect.TypeOf(&voDep{}))
				c.AddTransient(func() *voDep { return &voDep{} })
			}
		}()
		built := 0
		for i := 0; i < 1500 && time.Now().Before(deadline); i++ {
			p, err := c.Build()
			if err != nil {
				if !errors.Is(err, ErrServiceNotFound) {
					w.fail("C08,C17,C15", "build-overlap scenario: Build overlapping Remove/Add of a dependency failed with %v (the only legitimate failure is the missing dependency)", err)
					break
				}
				continue
			}
			built++
			sc, e := p.CreateScope(nil)
			if e == nil {
				if _, e2 := Resolve[*voUse](sc); e2 != nil {
					w.fail("C08,C17,C09", "build-overlap scenario: Build (overlapping Remove/Add of the consumer's dependency) returned a provider, and resolving the consumer from a fresh scope fails: %v", e2)
					p.Close()
					break
				}
			}
			p.Close()
		}
		stop.Store(true)
		<-done
		r.stats["build_overlap_built"] += built
	case 1:
		bad := false
		n := 0
		for ; n < 400 && time.Now().Before(deadline) && !bad; n++ {
			c := NewCollection()
			c.AddSingleton(func(in voHostIn) *voHost { return &voHost{ms: in.Ms} })
			c.AddSingleton(func() *voMem { return &voMem{} }, Group("vo"))
			spin := rng.Intn(3000)
			done := make(chan struct{})
			go func() {
				defer close(done)
				for k := 0; k < spin; k++ {
					_ = k * k
				}
				c.AddScoped(func() *voMem { return &voMem{scoped: true} }, Group("vo"))
			}()
			p, err := c.Build()
			<-done
			if err != nil {
				var le *LifetimeConflictError
				if !errors.As(err, &le) {
					w.fail("C07,C17,C15", "build-overlap scenario: Build overlapping AddScoped(member of a group a singleton consumes) failed with %v (the only legitimate failure is the lifetime conflict)", err)
					bad = true
				}
				continue
			}
			if h, e := Resolve[*voHost](p); e == nil {
				for _, m := range h.ms {
					if m.scoped {
						w.fail("C07,C17,C09", "build-overlap scenario: Build overlapping AddScoped(member of a group a singleton consumes) returned a provider whose singleton received an instance of the scoped registration")
						bad = true
					}
				}
			}
			p.Close()
		}
		r.stats["build_overlap_rounds"] += n
	default:
		bad := false
		n := 0
		for ; n < 400 && time.Now().Before(deadline) && !bad; n++ {
			c := NewCollection()
			var ran atomic.Int32
			gate := make(chan struct{})
			c.AddSingleton(func() *voDep { <-gate; return &voDep{} }) // Build is inside the singleton phase while the gate is shut
			c.AddTransient(func() *voGone { return &voGone{} })
			done := make(chan struct{})
			go func() {
				defer close(done)
				c.Remove(reflect.TypeOf(&voGone{}))
				c.AddScoped(func() { ran.Add(1) })
			}()
			go func() {
				for k := rng.Intn(2000); k > 0; k-- {
					_ = k * k
				}
				close(gate)
			}()
			p, err := c.Build()
			<-done
			if err != nil {
				w.fail("C17,C15", "build-overlap scenario: Build overlapping Remove + AddScoped(initializer) failed: %v", err)
				break
			}
			before := ran.Load()
			sc, e := p.CreateScope(nil)
			if e == nil {
				_, eg := Resolve[*voGone](sc)
				if eg == nil && ran.Load() > before {
					w.fail("C17,C09", "build-overlap scenario: one provider both resolves the service that was removed and runs the scope initializer that was registered after the removal: Build did not take a snapshot")
					bad = true
				}
			}
			p.Close()
		}
		r.stats["build_overlap_rounds"] += n
	}
	r.stats["build_overlap"]++
}

// pointerParamObject (C04, C02): a constructor may take its parameter object by pointer and keep it. The object a
// constructor received is its own: no later resolution - in this or any other scope - rewrites it.
type vqDep struct{ n int }
type vqIn struct {
	In
	D  *vqDep
	Sc Scope
	O  *vqOpt `optional:"true"`
}
type vqOpt struct{}
type vqSvc struct {
	in  *vqIn
	d0  *vqDep
	sc0 Scope
}

type vqEmbCtx struct {
	In
	context.Context
	D *vqDep
}
type vqEmbSc struct {
	In
	Scope
}
type vqE1 struct {
	ctx context.Context
	d   *vqDep
}
type vqE2 struct{ sc Scope }

func (r *vpRun) pointerParamObject(rng *rand.Rand) {
	w := r.newWorld(rng)
	defer r.emit("p verdict", "ok")
	c := NewCollection()
	n := 0
	life := []Lifetime{Scoped, Transient}[rng.Intn(2)]
	e1 := c.(*collection).addService(func() *vqDep { n++; return &vqDep{n: n} }, life)
	e2 := c.(*collection).addService(func(in *vqIn) *vqSvc { return &vqSvc{in: in, d0: in.D, sc0: in.Sc} }, life)
	// built-ins as EMBEDDED fields of a parameter object
	if e := c.(*collection).addService(func(in vqEmbCtx) *vqE1 { return &vqE1{ctx: in.Context, d: in.D} }, life); e != nil && e2 == nil {
		e2 = e
	}
	if e := c.(*collection).addService(func(in vqEmbSc) *vqE2 { return &vqE2{sc: in.Scope} }, life); e != nil && e2 == nil {
		e2 = e
	}
	if e1 != nil || e2 != nil {
		w.fail("C17", "pointer-parameter-object scenario: a valid registration was rejected: %v %v", e1, e2)
		return
	}
	var p Provider
	var err error
	if guard(w, "Build", func() { p, err = c.Build() }) {
		return
	}
	if err != nil {
		w.fail("C08", "pointer-parameter-object scenario: Build rejected a valid registration set: %v", err)
		return
	}
	defer p.Close()
	var svcs []*vqSvc
	var scs []Scope
	for i := 0; i < 6; i++ {
		sc, e := p.CreateScope(nil)
		if e != nil {
			continue
		}
		var s *vqSvc
		if guard(w, "Resolve", func() { s, e = Resolve[*vqSvc](sc) }) {
			return
		}
		if e != nil || s == nil {
			w.fail("C04", "pointer-parameter-object scenario: a constructor taking *struct{In; ...} does not resolve: %v", e)
			return
		}
		svcs = append(svcs, s)
		scs = append(scs, sc)
		if x, e := Resolve[*vqE1](sc); e != nil || x == nil || x.d == nil {
			w.fail("C18,C04", "pointer-parameter-object scenario: a constructor whose parameter object embeds context.Context does not resolve properly: %v", e)
		} else if x.ctx == nil {
			w.fail("C18", "pointer-parameter-object scenario: context.Context embedded in a parameter object was left nil")
		} else if fc, fe := FromContext(x.ctx); fe != nil || fc != sc {
			w.fail("C18", "pointer-parameter-object scenario: the context.Context embedded in a parameter object is not the resolving scope's context (%v)", fe)
		}
		if x, e := Resolve[*vqE2](sc); e != nil || x == nil {
			w.fail("C18,C04", "pointer-parameter-object scenario: a constructor whose parameter object embeds Scope does not resolve: %v", e)
		} else if x.sc != sc {
			w.fail("C18", "pointer-parameter-object scenario: the Scope embedded in a parameter object is %v, not the resolving scope", x.sc)
		}
		if rng.Intn(3) == 0 {
			sc.Close()
		}
	}
	seen := map[*vqIn]int{}
	for i, s := range svcs {
		if s.in == nil {
			w.fail("C04", "pointer-parameter-object scenario: the constructor received a nil parameter object")
			return
		}
		if s.in.D != s.d0 || s.in.Sc != s.sc0 || s.sc0 != scs[i] {
			w.fail("C04,C02,C18", "pointer-parameter-object scenario: the parameter object kept by the service built in scope #%d was rewritten by a later resolution (dependency %p, was %p)", i, s.in.D, s.d0)
			return
		}
		if j, dup := seen[s.in]; dup {
			w.fail("C04,C02,C03", "pointer-parameter-object scenario: the services built in scopes #%d and #%d received the same parameter object", j, i)
			return
		}
		seen[s.in] = i
	}
	r.stats["pointer_param_object"]++
}

// rootHandle (C10 "never early", C01): the provider's own scope can be obtained as a Scope (resolve the built-in
// Scope from the provider, or take it as a parameter of a singleton constructor) and closing that handle is legal: it
// releases what was resolved *from the provider* (root-scoped and transient instances). The singletons belong to the
// provider: they stay open and usable from every other scope until Provider.Close.
func (r *vpRun) rootHandle(rng *rand.Rand) {
	w := r.newWorld(rng)
	defer r.emit("p verdict", "ok")
	c := NewCollection()
	var viaCtor Scope
	e1 := c.AddSingleton(func(sc Scope) *vlA { viaCtor = sc; return &vlA{} })
	e2 := c.AddSingleton(func(_ *vlA) *vlB { return &vlB{} }, Name("b"))
	e3 := c.AddScoped(func(_ *vlA) *vlC { return &vlC{} })
	if e1 != nil || e2 != nil || e3 != nil {
		w.fail("C17", "root-handle scenario: a valid registration was rejected: %v %v %v", e1, e2, e3)
		return
	}
	var p Provider
	var err error
	if guard(w, "Build", func() { p, err = c.Build() }) {
		return
	}
	if err != nil {
		w.fail("C08", "root-handle scenario: Build rejected a valid registration set: %v", err)
		return
	}
	a, ea := Resolve[*vlA](p)
	b, eb := ResolveKeyed[*vlB](p, "b")
	c0, ec := Resolve[*vlC](p) // owned by the provider's own scope
	sc1, es := p.CreateScope(nil)
	if ea != nil || eb != nil || ec != nil || es != nil {
		w.fail("C08", "root-handle scenario: resolution failed: %v %v %v %v", ea, eb, ec, es)
		p.Close()
		return
	}
	c1, _ := Resolve[*vlC](sc1)
	root := viaCtor
	if rng.Intn(2) == 0 {
		root, err = Resolve[Scope](p)
		if err != nil {
			w.fail("C18", "root-handle scenario: the built-in Scope does not resolve from the provider: %v", err)
			p.Close()
			return
		}
	}
	guard(w, "Scope.Close", func() { root.Close() })
	if n := c0.closes.Load(); n != 1 {
		w.fail("C10", "root-handle scenario: closing the provider's own scope closed the scoped instance it owns %d times", n)
	}
	if a.closes.Load() != 0 || b.closes.Load() != 0 {
		w.fail("C10,C11,C01", "root-handle scenario: closing the provider's own scope (a Scope handle) closed singletons (A %d times, B %d times) while the provider is open and another scope is using them", a.closes.Load(), b.closes.Load())
	}
	if c1 != nil && c1.closes.Load() != 0 {
		w.fail("C10", "root-handle scenario: closing the provider's own scope closed an instance owned by another scope")
	}
	if a2, e := Resolve[*vlA](sc1); e != nil || a2 != a {
		w.fail("C01", "root-handle scenario: after the provider's own scope was closed another scope resolves singleton A to %p (%v), was %p", a2, e, a)
	}
	sc1.Close()
	guard(w, "Provider.Close", func() { p.Close() })
	if a.closes.Load() != 1 || b.closes.Load() != 1 || c0.closes.Load() != 1 || (c1 != nil && c1.closes.Load() != 1) {
		w.fail("C10", "root-handle scenario: after Provider.Close: singleton A closed %d times, B %d, the provider scope's instance %d", a.closes.Load(), b.closes.Load(), c0.closes.Load())
	}
	r.stats["root_handle"]++
}

// valueDisposables (C10, C12): services need not be pointers. A small comparable struct with a value-receiver Close is
// a Disposable like any other; two constructor runs that return equal values are still two instances, each owed one
// Close - as singletons (keyed, group members), scoped and transient - and a failing Close of each is reported.
type vhLog struct {
	n    atomic.Int32
	fail bool
}
type vhHandle struct{ log *vhLog }

func (h vhHandle) Close() error {
	h.log.n.Add(1)
	if h.log.fail {
		return errors.New("vh close failed")
	}
	return nil
}

func (r *vpRun) valueDisposables(rng *rand.Rand) {
	w := r.newWorld(rng)
	defer r.emit("p verdict", "ok")
	c := NewCollection()
	lg := &vhLog{fail: rng.Intn(3) == 0}
	life := []Lifetime{Singleton, Scoped, Transient}[rng.Intn(3)]
	var errs []error
	k := 2 + rng.Intn(3)
	grouped := rng.Intn(2) == 0
	for i := 0; i < k; i++ {
		if grouped {
			errs = append(errs, c.(*collection).addService(func() vhHandle { return vhHandle{log: lg} }, life, Group("vh")))
		} else {
			errs = append(errs, c.(*collection).addService(func() vhHandle { return vhHandle{log: lg} }, life, Name("h"+strconv.Itoa(i))))
		}
	}
	for _, e := range errs {
		if e != nil {
			w.fail("C17", "value-disposables scenario: a valid registration was rejected: %v", e)
			return
		}
	}
	var p Provider
	var err error
	if guard(w, "Build", func() { p, err = c.Build() }) {
		return
	}
	if err != nil {
		w.fail("C08", "value-disposables scenario: Build rejected a valid registration set: %v", err)
		return
	}
	sc, e := p.CreateScope(nil)
	if e != nil {
		p.Close()
		return
	}
	made := 0
	if grouped {
		if l, e := ResolveGroup[vhHandle](sc, "vh"); e != nil || len(l) != k {
			w.fail("C04", "value-disposables scenario: the group of %d value-typed services resolves to %d members (%v)", k, len(l), e)
		}
		made = k
	} else {
		for i := 0; i < k; i++ {
			if _, e := ResolveKeyed[vhHandle](sc, "h"+strconv.Itoa(i)); e != nil {
				w.fail("C04", "value-disposables scenario: a value-typed keyed service does not resolve: %v", e)
			}
		}
		made = k
	}
	var ce error
	guard(w, "Scope.Close", func() { ce = sc.Close() })
	if life != Singleton {
		if n := int(lg.n.Load()); n != made {
			w.fail("C10,C12", "value-disposables scenario: the scope created %d %v instances of a comparable value type with Close (equal values); its Close closed %d", made, life, n)
		}
		if (ce != nil) != lg.fail {
			w.fail("C12", "value-disposables scenario: Scope.Close: Close methods fail=%v, returned error=%v", lg.fail, ce)
		}
	} else if n := lg.n.Load(); n != 0 {
		w.fail("C10", "value-disposables scenario: Scope.Close closed %d singletons", n)
	}
	var pe error
	guard(w, "Provider.Close", func() { pe = p.Close() })
	if n := int(lg.n.Load()); n != made {
		w.fail("C10,C12", "value-disposables scenario: the container created %d %v instances of a comparable value type with Close (equal values); after Provider.Close %d Close calls were made", made, life, n)
	}
	if life == Singleton && (pe != nil) != lg.fail {
		w.fail("C12", "value-disposables scenario: Provider.Close: Close methods fail=%v, returned error=%v", lg.fail, pe)
	}
	r.stats["value_disposables"]++
}

// failedSibling (C13, C14): creating one more child scope fails (a scoped initializer returns an error or panics)
// while the creating scope - or the provider - already has live children. The half-built scope is cleaned up; its
// siblings are untouched: they keep working, and Close of the parent / the provider still closes every one of them.
type vfSvc struct{ closes atomic.Int32 }

func (x *vfSvc) Close() error { x.closes.Add(1); return nil }

func (r *vpRun) failedSibling(rng *rand.Rand) {
	w := r.newWorld(rng)
	defer r.emit("p verdict", "ok")
	var failInit atomic.Int32 // 0 ok, 1 error, 2 panic
	c := NewCollection()
	e1 := c.AddScoped(func() error {
		switch failInit.Load() {
		case 1:
			return errors.New("initializer failed")
		case 2:
			panic("initializer panicked")
		}
		return nil
	})
	e2 := c.AddScoped(func() *vfSvc { return &vfSvc{} })
	if e1 != nil || e2 != nil {
		w.fail("C17", "failed-sibling scenario: a valid registration was rejected: %v %v", e1, e2)
		return
	}
	var p Provider
	var err error
	if guard(w, "Build", func() { p, err = c.Build() }) || err != nil {
		w.fail("C08", "failed-sibling scenario: Build failed: %v", err)
		return
	}
	depth := rng.Intn(3) // 0: children of the provider; 1: children of a scope; 2: of a nested scope
	var owner interface {
		CreateScope(context.Context) (Scope, error)
		Close() error
	} = p
	var chain []Scope
	for d := 0; d < depth; d++ {
		sc, e := owner.CreateScope(context.Background())
		if e != nil {
			w.fail("C08", "failed-sibling scenario: CreateScope failed: %v", e)
			p.Close()
			return
		}
		chain = append(chain, sc)
		owner = sc
	}
	nsib := 1 + rng.Intn(3)
	var sibs []Scope
	var svcs []*vfSvc
	for i := 0; i < nsib; i++ {
		var ctx context.Context
		if rng.Intn(2) == 0 {
			ctx = context.Background()
		}
		sc, e := owner.CreateScope(ctx)
		if e != nil {
			w.fail("C08", "failed-sibling scenario: CreateScope failed: %v", e)
			p.Close()
			return
		}
		v, _ := Resolve[*vfSvc](sc)
		sibs = append(sibs, sc)
		svcs = append(svcs, v)
	}
	nfail := 1 + rng.Intn(2)
	for i := 0; i < nfail; i++ {
		failInit.Store(int32(1 + rng.Intn(2)))
		var e error
		guard(w, "CreateScope", func() { _, e = owner.CreateScope(context.Background()) })
		failInit.Store(0)
		if e == nil {
			w.fail("C15,C02", "failed-sibling scenario: CreateScope succeeded although a scoped initializer failed")
		}
	}
	for i, sc := range sibs {
		if v, e := Resolve[*vfSvc](sc); e != nil || v != svcs[i] {
			w.fail("C13,C02", "failed-sibling scenario: after a failed creation of one more child, existing child #%d resolves its scoped service to %p (%v), was %p", i, v, e, svcs[i])
		}
		if svcs[i] != nil && svcs[i].closes.Load() != 0 {
			w.fail("C10", "failed-sibling scenario: the failed creation of one more child closed an instance of existing child #%d", i)
		}
	}
	var ce error
	guard(w, "Close", func() { ce = owner.Close() })
	if ce != nil {
		w.fail("C12", "failed-sibling scenario: Close of the parent returned %v", ce)
	}
	for i, sc := range sibs {
		if _, e := Resolve[*vfSvc](sc); !errors.Is(e, ErrScopeDisposed) && !errors.Is(e, ErrProviderDisposed) {
			w.fail("C13", "failed-sibling scenario: after an earlier creation of one more child had failed, Close of the parent left child #%d open (Resolve: %v)", i, e)
		}
		if _, e := sc.CreateScope(nil); !errors.Is(e, ErrScopeDisposed) && !errors.Is(e, ErrProviderDisposed) {
			w.fail("C13", "failed-sibling scenario: child #%d still creates scopes after its parent's Close: %v", i, e)
		}
		if svcs[i] != nil && svcs[i].closes.Load() != 1 {
			w.fail("C10,C13,C14", "failed-sibling scenario: the scoped instance of child #%d was closed %d times by the parent's Close", i, svcs[i].closes.Load())
		}
		if sc.Context().Err() == nil {
			w.fail("C14", "failed-sibling scenario: the context of child #%d is not cancelled after its parent's Close", i)
		}
	}
	if depth > 0 {
		p.Close()
	}
	if n, _ := vpTableLen(p, "scopesMu", "scopes"); n != 0 {
		w.fail("C14", "failed-sibling scenario: the closed provider still tracks %d scopes", n)
	}
	r.stats["failed_sibling"]++
}

// failedBuildScopes (C10, C11, C13): a singleton constructor opens a scope through the injected Provider (or Scope)
// during Build, resolves a scoped disposable in it and keeps it open; a later singleton constructor fails. The failed
// Build leaves nothing behind: that scope is closed, its instance is closed once - and before the singletons it may
// be using, as in Provider.Close.
type vxStamp struct {
	closes atomic.Int32
	at     atomic.Int32
	seq    *atomic.Int32
}

func (x *vxStamp) Close() error { x.closes.Add(1); x.at.Store(x.seq.Add(1)); return nil }

type vxW struct{ vxStamp }
type vxS struct{ vxStamp }
type vxZ struct{}

func (r *vpRun) failedBuildScopes(rng *rand.Rand) {
	w := r.newWorld(rng)
	defer r.emit("p verdict", "ok")
	c := NewCollection()
	var seq atomic.Int32
	var kept Scope
	var keptS *vxS
	var ws []*vxW
	var openErr error
	viaScope := rng.Intn(3) == 0
	nested := rng.Intn(2) == 0
	open := func(from interface {
		CreateScope(context.Context) (Scope, error)
	}) {
		sc, e := from.CreateScope(context.Background())
		if e == nil && nested {
			sc, e = sc.CreateScope(nil)
		}
		if e != nil {
			openErr = e
			return
		}
		kept = sc
		keptS, openErr = Resolve[*vxS](sc)
	}
	var e1 error
	if viaScope {
		e1 = c.AddSingleton(func(sc Scope) *vxW { x := &vxW{vxStamp{seq: &seq}}; ws = append(ws, x); open(sc); return x })
	} else {
		e1 = c.AddSingleton(func(p Provider) *vxW { x := &vxW{vxStamp{seq: &seq}}; ws = append(ws, x); open(p); return x })
	}
	e2 := c.AddScoped(func() *vxS { return &vxS{vxStamp{seq: &seq}} })
	e3 := c.AddSingleton(func(_ *vxW) (*vxZ, error) { return nil, errors.New("boom") })
	if e1 != nil || e2 != nil || e3 != nil {
		w.fail("C17", "failed-build-scopes scenario: a valid registration was rejected: %v %v %v", e1, e2, e3)
		return
	}
	var err error
	var p Provider
	if guard(w, "Build", func() { p, err = c.Build() }) {
		return
	}
	if err == nil {
		w.fail("C15", "failed-build-scopes scenario: Build succeeded although a singleton constructor returned an error")
		p.Close()
		return
	}
	if openErr != nil || kept == nil || keptS == nil || len(ws) != 1 {
		w.fail("C08,C13", "failed-build-scopes scenario: opening a scope inside a singleton constructor during Build failed: %v", openErr)
		return
	}
	if n := keptS.closes.Load(); n != 1 {
		w.fail("C10,C11,C13", "failed-build-scopes scenario: Build failed after a singleton constructor had opened a scope; the disposable resolved in that scope was closed %d times by the failed Build (the singletons were closed: it outlives them)", n)
	}
	if n := ws[0].closes.Load(); n != 1 {
		w.fail("C10", "failed-build-scopes scenario: the singleton created before the failure was closed %d times by the failed Build", n)
	}
	if keptS.closes.Load() == 1 && ws[0].closes.Load() == 1 && keptS.at.Load() > ws[0].at.Load() {
		w.fail("C11", "failed-build-scopes scenario: the failed Build closed a singleton before the instance of a scope that was opened during Build (scopes are closed before singletons)")
	}
	if _, e := kept.Get(scopeType); !errors.Is(e, ErrScopeDisposed) && !errors.Is(e, ErrProviderDisposed) {
		w.fail("C13,C14", "failed-build-scopes scenario: the scope a singleton constructor opened during the failed Build is still usable: %v", e)
	}
	if kept.Context().Err() == nil {
		w.fail("C14", "failed-build-scopes scenario: the context of the scope opened during the failed Build is not cancelled")
	}
	r.stats["failed_build_scopes"]++
}

// derivedContext (C18, C13): a context derived from one scope's context (a value and a cancellation of its own on top
// of a request scope's context) is handed to Provider.CreateScope / Scope.CreateScope. The new scope is a scope of
// its own whose context is linked to THAT context: the caller's values are visible through it, FromContext leads to
// the new scope, cancelling the derived context closes the new scope and nothing else, and the end of the request
// scope (which cancels everything derived from its context) closes it too.
type vdKey struct{ k string }

func (r *vpRun) derivedContext(rng *rand.Rand) {
	w := r.newWorld(rng)
	defer r.emit("p verdict", "ok")
	c := NewCollection()
	if e := c.AddScoped(func(ctx context.Context, sc Scope) *vfSvc { return &vfSvc{} }); e != nil {
		w.fail("C17", "derived-context scenario: a valid registration was rejected: %v", e)
		return
	}
	var p Provider
	var err error
	if guard(w, "Build", func() { p, err = c.Build() }) || err != nil {
		w.fail("C08", "derived-context scenario: Build failed: %v", err)
		return
	}
	defer p.Close()
	base := context.WithValue(context.Background(), vdKey{"req"}, "request-1")
	req, e := p.CreateScope(base)
	if e != nil {
		w.fail("C08", "derived-context scenario: CreateScope failed: %v", e)
		return
	}
	jobCtx, cancelJob := context.WithCancel(context.WithValue(req.Context(), vdKey{"job"}, "job-7"))
	defer cancelJob()
	viaProvider := rng.Intn(2) == 0
	var job Scope
	if viaProvider {
		guard(w, "CreateScope", func() { job, e = p.CreateScope(jobCtx) })
	} else {
		guard(w, "CreateScope", func() { job, e = req.CreateScope(jobCtx) })
	}
	how := map[bool]string{true: "Provider.CreateScope", false: "Scope.CreateScope"}[viaProvider]
	if e != nil || job == nil {
		w.fail("C18,C08", "derived-context scenario: %s with a context derived from a scope's context failed: %v", how, e)
		return
	}
	jc := job.Context()
	if jc.Value(vdKey{"job"}) != "job-7" || jc.Value(vdKey{"req"}) != "request-1" {
		w.fail("C18", "derived-context scenario: the context of the scope made by %s does not carry the values of the context it was given (job=%v req=%v)", how, jc.Value(vdKey{"job"}), jc.Value(vdKey{"req"}))
	}
	if fc, fe := FromContext(jc); fe != nil || fc != job {
		w.fail("C18", "derived-context scenario: FromContext on the new scope's context does not return the new scope (%v)", fe)
	}
	if fc, fe := FromContext(req.Context()); fe != nil || fc != req {
		w.fail("C18", "derived-context scenario: FromContext on the request scope's context no longer returns the request scope (%v)", fe)
	}
	if v, ge := Resolve[*vfSvc](job); ge != nil || v == nil {
		w.fail("C18,C08", "derived-context scenario: the new scope does not resolve: %v", ge)
	}
	if rng.Intn(2) == 0 {
		// the caller's own cancellation ends the new scope, and only it
		cancelJob()
		w.waitClosed(job, "scope whose derived context was cancelled")
		if _, ge := job.Get(scopeType); !errors.Is(ge, ErrScopeDisposed) {
			w.fail("C13,C18", "derived-context scenario: cancelling the context given to %s did not close the scope made with it: %v", how, ge)
		}
		if _, ge := req.Get(scopeType); ge != nil {
			w.fail("C13,C18", "derived-context scenario: cancelling the derived context closed the request scope: %v", ge)
		}
	} else {
		// the end of the request scope cancels everything derived from its context
		req.Close()
		w.waitClosed(job, "scope whose context derives from a closed scope's context")
		if _, ge := job.Get(scopeType); !errors.Is(ge, ErrScopeDisposed) {
			w.fail("C13,C18", "derived-context scenario: closing the request scope did not close the scope whose context derives from the request scope's context: %v", ge)
		}
	}
	req.Close()
	job.Close()
	r.stats["derived_context"]++
}

// releasedMemory (C14): a scope that was closed on its own is no longer referenced by anything the container keeps
// alive - its parent, the provider, the contexts it was given. Measured with weak pointers (a scope and its context
// reference each other, so finalizers would never run): after Close the harness drops its own references and forces
// garbage collections; the closed scopes must be collected although the owner (a long-lived parent scope, or the
// provider) and the long-lived context stay alive.
func (r *vpRun) releasedMemory(rng *rand.Rand) {
	w := r.newWorld(rng)
	defer r.emit("p verdict", "ok")
	c := NewCollection()
	if e := c.AddScoped(func() *vfSvc { return &vfSvc{} }); e != nil {
		w.fail("C17", "released-memory scenario: a valid registration was rejected: %v", e)
		return
	}
	var p Provider
	var err error
	if guard(w, "Build", func() { p, err = c.Build() }) || err != nil {
		w.fail("C08", "released-memory scenario: Build failed: %v", err)
		return
	}
	defer p.Close()
	var owner interface {
		CreateScope(context.Context) (Scope, error)
	} = p
	what := "the provider"
	if rng.Intn(2) == 0 {
		parent, e := p.CreateScope(nil)
		if e != nil {
			return
		}
		defer parent.Close()
		owner, what = parent, "its (open) parent scope"
	}
	longLived, cancel := context.WithCancel(context.Background())
	defer cancel()
	useCtx := rng.Intn(2) == 0
	// half of the time the scopes are not closed one by one but by the Close of a scope created for them
	viaOwner := rng.Intn(2) == 0
	var group Scope
	if viaOwner {
		g, e := owner.CreateScope(nil)
		if e != nil {
			return
		}
		group, owner = g, g
		what = "a scope that was then closed (closing them with it), itself created under " + what
	}
	const N = 40
	var weaks []weak.Pointer[scope]
	armed := 0
	for i := 0; i < N; i++ {
		var ctx context.Context
		if useCtx {
			ctx = longLived
		}
		sc, e := owner.CreateScope(ctx)
		if e != nil || sc == nil {
			continue
		}
		Resolve[*vfSvc](sc)
		if si, ok := sc.(*scope); ok {
			weaks = append(weaks, weak.Make(si))
			armed++
		}
		if !viaOwner {
			sc.Close()
		}
	}
	if group != nil {
		group.Close()
		group, owner = nil, nil
	}
	if armed < N/2 {
		return // the scope handle is not a plain pointer any more: nothing to measure this way
	}
	released := func() int {
		n := 0
		for _, p := range weaks {
			if p.Value() == nil {
				n++
			}
		}
		return n
	}
	deadline := time.Now().Add(3 * time.Second)
	for released() < armed && time.Now().Before(deadline) {
		runtime.GC()
		time.Sleep(5 * time.Millisecond)
	}
	if got := released(); got < armed*9/10 {
		w.fail("C14", "released-memory scenario: %d scopes were created under %s and closed; after garbage collection only %d of them were released - the others are still referenced although they are closed (context given: %v)", armed, what, got, useCtx)
	}
	r.stats["released_memory"]++
}

// nilThenValue (C15, C02): a single-return constructor with an interface result yields nil once (an error for the
// caller) and a value afterwards. The failed attempt leaves nothing behind in the scope: the next resolution - direct
// or through a dependant - runs the constructor again and behaves like a first attempt.
type vnI interface{ vnMark() }
type vnImpl struct{ n int }

func (*vnImpl) vnMark() {}

type vnUser struct{ i vnI }

func (r *vpRun) nilThenValue(rng *rand.Rand) {
	w := r.newWorld(rng)
	defer r.emit("p verdict", "ok")
	life := []Lifetime{Scoped, Transient}[rng.Intn(2)]
	c := NewCollection().(*collection)
	runs := 0
	failAt := 1 + rng.Intn(2)
	if life == Scoped {
		failAt = 1 // a successful first attempt is cached: the constructor never runs a second time
	}
	e1 := c.addService(func() vnI {
		runs++
		if runs == failAt {
			return nil
		}
		return &vnImpl{n: runs}
	}, life)
	e2 := c.addService(func(i vnI) *vnUser { return &vnUser{i: i} }, life)
	if e1 != nil || e2 != nil {
		w.fail("C17", "nil-then-value scenario: a valid registration was rejected: %v %v", e1, e2)
		return
	}
	var p Provider
	var err error
	if guard(w, "Build", func() { p, err = c.Build() }) || err != nil {
		w.fail("C08", "nil-then-value scenario: Build failed: %v", err)
		return
	}
	defer p.Close()
	sc, e := p.CreateScope(nil)
	if e != nil {
		return
	}
	viaUser := rng.Intn(2) == 0
	attempt := func() (vnI, error) {
		if viaUser {
			u, e := Resolve[*vnUser](sc)
			if e != nil {
				return nil, e
			}
			return u.i, nil
		}
		return Resolve[vnI](sc)
	}
	for k := 1; k <= 3; k++ {
		before := runs
		var v vnI
		var e error
		if guard(w, "Resolve", func() { v, e = attempt() }) {
			return
		}
		switch {
		case runs == before: // no constructor run: only a cache hit of an earlier successful attempt explains it
			if e != nil || v == nil || life != Scoped {
				w.fail("C15,C02", "nil-then-value scenario: attempt %d did not run the constructor and returned (%v, %v): a failed attempt was remembered (the constructor ran %d times in all, its run #%d returned nil)", k, v, e, runs, failAt)
				return
			}
		case runs == before+1 && runs == failAt:
			if e == nil {
				w.fail("C15,C04", "nil-then-value scenario: the constructor returned a nil interface value and the resolution reported no error (value %v)", v)
			}
		case runs == before+1:
			if e != nil || v == nil {
				w.fail("C15,C02", "nil-then-value scenario: attempt %d ran the constructor, which returned a value, and the resolution failed: %v", k, e)
				return
			}
		default:
			w.fail("C02,C03", "nil-then-value scenario: one resolution ran the constructor %d times", runs-before)
			return
		}
	}
	if runs < failAt {
		w.fail("C15,C02", "nil-then-value scenario: three attempts, the constructor ran %d times", runs)
	}
	r.stats["nil_then_value"]++
}

// singletonBurst (C01, C09): a fresh (non-root) scope is asked for eight singletons of eight different types by eight
// goroutines at the same moment - whatever the scope remembers about singletons on first use, every answer is THE
// singleton of the requested type.
type vb1 struct{ _ int }
type vb2 struct{ _ int }
type vb3 struct{ _ int }
type vb4 struct{ _ int }
type vb5 struct{ _ int }
type vb6 struct{ _ int }
type vb7 struct{ _ int }
type vb8 struct{ _ int }

func (r *vpRun) singletonBurst(rng *rand.Rand) {
	w := r.newWorld(rng)
	defer r.emit("p verdict", "ok")
	c := NewCollection()
	c.AddSingleton(func() *vb1 { return &vb1{} })
	c.AddSingleton(func() *vb2 { return &vb2{} })
	c.AddSingleton(func() *vb3 { return &vb3{} })
	c.AddSingleton(func() *vb4 { return &vb4{} })
	c.AddSingleton(func() *vb5 { return &vb5{} })
	c.AddSingleton(func() *vb6 { return &vb6{} })
	c.AddSingleton(func() *vb7 { return &vb7{} })
	c.AddSingleton(func() *vb8 { return &vb8{} })
	types := []reflect.Type{reflect.TypeOf((*vb1)(nil)), reflect.TypeOf((*vb2)(nil)), reflect.TypeOf((*vb3)(nil)), reflect.TypeOf((*vb4)(nil)),
		reflect.TypeOf((*vb5)(nil)), reflect.TypeOf((*vb6)(nil)), reflect.TypeOf((*vb7)(nil)), reflect.TypeOf((*vb8)(nil))}
	var p Provider
	var err error
	if guard(w, "Build", func() { p, err = c.Build() }) || err != nil {
		w.fail("C08", "singleton-burst scenario: Build failed: %v", err)
		return
	}
	defer p.Close()
	want := make([]any, len(types))
	for i, t := range types {
		want[i], _ = p.Get(t)
	}
	for round := 0; round < 60; round++ {
		sc, e := p.CreateScope(nil)
		if e != nil {
			return
		}
		got := make([]any, len(types))
		start := make(chan struct{})
		var wg sync.WaitGroup
		for i := range types {
			wg.Add(1)
			go func(i int) {
				defer wg.Done()
				defer func() { recover() }()
				<-start
				got[i], _ = sc.Get(types[i])
			}(i)
		}
		close(start)
		wg.Wait()
		for i := range types {
			var again any
			if guard(w, "Get", func() { again, _ = sc.Get(types[i]) }) {
				w.fail("C01,C09,C15", "singleton-burst scenario: after eight goroutines had asked a fresh scope for eight singletons at the same moment, Get(%v) on that scope panics", types[i])
				return
			}
			if got[i] != want[i] || again != want[i] {
				w.fail("C01,C09,C04", "singleton-burst scenario: a fresh scope asked for eight singletons at the same moment answered %T (%p) for %v, then %T; the provider's singleton is %p", got[i], got[i], types[i], again, want[i])
				sc.Close()
				return
			}
		}
		sc.Close()
	}
	r.stats["singleton_burst"]++
}

func (r *vpRun) watched(name string, f func()) (hung bool) {
	done := make(chan struct{})
	go func() {
		defer close(done)
		f()
	}()
	select {
	case <-done:
		return false
	case <-time.After(45 * time.Second):
		r.monBad++
		r.stats["monitor_fail:C09,C13"]++
		r.stats["hangs"]++
		fmt.Fprintf(r.mon, "scenario=%d props=C09,C13,C12,C10 what=the hand-written scenario %q did not return within 45s: an operation of the container hangs\n  (scenario %s)\n", r.scen, name, name)
		r.mon.Flush()
		return true
	}
}

func vpEnvInt(name string, def int) int {
	if v := os.Getenv(name); v != "" {
		if n, err := strconv.Atoi(v); err == nil {
			return n
		}
	}
	return def
}

func TestVerifCore(t *testing.T) {
	out := os.Getenv("VERIF_OUT")
	if out == "" {
		t.Skip("VERIF_OUT not set")
	}
	debug.SetMaxStack(64 << 20)
	seed := int64(vpEnvInt("VERIF_SEED", 1))
	open := func(name string) (*os.File, *bufio.Writer) {
		f, err := os.Create(filepath.Join(out, name))
		if err != nil {
			t.Fatal(err)
		}
		return f, bufio.NewWriterSize(f, 1<<20)
	}
	fo, wo := open("ops.txt")
	fb, wb := open("obs.txt")
	fm, wm := open("mon.txt")
	r := &vpRun{ops: wo, obs: wb, mon: wm, stats: map[string]int{}}
	start := time.Now()
	n := vpEnvInt("VERIF_CORE_N", 300)
	only := vpEnvInt("VERIF_CORE_ONLY", -1) // re-run one iteration alone (the check does this after a crash)
	r.flushEach = only >= 0
	for it := 0; it < n; it++ {
		if only >= 0 && it != only {
			continue
		}
		// which iteration is running: read by the check when the process dies (stack overflow, deadlock, ...)
		wo.Flush()
		wb.Flush()
		os.WriteFile(filepath.Join(out, "cur.txt"), []byte(strconv.Itoa(it)), 0o644)
		rng := rand.New(rand.NewSource(seed*1000003 + int64(it)))
		o := vpGenOpts{n: 2 + rng.Intn(7), forms: it%2 == 1, faults: it%3 == 2, defects: it%5 == 4, rebuild: it%7 == 3}
		// the newer hand-written scenarios run IN ADDITION to the generated scenario of their iteration (own random source)
		rngX := rand.New(rand.NewSource(seed*7919 + int64(it)))
		if it%50 == 7 {
			if r.watched("reservedTypes", func() { r.reservedTypes(rng) }) {
				break
			}
			continue
		}
		if it%50 == 23 {
			if r.watched("reentrant", func() { r.reentrant(rng) }) {
				break
			}
			continue
		}
		if it%50 == 37 {
			if r.watched("oddShapes", func() { r.oddShapes(rng) }) {
				break
			}
			continue
		}
		if it%50 == 41 {
			if r.watched("midCreation", func() { r.midCreation(rng) }) {
				break
			}
			continue
		}
		if it%50 == 43 {
			if r.watched("overlappingClose", func() { r.overlappingClose(rng) }) {
				break
			}
			continue
		}
		if it%50 == 47 {
			if r.watched("siblingRemoved", func() { r.siblingRemoved(rng, it/50+int(seed)) }) {
				break
			}
			continue
		}
		if it%50 == 13 || it%50 == 31 {
			if r.watched("regroup", func() { r.regroup(rng) }) {
				break
			}
			continue
		}
		if it%50 == 3 {
			if r.watched("cancelledCreation", func() { r.cancelledCreation(rng) }) {
				break
			}
			continue
		}
		if it%50 == 9 || it%50 == 29 {
			if r.watched("lateOutputs", func() { r.lateOutputs(rng) }) {
				break
			}
			continue
		}
		if it%50 == 17 {
			if r.watched("cancelledBuild", func() { r.cancelledBuild(rng) }) {
				break
			}
			continue
		}
		if it%50 == 19 {
			if r.watched("typedNilOutputs", func() { r.typedNilOutputs(rng) }) {
				break
			}
			continue
		}
		if it%50 == 27 {
			if r.watched("varyingConcrete", func() { r.varyingConcrete(rng) }) {
				break
			}
			continue
		}
		if it%50 == 6 {
			if r.watched("singletonBurst", func() { r.singletonBurst(rngX) }) {
				break
			}
		}
		if it%50 == 4 {
			if r.watched("nilThenValue", func() { r.nilThenValue(rngX) }) {
				break
			}
		}
		if it%50 == 2 {
			if r.watched("releasedMemory", func() { r.releasedMemory(rngX) }) {
				break
			}
		}
		if it%50 == 25 {
			if r.watched("derivedContext", func() { r.derivedContext(rngX) }) {
				break
			}
		}
		if it%50 == 15 || it%50 == 45 {
			if r.watched("failedBuildScopes", func() { r.failedBuildScopes(rngX) }) {
				break
			}
		}
		if it%50 == 5 || it%50 == 35 {
			if r.watched("failedSibling", func() { r.failedSibling(rngX) }) {
				break
			}
		}
		if it%50 == 1 {
			if r.watched("valueDisposables", func() { r.valueDisposables(rngX) }) {
				break
			}
		}
		if it%50 == 49 {
			if r.watched("rootHandle", func() { r.rootHandle(rngX) }) {
				break
			}
		}
		if it%50 == 39 {
			if r.watched("pointerParamObject", func() { r.pointerParamObject(rngX) }) {
				break
			}
		}
		if it%50 == 33 || it%50 == 11 || it%50 == 21 {
			if r.watched("buildOverlap", func() { r.buildOverlap(rngX) }) {
				break
			}
		}
		r.scenario(rng, o)
		if r.w != nil && r.w.hung {
			r.stats["hangs"]++
			if r.stats["hangs"] >= 3 { // every hang costs the watchdog's timeout: three witnesses are enough
				break
			}
		}
	}
	wo.Flush()
	wb.Flush()
	wm.Flush()
	fo.Close()
	fb.Close()
	fm.Close()
	r.stats["scenarios"] = r.scen
	r.stats["lines"] = r.nline
	r.stats["monitor_failures"] = r.monBad
	r.stats["wall_ms"] = int(time.Since(start).Milliseconds())
	js, _ := json.MarshalIndent(r.stats, "", " ")
	os.WriteFile(filepath.Join(out, "stats.json"), js, 0o644)
	t.Logf("core harness: %d scenarios, %d lines, %d monitor failures", r.scen, r.nline, r.monBad)
}
