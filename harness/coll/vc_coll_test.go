package godi

// Correspondence + monitor harness for the collection and modules (M3 / M3'; properties C17, C20).
// Injected into /repo (package godi) with `go test -overlay`; never committed to /repo.
//
// It generates operation sequences in the line protocol of /verif/lean/Driver/Coll.lean, runs them on
// the real collection (side A) and, op by op, on a twin collection (side B) on which every module
// tree is replaced by its flattening into direct calls, and writes
//   ops.txt  the lines the Lean model executes,
//   obs.txt  what side A answered, canonicalised, one line per op line,
//   mon.txt  failures of the direct monitors (the statements of C17 / C20 evaluated on the
//            implementation against a tiny reference registry written independently of godi and of
//            the Lean model, against the twin, and against the collection's unexported views),
//   stats.json  what was generated.

import (
	"bufio"
	"context"
	"encoding/json"
	"errors"
	"fmt"
	"math/rand"
	"os"
	"path/filepath"
	"reflect"
	"sort"
	"strconv"
	"strings"
	"sync"
	"sync/atomic"
	"testing"
	"time"
)

// ------------------------------------------------------------------------------- type pool

type vcT0 struct{ n int }
type vcT1 struct{ n int }
type vcT2 struct{ n int }
type vcT3 struct{ n int }
type vcT4 struct{ n int }
type vcT5 struct{ n int }
type vcI0 interface{ vcM0() }
type vcI1 interface{ vcM1() }

func (*vcT0) vcM0() {}
func (*vcT1) vcM0() {}
func (*vcT1) vcM1() {}
func (*vcT2) vcM1() {}

const (
	vcVoid    = 3  // struct{}: the type of a constructor without results
	vcFirst   = 4  // *vcT0
	vcLast    = 11 // vcI1
	vcUnknown = 50 // any type outside the pool (Out structs, chan int)
)

// type ids: 0,1,2 = the reserved types in the order of the model's `reserved`, 3 = struct{},
// 4..9 = *vcT0..*vcT5, 10,11 = vcI0, vcI1
var vcTypes = []reflect.Type{
	reflect.TypeOf((*context.Context)(nil)).Elem(),
	reflect.TypeOf((*Provider)(nil)).Elem(),
	reflect.TypeOf((*Scope)(nil)).Elem(),
	reflect.TypeOf((*struct{})(nil)).Elem(),
	reflect.TypeOf(&vcT0{}), reflect.TypeOf(&vcT1{}), reflect.TypeOf(&vcT2{}),
	reflect.TypeOf(&vcT3{}), reflect.TypeOf(&vcT4{}), reflect.TypeOf(&vcT5{}),
	reflect.TypeOf((*vcI0)(nil)).Elem(), reflect.TypeOf((*vcI1)(nil)).Elem(),
}
var vcChan = reflect.TypeOf(make(chan int))
var vcErrT = reflect.TypeOf((*error)(nil)).Elem()

func vcTyID(t reflect.Type) int {
	for i, x := range vcTypes {
		if x == t {
			return i
		}
	}
	return vcUnknown
}
func vcTyStr(t reflect.Type) string {
	if t == nil {
		return "-"
	}
	return strconv.Itoa(vcTyID(t))
}
func vcType(id int) reflect.Type {
	if id >= 0 && id < len(vcTypes) {
		return vcTypes[id]
	}
	return vcChan
}

var vcNames = []string{"", "n1", "n2", "x`"}
var vcGroups = []string{"", "g1", "g2", "g`"}

// the generic builders must be instantiated statically
var vcAsOpt = map[int]func() AddOption{
	10: func() AddOption { return As[vcI0]() },
	11: func() AddOption { return As[vcI1]() },
}
var vcRemoveOpt = map[int]func() ModuleOption{
	3: Remove[struct{}], 4: Remove[*vcT0], 5: Remove[*vcT1], 6: Remove[*vcT2], 7: Remove[*vcT3],
	8: Remove[*vcT4], 9: Remove[*vcT5], 10: Remove[vcI0], 11: Remove[vcI1],
}
var vcRemoveKeyedOpt = map[int]func(any) ModuleOption{
	3: RemoveKeyed[struct{}], 4: RemoveKeyed[*vcT0], 5: RemoveKeyed[*vcT1], 6: RemoveKeyed[*vcT2], 7: RemoveKeyed[*vcT3],
	8: RemoveKeyed[*vcT4], 9: RemoveKeyed[*vcT5], 10: RemoveKeyed[vcI0], 11: RemoveKeyed[vcI1],
}

// ------------------------------------------------------------------------------- requests

type vcAs struct {
	ty   int
	impl bool
}
type vcField struct{ ty, name, grp int }

// vcReq is one Add call, exactly the data of a `c add` line.
type vcReq struct {
	life   string // s c t
	ctor   int
	form   string // nil nilptr nilfunc inst fn void out
	prim   int
	name   int
	group  int
	optbad bool
	valbad bool
	as     []vcAs
	rets   []int
	fields []vcField
}

func b01(b bool) string {
	if b {
		return "1"
	}
	return "0"
}

func (q *vcReq) line() string {
	as, rets, fields := "-", "-", "-"
	if len(q.as) > 0 {
		var p []string
		for _, a := range q.as {
			p = append(p, fmt.Sprintf("%d:%s", a.ty, b01(a.impl)))
		}
		as = strings.Join(p, ",")
	}
	if len(q.rets) > 0 {
		var p []string
		for _, t := range q.rets {
			p = append(p, strconv.Itoa(t))
		}
		rets = strings.Join(p, ",")
	}
	if len(q.fields) > 0 {
		var p []string
		for _, f := range q.fields {
			p = append(p, fmt.Sprintf("%d:%d:%d", f.ty, f.name, f.grp))
		}
		fields = strings.Join(p, ",")
	}
	return fmt.Sprintf("add %s ctor=%d form=%s prim=%d name=%d group=%d optbad=%s valbad=%s as=%s rets=%s fields=%s",
		q.life, q.ctor, q.form, q.prim, q.name, q.group, b01(q.optbad), b01(q.valbad), as, rets, fields)
}

func vcParseReq(w []string) (*vcReq, error) {
	if len(w) < 2 || w[0] != "add" {
		return nil, fmt.Errorf("not an add: %v", w)
	}
	q := &vcReq{life: w[1]}
	for _, tok := range w[2:] {
		k, v, ok := strings.Cut(tok, "=")
		if !ok {
			return nil, fmt.Errorf("bad token %q", tok)
		}
		num := func() int { n, _ := strconv.Atoi(v); return n }
		switch k {
		case "ctor":
			q.ctor = num()
		case "form":
			q.form = v
		case "prim":
			q.prim = num()
		case "name":
			q.name = num()
		case "group":
			q.group = num()
		case "optbad":
			q.optbad = v == "1"
		case "valbad":
			q.valbad = v == "1"
		case "as":
			if v != "-" {
				for _, e := range strings.Split(v, ",") {
					a, b, _ := strings.Cut(e, ":")
					t, _ := strconv.Atoi(a)
					q.as = append(q.as, vcAs{t, b == "1"})
				}
			}
		case "rets":
			if v != "-" {
				for _, e := range strings.Split(v, ",") {
					t, _ := strconv.Atoi(e)
					q.rets = append(q.rets, t)
				}
			}
		case "fields":
			if v != "-" {
				for _, e := range strings.Split(v, ",") {
					p := strings.Split(e, ":")
					if len(p) != 3 {
						return nil, fmt.Errorf("bad field %q", e)
					}
					a, _ := strconv.Atoi(p[0])
					b, _ := strconv.Atoi(p[1])
					c, _ := strconv.Atoi(p[2])
					q.fields = append(q.fields, vcField{a, b, c})
				}
			}
		}
	}
	return q, nil
}

// vcOp is a leaf builder: an Add call, Remove or RemoveKeyed.
type vcOp struct {
	kind string // add rm rmk
	req  *vcReq
	ty   int
	key  string // canonical key of rmk
}

func (o *vcOp) line() string {
	switch o.kind {
	case "add":
		return o.req.line()
	case "rm":
		return fmt.Sprintf("rm %d", o.ty)
	}
	return fmt.Sprintf("rmk %d %s", o.ty, o.key)
}

func vcParseOp(w []string) (*vcOp, error) {
	switch {
	case len(w) >= 1 && w[0] == "add":
		q, err := vcParseReq(w)
		return &vcOp{kind: "add", req: q}, err
	case len(w) == 2 && w[0] == "rm":
		t, _ := strconv.Atoi(w[1])
		return &vcOp{kind: "rm", ty: t}, nil
	case len(w) == 3 && w[0] == "rmk":
		t, _ := strconv.Atoi(w[1])
		return &vcOp{kind: "rmk", ty: t, key: w[2]}, nil
	}
	return nil, fmt.Errorf("bad op %v", w)
}

// canonical key -> the `any` handed to the API
func vcKeyAny(k string) any {
	switch {
	case k == "-":
		return nil
	case k[0] == 'n':
		n, _ := strconv.Atoi(k[1:])
		if n >= 0 && n < len(vcNames) {
			return vcNames[n]
		}
		return "n?" + k
	case k[0] == 'i':
		n, _ := strconv.Atoi(k[1:])
		return n
	}
	return "void-keys-are-not-addressable:" + k
}

// module trees
type vcTree struct {
	isNil bool
	op    *vcOp // leaf
	def   int
	name  string
	items []*vcTree // named module when op == nil && !isNil
}

// ------------------------------------------------------------------------------- reference registry

// The reference is the property's own reading of "registry": an ordered list of registrations; a
// call is accepted as a whole or not at all. It knows nothing about maps, marks or rollbacks.
type vcEntry struct {
	ty     int
	key    string
	grp    int
	life   string
	reg    int
	member bool
	void   bool
	inst   bool
	out    bool     // a field of a result object
	stores []string // "ty/key/grp" of the service outputs of the same call (godi's siblings)
}

func (e vcEntry) String() string {
	fl := ""
	if e.void {
		fl += "v"
	}
	if e.inst {
		fl += "i"
	}
	if fl == "" {
		fl = "-"
	}
	return fmt.Sprintf("%d/%s/%d/%s/%d/%s", e.ty, e.key, e.grp, e.life, e.reg, fl)
}

type vcRef struct {
	list    []vcEntry
	voidSeq int
}

func (f *vcRef) clone() *vcRef {
	return &vcRef{list: append([]vcEntry(nil), f.list...), voidSeq: f.voidSeq}
}
func (f *vcRef) find(ty int, key string) (vcEntry, bool) {
	for _, e := range f.list {
		if !e.member && e.ty == ty && e.key == key {
			return e, true
		}
	}
	return vcEntry{}, false
}
func (f *vcRef) members(ty, grp int) []vcEntry {
	var out []vcEntry
	for _, e := range f.list {
		if e.member && e.ty == ty && e.grp == grp {
			out = append(out, e)
		}
	}
	return out
}
func (f *vcRef) remove(ty int, key string) {
	var out []vcEntry
	for _, e := range f.list {
		if !e.member && e.ty == ty && e.key == key {
			continue
		}
		out = append(out, e)
	}
	f.list = out
}
func (f *vcRef) String() string {
	var p []string
	for _, e := range f.list {
		p = append(p, e.String())
	}
	return "[" + strings.Join(p, " ") + "]"
}

// shadowedBy: a live registration of another call whose constructor also stores an output under
// this identity, because that output's registration was removed (known finding D25)
func (f *vcRef) shadowedBy(ty int, key string) (int, bool) {
	e, ok := f.find(ty, key)
	if !ok {
		return 0, false
	}
	id := fmt.Sprintf("%d/%s/%d", e.ty, e.key, e.grp)
	for _, o := range f.list {
		if o.reg == e.reg {
			continue
		}
		for _, s := range o.stores {
			if s == id {
				return o.reg, true
			}
		}
	}
	return 0, false
}
func (f *vcRef) anyShadow() bool {
	for _, e := range f.list {
		if !e.member {
			if _, ok := f.shadowedBy(e.ty, e.key); ok {
				return true
			}
		}
	}
	return false
}

func vcNameKey(n int) string {
	if n == 0 {
		return "-"
	}
	return "n" + strconv.Itoa(n)
}

// add returns whether the call is accepted and the class of the rejection.
func (f *vcRef) add(q *vcReq) (bool, string) {
	switch {
	case q.form == "nil":
		return false, "nil"
	case q.optbad || (q.name != 0 && q.group != 0):
		return false, "options"
	case q.form == "nilptr":
		return false, "nilptr"
	case q.form == "nilfunc":
		return false, "nilfunc"
	}
	key := vcNameKey(q.name)
	if q.form == "void" {
		f.voidSeq++ // a key is drawn for every void constructor that gets this far
		if q.name == 0 {
			key = "v" + strconv.Itoa(f.voidSeq)
		}
	}
	if (key != "-" && q.group != 0) || q.valbad {
		return false, "validate"
	}
	if q.prim < 3 {
		return false, "reserved"
	}
	type out struct {
		e        vcEntry
		mismatch bool
		bothTags bool // a result-object field with a name and a group tag is refused (d35d8b0)
	}
	var outs []out
	base := vcEntry{life: q.life, reg: q.ctor}
	switch {
	case q.form == "out":
		for _, fl := range q.fields {
			e := base
			e.ty, e.key, e.grp, e.out = fl.ty, vcNameKey(fl.name), fl.grp, true
			outs = append(outs, out{e: e, bothTags: fl.name != 0 && fl.grp != 0})
		}
	case q.form != "inst" && len(q.rets) > 1:
		for i, t := range q.rets {
			e := base
			e.ty, e.key, e.grp = t, "-", q.group
			if i == 0 {
				e.key = vcNameKey(q.name)
			}
			outs = append(outs, out{e: e})
		}
	case len(q.as) > 0:
		for _, a := range q.as {
			e := base
			e.ty, e.key, e.grp, e.inst = a.ty, key, q.group, q.form == "inst"
			outs = append(outs, out{e: e, mismatch: !a.impl})
		}
	default:
		e := base
		e.ty, e.key, e.grp, e.void, e.inst = q.prim, key, q.group, q.form == "void", q.form == "inst"
		outs = append(outs, out{e: e})
	}
	var stores []string
	for _, o := range outs {
		if !(o.e.key == "-" && o.e.grp != 0) {
			stores = append(stores, fmt.Sprintf("%d/%s/%d", o.e.ty, o.e.key, o.e.grp))
		}
	}
	trial := f.clone()
	for _, o := range outs {
		o.e.stores = stores
		if o.bothTags {
			return false, "fieldtags"
		}
		if o.mismatch {
			return false, "mismatch"
		}
		if o.e.ty < 3 {
			return false, "reserved"
		}
		e := o.e
		if e.key == "-" && e.grp != 0 {
			e.member = true
			e.key = "i" + strconv.Itoa(len(trial.members(e.ty, e.grp))+1)
		} else if _, dup := trial.find(e.ty, e.key); dup {
			return false, "already"
		}
		trial.list = append(trial.list, e)
	}
	f.list = trial.list
	return true, "ok"
}

// ------------------------------------------------------------------------------- one side

type vcSide struct {
	name    string
	c       *collection
	provs   map[int]Provider
	counts  map[int]int // constructor invocations by ctor id
	owner   map[any]int // instance -> ctor id that produced it
	voidSeq int
	voidMap map[string]int
	descReg map[*Descriptor]int
}

func newSide(name string) *vcSide {
	return &vcSide{name: name, c: NewCollection().(*collection), provs: map[int]Provider{}, counts: map[int]int{},
		owner: map[any]int{}, voidMap: map[string]int{}, descReg: map[*Descriptor]int{}}
}

func (s *vcSide) keyStr(k any) string {
	switch v := k.(type) {
	case nil:
		return "-"
	case int:
		return "i" + strconv.Itoa(v)
	case string:
		for i, n := range vcNames {
			if i > 0 && n == v {
				return "n" + strconv.Itoa(i)
			}
		}
		if n, ok := s.voidMap[v]; ok {
			return "v" + strconv.Itoa(n)
		}
		return "n?" + v
	}
	return fmt.Sprintf("?%v", k)
}

func vcGroupID(g string) int {
	for i, n := range vcGroups {
		if n == g {
			return i
		}
	}
	return 99
}

func (s *vcSide) descStr(d *Descriptor) string {
	if d == nil {
		return "nil"
	}
	life := map[Lifetime]string{Singleton: "s", Scoped: "c", Transient: "t"}[d.Lifetime]
	fl := ""
	if d.VoidReturn {
		fl += "v"
	}
	if d.IsInstance {
		fl += "i"
	}
	if fl == "" {
		fl = "-"
	}
	reg := "?"
	if r, ok := s.descReg[d]; ok {
		reg = strconv.Itoa(r)
	}
	return fmt.Sprintf("%d/%s/%d/%s/%s/%s", vcTyID(d.Type), s.keyStr(d.Key), vcGroupID(d.Group), life, reg, fl)
}

func (s *vcSide) slice() string {
	var p []string
	for _, d := range s.c.ToSlice() {
		p = append(p, s.descStr(d))
	}
	return "[" + strings.Join(p, " ") + "]"
}

// fingerprint of the three unexported views, by pointer
func (s *vcSide) fingerprint() string {
	var b strings.Builder
	for _, d := range s.c.allDescriptors {
		fmt.Fprintf(&b, "%p ", d)
	}
	var sk []string
	for k, d := range s.c.services {
		sk = append(sk, fmt.Sprintf("%d/%s=%p", vcTyID(k.Type), s.keyStr(k.Key), d))
	}
	sort.Strings(sk)
	b.WriteString("| " + strings.Join(sk, " ") + " |")
	var gk []string
	for k, ms := range s.c.groups {
		e := fmt.Sprintf("%d/%d=", vcTyID(k.Type), vcGroupID(k.Group))
		for _, d := range ms {
			e += fmt.Sprintf("%p,", d)
		}
		gk = append(gk, e)
	}
	sort.Strings(gk)
	b.WriteString(" " + strings.Join(gk, " "))
	return b.String()
}

// the same, by content (to compare the two sides)
func (s *vcSide) dump() string {
	var sk []string
	for k, d := range s.c.services {
		sk = append(sk, fmt.Sprintf("%d/%s=%s", vcTyID(k.Type), s.keyStr(k.Key), s.descStr(d)))
	}
	sort.Strings(sk)
	var gk []string
	for k, ms := range s.c.groups {
		e := fmt.Sprintf("%d/%d=", vcTyID(k.Type), vcGroupID(k.Group))
		for _, d := range ms {
			e += s.descStr(d) + ","
		}
		gk = append(gk, e)
	}
	sort.Strings(gk)
	return s.slice() + " | " + strings.Join(sk, " ") + " | " + strings.Join(gk, " ")
}

// ------------------------------------------------------------------------------- the run

type vcRun struct {
	a, b    *vcSide
	ref     *vcRef
	snaps   map[int]*vcRef // reference registry at the time provider p was built
	everIn  map[int]bool   // ctor ids that were part of some built snapshot
	defs    map[int]*vcOp
	ops     *bufio.Writer
	obs     *bufio.Writer
	mon     *bufio.Writer
	scen    int
	nline   int
	monBad  int
	cur     []string
	stats   map[string]int
	nextReg int
	modsSeen int
	nextDef int
	nextP   int
	acc     int
	rej     int
	nontriv int
	// D25 (fixed in /repo 852a640): an output of a multi-output registration that was removed kept
	// being produced. With VERIF_COLL_GHOSTS=0 the generators do not register an identity again after
	// it was removed from a multi-output registration (conservatively: by what they generated).
	ghosts   bool
	multiOut map[string]bool
	burned   map[string]bool
}

// the service identities "ty/key" a request asks for, and whether it has several outputs
func vcIdentities(q *vcReq) ([]string, bool) {
	var ids []string
	n := 0
	add := func(ty int, key string, grp int) {
		n++
		if key != "-" || grp == 0 {
			ids = append(ids, fmt.Sprintf("%d/%s", ty, key))
		}
	}
	switch {
	case q.form == "out":
		for _, f := range q.fields {
			add(f.ty, vcNameKey(f.name), f.grp)
		}
	case q.form != "inst" && len(q.rets) > 1:
		for i, t := range q.rets {
			if i == 0 {
				add(t, vcNameKey(q.name), q.group)
			} else {
				add(t, "-", q.group)
			}
		}
	case len(q.as) > 0:
		for _, a := range q.as {
			add(a.ty, vcNameKey(q.name), q.group)
		}
	default:
		add(q.prim, vcNameKey(q.name), q.group)
	}
	return ids, n > 1
}

// guard reports whether the op would register a removed sibling identity again; with commit it
// records what the op may do
func vcGuard(multiOut, burned map[string]bool, o *vcOp, commit bool) bool {
	switch o.kind {
	case "add":
		ids, multi := vcIdentities(o.req)
		for _, id := range ids {
			if burned[id] {
				return true
			}
		}
		if commit && multi {
			for _, id := range ids {
				multiOut[id] = true
			}
		}
	case "rm", "rmk":
		key := "-"
		if o.kind == "rmk" {
			key = o.key
		}
		if id := fmt.Sprintf("%d/%s", o.ty, key); commit && multiOut[id] {
			burned[id] = true
		}
	}
	return false
}

func (r *vcRun) emit(op, obs string) {
	fmt.Fprintln(r.ops, op)
	fmt.Fprintln(r.obs, obs)
	r.cur = append(r.cur, op)
	r.nline++
}

func (r *vcRun) fail(props, what string) {
	r.monBad++
	if r.monBad > 200 {
		return
	}
	fmt.Fprintf(r.mon, "scenario=%d props=%s what=%s\n", r.scen, props, strings.ReplaceAll(what, "\n", " "))
	for _, l := range r.cur {
		fmt.Fprintf(r.mon, "  %s\n", l)
	}
	r.stats["monitor_fail:"+props]++
}

// canonical unwrap chain: godi's typed layers and the leaf; anonymous fmt wrappers are dropped
func vcErrChain(err error) string {
	if err == nil {
		return "ok"
	}
	var p []string
	for err != nil {
		next := errors.Unwrap(err)
		switch e := err.(type) {
		case ModuleError:
			p = append(p, "mod("+vcModName(e.Module)+")")
		case *ModuleError:
			p = append(p, "mod("+vcModName(e.Module)+")")
		case *RegistrationError:
			p = append(p, fmt.Sprintf("reg(%s,%s)", vcTyStr(e.ServiceType), strings.ReplaceAll(e.Operation, " ", "_")))
		case RegistrationError:
			p = append(p, fmt.Sprintf("reg(%s,%s)", vcTyStr(e.ServiceType), strings.ReplaceAll(e.Operation, " ", "_")))
		case *ValidationError:
			p = append(p, "val("+vcTyStr(e.ServiceType)+")")
		case ValidationError:
			p = append(p, "val("+vcTyStr(e.ServiceType)+")")
		case *ReflectionAnalysisError:
			p = append(p, "refl("+strings.ReplaceAll(e.Operation, " ", "_")+")")
		case ReflectionAnalysisError:
			p = append(p, "refl("+strings.ReplaceAll(e.Operation, " ", "_")+")")
		case *AlreadyRegisteredError:
			p = append(p, "already("+vcTyStr(e.ServiceType)+")")
		case AlreadyRegisteredError:
			p = append(p, "already("+vcTyStr(e.ServiceType)+")")
		case *TypeMismatchError:
			p = append(p, fmt.Sprintf("mismatch(%s,%s)", vcTyStr(e.Expected), vcTyStr(e.Actual)))
		case TypeMismatchError:
			p = append(p, fmt.Sprintf("mismatch(%s,%s)", vcTyStr(e.Expected), vcTyStr(e.Actual)))
		default:
			if err == ErrConstructorNil {
				p = append(p, "nilctor")
			} else if next == nil {
				p = append(p, "text")
			}
		}
		err = next
	}
	return "err " + strings.Join(p, ">")
}

func vcModName(n string) string {
	if n == "" {
		return `""`
	}
	return n
}

// ---- materialising a request

func (r *vcRun) options(q *vcReq) []AddOption {
	var o []AddOption
	if q.ctor%3 == 0 {
		o = append(o, nil) // option lists assembled conditionally contain nil entries: they are ignored
	}
	if q.name != 0 && q.name < len(vcNames) {
		o = append(o, Name(vcNames[q.name]))
	}
	if q.group != 0 && q.group < len(vcGroups) {
		o = append(o, Group(vcGroups[q.group]))
	}
	for _, a := range q.as {
		if f, ok := vcAsOpt[a.ty]; ok {
			o = append(o, f())
		}
	}
	if q.optbad && q.name != 3 && q.group != 3 {
		o = append(o, As[vcT0]()) // not a pointer to an interface
	}
	return o
}

func (s *vcSide) newValue(t reflect.Type, ctor int) reflect.Value {
	switch {
	case t.Kind() == reflect.Pointer:
		v := reflect.New(t.Elem())
		s.owner[v.Interface()] = ctor
		return v
	case t == vcTypes[0]:
		return reflect.ValueOf(context.Background()).Convert(t)
	case t.Kind() == reflect.Chan:
		return reflect.MakeChan(t, 0)
	case t.Kind() == reflect.Interface:
		for _, c := range vcTypes[vcFirst : vcFirst+6] {
			if c.Implements(t) {
				v := reflect.New(c.Elem())
				s.owner[v.Interface()] = ctor
				return v.Convert(t)
			}
		}
	}
	return reflect.Zero(t)
}

func (r *vcRun) service(s *vcSide, q *vcReq) any {
	ctor := q.ctor
	mkfn := func(outs []reflect.Type, fill func() []reflect.Value) any {
		if ctor%2 == 1 {
			outs = append(outs, vcErrT)
		}
		n := len(outs)
		return reflect.MakeFunc(reflect.FuncOf(nil, outs, false), func([]reflect.Value) []reflect.Value {
			s.counts[ctor]++
			res := fill()
			if len(res) < n {
				res = append(res, reflect.Zero(vcErrT))
			}
			return res
		}).Interface()
	}
	switch q.form {
	case "nil":
		return nil
	case "nilptr":
		return (*vcT0)(nil)
	case "nilfunc":
		return (func() *vcT0)(nil)
	case "inst":
		t := vcType(q.prim)
		if t.Kind() != reflect.Pointer {
			return &vcT0{}
		}
		return s.newValue(t, ctor).Interface()
	case "void":
		return mkfn(nil, func() []reflect.Value { return nil })
	case "out":
		fs := []reflect.StructField{{Name: "Out", Type: reflect.TypeOf(Out{}), Anonymous: true}}
		for i, f := range q.fields {
			tag := ""
			if f.name != 0 && f.name < len(vcNames) {
				tag += fmt.Sprintf(`name:"%s" `, vcNames[f.name])
			}
			if f.grp != 0 && f.grp < len(vcGroups) {
				tag += fmt.Sprintf(`group:"%s"`, vcGroups[f.grp])
			}
			fs = append(fs, reflect.StructField{Name: fmt.Sprintf("F%d", i), Type: vcType(f.ty), Tag: reflect.StructTag(strings.TrimSpace(tag))})
		}
		st := reflect.StructOf(fs)
		return mkfn([]reflect.Type{st}, func() []reflect.Value {
			v := reflect.New(st).Elem()
			for i := 1; i < st.NumField(); i++ {
				v.Field(i).Set(s.newValue(st.Field(i).Type, ctor))
			}
			return []reflect.Value{v}
		})
	}
	// fn
	var outs []reflect.Type
	for _, t := range q.rets {
		outs = append(outs, vcType(t))
	}
	base := append([]reflect.Type(nil), outs...)
	return mkfn(outs, func() []reflect.Value {
		var res []reflect.Value
		for _, t := range base {
			res = append(res, s.newValue(t, ctor))
		}
		return res
	})
}

func safely(f func() error) (err error, panicked any) {
	defer func() {
		if p := recover(); p != nil {
			panicked = p
		}
	}()
	return f(), nil
}

// addVia performs one Add call (direct or as a module builder) with the bookkeeping around it:
// which void key was drawn, which descriptors are new, and the atomicity monitor.
func (r *vcRun) addVia(s *vcSide, q *vcReq, call func() error) error {
	before := s.fingerprint()
	n0 := len(s.c.allDescriptors)
	v0 := atomic.LoadUint64(&voidKeyCounter)
	err, p := safely(call)
	if v1 := atomic.LoadUint64(&voidKeyCounter); v1 != v0 {
		s.voidSeq++
		s.voidMap["v"+strconv.FormatUint(v1, 36)] = s.voidSeq
	}
	if p != nil {
		r.fail("C17", fmt.Sprintf("side %s: Add panicked: %v", s.name, p))
		return fmt.Errorf("panic: %v", p)
	}
	if err == nil {
		if len(s.c.allDescriptors) < n0 {
			r.fail("C17", "an accepted Add shortened the descriptor list")
		} else {
			for _, d := range s.c.allDescriptors[n0:] {
				s.descReg[d] = q.ctor
			}
		}
	} else if after := s.fingerprint(); after != before {
		r.fail("C17", fmt.Sprintf("side %s: rejected registration changed the collection (%s): before {%s} after {%s}", s.name, vcErrChain(err), before, after))
	}
	return err
}

func (r *vcRun) callAdd(s *vcSide, q *vcReq) func() error {
	svc, opts := r.service(s, q), r.options(q)
	return func() error {
		switch q.life {
		case "s":
			return s.c.AddSingleton(svc, opts...)
		case "c":
			return s.c.AddScoped(svc, opts...)
		}
		return s.c.AddTransient(svc, opts...)
	}
}

func (r *vcRun) direct(s *vcSide, o *vcOp) error {
	switch o.kind {
	case "add":
		return r.addVia(s, o.req, r.callAdd(s, o.req))
	case "rm":
		s.c.Remove(vcType(o.ty))
	case "rmk":
		s.c.RemoveKeyed(vcType(o.ty), vcKeyAny(o.key))
	}
	return nil
}

// the leaf as godi's own module builder
func (r *vcRun) builder(s *vcSide, o *vcOp) ModuleOption {
	switch o.kind {
	case "add":
		q := o.req
		svc, opts := r.service(s, q), r.options(q)
		var inner ModuleOption
		switch q.life {
		case "s":
			inner = AddSingleton(svc, opts...)
		case "c":
			inner = AddScoped(svc, opts...)
		default:
			inner = AddTransient(svc, opts...)
		}
		return func(c Collection) error { return r.addVia(s, q, func() error { return inner(c) }) }
	case "rm":
		return vcRemoveOpt[o.ty]()
	}
	return vcRemoveKeyedOpt[o.ty](vcKeyAny(o.key))
}

func (r *vcRun) moduleOption(s *vcSide, t *vcTree) ModuleOption {
	if t.isNil {
		return nil
	}
	if t.op != nil {
		return r.builder(s, t.op)
	}
	var items []ModuleOption
	for _, it := range t.items {
		items = append(items, r.moduleOption(s, it))
	}
	return NewModule(t.name, items...)
}

type vcFlat struct {
	op   *vcOp
	path []string
}

func vcFlatten(ts []*vcTree, path []string, out *[]vcFlat) {
	for _, t := range ts {
		switch {
		case t.isNil:
		case t.op != nil:
			*out = append(*out, vcFlat{t.op, append([]string(nil), path...)})
		default:
			vcFlatten(t.items, append(append([]string(nil), path...), t.name), out)
		}
	}
}

func vcDepth(ts []*vcTree) int {
	d := 0
	for _, t := range ts {
		if !t.isNil && t.op == nil {
			if x := 1 + vcDepth(t.items); x > d {
				d = x
			}
		}
	}
	return d
}

func (r *vcRun) treeTokens(ts []*vcTree) string {
	var p []string
	for _, t := range ts {
		switch {
		case t.isNil:
			p = append(p, "_")
		case t.op != nil:
			p = append(p, "@"+strconv.Itoa(t.def))
		default:
			p = append(p, "(", vcModName(t.name))
			if s := r.treeTokens(t.items); s != "" {
				p = append(p, s)
			}
			p = append(p, ")")
		}
	}
	return strings.Join(p, " ")
}

func (r *vcRun) parseTrees(w []string, i *int, top bool) ([]*vcTree, error) {
	var out []*vcTree
	for *i < len(w) {
		t := w[*i]
		*i++
		switch {
		case t == ")":
			if top {
				return nil, fmt.Errorf("unbalanced )")
			}
			return out, nil
		case t == "_":
			out = append(out, &vcTree{isNil: true})
		case t == "(":
			if *i >= len(w) {
				return nil, fmt.Errorf("module without a name")
			}
			name := w[*i]
			*i++
			if name == `""` {
				name = ""
			}
			items, err := r.parseTrees(w, i, false)
			if err != nil {
				return nil, err
			}
			out = append(out, &vcTree{name: name, items: items})
		case strings.HasPrefix(t, "@"):
			k, _ := strconv.Atoi(t[1:])
			o, ok := r.defs[k]
			if !ok {
				return nil, fmt.Errorf("undefined builder %s", t)
			}
			out = append(out, &vcTree{op: o, def: k})
		default:
			return nil, fmt.Errorf("bad tree token %q", t)
		}
	}
	if !top {
		return nil, fmt.Errorf("missing )")
	}
	return out, nil
}

// ---- monitors on the collection after every mutation

func (r *vcRun) checkViews(s *vcSide) {
	c := s.c
	seen := map[*Descriptor]int{}
	for _, d := range c.allDescriptors {
		if d == nil {
			r.fail("C17", "nil entry in the descriptor list")
			continue
		}
		seen[d]++
	}
	n := 0
	for k, d := range c.services {
		n++
		if d == nil || d.Type != k.Type || d.Key != k.Key {
			r.fail("C17", fmt.Sprintf("side %s: services entry %d/%s does not hold a descriptor of that identity", s.name, vcTyID(k.Type), s.keyStr(k.Key)))
		}
		if seen[d] != 1 {
			r.fail("C17", fmt.Sprintf("side %s: registration %s is in services but %d times in the list Build iterates", s.name, s.descStr(d), seen[d]))
		}
	}
	for k, ms := range c.groups {
		if len(ms) == 0 {
			r.fail("C17", fmt.Sprintf("side %s: empty group entry %d/%d", s.name, vcTyID(k.Type), vcGroupID(k.Group)))
		}
		for _, d := range ms {
			n++
			if d == nil || d.Type != k.Type || d.Group != k.Group {
				r.fail("C17", "group entry holds a descriptor of another group")
			}
			if seen[d] != 1 {
				r.fail("C17", fmt.Sprintf("side %s: group member %s is %d times in the list Build iterates", s.name, s.descStr(d), seen[d]))
			}
		}
	}
	if n != len(c.allDescriptors) {
		r.fail("C17", fmt.Sprintf("side %s: %d registrations in services and groups, %d in the list Build iterates (Count)", s.name, n, len(c.allDescriptors)))
	}
}

func (r *vcRun) checkAgainstRef() {
	if got, want := r.a.slice(), r.ref.String(); got != want {
		r.fail("C17", fmt.Sprintf("ToSlice %s, reference registry %s", got, want))
	}
	if r.a.c.Count() != len(r.ref.list) {
		r.fail("C17", fmt.Sprintf("Count %d, reference %d", r.a.c.Count(), len(r.ref.list)))
	}
	r.checkViews(r.a)
	r.checkViews(r.b)
}

func (r *vcRun) checkTwin(props, when string) {
	if da, db := r.a.dump(), r.b.dump(); da != db {
		r.fail(props, fmt.Sprintf("%s: collection {%s} differs from the twin built by direct calls {%s}", when, da, db))
	}
}

// ---- executing lines

var vcQueryKeys = []string{"n1", "n2", "i1"}

func (r *vcRun) exec(line string) {
	w := strings.Fields(line)
	if len(w) < 2 || w[0] != "c" {
		return
	}
	r.stats["op:"+w[1]]++
	num := func(i int) int { v, _ := strconv.Atoi(w[i]); return v }
	switch w[1] {
	case "new":
		for _, s := range []*vcSide{r.a, r.b} {
			if s != nil {
				for _, p := range s.provs {
					p.Close()
				}
			}
		}
		r.a, r.b, r.ref = newSide("A"), newSide("B"), &vcRef{}
		r.snaps, r.everIn, r.defs = map[int]*vcRef{}, map[int]bool{}, map[int]*vcOp{}
		r.multiOut, r.burned = map[string]bool{}, map[string]bool{}
		if r.acc > 0 && r.rej > 0 {
			r.nontriv++
		}
		r.acc, r.rej = 0, 0
		r.scen++
		r.cur = nil
		r.emit("c new", "ok")
	case "add":
		q, err := vcParseReq(w[1:])
		if err != nil {
			panic(err)
		}
		r.stats["form:"+q.form]++
		o := &vcOp{kind: "add", req: q}
		ea := r.direct(r.a, o)
		eb := r.direct(r.b, o)
		r.emit(line, vcErrChain(ea))
		r.afterAdd(q, ea, r.ref, "C17")
		if vcErrChain(ea) != vcErrChain(eb) {
			r.fail("C17", "the same call on two equal collections gave different results")
		}
		r.checkAgainstRef()
		r.checkTwin("C17", "after add")
	case "rm", "rmk":
		o, err := vcParseOp(w[1:])
		if err != nil {
			panic(err)
		}
		r.direct(r.a, o)
		r.direct(r.b, o)
		key := "-"
		if o.kind == "rmk" {
			key = o.key
		}
		r.ref.remove(o.ty, key)
		r.emit(line, "ok")
		// C17: the removed identity is in none of the views
		t, k := vcType(o.ty), vcKeyAny(key)
		if r.a.c.ContainsKeyed(t, k) {
			r.fail("C17", "Contains reports a removed registration")
		}
		for _, d := range r.a.c.ToSlice() {
			if _, member := d.Key.(int); !member && d.Type == t && d.Key == k {
				r.fail("C17", "a removed registration is still in ToSlice, the list Build iterates")
			}
		}
		r.checkAgainstRef()
		r.checkTwin("C17", "after remove")
	case "def":
		o, err := vcParseOp(w[3:])
		if err != nil {
			panic(err)
		}
		r.defs[num(2)] = o
		r.emit(line, "ok")
	case "mods":
		i := 2
		trees, err := r.parseTrees(w, &i, true)
		if err != nil {
			panic(err)
		}
		r.execMods(line, trees)
	case "contains":
		r.emit(line, strconv.FormatBool(r.a.c.Contains(vcType(num(2)))))
		_, want := r.ref.find(num(2), "-")
		if r.a.c.Contains(vcType(num(2))) != want {
			r.fail("C17", fmt.Sprintf("Contains(%d) is %v, reference registry says %v", num(2), !want, want))
		}
	case "containsk":
		got := r.a.c.ContainsKeyed(vcType(num(2)), vcKeyAny(w[3]))
		r.emit(line, strconv.FormatBool(got))
		if _, want := r.ref.find(num(2), w[3]); got != want {
			r.fail("C17", fmt.Sprintf("ContainsKeyed(%d,%s) is %v, reference registry says %v", num(2), w[3], got, want))
		}
	case "hasgroup":
		g := ""
		if num(3) < len(vcGroups) {
			g = vcGroups[num(3)]
		}
		got := r.a.c.HasGroup(vcType(num(2)), g)
		r.emit(line, strconv.FormatBool(got))
		if want := len(r.ref.members(num(2), num(3))) > 0; got != want {
			r.fail("C17", fmt.Sprintf("HasGroup(%d,%d) is %v, reference registry says %v", num(2), num(3), got, want))
		}
	case "count":
		r.emit(line, strconv.Itoa(r.a.c.Count()))
	case "slice":
		r.emit(line, r.a.slice())
		// the slice belongs to the caller: editing it in place (filtering, clearing) leaves the collection as it was
		before := r.a.fingerprint()
		got := r.a.c.ToSlice()
		full := got[:len(got):len(got)]
		orig := append([]*Descriptor(nil), full...)
		for i := range full {
			full[i] = nil
		}
		after, pnc := func() (s string, p any) {
			defer func() { p = recover() }()
			return r.a.fingerprint(), nil
		}()
		copy(full, orig) // (if the slice was the collection's own list, put it back: the run goes on)
		if pnc != nil || after != before {
			r.fail("C17", fmt.Sprintf("editing the slice returned by ToSlice changed the collection (panic %v): before {%s} after {%s}", pnc, before, after))
		}
	case "build":
		r.execBuild(line, num(2))
	case "pget":
		r.execPGet(line, num(2), num(3), w[4])
	case "pgroup":
		r.execPGroup(line, num(2), num(3), num(4))
	default:
		panic("unknown op " + line)
	}
}

// afterAdd: the verdict of one Add call against the reference registry
func (r *vcRun) afterAdd(q *vcReq, err error, ref *vcRef, props string) {
	ok, why := ref.add(q)
	r.stats["verdict:"+why]++
	if ok {
		r.acc++
		r.stats["accepted"]++
	} else {
		r.rej++
		r.stats["rejected"]++
	}
	if (err == nil) != ok {
		r.fail(props, fmt.Sprintf("Add verdict %s, reference registry says accepted=%v (%s)", vcErrChain(err), ok, why))
		return
	}
	if err == nil {
		return
	}
	var ar *AlreadyRegisteredError
	if errors.As(err, &ar) != (why == "already") {
		r.fail(props, fmt.Sprintf("rejection %s, reference says the reason is %q", vcErrChain(err), why))
	}
	var tm *TypeMismatchError
	if errors.As(err, &tm) != (why == "mismatch") {
		r.fail(props, fmt.Sprintf("rejection %s, reference says the reason is %q", vcErrChain(err), why))
	}
	if errors.Is(err, ErrConstructorNil) != (why == "nil" || why == "nilptr") {
		r.fail(props, fmt.Sprintf("rejection %s, reference says the reason is %q", vcErrChain(err), why))
	}
	first := strings.SplitN(strings.TrimPrefix(vcErrChain(err), "err "), "(", 2)[0]
	r.stats["errkind:"+first]++
}

func (r *vcRun) execMods(line string, trees []*vcTree) {
	r.stats[fmt.Sprintf("mods_depth:%d", vcDepth(trees))]++
	var flat []vcFlat
	vcFlatten(trees, nil, &flat)
	r.stats["mods_leaves"] += len(flat)
	// side A: the real module machinery
	var mods []ModuleOption
	for _, t := range trees {
		mods = append(mods, r.moduleOption(r.a, t))
	}
	ea, p := safely(func() error { return r.a.c.AddModules(mods...) })
	if p != nil {
		r.fail("C20", fmt.Sprintf("AddModules panicked: %v", p))
	}
	// side B and the reference: the flattened calls, left to right, stop at the first failure
	var eb error
	var path []string
	failedAt := -1
	for i, f := range flat {
		eb = r.direct(r.b, f.op)
		switch f.op.kind {
		case "add":
			r.afterAdd(f.op.req, eb, r.ref, "C17")
		case "rm":
			r.ref.remove(f.op.ty, "-")
		default:
			r.ref.remove(f.op.ty, f.op.key)
		}
		if eb != nil {
			path, failedAt = f.path, i
			break
		}
	}
	r.emit(line, vcErrChain(ea))
	if failedAt >= 0 {
		r.stats["mods_failed"]++
		r.stats[fmt.Sprintf("mods_fail_depth:%d", len(path))]++
		if failedAt == 0 {
			r.stats["mods_fail_first"]++
		} else if failedAt == len(flat)-1 {
			r.stats["mods_fail_last"]++
		} else {
			r.stats["mods_fail_middle"]++
		}
	} else {
		r.stats["mods_ok"]++
	}
	// C20: same collection, error = the direct error wrapped once per enclosing module, outermost first
	r.checkTwin("C20", "after AddModules")
	want := vcErrChain(eb)
	if eb != nil {
		var p []string
		for _, n := range path {
			p = append(p, "mod("+vcModName(n)+")")
		}
		want = "err " + strings.Join(append(p, strings.TrimPrefix(want, "err ")), ">")
	}
	if got := vcErrChain(ea); got != want {
		r.fail("C20", fmt.Sprintf("AddModules returned %s; the direct calls give %s inside modules %v", got, vcErrChain(eb), path))
	}
	if ea != nil && eb != nil {
		// the cause is reachable: strip exactly the module layers, then Is/As agree with the direct error
		cause := ea
		for range path {
			me, ok := cause.(ModuleError)
			if !ok {
				r.fail("C20", "missing ModuleError layer")
				break
			}
			cause = me.Cause
		}
		if !errors.Is(ea, cause) {
			r.fail("C20", "the original cause is not reachable through errors.Is")
		}
		var ar, br *AlreadyRegisteredError
		if errors.As(ea, &ar) != errors.As(eb, &br) || (ar != nil && br != nil && ar.ServiceType != br.ServiceType) {
			r.fail("C20", "errors.As(AlreadyRegisteredError) differs between the module and the direct call")
		}
		var am ModuleError
		if len(path) > 0 && (!errors.As(ea, &am) || am.Module != path[0]) {
			r.fail("C20", "outermost ModuleError is not the outermost enclosing module")
		}
		if errors.Is(ea, ErrConstructorNil) != errors.Is(eb, ErrConstructorNil) {
			r.fail("C20", "errors.Is(ErrConstructorNil) differs between the module and the direct call")
		}
	}
	r.checkAgainstRef()
	if r.modsSeen++; r.modsSeen%5 == 0 {
		r.checkModuleReuse(trees)
	}
}

// ---- a module is a value: applying it again, elsewhere or at the same time, is the same list of calls -----------
func (r *vcRun) plainModule(s *vcSide, t *vcTree) ModuleOption {
	if t.isNil {
		return nil
	}
	if t.op != nil {
		o := t.op
		switch o.kind {
		case "add":
			svc, opts := r.service(s, o.req), r.options(o.req)
			switch o.req.life {
			case "s":
				return AddSingleton(svc, opts...)
			case "c":
				return AddScoped(svc, opts...)
			}
			return AddTransient(svc, opts...)
		case "rm":
			return vcRemoveOpt[o.ty]()
		}
		return vcRemoveKeyedOpt[o.ty](vcKeyAny(o.key))
	}
	var items []ModuleOption
	for _, it := range t.items {
		items = append(items, r.plainModule(s, it))
	}
	return NewModule(t.name, items...)
}

func vcSummary(c Collection) string {
	var b strings.Builder
	for _, d := range c.(*collection).allDescriptors {
		k := fmt.Sprint(d.Key)
		if d.VoidReturn {
			k = "void"
		}
		fmt.Fprintf(&b, "%v|%s|%s|%d;", d.Type, k, d.Group, d.Lifetime)
	}
	return b.String()
}

func (r *vcRun) checkModuleReuse(trees []*vcTree) {
	tmp := newSide("reuse")
	var mods []ModuleOption
	for _, t := range trees {
		mods = append(mods, r.plainModule(tmp, t))
	}
	apply := func(ms ...ModuleOption) (string, string) {
		c := NewCollection()
		e, p := safely(func() error { return c.AddModules(ms...) })
		if p != nil {
			return fmt.Sprintf("panic: %v", p), ""
		}
		return vcErrChain(e), vcSummary(c)
	}
	e1, s1 := apply(mods...)
	e2, s2 := apply(mods...)
	if e1 != e2 || s1 != s2 {
		r.fail("C20,C17", fmt.Sprintf("the same module values applied to a second fresh collection: first %s {%s}, second %s {%s}", e1, s1, e2, s2))
		return
	}
	// the same collection again: apply, take everything out again with Remove/RemoveKeyed, apply again - once with ONE
	// module value for both applications, once with two equal values; the module value carries no memory of the first
	protocol := func(first, second []ModuleOption) (string, string) {
		c := NewCollection()
		safely(func() error { return c.AddModules(first...) })
		for _, d := range c.ToSlice() {
			if d == nil {
				continue
			}
			if d.Key != nil {
				c.RemoveKeyed(d.Type, d.Key)
			} else {
				c.Remove(d.Type)
			}
		}
		e, p := safely(func() error { return c.AddModules(second...) })
		if p != nil {
			return fmt.Sprintf("panic: %v", p), ""
		}
		return vcErrChain(e), vcSummary(c)
	}
	var fresh []ModuleOption
	for _, t := range trees {
		fresh = append(fresh, r.plainModule(tmp, t))
	}
	ea, sa := protocol(mods, mods)
	eb, sb := protocol(mods, fresh)
	if ea != eb || sa != sb {
		r.fail("C20,C17", fmt.Sprintf("apply / remove everything / apply again on one collection: with the same module value twice %s {%s}, with an equal second value %s {%s}", ea, sa, eb, sb))
		return
	}
	// two goroutines apply one module value at the same time (each to its own collection): a gate inside the
	// module holds the first until the second has entered it too (or 300 ms have passed)
	var entered atomic.Int32
	both := make(chan struct{})
	gate := ModuleOption(func(Collection) error {
		if entered.Add(1) == 2 {
			close(both)
		}
		select {
		case <-both:
		case <-time.After(300 * time.Millisecond):
		}
		return nil
	})
	outer := NewModule("shared", append([]ModuleOption{gate}, mods...)...)
	var res [2][2]string
	var wg sync.WaitGroup
	for k := 0; k < 2; k++ {
		wg.Add(1)
		go func(k int) {
			defer wg.Done()
			res[k][0], res[k][1] = apply(outer)
		}(k)
	}
	wg.Wait()
	want := e1
	if want != "ok" {
		want = "err mod(" + vcModName("shared") + ")>" + strings.TrimPrefix(e1, "err ")
	}
	for k := 0; k < 2; k++ {
		if res[k][0] != want || res[k][1] != s1 {
			r.fail("C20,C09", fmt.Sprintf("two goroutines apply one module value at the same time, each to its own collection: goroutine %d got %s {%s}; applied alone it gives %s {%s}", k, res[k][0], res[k][1], want, s1))
			return
		}
	}
	r.stats["module_reuse"]++
}

func (r *vcRun) expectedRuns(ref *vcRef) string {
	set := map[int]bool{}
	for _, e := range ref.list {
		if !e.inst && (e.life == "s" || (e.life == "c" && e.void)) {
			set[e.reg] = true
		}
	}
	var l []int
	for k := range set {
		l = append(l, k)
	}
	sort.Ints(l)
	var p []string
	for _, k := range l {
		p = append(p, strconv.Itoa(k))
	}
	return "[" + strings.Join(p, " ") + "]"
}

func (r *vcRun) buildSide(s *vcSide, p int) (string, error) {
	before := map[int]int{}
	for k, v := range s.counts {
		before[k] = v
	}
	var prov Provider
	err, pn := safely(func() error {
		var e error
		prov, e = s.c.Build()
		return e
	})
	if pn != nil {
		return fmt.Sprintf("panic %v", pn), fmt.Errorf("panic")
	}
	if err != nil {
		return "err " + strings.SplitN(err.Error(), "\n", 2)[0], err
	}
	s.provs[p] = prov
	var l []int
	for k, v := range s.counts {
		if v > before[k] {
			l = append(l, k)
			if v > before[k]+1 {
				r.stats["build_ctor_ran_more_than_once"]++
			}
		}
	}
	sort.Ints(l)
	var ps []string
	for _, k := range l {
		ps = append(ps, strconv.Itoa(k))
	}
	return "ok runs=[" + strings.Join(ps, " ") + "]", nil
}

func (r *vcRun) execBuild(line string, p int) {
	oa, ea := r.buildSide(r.a, p)
	ob, _ := r.buildSide(r.b, p)
	r.emit(line, oa)
	r.snaps[p] = r.ref.clone()
	for _, e := range r.ref.list {
		r.everIn[e.reg] = true
	}
	if ea != nil {
		r.fail("C17", "Build failed on a registry of dependency-free constructors: "+oa)
		return
	}
	r.stats["builds"]++
	if want := "ok runs=" + r.expectedRuns(r.ref); oa != want {
		if r.ref.anyShadow() {
			r.fail("C17", fmt.Sprintf("removed output of a multi-output registration still takes effect: Build ran constructors %s; the registrations present (ToSlice) require %s", oa, want))
		} else {
			r.fail("C17", fmt.Sprintf("Build ran constructors %s; the registrations present (ToSlice) require %s", oa, want))
		}
	}
	if oa != ob {
		r.fail("C20", fmt.Sprintf("Build of the collection filled through modules: %s, of the twin: %s", oa, ob))
	}
	r.checkRunsOnlyRegistered()
	// C04,C17: every registered result-object field is resolvable under exactly its identity
	done := map[string]bool{}
	for _, e := range r.ref.list {
		if !e.out {
			continue
		}
		line := fmt.Sprintf("c pget %d %d %s", p, e.ty, e.key)
		if e.member {
			line = fmt.Sprintf("c pgroup %d %d %d", p, e.ty, e.grp)
		}
		if !done[line] {
			done[line] = true
			r.stats["out_fields_resolved"]++
			r.exec(line)
		}
	}
}

// a constructor may run only if its registration was part of a registry some Build used
func (r *vcRun) checkRunsOnlyRegistered() {
	for _, s := range []*vcSide{r.a, r.b} {
		for k, v := range s.counts {
			if v > 0 && !r.everIn[k] {
				r.fail("C17", fmt.Sprintf("side %s: constructor %d ran although its registration was removed or rejected before every Build", s.name, k))
			}
		}
	}
}

func (r *vcRun) pget(s *vcSide, p, ty int, key string) string {
	prov := s.provs[p]
	if prov == nil {
		return "noprovider"
	}
	var v any
	err, pn := safely(func() error {
		var e error
		if key == "-" {
			v, e = prov.Get(vcType(ty))
		} else {
			v, e = prov.GetKeyed(vcType(ty), vcKeyAny(key))
		}
		return e
	})
	switch {
	case pn != nil:
		return fmt.Sprintf("panic %v", pn)
	case err != nil && errors.Is(err, ErrServiceNotFound):
		return "notfound"
	case err != nil:
		return "err " + strings.SplitN(err.Error(), "\n", 2)[0]
	}
	if o, ok := s.owner[v]; ok {
		return "ok " + strconv.Itoa(o)
	}
	return fmt.Sprintf("ok ?%T", v)
}

func (r *vcRun) execPGet(line string, p, ty int, key string) {
	got := r.pget(r.a, p, ty, key)
	r.emit(line, got)
	r.stats["provider_queries"]++
	snap := r.snaps[p]
	if snap == nil {
		return
	}
	want, props := "notfound", "C17"
	if e, ok := snap.find(ty, key); ok {
		want = "ok " + strconv.Itoa(e.reg)
		r.stats["provider_found"]++
		if e.out {
			props = "C04,C17"
		}
	}
	if got != want {
		if by, ok := snap.shadowedBy(ty, key); ok {
			r.fail(props, fmt.Sprintf("removed output of a multi-output registration still takes effect: provider %d resolves (%d,%s) as %q, its registration says %q; constructor %d, one of whose outputs was registered under this identity and removed before Build, still produces it", p, ty, key, got, want, by))
		} else {
			r.fail(props, fmt.Sprintf("provider %d resolves (%d,%s) as %q; the registry it was built from says %q (collection now: %s)", p, ty, key, got, want, r.ref.String()))
		}
	}
	if gb := r.pget(r.b, p, ty, key); gb != got {
		r.fail("C20", fmt.Sprintf("provider built from modules resolves (%d,%s) as %q, the twin's as %q", ty, key, got, gb))
	}
	r.checkRunsOnlyRegistered()
}

func (r *vcRun) pgroup(s *vcSide, p, ty, g int) string {
	prov := s.provs[p]
	if prov == nil {
		return "noprovider"
	}
	var vs []any
	err, pn := safely(func() error {
		var e error
		vs, e = prov.GetGroup(vcType(ty), vcGroups[g])
		return e
	})
	switch {
	case pn != nil:
		return fmt.Sprintf("panic %v", pn)
	case err != nil:
		return "err " + strings.SplitN(err.Error(), "\n", 2)[0]
	}
	var ps []string
	for _, v := range vs {
		if o, ok := s.owner[v]; ok {
			ps = append(ps, strconv.Itoa(o))
		} else {
			ps = append(ps, fmt.Sprintf("?%T", v))
		}
	}
	return "ok [" + strings.Join(ps, " ") + "]"
}

func (r *vcRun) execPGroup(line string, p, ty, g int) {
	got := r.pgroup(r.a, p, ty, g)
	r.emit(line, got)
	r.stats["provider_queries"]++
	snap := r.snaps[p]
	if snap == nil {
		return
	}
	var ps []string
	props := "C17"
	for _, e := range snap.members(ty, g) {
		ps = append(ps, strconv.Itoa(e.reg))
		if e.out {
			props = "C04,C17"
		}
	}
	if want := "ok [" + strings.Join(ps, " ") + "]"; got != want {
		r.fail(props, fmt.Sprintf("provider %d resolves group (%d,%d) as %q; the registry it was built from says %q", p, ty, g, got, want))
	}
	if gb := r.pgroup(r.b, p, ty, g); gb != got {
		r.fail("C20", fmt.Sprintf("provider built from modules resolves group (%d,%d) as %q, the twin's as %q", ty, g, got, gb))
	}
	r.checkRunsOnlyRegistered()
}

// every query of the collection
func (r *vcRun) allQueries() {
	r.exec("c count")
	r.exec("c slice")
	for t := vcVoid; t <= vcLast; t++ {
		r.exec(fmt.Sprintf("c contains %d", t))
	}
	for t := vcFirst; t <= vcLast; t++ {
		for _, k := range vcQueryKeys {
			r.exec(fmt.Sprintf("c containsk %d %s", t, k))
		}
		r.exec(fmt.Sprintf("c hasgroup %d 1", t))
		r.exec(fmt.Sprintf("c hasgroup %d 2", t))
	}
}

// every resolution a provider offers over the pool
func (r *vcRun) sweep(p int) {
	for t := vcFirst; t <= vcLast; t++ {
		for _, k := range []string{"-", "n1", "n2"} {
			r.exec(fmt.Sprintf("c pget %d %d %s", p, t, k))
		}
		r.exec(fmt.Sprintf("c pgroup %d %d 1", p, t))
		r.exec(fmt.Sprintf("c pgroup %d %d 2", p, t))
	}
}

// ------------------------------------------------------------------------------- generators

func (r *vcRun) implFlag(prim, iface int) bool {
	return vcType(prim).Implements(vcType(iface))
}

func (r *vcRun) genReq(rng *rand.Rand, small bool) *vcReq {
	r.nextReg++
	q := &vcReq{ctor: r.nextReg, life: []string{"s", "s", "c", "t"}[rng.Intn(4)]}
	nt := 6
	if small {
		nt = 3
	}
	pick := func() int { return vcFirst + rng.Intn(nt) }
	switch k := rng.Intn(100); {
	case k < 38: // plain function, optional error return
		q.form, q.prim = "fn", pick()
		q.rets = []int{q.prim}
	case k < 52: // two or three returns
		q.form = "fn"
		n := 2 + rng.Intn(2)
		for i := 0; i < n; i++ {
			q.rets = append(q.rets, pick())
		}
		if rng.Intn(12) == 0 {
			q.rets[rng.Intn(n)] = rng.Intn(3) // a reserved type among the returns
		}
		q.prim = q.rets[0]
	case k < 68: // result object
		q.form, q.prim = "out", vcUnknown
		n := rng.Intn(5)
		for i := 0; i < n; i++ {
			f := vcField{ty: pick()}
			switch rng.Intn(6) {
			case 0:
				f.name = 1 + rng.Intn(2)
			case 1, 2, 3:
				f.grp = 1 + rng.Intn(2)
			case 4:
				if rng.Intn(4) == 0 {
					f.name, f.grp = 1, 1 // both tags: registered under the name
				}
			}
			if rng.Intn(25) == 0 {
				f.ty = 0
			}
			q.fields = append(q.fields, f)
		}
	case k < 76:
		q.form, q.prim = "inst", pick()
	case k < 84:
		q.form, q.prim = "void", vcVoid
	case k < 87:
		q.form, q.prim = "fn", rng.Intn(3) // reserved primary type
		q.rets = []int{q.prim}
	case k < 90:
		q.form, q.prim, q.valbad = "fn", vcUnknown, true
		q.rets = []int{vcUnknown}
	case k < 93:
		q.form, q.prim = "nil", 0
	case k < 96:
		q.form, q.prim = "nilptr", vcFirst
	default:
		q.form, q.prim = "nilfunc", vcFirst
	}
	// options
	switch rng.Intn(10) {
	case 0, 1:
		q.name = 1 + rng.Intn(2)
	case 2, 3, 4:
		q.group = 1 + rng.Intn(2)
	case 5:
		if rng.Intn(3) == 0 {
			q.name, q.group = 1+rng.Intn(2), 1+rng.Intn(2) // invalid combination
		}
	}
	if rng.Intn(4) == 0 && q.form != "nil" {
		n := 1 + rng.Intn(2)
		for i := 0; i < n; i++ {
			it := 10 + rng.Intn(2)
			if !r.implFlag(q.prim, it) && rng.Intn(3) > 0 {
				it = 21 - it // mostly aliases the type really implements
			}
			q.as = append(q.as, vcAs{it, r.implFlag(q.prim, it)})
		}
	}
	if rng.Intn(30) == 0 {
		q.optbad = true
		switch q.ctor % 3 {
		case 0:
			q.name = 3
		case 1:
			q.group = 3
		}
	}
	return q
}

func (r *vcRun) genOp(rng *rand.Rand, small bool) *vcOp {
	for {
		o := r.genOp1(rng, small)
		if !r.ghosts && vcGuard(r.multiOut, r.burned, o, false) {
			r.stats["generator_avoided_D25"]++
			continue
		}
		vcGuard(r.multiOut, r.burned, o, true)
		return o
	}
}

func (r *vcRun) genOp1(rng *rand.Rand, small bool) *vcOp {
	nt := 6
	if small {
		nt = 3
	}
	switch k := rng.Intn(10); {
	case k < 7:
		return &vcOp{kind: "add", req: r.genReq(rng, small)}
	case k < 9:
		t := vcFirst + rng.Intn(nt)
		if rng.Intn(6) == 0 {
			t = 10 + rng.Intn(2)
		}
		return &vcOp{kind: "rm", ty: t}
	}
	return &vcOp{kind: "rmk", ty: vcFirst + rng.Intn(nt), key: []string{"n1", "n2", "i1", "-"}[rng.Intn(4)]}
}

func (r *vcRun) genTree(rng *rand.Rand, depth int, small bool) *vcTree {
	switch k := rng.Intn(10); {
	case k < 1:
		return &vcTree{isNil: true}
	case k < 6 || depth <= 0:
		r.nextDef++
		o := r.genOp(rng, small)
		r.exec(fmt.Sprintf("c def %d %s", r.nextDef, o.line()))
		return &vcTree{op: r.defs[r.nextDef], def: r.nextDef}
	}
	t := &vcTree{name: []string{"a", "a", "b", "c", ""}[rng.Intn(5)]}
	for n := rng.Intn(5); n > 0; n-- {
		t.items = append(t.items, r.genTree(rng, depth-1, small))
	}
	return t
}

func (r *vcRun) genMods(rng *rand.Rand, small bool) {
	var trees []*vcTree
	for n := 1 + rng.Intn(3); n > 0; n-- {
		trees = append(trees, r.genTree(rng, 1+rng.Intn(4), small))
	}
	r.exec(strings.TrimSpace("c mods " + r.treeTokens(trees)))
}

func (r *vcRun) streamRandom(rng *rand.Rand, count int, modsHeavy bool) {
	for it := 0; it < count; it++ {
		r.exec("c new")
		small := rng.Intn(2) == 0
		nops := 3 + rng.Intn(14)
		var provs []int
		for i := 0; i < nops; i++ {
			k := rng.Intn(100)
			if modsHeavy {
				k = k % 60
				if k < 30 {
					k = 80
				}
			}
			switch {
			case k < 55:
				r.exec("c " + r.genOp(rng, small).line())
			case k < 62:
				r.exec("c " + r.genOp(rng, small).line())
				r.exec("c " + r.genOp(rng, small).line())
			case k < 72 && len(provs) < 3:
				r.nextP++
				provs = append(provs, r.nextP)
				r.exec(fmt.Sprintf("c build %d", r.nextP))
			case k < 80 && len(provs) > 0:
				r.sweep(provs[rng.Intn(len(provs))])
				continue
			default:
				r.genMods(rng, small)
			}
			r.allQueries()
		}
		if len(provs) == 0 || rng.Intn(3) == 0 {
			r.nextP++
			provs = append(provs, r.nextP)
			r.exec(fmt.Sprintf("c build %d", r.nextP))
		}
		for _, p := range provs {
			r.sweep(p)
		}
		r.stats["random_seqs"]++
	}
}

// every sequence of the given length over a small alphabet of calls that collide with each other
func (r *vcRun) streamExhaustive(length int) {
	var alphabet []func() string
	var kinds [][]*vcOp // what each letter may do, for the D25 guard
	mk := func(q vcReq) {
		qq := q
		kinds = append(kinds, []*vcOp{{kind: "add", req: &qq}})
		alphabet = append(alphabet, func() string {
			r.nextReg++
			q.ctor = r.nextReg
			return "c " + q.line()
		})
	}
	rm := func(ty int, key string) {
		o := &vcOp{kind: "rm", ty: ty}
		if key != "-" {
			o = &vcOp{kind: "rmk", ty: ty, key: key}
		}
		kinds = append(kinds, []*vcOp{o})
		alphabet = append(alphabet, func() string { return "c " + o.line() })
	}
	mk(vcReq{life: "s", form: "fn", prim: 4, rets: []int{4}})
	mk(vcReq{life: "s", form: "fn", prim: 4, rets: []int{4}, name: 1})
	mk(vcReq{life: "t", form: "fn", prim: 4, rets: []int{4}, group: 1})
	mk(vcReq{life: "s", form: "fn", prim: 4, rets: []int{4, 5}})
	mk(vcReq{life: "s", form: "fn", prim: 5, rets: []int{5, 4}, name: 1})
	mk(vcReq{life: "c", form: "out", prim: vcUnknown, fields: []vcField{{4, 0, 1}, {4, 0, 1}, {5, 0, 0}}})
	mk(vcReq{life: "s", form: "out", prim: vcUnknown, fields: []vcField{{5, 1, 0}, {4, 0, 1}, {4, 1, 0}}})
	mk(vcReq{life: "s", form: "fn", prim: 5, rets: []int{5}, as: []vcAs{{10, true}, {11, true}}})
	mk(vcReq{life: "s", form: "inst", prim: 4, as: []vcAs{{10, true}, {11, false}}})
	rm(4, "-")
	rm(5, "-")
	rm(4, "n1")
	rm(10, "-")
	// the same builders inside nested modules of the same name
	m1 := vcReq{life: "s", form: "fn", prim: 5, rets: []int{5}}
	m2 := vcReq{life: "s", form: "fn", prim: 4, rets: []int{4}}
	kinds = append(kinds, []*vcOp{{kind: "add", req: &m1}, {kind: "add", req: &m2}})
	alphabet = append(alphabet, func() string {
		r.nextReg += 2
		r.nextDef += 2
		a, b := m1, m2
		a.ctor, b.ctor = r.nextReg-1, r.nextReg
		r.exec(fmt.Sprintf("c def %d %s", r.nextDef-1, a.line()))
		r.exec(fmt.Sprintf("c def %d %s", r.nextDef, b.line()))
		return fmt.Sprintf("c mods ( a _ @%d ( a @%d ) )", r.nextDef-1, r.nextDef)
	})
	kinds = append(kinds, nil)
	alphabet = append(alphabet, func() string { r.nextP++; return fmt.Sprintf("c build %d", r.nextP) })
	idx := make([]int, length)
	for {
		// would the sequence register a removed sibling identity again (known finding D25)?
		skip := false
		if !r.ghosts {
			mo, bu := map[string]bool{}, map[string]bool{}
			for _, a := range idx {
				for _, o := range kinds[a] {
					if vcGuard(mo, bu, o, false) {
						skip = true
					}
					vcGuard(mo, bu, o, true)
				}
			}
		}
		if skip {
			r.stats["exhaustive_skipped_D25"]++
		} else {
			r.exec("c new")
			var provs []int
			for _, a := range idx {
				line := alphabet[a]()
				r.exec(line)
				if strings.HasPrefix(line, "c build") {
					provs = append(provs, r.nextP)
				}
				r.allQueries()
			}
			r.nextP++
			r.exec(fmt.Sprintf("c build %d", r.nextP))
			for _, p := range append(provs, r.nextP) {
				r.sweep(p)
			}
			r.stats["exhaustive_seqs"]++
		}
		i := length - 1
		for ; i >= 0; i-- {
			idx[i]++
			if idx[i] < len(alphabet) {
				break
			}
			idx[i] = 0
		}
		if i < 0 {
			return
		}
	}
}

func (r *vcRun) streamCorpus(dir string) {
	if dir == "" {
		return
	}
	files, _ := filepath.Glob(filepath.Join(dir, "*.ops"))
	sort.Strings(files)
	for _, f := range files {
		data, err := os.ReadFile(f)
		if err != nil {
			continue
		}
		for _, line := range strings.Split(string(data), "\n") {
			w := strings.Fields(line)
			if len(w) < 2 || w[0] != "c" {
				continue
			}
			r.exec(strings.Join(w, " "))
			switch w[1] { // the monitors that compare all views run after every mutation of a replayed file too
			case "add", "rm", "rmk", "mods":
				r.checkAgainstRef()
			}
		}
		r.stats["corpus_files"]++
	}
}

func vcEnvInt(name string, def int) int {
	if v := os.Getenv(name); v != "" {
		if n, err := strconv.Atoi(v); err == nil {
			return n
		}
	}
	return def
}

func TestVerifColl(t *testing.T) {
	out := os.Getenv("VERIF_OUT")
	if out == "" {
		t.Skip("VERIF_OUT not set")
	}
	seed := int64(vcEnvInt("VERIF_SEED", 1))
	open := func(name string) (*os.File, *bufio.Writer) {
		f, err := os.Create(filepath.Join(out, name))
		if err != nil {
			t.Fatal(err)
		}
		return f, bufio.NewWriterSize(f, 1<<20)
	}
	fo, wo := open("ops.txt")
	fb, wb := open("obs.txt")
	fm, wm := open("mon.txt")
	r := &vcRun{ops: wo, obs: wb, mon: wm, stats: map[string]int{}, ghosts: os.Getenv("VERIF_COLL_GHOSTS") != "0"}
	rng := rand.New(rand.NewSource(seed))
	start := time.Now()
	if d := os.Getenv("VERIF_REPLAY"); d != "" {
		r.streamCorpus(d)
	} else {
		r.streamCorpus(os.Getenv("VERIF_CORPUS"))
		if l := vcEnvInt("VERIF_COLL_EXH", 2); l > 0 {
			r.streamExhaustive(l)
		}
		r.streamRandom(rng, vcEnvInt("VERIF_COLL_RANDOM", 300), false)
		r.streamRandom(rng, vcEnvInt("VERIF_COLL_MODS", 150), true)
	}
	if r.a != nil {
		r.exec("c new") // closes the last scenario's providers, counts it
		r.scen--
	}
	wo.Flush()
	wb.Flush()
	wm.Flush()
	fo.Close()
	fb.Close()
	fm.Close()
	r.stats["scenarios"] = r.scen
	r.stats["nontrivial"] = r.nontriv
	r.stats["lines"] = r.nline
	r.stats["monitor_failures"] = r.monBad
	r.stats["wall_ms"] = int(time.Since(start).Milliseconds())
	js, _ := json.MarshalIndent(r.stats, "", " ")
	os.WriteFile(filepath.Join(out, "stats.json"), js, 0o644)
	t.Logf("collection harness: %d scenarios, %d lines, %d monitor failures", r.scen, r.nline, r.monBad)
}
