"""Mutations used to test the C17/C20 checks against a scratch worktree of /repo (never /repo itself):
   git -C /repo worktree add --detach /root/wk/coll-repo HEAD
   python3 harness/coll/mutations.py <a..j|none> && VERIF_REPO=/root/wk/coll-repo ./check C17
   git -C /repo worktree remove --force /root/wk/coll-repo
"""
import sys, subprocess, re
R='/root/wk/coll-repo'
def sub(path, old, new, count=1):
    p=R+'/'+path; s=open(p).read()
    assert old in s, (path, old[:40])
    s=s.replace(old,new,count); open(p,'w').write(s)
name=sys.argv[1]
subprocess.check_call(['git','-C',R,'checkout','-q','.'])
if name=='a':   # rollback iterates forward
    sub('collection.go','''	for i := len(r.allDescriptors) - 1; i >= mark; i-- {
		d := r.allDescriptors[i]
''','''	for _, d := range r.allDescriptors[mark:] {
''')
elif name=='b': # groups map cloned only when non-empty
    sub('collection.go','''	groups := make(map[GroupKey][]*Descriptor, len(sc.groups))
	for key, members := range sc.groups {
		groups[key] = slices.Clone(members)
	}
''','''	groups := sc.groups
	if len(sc.groups) > 0 {
		groups = make(map[GroupKey][]*Descriptor, len(sc.groups))
		for key, members := range sc.groups {
			groups[key] = slices.Clone(members)
		}
	}
''')
elif name=='c': # NewModule drops nil builders with swap-with-last
    sub('module.go','''	return func(s Collection) error {
		// Execute all builders in order
		for _, builder := range builders {''','''	bs := append([]ModuleOption(nil), builders...)
	for i := 0; i < len(bs); {
		if bs[i] == nil {
			bs[i] = bs[len(bs)-1]
			bs = bs[:len(bs)-1]
		} else {
			i++
		}
	}
	builders = bs
	return func(s Collection) error {
		// Execute all builders in order
		for _, builder := range builders {''')
elif name=='d': # no second wrap for the same module name
    sub('module.go','''				return ModuleError{Module: name, Cause: err}''','''				return wrapModuleError(name, err)''')
    sub('module.go','''// AddSingleton creates a ModuleBuilder for adding a singleton service.''','''func wrapModuleError(name string, err error) error {
	for e := err; e != nil; e = errors.Unwrap(e) {
		if m, ok := e.(ModuleError); ok && m.Module == name {
			return err
		}
	}
	return ModuleError{Module: name, Cause: err}
}

// AddSingleton creates a ModuleBuilder for adding a singleton service.''')
    sub('module.go','''import (
	"bytes"''','''import (
	"bytes"
	"errors"''')
elif name=='e': # duplicate check on the type only
    sub('collection.go','''		if _, exists := r.services[key]; exists {
			if descriptor.Key == nil {''','''		exists := false
		for k := range r.services {
			if k.Type == descriptor.Type {
				exists = true
			}
		}
		if exists {
			if descriptor.Key == nil {''')
elif name=='f': # AddModules goes on after an error and returns the first one
    sub('collection.go','''		if err := module(sc); err != nil {
			return err
		}
	}

	return nil
}''','''		if err := module(sc); err != nil && first == nil {
			first = err
		}
	}

	return first
}''')
    sub('collection.go','''func (sc *collection) AddModules(modules ...ModuleOption) error {
''','''func (sc *collection) AddModules(modules ...ModuleOption) error {
	var first error
''')
elif name=='g': # Remove forgets the descriptor list (D11 regression)
    sub('collection.go','''	r.allDescriptors = slices.DeleteFunc(r.allDescriptors, func(d *Descriptor) bool {
		return d == descriptor
	})
''','''	_ = descriptor
''')
elif name=='h': # maps.Clone replaced by the map itself (D13 regression, services only)
    sub('collection.go','''		services:                    maps.Clone(sc.services),''','''		services:                    sc.services,''')
    sub('collection.go','''	"maps"
''','')
elif name=='i': # group member key computed before the append
    sub('collection.go','''		r.groups[groupKey] = append(r.groups[groupKey], descriptor)

		// Set a numeric key for group members
		descriptor.Key = len(r.groups[groupKey])''','''		// Set a numeric key for group members
		descriptor.Key = len(r.groups[groupKey])
		r.groups[groupKey] = append(r.groups[groupKey], descriptor)''')
elif name=='j': # NewModule of a single-builder module returns the builder's error unwrapped
    sub('module.go','''				return ModuleError{Module: name, Cause: err}''','''				if len(builders) == 1 {
					return err
				}
				return ModuleError{Module: name, Cause: err}''')
elif name=='k': # D25 regression: every sibling counts as registered
    sub('provider.go','''func (p *provider) isRegistered(d *Descriptor) bool {
''','''func (p *provider) isRegistered(d *Descriptor) bool {
	if d != nil {
		return true
	}
''')
elif name=='l': # D26: the tag check moved after the field's registration (half-applied refusal is still rolled back, but a colliding field now reports already-registered first)
    sub('collection.go','''			// A service is either keyed or grouped, as for godi.Name and godi.Group
			if field.Key != nil && field.Group != "" {''','''			// A service is either keyed or grouped, as for godi.Name and godi.Group
			if false && field.Key != nil && field.Group != "" {''')
elif name=='none':
    pass
else:
    raise SystemExit('unknown mutation')
print(subprocess.run(['git','-C',R,'diff','--stat'],capture_output=True,text=True).stdout.strip())
