package godi

import "testing"

type vwD32A struct{ call int }
type vwD32I interface{ vwD32() }

type vwD32Consumer struct{ I vwD32I }

// D32 (found in round 4 by an independent sub-agent as a side observation, then by the core generator once it
// produced interface-typed return values): a multi-return constructor that returns nil for a return value of
// interface type. The nil value was not stored, so for a singleton registration the creation loop of Build ran the
// constructor AGAIN for that output (C01: once) and Build still succeeded with the identity "not initialized"
// (C08); in a scope the identity resolved to (nil, nil), and injecting that nil into a parameter object made
// Build/Resolve panic in reflect (C15).
func TestW_D32(t *testing.T) {
	calls := 0
	c := NewCollection()
	if err := c.AddSingleton(func() (*vwD32A, vwD32I) { calls++; return &vwD32A{call: calls}, nil }); err != nil {
		t.Fatal(err)
	}
	p, err := c.Build()
	if calls != 1 {
		t.Fatalf("the singleton constructor ran %d times during Build (err %v)", calls, err)
	}
	if err == nil {
		defer p.Close()
		if _, e := Resolve[vwD32I](p); e == nil {
			t.Fatalf("Build succeeded and the nil return value resolves without an error")
		}
	}
	// scoped: the nil output is not a service; a consumer of it gets an error, not a reflect panic
	calls = 0
	c = NewCollection()
	if err := c.AddScoped(func() (*vwD32A, vwD32I) { calls++; return &vwD32A{call: calls}, nil }); err != nil {
		t.Fatal(err)
	}
	if err := c.AddScoped(func(i vwD32I) *vwD32Consumer { return &vwD32Consumer{I: i} }); err != nil {
		t.Fatal(err)
	}
	p, err = c.Build()
	if err != nil {
		t.Fatalf("Build: %v", err)
	}
	defer p.Close()
	sc, err := p.CreateScope(nil)
	if err != nil {
		t.Fatal(err)
	}
	func() {
		defer func() {
			if r := recover(); r != nil {
				t.Fatalf("resolving a consumer of the nil return value panicked: %v", r)
			}
		}()
		a1, e1 := Resolve[*vwD32A](sc)
		_, e2 := Resolve[*vwD32Consumer](sc)
		a2, e3 := Resolve[*vwD32A](sc)
		if e1 != nil || e3 != nil || a1 != a2 || calls != 1 {
			t.Fatalf("scoped multi-return with a nil interface value: a1=%p a2=%p errs=%v,%v constructor ran %d times", a1, a2, e1, e3, calls)
		}
		if e2 == nil {
			t.Fatalf("a consumer of the nil return value was constructed")
		}
	}()
}
