package godi

import "testing"

// D31 (C10): a value registered under two interface types was entered into the provider's disposal
// list once per interface, so Provider.Close called its Close twice. Repaired by 975a6cd.

type d31A interface{ A() }
type d31B interface{ B() }
type d31Obj struct{ closes int }

func (o *d31Obj) A()           {}
func (o *d31Obj) B()           {}
func (o *d31Obj) Close() error { o.closes++; return nil }

func TestW_D31_InstanceUnderTwoInterfacesClosedOnce(t *testing.T) {
	c := NewCollection()
	o := &d31Obj{}
	if err := c.AddSingleton(o, As[d31A](), As[d31B]()); err != nil {
		t.Fatal(err)
	}
	p, err := c.Build()
	if err != nil {
		t.Fatal(err)
	}
	a, err := Resolve[d31A](p)
	if err != nil {
		t.Fatal(err)
	}
	b, err := Resolve[d31B](p)
	if err != nil {
		t.Fatal(err)
	}
	if any(a) != any(o) || any(b) != any(o) {
		t.Fatalf("the registered value is not what both interfaces resolve to")
	}
	if err := p.Close(); err != nil {
		t.Fatal(err)
	}
	if o.closes != 1 {
		t.Fatalf("the registered value was closed %d times by Provider.Close", o.closes)
	}
}
