package godi

import (
	"errors"
	"testing"
	"time"
)

type vwD33Host struct{ n int }
type vwD33Plug struct{}
type vwD33Scoped struct{}
type vwD33In struct {
	In
	Plugins []*vwD33Plug `name:"main" group:"d33"`
}
type vwD33In2 struct {
	In
	Items []*vwD33Scoped `name:"main" group:"d33s"`
}

// D33 (found in round 5 while looking at an independent sub-agent's seeded change): a parameter-object field tagged
// with both name and group. The injectors resolve it by the group alone, but the recorded dependency kept the name as
// key: the dependency graph got an edge to a node nobody provides. So a cycle host -> group -> member -> host was not
// reported by Build (C05) and resolving the host never returned; with the key dropped the edge goes to the group's node.
func TestW_D33(t *testing.T) {
	c := NewCollection()
	if err := c.AddTransient(func(in vwD33In) *vwD33Host { return &vwD33Host{n: len(in.Plugins)} }); err != nil {
		t.Fatal(err)
	}
	if err := c.AddTransient(func(h *vwD33Host) *vwD33Plug { return &vwD33Plug{} }, Group("d33")); err != nil {
		t.Fatal(err)
	}
	p, err := c.Build()
	if err == nil {
		done := make(chan error, 1)
		go func() { _, e := Resolve[*vwD33Host](p); done <- e }()
		select {
		case e := <-done:
			t.Fatalf("Build accepted the cycle host -> group -> member -> host (resolution returned %v)", e)
		case <-time.After(3 * time.Second):
			t.Fatalf("Build accepted the cycle host -> group -> member -> host and resolving the host does not return")
		}
	}
	var ce *CircularDependencyError
	if !errors.As(err, &ce) {
		t.Fatalf("Build failed with %v, want a circular dependency error", err)
	}
	// without the cycle the field receives the members of the group
	c = NewCollection()
	c.AddTransient(func(in vwD33In) *vwD33Host { return &vwD33Host{n: len(in.Plugins)} })
	c.AddTransient(func() *vwD33Plug { return &vwD33Plug{} }, Group("d33"))
	c.AddTransient(func() *vwD33Plug { return &vwD33Plug{} }, Group("d33"))
	p, err = c.Build()
	if err != nil {
		t.Fatalf("Build: %v", err)
	}
	defer p.Close()
	h, err := Resolve[*vwD33Host](p)
	if err != nil || h.n != 2 {
		t.Fatalf("the doubly tagged group field received %v members (err %v), want 2", h, err)
	}
}
