package godi

import (
	"context"
	"errors"
	"testing"
	"time"
)

type d27Res struct{ fail bool }
type d27Slow struct{}

func (r *d27Slow) Close() error { time.Sleep(2 * time.Millisecond); return nil }

func (r *d27Res) Close() error {
	if r.fail {
		return errors.New("close failed")
	}
	return nil
}

// A child scope that inherits the parent's context is woken by the parent's cancel();
// whoever closes it, the parent's Close must report the child's disposal error.
func TestW_D27_ChildDisposalErrorReachesParent(t *testing.T) {
	lost := 0
	for i := 0; i < 60; i++ {
		c := NewCollection()
		if err := c.AddScoped(func() *d27Res { return &d27Res{fail: true} }); err != nil {
			t.Fatal(err)
		}
		if err := c.AddScoped(func() *d27Slow { return &d27Slow{} }); err != nil {
			t.Fatal(err)
		}
		p, err := c.Build()
		if err != nil {
			t.Fatal(err)
		}
		parent, _ := p.CreateScope(context.Background())
		child, _ := parent.CreateScope(nil)
		grand, _ := child.CreateScope(nil)
		for k := 0; k < 3; k++ { // siblings whose slow disposal delays the cascade
			sib, _ := parent.CreateScope(nil)
			if _, err := Resolve[*d27Slow](sib); err != nil {
				t.Fatal(err)
			}
		}
		if _, err := Resolve[*d27Res](grand); err != nil {
			t.Fatal(err)
		}
		if err := p.Close(); err == nil {
			lost++
		}
	}
	if lost > 0 {
		t.Fatalf("Provider.Close returned nil in %d of 60 runs although an instance in its subtree failed to close", lost)
	}
}
