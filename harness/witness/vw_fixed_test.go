package godi

import (
	"context"
	"errors"
	"fmt"
	"reflect"
	"sync"
	"testing"
	"time"
)

type WA struct{ id int }
type WB struct{ id int }
type WC struct{ id int }
type WD struct{ id int }

//go:noinline
func wmk(id int) func() *WA { return func() *WA { return &WA{id: id} } }

func TestW_D1(t *testing.T) {
	c := NewCollection()
	c.AddSingleton(wmk(1), Name("one"))
	c.AddSingleton(wmk(2), Name("two"))
	// MakeFunc with different signatures share makeFuncStub
	f1 := reflect.MakeFunc(reflect.TypeOf((func() *WB)(nil)), func([]reflect.Value) []reflect.Value { return []reflect.Value{reflect.ValueOf(&WB{7})} })
	f2 := reflect.MakeFunc(reflect.TypeOf((func(*WB) *WC)(nil)), func(a []reflect.Value) []reflect.Value {
		return []reflect.Value{reflect.ValueOf(&WC{a[0].Interface().(*WB).id + 1})}
	})
	if err := c.AddSingleton(f1.Interface()); err != nil { t.Fatal(err) }
	if err := c.AddSingleton(f2.Interface()); err != nil { t.Fatal(err) }
	p, err := c.Build()
	if err != nil { t.Fatal(err) }
	a1, _ := ResolveKeyed[*WA](p, "one")
	a2, _ := ResolveKeyed[*WA](p, "two")
	wc, err := Resolve[*WC](p)
	if a1.id != 1 || a2.id != 2 || err != nil || wc.id != 8 {
		t.Fatalf("D1: one=%v two=%v wc=%v err=%v", a1, a2, wc, err)
	}
}

var _ = context.Background
var _ = errors.New
var _ = fmt.Sprint
var _ sync.Mutex
var _ = time.Now

type WI interface{ M1() }
type WV struct{}

func (*WV) M1() {}

type wfakeScope struct{ Scope }

func TestW_D10_D19(t *testing.T) {
	c := NewCollection()
	if err := c.AddTransient(func() WV { return WV{} }, As[WI]()); err == nil {
		t.Fatal("D10: As via pointer-only implementation accepted")
	}
	if err := c.AddSingleton(func() *wfakeScope { return &wfakeScope{} }, As[Scope]()); err == nil {
		t.Fatal("D19: As[Scope] accepted")
	}
	if err := c.AddSingleton(func() (*WB, context.Context) { return &WB{}, context.TODO() }); err == nil {
		t.Fatal("D19: multi-return ctx accepted")
	}
	if c.Count() != 0 {
		t.Fatalf("rejected registrations left %d descriptors", c.Count())
	}
}

func TestW_D11_D12_D13(t *testing.T) {
	c := NewCollection()
	ran := 0
	c.AddSingleton(func() *WA { ran++; return &WA{} })
	c.Remove(reflect.TypeOf((*WA)(nil)))
	if c.Count() != 0 || len(c.ToSlice()) != 0 {
		t.Fatal("D11: count after remove")
	}
	p, err := c.Build()
	if err != nil || ran != 0 {
		t.Fatalf("D11: removed ctor ran=%d err=%v", ran, err)
	}
	p.Close()
	// D12
	c.AddSingleton(func() *WB { return &WB{} })
	if err := c.AddSingleton(func() (*WA, *WB) { return &WA{}, &WB{} }); err == nil {
		t.Fatal("expected reject")
	}
	if c.Contains(reflect.TypeOf((*WA)(nil))) || c.Count() != 1 {
		t.Fatal("D12: half applied")
	}
	// D13
	p, _ = c.Build()
	c.AddTransient(func() *WC { return &WC{5} })
	if _, err := Resolve[*WC](p); err == nil {
		t.Fatal("D13: post-build add visible")
	}
	c.Remove(reflect.TypeOf((*WB)(nil)))
	if _, err := Resolve[*WB](p); err != nil {
		t.Fatal("D13: post-build remove visible")
	}
}

type WGIn struct {
	In
	Members []*WB `group:"g"`
}

func TestW_D4(t *testing.T) {
	// cycle through a group
	c := NewCollection()
	c.AddScoped(func(in WGIn) *WA { return &WA{} })
	c.AddScoped(func(a *WA) *WB { return &WB{} }, Group("g"))
	_, err := c.Build()
	var ce *CircularDependencyError
	if !errors.As(err, &ce) {
		t.Fatalf("D4: group cycle not detected: %v", err)
	}
	// order
	for i := 0; i < 50; i++ {
		c = NewCollection()
		c.AddSingleton(func() *WC { return &WC{} })
		c.AddSingleton(func(x *WC) *WD { return &WD{} })
		c.AddSingleton(func(x *WD) *WB { return &WB{} }, Group("g"))
		c.AddSingleton(func(in WGIn) *WA { return &WA{len(in.Members)} })
		p, err := c.Build()
		if err != nil {
			t.Fatalf("D4: order: %v", err)
		}
		a, _ := Resolve[*WA](p)
		if a.id != 1 {
			t.Fatal("members")
		}
		p.Close()
	}
	// captive
	c = NewCollection()
	c.AddScoped(func() *WB { return &WB{} }, Group("g"))
	c.AddSingleton(func(in WGIn) *WA { return &WA{} })
	_, err = c.Build()
	var le *LifetimeConflictError
	if !errors.As(err, &le) {
		t.Fatalf("D4: captive group member not detected: %v", err)
	}
}

type WS struct{}
type WP struct{}
type WQ struct{}
type WR struct{}

func TestW_D5_D6(t *testing.T) {
	for i := 0; i < 30; i++ {
		c := NewCollection()
		c.AddScoped(func(a *WP, cc *WR) *WS { return nil })
		c.AddScoped(func(b *WQ) *WP { return nil })
		c.AddScoped(func(a *WP) *WQ { return nil })
		c.AddScoped(func(s *WS) *WR { return nil })
		_, err := c.Build()
		var ce *CircularDependencyError
		if !errors.As(err, &ce) {
			t.Fatal("no circ")
		}
		// check the path edge by edge against the declared dependencies
		deps := map[string][]string{"*godi.WS": {"*godi.WP", "*godi.WR"}, "*godi.WP": {"*godi.WQ"}, "*godi.WQ": {"*godi.WP"}, "*godi.WR": {"*godi.WS"}}
		if len(ce.Path) < 2 || ce.Path[0] != ce.Path[len(ce.Path)-1] {
			t.Fatalf("D5: not closed: %v", ce.Path)
		}
		for j := 0; j+1 < len(ce.Path); j++ {
			ok := false
			for _, d := range deps[ce.Path[j].String()] {
				if d == ce.Path[j+1].String() {
					ok = true
				}
			}
			if !ok {
				t.Fatalf("D5: %v -> %v is not an edge in %v", ce.Path[j], ce.Path[j+1], ce.Path)
			}
		}
	}
	// D6a
	c := NewCollection()
	c.AddScoped(func(x *WC) *WA { return &WA{} })
	if _, err := c.Build(); !errors.Is(err, ErrServiceNotFound) {
		t.Fatalf("D6a: %v", err)
	}
	// optional / group / builtin do not block
	type OptIn struct {
		In
		X  *WC   `optional:"true"`
		G  []*WD `group:"none"`
		S  Scope
		Cx context.Context
	}
	c = NewCollection()
	c.AddTransient(func(in OptIn) *WA { return &WA{} })
	p, err := c.Build()
	if err != nil {
		t.Fatalf("D6a acceptance: %v", err)
	}
	p.Close()
	// D6b
	c = NewCollection()
	ran := 0
	c.AddSingleton(func() *WC { return &WC{} })
	c.AddScoped(func(x *WC) { ran++ })
	p, err = c.Build()
	if err != nil || ran != 1 {
		t.Fatalf("D6b: err=%v ran=%d", err, ran)
	}
	s, _ := p.CreateScope(nil)
	if ran != 2 {
		t.Fatal("initializer per scope")
	}
	s.Close()
	p.Close()
}

type WDisp struct {
	name string
	log  *[]string
	mu   *sync.Mutex
}

func (d *WDisp) Close() error { d.mu.Lock(); *d.log = append(*d.log, d.name); d.mu.Unlock(); return nil }

type WDisp2 struct{ WDisp }

func TestW_D7_D8(t *testing.T) {
	var log []string
	var mu sync.Mutex
	// D7: failed scope creation disposes what it made
	c := NewCollection()
	cnt := 0
	c.AddScoped(func() *WDisp { return &WDisp{"scoped", &log, &mu} })
	c.AddScoped(func(d *WDisp) error {
		cnt++
		if cnt > 1 {
			return errors.New("init fail")
		}
		return nil
	})
	p, err := c.Build()
	if err != nil {
		t.Fatal(err)
	}
	ctx, cancel := context.WithCancel(context.Background())
	defer cancel()
	if _, err := p.CreateScope(ctx); err == nil {
		t.Fatal("expected failure")
	}
	if len(log) != 1 {
		t.Fatalf("D7: failed scope leaked its instance: %v", log)
	}
	p.Close()

	// D8: resolve overlapping Close
	log = nil
	c = NewCollection()
	gate := make(chan struct{})
	entered := make(chan struct{})
	c.AddScoped(func() *WDisp2 { close(entered); <-gate; return &WDisp2{WDisp{"late", &log, &mu}} })
	p, _ = c.Build()
	s, _ := p.CreateScope(nil)
	done := make(chan any, 1)
	var rerr error
	go func() {
		defer func() { done <- recover() }()
		_, rerr = Resolve[*WDisp2](s)
	}()
	<-entered
	s.Close()
	close(gate)
	if r := <-done; r != nil {
		t.Fatalf("D8: panic %v", r)
	}
	if !errors.Is(rerr, ErrScopeDisposed) || len(log) != 1 {
		t.Fatalf("D8: err=%v closes=%v", rerr, log)
	}
	// sequential: ctor closes its own scope
	c = NewCollection()
	c.AddScoped(func(s Scope) *WA { s.Close(); return &WA{} })
	p, _ = c.Build()
	s, _ = p.CreateScope(nil)
	if _, err := Resolve[*WA](s); !errors.Is(err, ErrScopeDisposed) {
		t.Fatalf("D8 seq: %v", err)
	}
	// CreateScope overlapping provider.Close
	c = NewCollection()
	gate2 := make(chan struct{})
	entered2 := make(chan struct{}, 4)
	first := true
	c.AddScoped(func() {
		if first {
			first = false
			return
		}
		entered2 <- struct{}{}
		<-gate2
	})
	p, _ = c.Build()
	go func() {
		defer func() { done <- recover() }()
		_, rerr = p.CreateScope(nil)
	}()
	<-entered2
	p.Close()
	close(gate2)
	if r := <-done; r != nil || !errors.Is(rerr, ErrProviderDisposed) {
		t.Fatalf("D8 create: panic=%v err=%v", r, rerr)
	}
}

type WI2 interface{ M2() }
type WImpl struct {
	id     int
	closes *int
}

func (*WImpl) M1()          {}
func (*WImpl) M2()          {}
func (w *WImpl) Close() error { *w.closes++; return nil }

type WOut struct {
	Out
	A *WA
	B *WB `group:"g"`
	C *WC `name:"n"`
}

func TestW_D2_D3(t *testing.T) {
	for _, life := range []Lifetime{Singleton, Scoped} {
		n, closes := 0, 0
		c := NewCollection()
		ctor := func() *WImpl { n++; return &WImpl{n, &closes} }
		var err error
		if life == Singleton {
			err = c.AddSingleton(ctor, As[WI](), As[WI2]())
		} else {
			err = c.AddScoped(ctor, As[WI](), As[WI2]())
		}
		if err != nil {
			t.Fatal(err)
		}
		p, err := c.Build()
		if err != nil {
			t.Fatal(err)
		}
		s, _ := p.CreateScope(nil)
		a, e1 := Resolve[WI](s)
		b, e2 := Resolve[WI2](s)
		if e1 != nil || e2 != nil || a.(*WImpl) != b.(*WImpl) || n != 1 {
			t.Fatalf("D2 %v: n=%d same=%v %v %v", life, n, a == any(b), e1, e2)
		}
		s.Close()
		p.Close()
		if closes != 1 {
			t.Fatalf("D2 %v: closed %d times", life, closes)
		}
	}
	// multi-return + name
	c := NewCollection()
	if err := c.AddSingleton(func() (*WA, *WB) { return &WA{1}, &WB{2} }, Name("k")); err != nil {
		t.Fatal(err)
	}
	p, err := c.Build()
	if err != nil {
		t.Fatalf("D3 multi+name build: %v", err)
	}
	a, e1 := ResolveKeyed[*WA](p, "k")
	b, e2 := Resolve[*WB](p)
	if e1 != nil || e2 != nil || a.id != 1 || b.id != 2 {
		t.Fatalf("D3 multi+name: %v %v", e1, e2)
	}
	// multi-return + group
	c = NewCollection()
	c.AddScoped(func() (*WA, *WB) { return &WA{1}, &WB{2} }, Group("g"))
	p, err = c.Build()
	if err != nil {
		t.Fatal(err)
	}
	s, _ := p.CreateScope(nil)
	as, e1 := ResolveGroup[*WA](s, "g")
	bs, e2 := ResolveGroup[*WB](s, "g")
	if e1 != nil || e2 != nil || len(as) != 1 || len(bs) != 1 {
		t.Fatalf("D3 multi+group: %v %v %v %v", as, bs, e1, e2)
	}
	// result object with group and name, all lifetimes
	runs := 0
	c = NewCollection()
	c.AddSingleton(func() WOut { runs++; return WOut{A: &WA{1}, B: &WB{2}, C: &WC{3}} })
	p, err = c.Build()
	if err != nil {
		t.Fatalf("D3 out build: %v", err)
	}
	wa, e1 := Resolve[*WA](p)
	wbs, e2 := ResolveGroup[*WB](p, "g")
	wc, e3 := ResolveKeyed[*WC](p, "n")
	if e1 != nil || e2 != nil || e3 != nil || wa.id != 1 || len(wbs) != 1 || wbs[0].id != 2 || wc.id != 3 || runs != 1 {
		t.Fatalf("D3 out: %v %v %v runs=%d", e1, e2, e3, runs)
	}
}

func TestW_D9(t *testing.T) {
	c := NewCollection()
	var mu sync.Mutex
	n := 0
	c.AddScoped(func() *WA { mu.Lock(); n++; id := n; mu.Unlock(); time.Sleep(5 * time.Millisecond); return &WA{id} })
	c.AddScoped(func(a *WA) *WB { return &WB{a.id} })
	p, _ := c.Build()
	s, _ := p.CreateScope(nil)
	var wg sync.WaitGroup
	res := make([]*WA, 8)
	for i := range res {
		wg.Add(1)
		go func(i int) {
			defer wg.Done()
			if i%2 == 0 {
				res[i], _ = Resolve[*WA](s)
			} else {
				b, _ := Resolve[*WB](s)
				res[i], _ = Resolve[*WA](s)
				_ = b
			}
		}(i)
	}
	wg.Wait()
	for _, r := range res {
		if r != res[0] {
			t.Fatal("D9: two instances")
		}
	}
	if n != 1 {
		t.Fatalf("D9: ctor ran %d times", n)
	}
	p.Close()
}
