package godi

import "testing"

type vwD15A struct{ call int }
type vwD15B struct{ call int }

type vwD15Out struct {
	Out
	A *vwD15A
	B *vwD15B
}

// D15 (known finding, not repaired): a result-object field that is nil is skipped when the outputs are
// stored. For a scoped registration, resolving the sibling whose field was nil runs the constructor
// again and REPLACES the instance the scope already handed out for the other field (C02: one instance
// per scope; C15: a failed resolution leaves no trace).
func TestW_D15(t *testing.T) {
	calls := 0
	c := NewCollection()
	if err := c.AddScoped(func() vwD15Out {
		calls++
		return vwD15Out{A: &vwD15A{call: calls}} // B stays nil
	}); err != nil {
		t.Fatal(err)
	}
	p, err := c.Build()
	if err != nil {
		return // a Build that rejects such a registration would be a legitimate repair
	}
	defer p.Close()
	sc, err := p.CreateScope(nil)
	if err != nil {
		t.Fatal(err)
	}
	a1, err := Resolve[*vwD15A](sc)
	if err != nil {
		return // refusing the half-filled result object would be a legitimate repair too
	}
	_, errB := Resolve[*vwD15B](sc)
	a2, err := Resolve[*vwD15A](sc)
	if err != nil {
		t.Fatalf("A no longer resolvable: %v", err)
	}
	if a1 != a2 {
		t.Fatalf("scope handed out two instances of the scoped *A (constructor ran %d times; resolving the nil sibling returned %v)", calls, errB)
	}
}
