package graph

import (
	"reflect"
	"testing"
	"time"

	"github.com/junioryono/godi/v4/internal/reflection"
)

type wfp struct {
	t    reflect.Type
	deps []*reflection.Dependency
}

func (p *wfp) GetType() reflect.Type                     { return p.t }
func (p *wfp) GetKey() any                               { return nil }
func (p *wfp) GetGroup() string                          { return "" }
func (p *wfp) GetDependencies() []*reflection.Dependency { return p.deps }

type WN0 struct{}
type WN1 struct{}
type WN2 struct{}

var wts = []reflect.Type{reflect.TypeOf(WN0{}), reflect.TypeOf(WN1{}), reflect.TypeOf(WN2{})}

func WP(i int, deps ...int) *wfp {
	p := &wfp{t: wts[i]}
	for _, d := range deps {
		p.deps = append(p.deps, &reflection.Dependency{Type: wts[d]})
	}
	return p
}

func TestW_D14(t *testing.T) {
	g := NewDependencyGraph()
	g.AddProvider(WP(0, 1))
	g.AddProvider(WP(1, 2))
	if err := g.AddProvider(WP(2, 0)); err == nil {
		t.Fatal("expected cycle")
	}
	if g.Size() != 3 || !g.HasNode(wts[2], nil, "") {
		t.Fatalf("rejected add changed the graph: size %d", g.Size())
	}
	if s, err := g.TopologicalSort(); err != nil || len(s) != 3 {
		t.Fatalf("topo after rejected add: %v %v", s, err)
	}
	// rejected replace
	g = NewDependencyGraph()
	g.AddProvider(WP(0))
	g.AddProvider(WP(1, 0))
	if err := g.AddProvider(WP(0, 1)); err == nil {
		t.Fatal("expected cycle")
	}
	if g.Size() != 2 || len(g.GetDependencies(wts[0], nil, "")) != 0 || len(g.GetDependents(wts[0], nil, "")) != 1 {
		t.Fatal("rejected replace changed the graph")
	}
	// deferred replace
	g = NewDependencyGraph()
	g.AddProviderDeferred(WP(0, 1))
	g.AddProviderDeferred(WP(1))
	g.DetectCycles()
	g.AddProviderDeferred(WP(0))
	g.DetectCycles()
	if len(g.GetDependencies(wts[0], nil, "")) != 0 || len(g.GetDependents(wts[1], nil, "")) != 0 {
		t.Fatal("stale edges after deferred replace")
	}
	// depths on cyclic graph terminate
	g = NewDependencyGraph()
	g.AddProviderDeferred(WP(0))
	g.AddProviderDeferred(WP(1, 0, 2))
	g.AddProviderDeferred(WP(2, 1))
	g.DetectCycles()
	done := make(chan struct{})
	go func() { g.CalculateDepths(); close(done) }()
	select {
	case <-done:
	case <-time.After(2 * time.Second):
		t.Fatal("CalculateDepths hangs")
	}
}
