package godi

import (
	"reflect"
	"testing"
)

type vwD26A struct{ n int }

type vwD26Out struct {
	Out
	A *vwD26A `name:"x" group:"g"`
}

// D26: an Out field carrying both a name and a group tag must either be rejected at registration
// or be resolvable under the identity it was registered under - never "registered but unreachable".
func TestW_D26(t *testing.T) {
	c := NewCollection()
	err := c.AddSingleton(func() vwD26Out { return vwD26Out{A: &vwD26A{1}} })
	if err != nil {
		if c.Count() != 0 {
			t.Fatalf("rejected registration left %d descriptors", c.Count())
		}
		return
	}
	ty := reflect.TypeOf(&vwD26A{})
	p, err := c.Build()
	if err != nil {
		t.Fatal(err)
	}
	defer p.Close()
	if c.ContainsKeyed(ty, "x") {
		if _, err := p.GetKeyed(ty, "x"); err != nil {
			t.Fatalf("registered under (*A,\"x\") but GetKeyed fails: %v", err)
		}
	}
}
