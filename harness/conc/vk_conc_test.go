package godi

// Concurrency harness for M6 (property C09 and the concurrent clauses of C01, C02, C10, C12, C13).
// Injected into /repo's root package with `go test -overlay`; never committed to /repo.
//
// Stream "conc" (TestVerifConc): schedule-forced scenarios. Harness goroutines park at every point
// where the container calls user code (constructor bodies, Close methods, the scoped initializer);
// a scheduler releases one parked goroutine at a time and waits until every goroutine that runs
// godi code is parked, finished or blocked (decided from the goroutine dump, not from timing).
// Each release is written as a `k go <id> :: <snapshot>` line; the Lean driver replays the same
// schedule over the M6 action programs and must allow the observed snapshot.
//   ops.txt   `k …` lines (observed snapshot attached, the model validates it)
//   obs.txt   `ok` per op line (what the model must answer)
//   mon.txt   failures of the direct monitors
//   stats.json
//
// Stream "conc-stress" (TestVerifConcStress): free-running, real parallelism, meant for `-race`:
// many goroutines mix resolutions, scope / child-scope creation, closes, cancellations and
// provider.Close over a small registration set; only the direct monitors judge.

import (
	"bufio"
	"context"
	"encoding/json"
	"errors"
	"fmt"
	"math/rand"
	"os"
	"path/filepath"
	"reflect"
	"runtime"
	"sort"
	"strconv"
	"strings"
	"sync"
	"sync/atomic"
	"testing"
	"time"
)

// ---------------------------------------------------------------------------- services

type vkB struct {
	id int
	w  *vkWorld
}
type vkA struct {
	id int
	b  *vkB
	w  *vkWorld
}
type vkT struct {
	id int
	w  *vkWorld
}
type vkG struct{ n int }
type vkC struct{ _ int }
type vkD struct{ _ int }

func (x *vkA) Close() error { return x.w.closing(x.id) }
func (x *vkB) Close() error { return x.w.closing(x.id) }
func (x *vkT) Close() error { return x.w.closing(x.id) }

var (
	vkTypeA = reflect.TypeOf((*vkA)(nil))
	vkTypeB = reflect.TypeOf((*vkB)(nil))
	vkTypeT = reflect.TypeOf((*vkT)(nil))
	vkTypeG = reflect.TypeOf((*vkG)(nil))
	vkTypeC = reflect.TypeOf((*vkC)(nil))
	vkTypeD = reflect.TypeOf((*vkD)(nil))

	vkErrCtor  = errors.New("vk: constructor failed")
	vkErrInit  = errors.New("vk: initializer failed")
	vkErrClose = errors.New("vk: Close failed")
)

// ---------------------------------------------------------------------------- world

type vkPark struct {
	point string
	ch    chan struct{}
}

type vkThread struct {
	id                            int
	kind                          string
	failA, failB, failT, failInit bool
	started, done                 bool
	parked                        *vkPark
	res                           string
	goid                          int64
	val                           any
}

type vkWorld struct {
	forced atomic.Bool // park in user code
	stress bool

	mu        sync.Mutex
	threads   map[int64]*vkThread
	byID      []*vkThread
	watcher   *vkThread // pseudo thread: a goroutine godi started itself (the cancellation watcher of S)
	nextInst  int
	created   []int
	closeLog  []int
	closeCnt  map[int]int
	failEvery int64 // stress: every n-th constructor call fails
	calls     atomic.Int64

	prov   Provider
	scope  Scope
	cancel context.CancelFunc
}

func vkGoid() int64 {
	var buf [64]byte
	n := runtime.Stack(buf[:], false)
	f := strings.Fields(string(buf[:n]))
	if len(f) < 2 {
		return -1
	}
	id, _ := strconv.ParseInt(f[1], 10, 64)
	return id
}

// yield parks the calling goroutine if it is a harness thread (or, for Close methods, a goroutine
// godi started itself) and the world is in forced mode. Returns the thread it ran on.
func (w *vkWorld) yield(point string, unknownParks bool) *vkThread {
	if !w.forced.Load() {
		return nil
	}
	g := vkGoid()
	w.mu.Lock()
	th := w.threads[g]
	if th == nil {
		if !unknownParks {
			w.mu.Unlock()
			return nil
		}
		th = w.watcher
	}
	p := &vkPark{point: point, ch: make(chan struct{})}
	th.parked = p
	w.mu.Unlock()
	<-p.ch
	return th
}

func (w *vkWorld) newInst() int {
	w.mu.Lock()
	defer w.mu.Unlock()
	w.nextInst++
	w.created = append(w.created, w.nextInst)
	return w.nextInst
}

func (w *vkWorld) closing(id int) error {
	w.yield("close"+strconv.Itoa(id), true)
	if w.stress && id%5 == 0 { // some disposals are slow: widens every window around a Close in flight
		runtime.Gosched()
		time.Sleep(30 * time.Microsecond)
	}
	w.mu.Lock()
	w.closeLog = append(w.closeLog, id)
	w.closeCnt[id]++
	w.mu.Unlock()
	if w.stress && id%9 == 0 { // and some fail
		return vkErrClose
	}
	return nil
}

// vkCloseOK: Close returned nil or the documented disposal error
func vkCloseOK(err error) bool {
	var de *DisposalError
	return err == nil || errors.As(err, &de)
}

func (w *vkWorld) failNow() bool {
	if w.failEvery <= 0 {
		return false
	}
	return w.calls.Add(1)%w.failEvery == 0
}

func (w *vkWorld) ctorB() (*vkB, error) {
	th := w.yield("ctorB", false)
	if (th != nil && th.failB) || (w.stress && w.failNow()) {
		return nil, vkErrCtor
	}
	return &vkB{id: w.newInst(), w: w}, nil
}

func (w *vkWorld) ctorA(b *vkB) (*vkA, error) {
	th := w.yield("ctorA", false)
	if (th != nil && th.failA) || (w.stress && w.failNow()) {
		return nil, vkErrCtor
	}
	return &vkA{id: w.newInst(), b: b, w: w}, nil
}

func (w *vkWorld) ctorT() (*vkT, error) {
	th := w.yield("ctorT", false)
	if (th != nil && th.failT) || (w.stress && w.failNow()) {
		return nil, vkErrCtor
	}
	return &vkT{id: w.newInst(), w: w}, nil
}

func (w *vkWorld) initializer() error {
	th := w.yield("init", false)
	if (th != nil && th.failInit) || (w.stress && w.failNow()) {
		return vkErrInit
	}
	return nil
}

func vkNewWorld(stress bool) (*vkWorld, error) {
	w := &vkWorld{threads: map[int64]*vkThread{}, closeCnt: map[int]int{}, stress: stress}
	w.watcher = &vkThread{id: -1, kind: "watcher", started: true}
	c := NewCollection()
	if err := c.AddScoped(func(b *vkB) (*vkA, error) { return w.ctorA(b) }); err != nil {
		return nil, err
	}
	if err := c.AddScoped(func() (*vkB, error) { return w.ctorB() }); err != nil {
		return nil, err
	}
	if err := c.AddTransient(func() (*vkT, error) { return w.ctorT() }); err != nil {
		return nil, err
	}
	if err := c.AddSingleton(func() *vkG { return &vkG{n: 7} }); err != nil {
		return nil, err
	}
	if err := c.AddScoped(func() error { return w.initializer() }); err != nil {
		return nil, err
	}
	if stress {
		// a second scoped service, independent of A and B (stress stream only: M6 does not know it)
		if err := c.AddScoped(func() *vkC { return &vkC{} }); err != nil {
			return nil, err
		}
	}
	p, err := c.Build()
	if err != nil {
		return nil, err
	}
	w.prov = p
	return w, nil
}

// ---------------------------------------------------------------------------- results

func vkClassify(err error) string {
	switch {
	case err == nil:
		return ""
	case errors.Is(err, ErrScopeDisposed):
		return "disposed"
	case errors.Is(err, ErrProviderDisposed):
		return "provDisposed"
	case errors.Is(err, vkErrCtor):
		return "ctorErr"
	case errors.Is(err, vkErrInit):
		return "initErr"
	case errors.Is(err, ErrSingletonNotInitialized):
		return "notInit"
	}
	return "err:" + strings.ReplaceAll(err.Error(), " ", "_")
}

func (w *vkWorld) runOp(th *vkThread) (res string, val any) {
	defer func() {
		if r := recover(); r != nil {
			res = "panic:" + strings.ReplaceAll(fmt.Sprint(r), " ", "_")
		}
	}()
	switch th.kind {
	case "resA":
		v, err := w.scope.Get(vkTypeA)
		if c := vkClassify(err); c != "" {
			return c, nil
		}
		return "ok" + strconv.Itoa(v.(*vkA).id), v
	case "resB":
		v, err := w.scope.Get(vkTypeB)
		if c := vkClassify(err); c != "" {
			return c, nil
		}
		return "ok" + strconv.Itoa(v.(*vkB).id), v
	case "trans":
		v, err := w.scope.Get(vkTypeT)
		if c := vkClassify(err); c != "" {
			return c, nil
		}
		return "okT" + strconv.Itoa(v.(*vkT).id), v
	case "single":
		v, err := w.scope.Get(vkTypeG)
		if c := vkClassify(err); c != "" {
			return c, nil
		}
		return "okS", v
	case "child":
		v, err := w.scope.CreateScope(nil)
		if c := vkClassify(err); c != "" {
			return c, nil
		}
		return "child", v
	case "close":
		if c := vkClassify(w.scope.Close()); c != "" {
			return c, nil
		}
		return "nil", nil
	case "pclose":
		if c := vkClassify(w.prov.Close()); c != "" {
			return c, nil
		}
		return "nil", nil
	case "cancel":
		w.cancel()
		return "nil", nil
	}
	return "bad-kind", nil
}

func (w *vkWorld) threadMain(th *vkThread) {
	g := vkGoid()
	w.mu.Lock()
	th.goid = g
	w.threads[g] = th
	w.mu.Unlock()
	res, val := w.runOp(th)
	w.mu.Lock()
	th.res, th.val, th.done = res, val, true
	delete(w.threads, g)
	w.mu.Unlock()
}

// ---------------------------------------------------------------------------- quiescence

var vkWaiting = []string{"chan receive", "chan send", "select", "sync.Mutex.Lock", "sync.RWMutex.RLock",
	"sync.RWMutex.Lock", "semacquire", "sync.Cond.Wait", "sync.WaitGroup.Wait", "IO wait", "sleep"}

type vkGor struct {
	state string
	body  string
}

// vkDump parses the dump of all goroutines that are executing godi (or harness-thread) code.
func vkDump(self int64) map[int64]vkGor {
	buf := make([]byte, 1<<18)
	for {
		n := runtime.Stack(buf, true)
		if n < len(buf) {
			buf = buf[:n]
			break
		}
		buf = make([]byte, 2*len(buf))
	}
	out := map[int64]vkGor{}
	for _, blk := range strings.Split(string(buf), "\n\n") {
		nl := strings.IndexByte(blk, '\n')
		if nl < 0 {
			continue
		}
		hdr, body := blk[:nl], blk[nl:]
		f := strings.Fields(hdr)
		if len(f) < 3 || f[0] != "goroutine" {
			continue
		}
		id, _ := strconv.ParseInt(f[1], 10, 64)
		if id == self || !strings.Contains(body, "godi/v4.") {
			continue
		}
		state := "?"
		if lb, rb := strings.IndexByte(hdr, '['), strings.LastIndexByte(hdr, ']'); lb >= 0 && rb > lb {
			state = hdr[lb+1 : rb]
			if c := strings.IndexByte(state, ','); c >= 0 {
				state = state[:c]
			}
		}
		out[id] = vkGor{state, body}
	}
	return out
}

func vkIsWaiting(state string) bool {
	for _, ws := range vkWaiting {
		if strings.HasPrefix(state, ws) {
			return true
		}
	}
	return false
}

// quiet: nothing that runs godi code can move.
//   - every goroutine with godi frames is in a waiting state, and
//   - every harness thread that is neither parked in user code nor finished is POSITIVELY blocked at
//     one of the two blocking operations of the protocol: the creation mutex (lockCreation) or the
//     `closed` channel of a scope being closed by somebody else (dispose / Close).
func (w *vkWorld) quiet(self int64) (bool, string) {
	dump := vkDump(self)
	for id, g := range dump {
		if !vkIsWaiting(g.state) {
			return false, fmt.Sprintf("goroutine %d is %s", id, g.state)
		}
	}
	w.mu.Lock()
	defer w.mu.Unlock()
	for _, th := range w.byID {
		if !th.started || th.done || th.parked != nil {
			continue
		}
		if th.goid == 0 {
			return false, fmt.Sprintf("thread %d has not registered yet", th.id)
		}
		g, ok := dump[th.goid]
		if !ok {
			return false, fmt.Sprintf("thread %d is between states", th.id)
		}
		onMutex := strings.HasPrefix(g.state, "sync.Mutex.Lock") && strings.Contains(g.body, "lockCreation")
		onChan := strings.HasPrefix(g.state, "chan receive") && (strings.Contains(g.body, ").dispose(") || strings.Contains(g.body, "(*scope).Close("))
		if !onMutex && !onChan {
			return false, fmt.Sprintf("thread %d is %s but not at a blocking operation of the protocol", th.id, g.state)
		}
	}
	return true, ""
}

var vkHangLimit = 20 * time.Second

// settle waits until the system is quiescent (three consecutive quiet samples).
func (w *vkWorld) settle() error {
	self := vkGoid()
	deadline := time.Now().Add(vkHangLimit)
	quiet, why := 0, ""
	for {
		runtime.Gosched()
		q, reason := w.quiet(self)
		if q {
			quiet++
			if quiet >= 3 {
				return nil
			}
		} else {
			quiet, why = 0, reason
		}
		if time.Now().After(deadline) {
			return errors.New("not quiescent after " + vkHangLimit.String() + " (" + why + ")")
		}
		time.Sleep(100 * time.Microsecond)
	}
}

func (w *vkWorld) snapshot() string {
	w.mu.Lock()
	defer w.mu.Unlock()
	parts := make([]string, 0, len(w.byID)+1)
	for _, th := range w.byID {
		st := "blocked"
		switch {
		case !th.started:
			st = "new"
		case th.done:
			st = "done:" + th.res
		case th.parked != nil:
			st = th.parked.point
		}
		parts = append(parts, fmt.Sprintf("%d=%s", th.id, st))
	}
	ws := "-"
	if w.watcher.parked != nil {
		ws = w.watcher.parked.point
	}
	parts = append(parts, "w="+ws)
	return strings.Join(parts, " ")
}

// eligible: threads the scheduler may release now (-1 = the watcher's parked Close)
func (w *vkWorld) eligible() []int {
	w.mu.Lock()
	defer w.mu.Unlock()
	var e []int
	for _, th := range w.byID {
		if !th.started || (th.parked != nil && !th.done) {
			e = append(e, th.id)
		}
	}
	if w.watcher.parked != nil {
		e = append(e, -1)
	}
	return e
}

func (w *vkWorld) release(id int) {
	if id < 0 {
		w.releaseWatcher()
		return
	}
	w.mu.Lock()
	th := w.byID[id]
	if !th.started {
		th.started = true
		w.mu.Unlock()
		go w.threadMain(th)
		return
	}
	p := th.parked
	th.parked = nil
	w.mu.Unlock()
	if p != nil {
		p.ch <- struct{}{}
	}
}

// releaseWatcher lets a goroutine godi started itself (the cancellation watcher of S) that is parked
// in a Close method go on; in the protocol it is thread `w`.
func (w *vkWorld) releaseWatcher() bool {
	w.mu.Lock()
	p := w.watcher.parked
	w.watcher.parked = nil
	w.mu.Unlock()
	if p != nil {
		p.ch <- struct{}{}
		return true
	}
	return false
}

// ---------------------------------------------------------------------------- scenarios

type vkDecl struct {
	kind  string
	flags []string
}

type vkScenario struct {
	decls []vkDecl
	sched []int // thread ids; when exhausted (or entry not eligible) the chooser decides
}

type vkOut struct {
	ops, obs, mon *bufio.Writer
	nscen         int
	stats         map[string]int
	nontrivial    int
}

func (o *vkOut) line(op, obs string) {
	fmt.Fprintln(o.ops, op)
	fmt.Fprintln(o.obs, obs)
}

func has(l []string, s string) bool {
	for _, x := range l {
		if x == s {
			return true
		}
	}
	return false
}

// vkRun executes one scenario. choose picks the next thread among the eligible ones (nil: follow
// sc.sched strictly). Returns the op lines written (for monitor reports) and the number of options
// at every step (for the exhaustive enumerator).
func vkRun(o *vkOut, sc vkScenario, choose func(step int, el []int) int) (lines []string, options []int, fatal error) {
	w, err := vkNewWorld(false)
	if err != nil {
		return nil, nil, err
	}
	ctx, cancel := context.WithCancel(context.Background())
	s, err := w.prov.CreateScope(ctx)
	if err != nil {
		cancel()
		return nil, nil, err
	}
	w.scope, w.cancel = s, cancel
	o.nscen++
	emit := func(op, obs string) {
		o.line(op, obs)
		lines = append(lines, op)
	}
	emit(fmt.Sprintf("k new %d", o.nscen), "ok")
	for i, d := range sc.decls {
		th := &vkThread{id: i, kind: d.kind, failA: has(d.flags, "failA"), failB: has(d.flags, "failB"),
			failT: has(d.flags, "failT"), failInit: has(d.flags, "failInit")}
		w.byID = append(w.byID, th)
		emit(strings.TrimSpace(fmt.Sprintf("k thr %d %s %s", i, d.kind, strings.Join(d.flags, " "))), "ok")
		o.stats["kind_"+d.kind]++
	}
	w.forced.Store(true)
	report := func(props, what string) {
		fmt.Fprintf(o.mon, "scenario=%d props=%s what=%s\n", o.nscen, props, what)
		for _, l := range lines {
			fmt.Fprintf(o.mon, "  %s\n", l)
		}
		o.stats["monitor_failures"]++
	}
	overlap, flagged := false, false
	for step := 0; step < 64; step++ {
		el := w.eligible()
		if len(el) == 0 {
			break
		}
		options = append(options, len(el))
		var id int
		if choose != nil {
			id = el[choose(step, el)%len(el)]
		} else if step < len(sc.sched) {
			id = sc.sched[step]
			ok := false
			for _, e := range el {
				ok = ok || e == id
			}
			if !ok {
				break // a replayed schedule that no longer applies ends here
			}
		} else {
			break
		}
		w.release(id)
		if err := w.settle(); err != nil {
			report("C09,C13", "hang: "+err.Error()+" after releasing thread "+strconv.Itoa(id)+" in "+w.snapshot())
			return lines, options, err
		}
		snap := w.snapshot()
		name := strconv.Itoa(id)
		if id < 0 {
			name = "w"
			o.stats["watcher_closes"]++
		}
		emit(fmt.Sprintf("k go %s :: %s", name, snap), "ok")
		// direct monitor: a Close (of the scope or of the provider) that has returned means the disposal
		// is over - nobody may still be inside a Close method on behalf of the scope's own Close
		w.mu.Lock()
		inFlight := ""
		if w.watcher.parked != nil {
			inFlight = "the cancellation watcher is in " + w.watcher.parked.point
		}
		for _, th := range w.byID {
			if (th.kind == "close" || th.kind == "pclose") && th.parked != nil {
				inFlight = fmt.Sprintf("thread %d (%s) is in %s", th.id, th.kind, th.parked.point)
			}
		}
		npclose := 0
		for _, th := range w.byID {
			if th.kind == "pclose" {
				npclose++
			}
		}
		returned := ""
		for _, th := range w.byID {
			// a provider.Close that loses the provider's CAS returns at once (FINDINGS.md F4, the model
			// agrees): with several provider.Close calls in the scenario a returned one proves nothing
			if th.kind == "pclose" && npclose > 1 {
				continue
			}
			if (th.kind == "close" || th.kind == "pclose") && th.done && th.res == "nil" {
				returned = fmt.Sprintf("thread %d (%s)", th.id, th.kind)
			}
		}
		w.mu.Unlock()
		if inFlight != "" && returned != "" && !flagged {
			flagged = true
			report("C09,C11,C12,C13,C10", "Close returned ("+returned+") while the disposal of the scope is still in flight: "+inFlight)
		}
		running := 0
		for _, f := range strings.Fields(snap) {
			if !strings.Contains(f, "=new") && !strings.Contains(f, "=done") && !strings.HasPrefix(f, "w=") {
				running++
			}
			if i := strings.IndexByte(f, '='); i >= 0 && !strings.HasPrefix(f, "w=") {
				o.stats["status_"+strings.TrimRight(strings.SplitN(f[i+1:], ":", 2)[0], "0123456789")]++
			}
		}
		if running >= 2 || (running >= 1 && !strings.HasSuffix(snap, "w=-")) {
			overlap = true
		}
	}
	if overlap {
		o.nontrivial++
	}
	// ---- end of schedule: everybody must have returned
	w.mu.Lock()
	var stuck []string
	for _, th := range w.byID {
		if th.started && !th.done {
			stuck = append(stuck, fmt.Sprintf("%d(%s)", th.id, th.kind))
		}
		if th.done {
			o.stats["result_"+strings.TrimRight(th.res, "0123456789")]++
		}
	}
	closed := append([]int{}, w.closeLog...)
	ncreated := len(w.created)
	w.mu.Unlock()
	cs := make([]string, len(closed))
	for i, c := range closed {
		cs[i] = strconv.Itoa(c)
	}
	emit(fmt.Sprintf("k end :: closed=%s created=%d panicked=false", strings.Join(cs, ","), ncreated), "ok")
	if len(stuck) > 0 && len(w.eligible()) == 0 {
		report("C09,C13", "deadlock: threads "+strings.Join(stuck, ",")+" never return although nobody is parked in user code: "+w.snapshot())
		return lines, options, errors.New("deadlock")
	}
	if len(w.eligible()) > 0 {
		// schedule ended early (replay): let everybody finish freely
		w.forced.Store(false)
		for _, id := range w.eligible() {
			w.release(id)
		}
		for w.releaseWatcher() {
		}
		if err := w.settle(); err != nil {
			report("C09,C13", "hang while draining: "+err.Error())
			return lines, options, err
		}
	}
	// ---- direct monitors (independent of the model)
	w.forced.Store(false)
	var aIDs, bIDs = map[int]bool{}, map[int]bool{}
	for _, th := range w.byID {
		if strings.HasPrefix(th.res, "panic:") {
			report("C09,C13", "a call panicked: thread "+strconv.Itoa(th.id)+" "+th.kind+" "+th.res)
		}
		if strings.HasPrefix(th.res, "err:") || th.res == "bad-kind" {
			report("C09,C13", "a call returned an undocumented error: thread "+strconv.Itoa(th.id)+" "+th.kind+" "+th.res)
		}
		switch v := th.val.(type) {
		case *vkA:
			aIDs[v.id] = true
			if v.b != nil {
				bIDs[v.b.id] = true
			}
		case *vkB:
			bIDs[v.id] = true
		}
	}
	if len(aIDs) > 1 || len(bIDs) > 1 {
		report("C09,C02", fmt.Sprintf("one scope handed out %d instances of A and %d of B", len(aIDs), len(bIDs)))
	}
	done := make(chan [2]error, 1)
	go func() {
		e1 := w.scope.Close()
		e2 := w.prov.Close()
		done <- [2]error{e1, e2}
	}()
	select {
	case es := <-done:
		if es[0] != nil || es[1] != nil {
			report("C09,C12", fmt.Sprintf("final Close returned %v / %v", es[0], es[1]))
		}
	case <-time.After(vkHangLimit):
		report("C09,C12,C13", "final Close hangs")
		return lines, options, errors.New("final close hangs")
	}
	cancel()
	if err := w.settle(); err != nil {
		report("C09,C13", "hang after final Close: "+err.Error())
		return lines, options, err
	}
	w.mu.Lock()
	before := len(w.closeLog)
	w.mu.Unlock()
	if e := w.scope.Close(); e != nil {
		report("C09,C12", "second scope.Close returned "+e.Error())
	}
	if e := w.prov.Close(); e != nil {
		report("C09,C12", "second provider.Close returned "+e.Error())
	}
	w.mu.Lock()
	if len(w.closeLog) != before {
		report("C09,C12", "a second Close closed instances again")
	}
	for _, id := range w.created {
		if n := w.closeCnt[id]; n != 1 {
			report("C09,C10", fmt.Sprintf("instance %d was closed %d times (want exactly once after provider.Close)", id, n))
		}
	}
	w.mu.Unlock()
	return lines, options, nil
}

var vkKinds = []string{"resA", "resA", "resB", "resB", "trans", "trans", "child", "child", "close", "close", "pclose", "cancel", "single"}

func vkRandomProgram(r *rand.Rand) vkScenario {
	n := 2 + r.Intn(3)
	var sc vkScenario
	children := 0
	for i := 0; i < n; i++ {
		k := vkKinds[r.Intn(len(vkKinds))]
		if k == "child" {
			// each child adds a watcher goroutine that races with every closer: keep the number of
			// interleavings the model has to enumerate per step small
			if children++; children > 2 {
				k = "trans"
			}
		}
		var flags []string
		switch k {
		case "resA":
			if r.Intn(6) == 0 {
				flags = append(flags, "failA")
			}
			if r.Intn(6) == 0 {
				flags = append(flags, "failB")
			}
		case "resB":
			if r.Intn(5) == 0 {
				flags = append(flags, "failB")
			}
		case "trans":
			if r.Intn(6) == 0 {
				flags = append(flags, "failT")
			}
		case "child":
			if r.Intn(5) == 0 {
				flags = append(flags, "failInit")
			}
		}
		sc.decls = append(sc.decls, vkDecl{k, flags})
	}
	return sc
}

// vkParse reads `k` lines (a corpus or replay file) back into scenarios.
func vkParse(path string) ([]vkScenario, error) {
	data, err := os.ReadFile(path)
	if err != nil {
		return nil, err
	}
	var out []vkScenario
	var cur *vkScenario
	for _, line := range strings.Split(string(data), "\n") {
		f := strings.Fields(line)
		if len(f) < 2 || f[0] != "k" {
			continue
		}
		switch f[1] {
		case "new":
			out = append(out, vkScenario{})
			cur = &out[len(out)-1]
		case "thr":
			if cur != nil && len(f) >= 4 {
				cur.decls = append(cur.decls, vkDecl{f[3], f[4:]})
			}
		case "go":
			if cur != nil && len(f) >= 3 {
				id, err := strconv.Atoi(f[2])
				if err != nil {
					id = -1 // "w": the watcher
				}
				cur.sched = append(cur.sched, id)
			}
		}
	}
	return out, nil
}

func vkEnvInt(name string, def int) int {
	if v, err := strconv.Atoi(os.Getenv(name)); err == nil {
		return v
	}
	return def
}

func vkFiles(t *testing.T) (*vkOut, func()) {
	dir := os.Getenv("VERIF_OUT")
	if dir == "" {
		t.Skip("VERIF_OUT not set: this test is driven by /verif/check")
	}
	mk := func(n string) (*os.File, *bufio.Writer) {
		f, err := os.Create(filepath.Join(dir, n))
		if err != nil {
			t.Fatal(err)
		}
		return f, bufio.NewWriter(f)
	}
	f1, w1 := mk("ops.txt")
	f2, w2 := mk("obs.txt")
	f3, w3 := mk("mon.txt")
	o := &vkOut{ops: w1, obs: w2, mon: w3, stats: map[string]int{}}
	return o, func() {
		w1.Flush()
		w2.Flush()
		w3.Flush()
		f1.Close()
		f2.Close()
		f3.Close()
		st := map[string]any{"scenarios": o.nscen, "nontrivial": o.nontrivial, "distribution": o.stats}
		b, _ := json.MarshalIndent(st, "", " ")
		os.WriteFile(filepath.Join(dir, "stats.json"), b, 0o644)
	}
}

func TestVerifConc(t *testing.T) {
	o, finish := vkFiles(t)
	defer finish()
	seed := int64(vkEnvInt("VERIF_SEED", 1))
	r := rand.New(rand.NewSource(seed))

	runFile := func(p string) bool {
		scs, err := vkParse(p)
		if err != nil {
			t.Fatal(err)
		}
		for _, sc := range scs {
			if _, _, err := vkRun(o, sc, nil); err != nil {
				return false
			}
		}
		return true
	}
	if d := os.Getenv("VERIF_REPLAY"); d != "" {
		runFile(filepath.Join(d, "replay.ops"))
		return
	}
	if d := os.Getenv("VERIF_CORPUS"); d != "" {
		files, _ := filepath.Glob(filepath.Join(d, "*.ops"))
		sort.Strings(files)
		for _, f := range files {
			if !runFile(f) {
				return
			}
		}
		o.stats["corpus_scenarios"] = o.nscen
	}
	// exhaustive schedules of small programs (stateless search: re-run with the next choice vector)
	budget := vkEnvInt("VERIF_CONC_ENUM", 150)
	small := [][]vkDecl{
		{{"resB", nil}, {"close", nil}},
		{{"resA", nil}, {"resA", nil}},
		{{"resB", []string{"failB"}}, {"resB", nil}},
		{{"child", nil}, {"close", nil}},
		{{"child", nil}, {"pclose", nil}},
		{{"trans", nil}, {"close", nil}, {"close", nil}},
		{{"trans", nil}, {"close", nil}, {"cancel", nil}},
		{{"resA", nil}, {"close", nil}, {"resB", nil}},
		{{"resA", nil}, {"pclose", nil}, {"child", nil}},
		{{"trans", nil}, {"cancel", nil}, {"pclose", nil}},
	}
	for _, prog := range small {
		choice := []int{}
		for runs := 0; runs < budget; runs++ {
			_, opts, err := vkRun(o, vkScenario{decls: prog}, func(step int, el []int) int {
				if step < len(choice) {
					return choice[step]
				}
				return 0
			})
			if err != nil {
				return
			}
			o.stats["enumerated"]++
			// next choice vector (odometer over the options seen in this run)
			for len(choice) < len(opts) {
				choice = append(choice, 0)
			}
			i := len(opts) - 1
			for ; i >= 0; i-- {
				if choice[i]+1 < opts[i] {
					choice[i]++
					choice = choice[:i+1]
					break
				}
			}
			if i < 0 {
				o.stats["programs_fully_enumerated"]++
				break
			}
		}
	}
	// random programs, random schedules
	n := vkEnvInt("VERIF_CONC_RANDOM", 200)
	for i := 0; i < n; i++ {
		sc := vkRandomProgram(r)
		if _, _, err := vkRun(o, sc, func(step int, el []int) int { return r.Intn(len(el)) }); err != nil {
			return
		}
	}
}

// ---------------------------------------------------------------------------- free-running stress

// a scoped service whose constructor takes its parameter object by pointer and keeps it
type vkPIn struct {
	In
	C *vkC
	D *vkD
}
type vkP struct {
	in *vkPIn
	c0 *vkC
	d0 *vkD
}

// wiring under overlap: what a constructor receives belongs to the scope that is resolving it
type vkE struct{ _ int }
type vkF struct{ _ int }
type vkNever struct{ _ int }
type vkQIn struct {
	In
	E *vkE
	F *vkF
	O *vkNever `optional:"true"`
}
type vkQ struct {
	e *vkE
	f *vkF
}
type vkR struct {
	sc  Scope
	ctx context.Context
	e   *vkE
}
type vkU struct{ n int64 }
type vkS1 struct{ _ int }
type vkS2 struct{ _ int }
type vkS3 struct{ _ int }
type vkS4 struct{ _ int }

type vkStressScope struct {
	s      Scope
	cancel context.CancelFunc
}

func TestVerifConcStress(t *testing.T) {
	dir := os.Getenv("VERIF_OUT")
	if dir == "" {
		t.Skip("VERIF_OUT not set: this test is driven by /verif/check")
	}
	rounds := vkEnvInt("VERIF_STRESS_ROUNDS", 40)
	seed := int64(vkEnvInt("VERIF_SEED", 1))
	const G, OPS = 12, 120
	var smu sync.Mutex
	stats := map[string]int{}
	var monLines []string
	failures := 0
	report := func(round int, props, what string) {
		smu.Lock()
		defer smu.Unlock()
		failures++
		if len(monLines) < 200 {
			monLines = append(monLines, fmt.Sprintf("scenario=%d props=%s what=%s", round, props, what),
				fmt.Sprintf("  stress round=%d seed=%d goroutines=%d ops=%d", round, seed, G, OPS))
		}
	}
	count := func(k string) {
		smu.Lock()
		stats[k]++
		smu.Unlock()
	}
	finish := func(nrounds int) {
		os.WriteFile(filepath.Join(dir, "mon.txt"), []byte(strings.Join(monLines, "\n")+"\n"), 0o644)
		st := map[string]any{"scenarios": nrounds, "nontrivial": nrounds, "distribution": stats,
			"goroutines": G, "ops_per_goroutine": OPS, "gomaxprocs": runtime.GOMAXPROCS(0)}
		b, _ := json.MarshalIndent(st, "", " ")
		os.WriteFile(filepath.Join(dir, "stats.json"), b, 0o644)
	}
	os.WriteFile(filepath.Join(dir, "mon.txt"), nil, 0o644)

	for round := 1; round <= rounds; round++ {
		w, err := vkNewWorld(true)
		if err != nil {
			t.Fatal(err)
		}
		if round%3 != 0 {
			w.failEvery = 13
		}
		midClose := round%2 == 0 // provider.Close in the middle of the round
		var mu sync.Mutex
		var scopes []*vkStressScope
		var first sync.Map // (scope, key) -> first instance handed out
		pick := func(r *rand.Rand) *vkStressScope {
			mu.Lock()
			defer mu.Unlock()
			if len(scopes) == 0 {
				return nil
			}
			return scopes[r.Intn(len(scopes))]
		}
		forget := func(sc *vkStressScope) { // stop picking a scope that was closed (it stays in `all`)
			mu.Lock()
			for i, x := range scopes {
				if x == sc {
					scopes = append(scopes[:i], scopes[i+1:]...)
					break
				}
			}
			mu.Unlock()
		}
		var all []*vkStressScope
		add := func(s Scope, c context.CancelFunc) {
			mu.Lock()
			x := &vkStressScope{s, c}
			scopes = append(scopes, x)
			all = append(all, x)
			mu.Unlock()
		}
		type fkey struct {
			s any
			k byte
		}
		same := func(s any, k byte, v any) {
			if old, loaded := first.LoadOrStore(fkey{s, k}, v); loaded && old != v {
				report(round, "C09,C02", fmt.Sprintf("one scope handed out two different instances of scoped service %c", k))
			}
		}
		guard := func(what string, f func()) {
			defer func() {
				if r := recover(); r != nil {
					report(round, "C09,C13", "panic in "+what+": "+fmt.Sprint(r))
				}
			}()
			f()
		}
		// fresh-scope bursts: the FIRST resolutions in a scope, of two independent scoped services, start together;
		// whatever the scope sets up on first use must not lose one of the two instances (C02, C09)
		// (a provider of its own, without initializers: nothing is stored in the scope before the two resolutions)
		bc := NewCollection()
		bc.AddScoped(func() *vkC { return &vkC{} })
		bc.AddScoped(func() *vkD { return &vkD{} })
		bc.AddScoped(func(in *vkPIn) *vkP { return &vkP{in: in, c0: in.C, d0: in.D} })
		var kept []*vkP
		bprov, berr := bc.Build()
		for burst := 0; berr == nil && burst < 300; burst++ {
			sc, err := bprov.CreateScope(nil)
			if err != nil {
				break
			}
			start := make(chan struct{})
			var got [2][2]any
			var bw sync.WaitGroup
			for k, typ := range []reflect.Type{vkTypeD, vkTypeC} {
				bw.Add(1)
				go func(k int, typ reflect.Type) {
					defer bw.Done()
					<-start
					got[k][0], _ = sc.Get(typ)
				}(k, typ)
			}
			// meanwhile the parameter objects that earlier scopes' services kept are read: they belong to those services
			bw.Add(1)
			go func() {
				defer bw.Done()
				<-start
				for _, p := range kept {
					if p.in == nil || p.in.C != p.c0 || p.in.D != p.d0 {
						report(round, "C09,C04,C02", "the parameter object a scoped service received by pointer (and kept) was rewritten by a resolution in another scope")
						break
					}
				}
			}()
			close(start)
			bw.Wait()
			if v, e := sc.Get(reflect.TypeOf((*vkP)(nil))); e == nil {
				if p, ok := v.(*vkP); ok && p != nil {
					if len(kept) < 64 {
						kept = append(kept, p)
					} else {
						kept[burst%64] = p
					}
				}
			}
			got[0][1], _ = sc.Get(vkTypeD)
			got[1][1], _ = sc.Get(vkTypeC)
			for k := range got {
				if got[k][0] != nil && got[k][1] != nil && got[k][0] != got[k][1] {
					report(round, "C09,C02", "a fresh scope handed out two different instances of a scoped service: the first one, resolved while another scoped service was being resolved for the first time in that scope, was lost")
				}
			}
			sc.Close()
			count("fresh_scope_burst")
		}
		if berr == nil {
			bprov.Close()
		}
		// wiring bursts (C04, C18, C03 under overlap): two scopes resolve, at the same moment, scoped services that take
		// a parameter object by value, direct parameters (Scope, context, a scoped service), and nothing at all.
		// Every constructor must have received its own scope's instances, its own scope and that scope's context;
		// two resolutions of a transient are two constructor runs and two instances.
		wc := NewCollection()
		var uctr atomic.Int64
		wc.AddScoped(func() *vkE { runtime.Gosched(); return &vkE{} })
		wc.AddScoped(func() *vkF { runtime.Gosched(); return &vkF{} })
		wc.AddScoped(func(in vkQIn) *vkQ { runtime.Gosched(); return &vkQ{e: in.E, f: in.F} })
		wc.AddScoped(func(sc Scope, ctx context.Context, e *vkE) *vkR { return &vkR{sc: sc, ctx: ctx, e: e} })
		wc.AddTransient(func() *vkU { n := uctr.Add(1); runtime.Gosched(); return &vkU{n: n} })
		// four singletons of different types: a fresh scope is asked for all of them at the same moment
		wc.AddSingleton(func() *vkS1 { return &vkS1{} })
		wc.AddSingleton(func() *vkS2 { return &vkS2{} })
		wc.AddSingleton(func() *vkS3 { return &vkS3{} })
		wc.AddSingleton(func() *vkS4 { return &vkS4{} })
		singTypes := []reflect.Type{reflect.TypeOf((*vkS1)(nil)), reflect.TypeOf((*vkS2)(nil)), reflect.TypeOf((*vkS3)(nil)), reflect.TypeOf((*vkS4)(nil))}
		wprov, werr := wc.Build()
		if werr != nil {
			report(round, "C08", "wiring bursts: Build rejected a valid registration set: "+werr.Error())
		}
		for burst := 0; werr == nil && burst < 150; burst++ {
			var scs [2]Scope
			var e error
			if scs[0], e = wprov.CreateScope(nil); e != nil {
				break
			}
			if scs[1], e = wprov.CreateScope(nil); e != nil {
				break
			}
			start := make(chan struct{})
			var qs [2]*vkQ
			var rs [2]*vkR
			var us [2]*vkU
			var bw sync.WaitGroup
			run := func(f func()) {
				bw.Add(1)
				go func() { defer bw.Done(); <-start; f() }()
			}
			before := uctr.Load()
			for k := 0; k < 2; k++ {
				k := k
				run(func() {
					if v, e := scs[k].Get(reflect.TypeOf((*vkQ)(nil))); e == nil {
						qs[k], _ = v.(*vkQ)
					}
				})
				run(func() {
					if v, e := scs[k].Get(reflect.TypeOf((*vkR)(nil))); e == nil {
						rs[k], _ = v.(*vkR)
					}
				})
				run(func() {
					if v, e := scs[0].Get(reflect.TypeOf((*vkU)(nil))); e == nil {
						us[k], _ = v.(*vkU)
					}
				})
			}
			var sings [4]any
			for k := range singTypes {
				k := k
				run(func() { sings[k], _ = scs[1].Get(singTypes[k]) })
			}
			close(start)
			bw.Wait()
			for k, typ := range singTypes {
				want, _ := wprov.Get(typ)
				if sings[k] == nil || reflect.TypeOf(sings[k]) != typ || sings[k] != want {
					report(round, "C09,C01,C04", fmt.Sprintf("a fresh scope was asked for four singletons of different types at the same moment: the answer for %v is %T (%p), the provider's singleton is %p", typ, sings[k], sings[k], want))
				}
			}
			for k := 0; k < 2; k++ {
				ev, _ := scs[k].Get(reflect.TypeOf((*vkE)(nil)))
				fv, _ := scs[k].Get(reflect.TypeOf((*vkF)(nil)))
				if q := qs[k]; q == nil || ev == nil || fv == nil || q.e != ev || q.f != fv {
					report(round, "C09,C04,C02", fmt.Sprintf("two scopes resolved a scoped service with a by-value parameter object at the same moment: the constructor run for scope #%d did not receive that scope's instances (got %+v)", k, q))
				}
				if x := rs[k]; x == nil || x.sc != scs[k] || x.e != ev {
					report(round, "C09,C18,C04", fmt.Sprintf("two scopes resolved a scoped service with direct parameters (Scope, context, scoped service) at the same moment: the constructor run for scope #%d received another scope or another scope's instance", k))
				} else if fc, e := FromContext(x.ctx); e != nil || fc != scs[k] {
					report(round, "C09,C18", fmt.Sprintf("two scopes resolved a scoped service at the same moment: the context injected for scope #%d does not lead back to that scope", k))
				}
			}
			if us[0] == nil || us[1] == nil || us[0] == us[1] || uctr.Load() != before+2 {
				report(round, "C09,C03", fmt.Sprintf("two resolutions of a transient that overlap inside its constructor: %d constructor runs, same instance=%v", uctr.Load()-before, us[0] == us[1]))
			}
			scs[0].Close()
			scs[1].Close()
			count("wiring_burst")
		}
		if werr == nil {
			wprov.Close()
		}
		var wg sync.WaitGroup
		for g := 0; g < G; g++ {
			wg.Add(1)
			r := rand.New(rand.NewSource(seed*1000003 + int64(round)*131 + int64(g)))
			go func(g int) {
				defer wg.Done()
				for i := 0; i < OPS; i++ {
					op := r.Intn(20)
					sc := pick(r)
					switch {
					case op < 8: // resolutions
						var target Provider = w.prov
						var key any = "root"
						if sc != nil && r.Intn(8) != 0 {
							target, key = sc.s, sc.s
						}
						typ := []reflect.Type{vkTypeA, vkTypeB, vkTypeT, vkTypeG}[r.Intn(4)]
						guard("Get", func() {
							v, err := target.Get(typ)
							c := vkClassify(err)
							count("get_" + c)
							switch c {
							case "":
								switch x := v.(type) {
								case *vkA:
									same(key, 'A', x)
									same(key, 'B', x.b)
								case *vkB:
									same(key, 'B', x)
								}
							case "disposed", "provDisposed", "ctorErr":
							case "notInit":
								report(round, "C09,C13", "a Get overlapping provider.Close returned ErrSingletonNotInitialized instead of the disposed error (F3, repaired by 0cb30f3)")
							default:
								report(round, "C09,C13", "Get returned an undocumented error: "+c)
							}
						})
					case op < 11: // new scope from the provider
						guard("provider.CreateScope", func() {
							ctx, cancel := context.WithCancel(context.Background())
							if r.Intn(4) == 0 { // the caller's context ends while the scope is being created
								go cancel()
								count("create_racing_cancel")
							}
							s, err := w.prov.CreateScope(ctx)
							c := vkClassify(err)
							count("create_" + c)
							switch c {
							case "":
								add(s, cancel)
							case "provDisposed", "initErr":
								cancel()
							default:
								cancel()
								report(round, "C09,C13", "provider.CreateScope returned an undocumented error: "+c)
							}
						})
					case op < 14: // child scope (op 11..13)
						if sc == nil {
							continue
						}
						guard("scope.CreateScope", func() {
							var ctx context.Context
							cancel := context.CancelFunc(func() {})
							if r.Intn(2) == 0 {
								ctx, cancel = context.WithCancel(context.Background())
								if r.Intn(3) == 0 {
									go cancel()
									count("child_racing_cancel")
								}
							}
							s, err := sc.s.CreateScope(ctx)
							c := vkClassify(err)
							count("child_" + c)
							switch c {
							case "":
								add(s, cancel)
							case "disposed", "provDisposed", "initErr":
								cancel()
							default:
								cancel()
								report(round, "C09,C13", "scope.CreateScope returned an undocumented error: "+c)
							}
						})
					case op < 16: // close
						if sc == nil {
							continue
						}
						guard("scope.Close", func() {
							if err := sc.s.Close(); !vkCloseOK(err) {
								report(round, "C09,C12", "scope.Close returned "+err.Error())
							}
							count("close")
						})
						if r.Intn(4) != 0 {
							forget(sc)
						}
					case op < 17: // cancel
						if sc == nil {
							continue
						}
						sc.cancel()
						count("cancel")
						if r.Intn(4) != 0 {
							forget(sc)
						}
					default:
						if midClose && i > OPS/2 && g%4 == 0 {
							guard("provider.Close", func() {
								if err := w.prov.Close(); !vkCloseOK(err) {
									report(round, "C09,C12", "provider.Close returned "+err.Error())
								}
								count("pclose")
							})
						}
					}
				}
			}(g)
		}
		joined := make(chan struct{})
		go func() { wg.Wait(); close(joined) }()
		select {
		case <-joined:
		case <-time.After(3 * vkHangLimit):
			buf := make([]byte, 1<<16)
			buf = buf[:runtime.Stack(buf, true)]
			report(round, "C09,C13", "deadlock: the goroutines of the round did not finish within "+(3*vkHangLimit).String())
			monLines = append(monLines, "  "+strings.ReplaceAll(string(buf[:min(len(buf), 6000)]), "\n", "\n  "))
			finish(round)
			t.Fatalf("stress round %d hangs", round)
		}
		// everybody joined: close what is left, twice and concurrently, then the provider
		fin := make(chan struct{})
		go func() {
			defer close(fin)
			guard("final closes", func() {
				mu.Lock()
				all := append([]*vkStressScope{}, all...)
				mu.Unlock()
				var cw sync.WaitGroup
				for _, sc := range all {
					for k := 0; k < 2; k++ {
						cw.Add(1)
						go func(sc *vkStressScope) {
							defer cw.Done()
							if err := sc.s.Close(); !vkCloseOK(err) {
								report(round, "C09,C12", "concurrent final scope.Close returned "+err.Error())
							}
						}(sc)
					}
				}
				cw.Wait()
				// closed scopes must not be referenced by the provider's table (F2)
				if p, ok := w.prov.(*provider); ok {
					p.scopesMu.Lock()
					stale := 0
					for s := range p.scopes {
						select {
						case <-s.closed:
							stale++
						default:
						}
					}
					p.scopesMu.Unlock()
					if stale > 0 {
						smu.Lock()
						stats["stale_closed_scopes_in_provider_table"] += stale
						smu.Unlock()
						report(round, "C09,C14,C13", fmt.Sprintf("%d closed scope(s) are still in the provider's scope table after their Close returned (F2, repaired by 64d7b34)", stale))
					}
				}
				for k := 0; k < 2; k++ {
					if err := w.prov.Close(); !vkCloseOK(err) {
						report(round, "C09,C12", "final provider.Close returned "+err.Error())
					}
				}
				for _, sc := range all {
					sc.cancel()
				}
			})
		}()
		select {
		case <-fin:
		case <-time.After(3 * vkHangLimit):
			report(round, "C09,C12,C13", "deadlock: final Close calls hang")
			finish(round)
			t.Fatalf("stress round %d: final closes hang", round)
		}
		w.mu.Lock()
		for _, id := range w.created {
			if n := w.closeCnt[id]; n != 1 {
				report(round, "C09,C10", fmt.Sprintf("disposable instance %d closed %d times after provider.Close returned and all goroutines joined", id, n))
				break
			}
		}
		nclosed := len(w.closeLog)
		stats["instances"] += len(w.created)
		w.mu.Unlock()
		// a further Close closes nothing
		if err := w.prov.Close(); err != nil {
			report(round, "C09,C12", "third provider.Close returned "+err.Error())
		}
		w.mu.Lock()
		if len(w.closeLog) != nclosed {
			report(round, "C09,C12", "a repeated provider.Close closed instances again")
		}
		w.mu.Unlock()
		if _, err := w.prov.Get(vkTypeG); !errors.Is(err, ErrProviderDisposed) {
			report(round, "C09,C13", fmt.Sprintf("Get after provider.Close returned %v", err))
		}
	}
	stats["monitor_failures"] = failures
	finish(rounds)
}
