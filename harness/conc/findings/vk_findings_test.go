package godi

// Regression tests for the findings of the concurrency slice (FINDINGS.md: F1, F1', F2, F3; F4 is an
// observation and stays a manual test). Package godi, injected with -overlay.
//
// Stream "conc-regress" of C09 (TestVerifConcRegress) runs them on every check: F1 is deterministic,
// F3 / F1' / F2 are searches with a budget (VERIF_REGRESS_BUDGET_MS per search; not being hit is the
// passing outcome, so a small budget cannot flake). Each can also be run alone:
//
//	go test -overlay <overlay.json> -count=1 -run TestVerifFinding -v .

import (
	"context"
	"encoding/json"
	"errors"
	"fmt"
	"os"
	"path/filepath"
	"reflect"
	"runtime"
	"strconv"
	"sync"
	"sync/atomic"
	"testing"
	"time"
)

type vfD struct {
	entered chan struct{}
	release chan struct{}
	err     error
}

func (d *vfD) Close() error {
	if d.entered != nil {
		close(d.entered)
	}
	if d.release != nil {
		<-d.release
	}
	return d.err
}

var vfErr = errors.New("vf: disposal failed")

func vfBudget(def time.Duration) time.Duration {
	if ms, err := strconv.Atoi(os.Getenv("VERIF_REGRESS_BUDGET_MS")); err == nil && ms > 0 {
		return time.Duration(ms) * time.Millisecond
	}
	return def
}

// F1 (C12, fixed by d23542b): the child's cancellation watcher wins the child's CAS and is inside a
// failing Close method when the parent's Close arrives; the parent waits for the child and must
// report the child's disposal error (it returned nil at 75920ef). Deterministic: the child has its own
// cancellable context, its disposable parks inside Close.
func vfF1() (bad bool, detail string) {
	d := &vfD{entered: make(chan struct{}), release: make(chan struct{}), err: vfErr}
	c := NewCollection()
	if err := c.AddScoped(func() *vfD { return d }); err != nil {
		return true, err.Error()
	}
	p, err := c.Build()
	if err != nil {
		return true, err.Error()
	}
	defer p.Close()
	parent, err := p.CreateScope(context.Background())
	if err != nil {
		return true, err.Error()
	}
	cctx, cancelChild := context.WithCancel(context.Background())
	defer cancelChild()
	child, err := parent.CreateScope(cctx)
	if err != nil {
		return true, err.Error()
	}
	if _, err := child.Get(reflect.TypeOf((*vfD)(nil))); err != nil {
		return true, err.Error()
	}
	cancelChild() // the watcher closes the child ...
	select {
	case <-d.entered: // ... and is inside the disposable's Close now
	case <-time.After(10 * time.Second):
		return true, "the child's watcher never ran"
	}
	errc := make(chan error, 1)
	go func() { errc <- parent.Close() }()
	time.Sleep(2 * time.Millisecond) // let parent.Close reach the child (either order is fine for the property)
	close(d.release)
	select {
	case err := <-errc:
		if err == nil {
			return true, "parent.Close() returned nil although a disposable of its child scope failed (the child's watcher won the CAS)"
		}
		return false, "parent.Close() = " + err.Error()
	case <-time.After(10 * time.Second):
		return true, "parent.Close hangs"
	}
}

// F1' (C12, fixed by 0c7a2e0): a child that inherited the context is closed by its watcher, woken by
// the parent's own cancel(); before the fix it could detach itself before the parent looked at its
// children, and the parent's Close returned nil. Search with a budget.
func vfF1prime(budget time.Duration) (bad bool, detail string) {
	iters := 0
	deadline := time.Now().Add(budget)
	var stop atomic.Bool
	for g := 0; g < 2*runtime.GOMAXPROCS(0); g++ { // oversubscribe, so that goroutines get descheduled
		go func() {
			for !stop.Load() {
				runtime.Gosched()
			}
		}()
	}
	defer stop.Store(true)
	for ; time.Now().Before(deadline); iters++ {
		d := &vfD{err: vfErr}
		c := NewCollection()
		if err := c.AddScoped(func() *vfD { return d }); err != nil {
			return true, err.Error()
		}
		p, err := c.Build()
		if err != nil {
			return true, err.Error()
		}
		parent, _ := p.CreateScope(context.Background())
		child, _ := parent.CreateScope(nil)
		if _, err := child.Get(reflect.TypeOf((*vfD)(nil))); err != nil {
			return true, err.Error()
		}
		err = parent.Close()
		p.Close()
		if err == nil {
			return true, fmt.Sprintf("after %d iterations parent.Close() returned nil although a disposable of its child scope failed", iters)
		}
	}
	return false, fmt.Sprintf("not hit in %d iterations", iters)
}

// F2 (C14/C13, fixed by 64d7b34): scope.CreateScope returned an already closed child and left it in the
// provider's scope table when the parent's Close ran between the two registrations. Search with a budget.
func vfF2(budget time.Duration) (bad bool, detail string) {
	c := NewCollection()
	if err := c.AddScoped(func() *vfD { return &vfD{} }); err != nil {
		return true, err.Error()
	}
	p, err := c.Build()
	if err != nil {
		return true, err.Error()
	}
	defer p.Close()
	pp := p.(*provider)
	deadline := time.Now().Add(budget)
	iters := 0
	for ; time.Now().Before(deadline); iters++ {
		parent, err := p.CreateScope(context.Background())
		if err != nil {
			return true, err.Error()
		}
		var wg sync.WaitGroup
		var closedReturned atomic.Int64
		for g := 0; g < 6; g++ {
			wg.Add(1)
			go func() {
				defer wg.Done()
				if child, err := parent.CreateScope(nil); err == nil {
					_ = child
				}
			}()
		}
		wg.Add(1)
		go func() { defer wg.Done(); parent.Close() }()
		wg.Wait()
		_ = closedReturned.Load()
		// the parent's Close has returned: everything it owned is closed; nothing closed may be registered
		hits := 0
		pp.scopesMu.Lock()
		for s := range pp.scopes {
			select {
			case <-s.closed:
				hits++
			default:
			}
		}
		n := len(pp.scopes)
		pp.scopesMu.Unlock()
		if hits > 0 {
			return true, fmt.Sprintf("after %d iterations %d closed scope(s) are still in the provider's scope table (%d entries)", iters, hits, n)
		}
		// children that were created after the parent's snapshot are open and registered: close them
		pp.scopesMu.Lock()
		var rest []*scope
		for s := range pp.scopes {
			rest = append(rest, s)
		}
		pp.scopesMu.Unlock()
		for _, s := range rest {
			s.Close()
		}
	}
	return false, fmt.Sprintf("not hit in %d iterations", iters)
}

// F3 (C13, fixed by 0cb30f3): a singleton resolution that overlaps provider.Close returned
// ErrSingletonNotInitialized. Search with a budget (it used to be hit within a few hundred providers).
func vfF3(budget time.Duration) (bad bool, detail string) {
	type G struct{}
	var hits atomic.Int64
	var other atomic.Value
	deadline := time.Now().Add(budget)
	iters := 0
	for ; time.Now().Before(deadline) && hits.Load() == 0 && other.Load() == nil; iters++ {
		c := NewCollection()
		if err := c.AddSingleton(func() *G { return &G{} }); err != nil {
			return true, err.Error()
		}
		p, err := c.Build()
		if err != nil {
			return true, err.Error()
		}
		s, err := p.CreateScope(context.Background())
		if err != nil {
			return true, err.Error()
		}
		var stop atomic.Bool
		var wg sync.WaitGroup
		for g := 0; g < 8; g++ {
			wg.Add(1)
			go func(viaProvider bool) {
				defer wg.Done()
				for !stop.Load() {
					var err error
					if viaProvider {
						_, err = p.Get(reflect.TypeOf((*G)(nil)))
					} else {
						_, err = s.Get(reflect.TypeOf((*G)(nil)))
					}
					switch {
					case err == nil:
					case errors.Is(err, ErrScopeDisposed), errors.Is(err, ErrProviderDisposed):
						return
					case errors.Is(err, ErrSingletonNotInitialized):
						hits.Add(1)
						return
					default:
						other.Store(err.Error())
						return
					}
				}
			}(g%2 == 0)
		}
		p.Close()
		stop.Store(true)
		wg.Wait()
	}
	if hits.Load() > 0 {
		return true, fmt.Sprintf("after %d providers a Get of a singleton overlapping provider.Close returned ErrSingletonNotInitialized", iters)
	}
	if o := other.Load(); o != nil {
		return true, "a Get overlapping provider.Close returned an undocumented error: " + o.(string)
	}
	return false, fmt.Sprintf("not hit in %d providers", iters)
}

func TestVerifFindingF1ChildDisposalErrorCollected(t *testing.T) {
	if bad, d := vfF1(); bad {
		t.Errorf("F1: %s", d)
	} else {
		t.Log(d)
	}
}

func TestVerifFindingF1primeChildDetachesFirst(t *testing.T) {
	if bad, d := vfF1prime(vfBudget(20 * time.Second)); bad {
		t.Errorf("F1': %s", d)
	} else {
		t.Log(d)
	}
}

func TestVerifFindingF2ClosedChildInProviderTable(t *testing.T) {
	if bad, d := vfF2(vfBudget(20 * time.Second)); bad {
		t.Errorf("F2: %s", d)
	} else {
		t.Log(d)
	}
}

func TestVerifFindingF3SingletonNotInitialized(t *testing.T) {
	if bad, d := vfF3(vfBudget(10 * time.Second)); bad {
		t.Errorf("F3: %s", d)
	} else {
		t.Log(d)
	}
}

// TestVerifConcRegress is the stream "conc-regress" of C09.
func TestVerifConcRegress(t *testing.T) {
	dir := os.Getenv("VERIF_OUT")
	if dir == "" {
		t.Skip("VERIF_OUT not set: this test is driven by /verif/check")
	}
	budget := vfBudget(1500 * time.Millisecond)
	type reg struct {
		name, props string
		run         func() (bool, string)
	}
	regs := []reg{
		{"F1 child disposal error collected when the child's watcher closes it", "C09,C12", vfF1},
		{"F3 singleton Get overlapping provider.Close", "C09,C13", func() (bool, string) { return vfF3(budget) }},
		{"F1' child closed by its watcher during the parent's Close", "C09,C12", func() (bool, string) { return vfF1prime(budget) }},
		{"F2 closed child in the provider's scope table", "C09,C14,C13", func() (bool, string) { return vfF2(budget) }},
	}
	var mon []byte
	details := map[string]string{}
	failures := 0
	for i, r := range regs {
		bad, d := r.run()
		details[r.name] = d
		if bad {
			failures++
			mon = append(mon, fmt.Sprintf("scenario=%d props=%s what=regression of a repaired finding: %s: %s\n  regress %s\n", i+1, r.props, r.name, d, r.name)...)
		}
	}
	os.WriteFile(filepath.Join(dir, "mon.txt"), mon, 0o644)
	st := map[string]any{"scenarios": len(regs), "nontrivial": len(regs), "distribution": map[string]int{"monitor_failures": failures},
		"details": details, "budget_ms": budget.Milliseconds()}
	b, _ := json.MarshalIndent(st, "", " ")
	os.WriteFile(filepath.Join(dir, "stats.json"), b, 0o644)
}

// F4 (observation, not a regression test; fails by design): unlike scope.Close, a provider.Close that
// loses the CAS returns nil at once, while the winner is still disposing. Run with
// -run TestVerifObservationProviderCloseLoserDoesNotWait.
func TestVerifObservationProviderCloseLoserDoesNotWait(t *testing.T) {
	entered, release := make(chan struct{}), make(chan struct{})
	var closed atomic.Bool
	c := NewCollection()
	if err := c.AddSingleton(func() *vfParked { return &vfParked{entered, release, &closed} }); err != nil {
		t.Fatal(err)
	}
	p, err := c.Build()
	if err != nil {
		t.Fatal(err)
	}
	go p.Close()
	<-entered
	if err := p.Close(); err != nil {
		t.Fatal(err)
	}
	if !closed.Load() {
		t.Errorf("F4: a concurrent provider.Close() returned nil while the provider's singleton was still being disposed")
	}
	close(release)
}

type vfParked struct {
	entered, release chan struct{}
	closed           *atomic.Bool
}

func (x *vfParked) Close() error {
	close(x.entered)
	<-x.release
	x.closed.Store(true)
	return nil
}
