package godi

// Reproducers for the findings of the C09 slice (see /verif FINDINGS.md). Not part of any check
// stream: run by hand with
//
//	cd /repo && GOFLAGS=-mod=mod GOPROXY=off go test -overlay <overlay.json> -count=1 -run TestVerifFinding -v .
//
// Each test FAILS when the finding is present.

import (
	"context"
	"errors"
	"reflect"
	"runtime"
	"sync"
	"sync/atomic"
	"testing"
	"time"
)

type vfD struct {
	entered chan struct{}
	err     error
}

func (d *vfD) Close() error {
	if d.entered != nil {
		close(d.entered)
	}
	return d.err
}

var vfErr = errors.New("vf: disposal failed")

// F1 (C12): a disposal error of a child scope is dropped by the parent's Close when the child's own
// cancellation watcher - woken by the parent's cancel() - wins the child's CAS.
//
// Deterministic: the test holds parent.childrenMu, which stalls parent.Close between its cancel()
// (scope.go:264) and the children snapshot (scope.go:268) - a delay the Go scheduler may produce by
// itself. Meanwhile the watcher of the child closes the child and throws the error away
// (scope.go:238-242); parent.Close then either does not see the child any more or waits for it at
// scope.go:255 and gets nil.
func TestVerifFindingChildDisposalErrorDropped(t *testing.T) {
	run := func(stall bool, ownCtx bool) error {
		d := &vfD{entered: make(chan struct{}), err: vfErr}
		c := NewCollection()
		if err := c.AddScoped(func() *vfD { return d }); err != nil {
			t.Fatal(err)
		}
		p, err := c.Build()
		if err != nil {
			t.Fatal(err)
		}
		defer p.Close()
		parent, err := p.CreateScope(context.Background())
		if err != nil {
			t.Fatal(err)
		}
		var cctx context.Context
		if ownCtx {
			cctx = context.Background() // not derived from the parent's context: the parent's cancel does not wake the watcher
		}
		child, err := parent.CreateScope(cctx)
		if err != nil {
			t.Fatal(err)
		}
		if _, err := child.Get(reflect.TypeOf((*vfD)(nil))); err != nil {
			t.Fatal(err)
		}
		ps := parent.(*scope)
		if stall {
			ps.childrenMu.Lock()
		}
		errc := make(chan error, 1)
		go func() { errc <- parent.Close() }()
		if stall {
			select {
			case <-d.entered: // the watcher is disposing the child
			case <-time.After(10 * time.Second):
				t.Fatal("the child's watcher never ran")
			}
			ps.childrenMu.Unlock()
		}
		select {
		case err := <-errc:
			return err
		case <-time.After(10 * time.Second):
			t.Fatal("parent.Close hangs")
			return nil
		}
	}
	if err := run(false, true); err == nil {
		t.Fatalf("control: with a child whose context is not derived from the parent's, parent.Close must report the child's disposal error, got nil")
	} else {
		t.Logf("control (watcher not involved): parent.Close() = %v", err)
	}
	if err := run(true, false); err == nil {
		t.Errorf("F1: parent.Close() returned nil although a disposable of its child scope failed with %q (the child's watcher won the CAS and dropped the error)", vfErr)
	}
	// how often does it happen without any stalling?
	dropped := 0
	const N = 300
	for i := 0; i < N; i++ {
		if run(false, false) == nil {
			dropped++
		}
	}
	t.Logf("without stalling: parent.Close() lost the child's error in %d of %d runs", dropped, N)
}

// F2 (C14 / C13): scope.CreateScope can return, as a success, a child scope that is already closed,
// and leave it in the provider's scope table until provider.Close: the parent's Close runs between
// the registration in s.children (scope.go:216-223) and the registration in p.scopes (226-233); the
// closed child's own `delete(p.scopes, s)` (304) has then already happened. Model-predicted (M6:
// sAdd ; cCas…cSig ; sReg) - there is no user code in the window, so the reproducer is statistical.
func TestVerifFindingClosedChildStaysInProviderTable(t *testing.T) {
	c := NewCollection()
	if err := c.AddScoped(func() *vfD { return &vfD{} }); err != nil {
		t.Fatal(err)
	}
	p, err := c.Build()
	if err != nil {
		t.Fatal(err)
	}
	defer p.Close()
	pp := p.(*provider)
	hits := 0
	deadline := time.Now().Add(30 * time.Second)
	iters := 0
	for ; hits == 0 && time.Now().Before(deadline); iters++ {
		parent, err := p.CreateScope(context.Background())
		if err != nil {
			t.Fatal(err)
		}
		var wg sync.WaitGroup
		for g := 0; g < 6; g++ {
			wg.Add(1)
			go func() {
				defer wg.Done()
				if child, err := parent.CreateScope(nil); err == nil {
					defer child.Close()
				}
			}()
		}
		wg.Add(1)
		go func() { defer wg.Done(); parent.Close() }()
		wg.Wait()
		// everything created in this iteration has been closed by now
		pp.scopesMu.Lock()
		for s := range pp.scopes {
			select {
			case <-s.closed:
				hits++
			default:
			}
		}
		pp.scopesMu.Unlock()
	}
	if hits > 0 {
		t.Errorf("F2: after %d iterations %d closed scope(s) are still referenced by the provider's scope table although their Close has returned", iters, hits)
	} else {
		t.Logf("F2 not hit in %d iterations", iters)
	}
}

// F3 (C13): a singleton resolution through a scope that overlaps provider.Close can return
// ErrSingletonNotInitialized instead of the disposed error: the scope's disposed flag is read
// (scope.go:127), provider.Close then closes the scope and clears the sync.Map (provider.go:242-247),
// and the lock-free read (scope.go:458) misses. Model-predicted (M6: gChk ; pCas … pRest ; gLoad);
// the window contains no user code, so the reproducer is statistical and usually needs many runs.
func TestVerifFindingSingletonNotInitializedDuringClose(t *testing.T) {
	type G struct{}
	var hits atomic.Int64
	const N = 3000
	for i := 0; i < N && hits.Load() == 0; i++ {
		c := NewCollection()
		if err := c.AddSingleton(func() *G { return &G{} }); err != nil {
			t.Fatal(err)
		}
		p, err := c.Build()
		if err != nil {
			t.Fatal(err)
		}
		s, err := p.CreateScope(context.Background())
		if err != nil {
			t.Fatal(err)
		}
		var stop atomic.Bool
		var wg sync.WaitGroup
		for g := 0; g < 8; g++ {
			wg.Add(1)
			go func() {
				defer wg.Done()
				for !stop.Load() {
					_, err := s.Get(reflect.TypeOf((*G)(nil)))
					if err != nil && !errors.Is(err, ErrScopeDisposed) && !errors.Is(err, ErrProviderDisposed) {
						if errors.Is(err, ErrSingletonNotInitialized) {
							hits.Add(1)
						}
						return
					}
					if err != nil {
						return
					}
				}
			}()
		}
		p.Close()
		stop.Store(true)
		wg.Wait()
	}
	if hits.Load() > 0 {
		t.Errorf("F3: Get of a singleton overlapping provider.Close returned ErrSingletonNotInitialized (%d times)", hits.Load())
	} else {
		t.Logf("F3 not hit in %d runs (the window is a few instructions wide; the M6 schedule gChk ; provider.Close ; gLoad shows it)", N)
	}
}

// F4 (observation, C10/C13 flavour): unlike scope.Close, a provider.Close that loses the CAS returns
// nil at once, while the winner is still disposing - "Close returned" does not mean "closed".
func TestVerifFindingProviderCloseLoserDoesNotWait(t *testing.T) {
	entered, release := make(chan struct{}), make(chan struct{})
	var closed atomic.Bool
	c := NewCollection()
	if err := c.AddSingleton(func() *vfParked { return &vfParked{entered, release, &closed} }); err != nil {
		t.Fatal(err)
	}
	p, err := c.Build()
	if err != nil {
		t.Fatal(err)
	}
	go p.Close()
	<-entered
	if err := p.Close(); err != nil {
		t.Fatal(err)
	}
	if !closed.Load() {
		t.Errorf("F4: a concurrent provider.Close() returned nil while the provider's singleton was still being disposed")
	}
	close(release)
}

type vfParked struct {
	entered, release chan struct{}
	closed           *atomic.Bool
}

func (x *vfParked) Close() error {
	close(x.entered)
	<-x.release
	x.closed.Store(true)
	return nil
}

// F1' (C12), residual after d23542b: the child's watcher can finish the child's disposal - including
// `delete(parent.children, child)` (scope.go:311-315) - before the parent, which has just called
// cancel(), takes its children snapshot (scope.go:284-290). The parent then never sees the child and
// its Close returns nil although a disposable in its subtree failed. No user code in the window:
// statistical.
func TestVerifFindingChildDisposalErrorDroppedResidual(t *testing.T) {
	lost, iters := 0, 0
	deadline := time.Now().Add(20 * time.Second)
	var spin atomic.Bool
	for g := 0; g < 2*runtime.GOMAXPROCS(0); g++ { // oversubscribe, so that goroutines get descheduled
		go func() {
			for !spin.Load() {
				runtime.Gosched()
			}
		}()
	}
	defer spin.Store(true)
	for ; lost == 0 && time.Now().Before(deadline); iters++ {
		d := &vfD{err: vfErr}
		c := NewCollection()
		if err := c.AddScoped(func() *vfD { return d }); err != nil {
			t.Fatal(err)
		}
		p, err := c.Build()
		if err != nil {
			t.Fatal(err)
		}
		parent, _ := p.CreateScope(context.Background())
		child, _ := parent.CreateScope(nil)
		if _, err := child.Get(reflect.TypeOf((*vfD)(nil))); err != nil {
			t.Fatal(err)
		}
		if err := parent.Close(); err == nil {
			lost++
		}
		p.Close()
	}
	if lost > 0 {
		t.Errorf("F1': after %d iterations parent.Close() returned nil although a disposable of its child scope failed (the child detached itself before the parent looked)", iters)
	} else {
		t.Logf("F1' not hit in %d iterations", iters)
	}
}
