// C16 harness, echo adapter: drives the real ScopeMiddleware / Handle of this package through an
// echo.Echo (no Recover middleware) and httptest. Injected with `go test -overlay`.
package echo

import (
	"net/http"
	"net/http/httptest"
	"testing"

	"github.com/junioryono/godi/v4"
	"github.com/labstack/echo/v4"
)

const vmName = "echo"

func (c *vmCtrl) Serve(e echo.Context) error {
	rq := vmReqOf(e.Request().Context())
	rq.sc.methodBody(c, rq)
	return vmAct(rq, e)
}

func vmAct(rq *vmReq, e echo.Context) error {
	switch rq.out {
	case "ok":
		return e.NoContent(http.StatusOK)
	case "err":
		return echo.NewHTTPError(vmStatusErr, "vm: handler error")
	case "panic":
		panic("vm: handler panics")
	}
	return nil
}

type vmEchoApp struct{ e *echo.Echo }

func (a *vmEchoApp) serve(rq *vmReq) (status int, escaped bool) {
	rec := httptest.NewRecorder()
	req := httptest.NewRequest(http.MethodGet, "/"+rq.down, nil)
	req = req.WithContext(rq.ctx(req.Context()))
	func() {
		defer func() {
			if v := recover(); v != nil {
				rq.log("panic")
				escaped = true
			}
		}()
		a.e.ServeHTTP(rec, req)
	}()
	return rec.Code, escaped
}

func vmBuild(sc *vmScenario, cfg vmCfg) vmApp {
	e := echo.New()
	e.HideBanner = true
	e.Logger.SetOutput(nopWriter{})
	if cfg.inst {
		var opts []Option
		if cfg.eh {
			opts = append(opts, WithErrorHandler(func(c echo.Context, _ error) error {
				vmReqOf(c.Request().Context()).log("eh")
				return echo.NewHTTPError(vmStatusEH, "vm")
			}))
		}
		if cfg.ceh {
			opts = append(opts, WithCloseErrorHandler(func(err error) { vmCloseErr(err) }))
		}
		for i := 0; i < cfg.n; i++ {
			i := i
			opts = append(opts, WithMiddleware(func(s godi.Scope, c echo.Context) error {
				return sc.mwBody(i, vmReqOf(c.Request().Context()), s, vmScopeOf(c.Request().Context()), nil)
			}))
		}
		e.Use(ScopeMiddleware(sc.wrap, opts...))
	}
	e.GET("/plain", func(c echo.Context) error {
		rq := vmReqOf(c.Request().Context())
		sc.plainBody(rq, vmScopeOf(c.Request().Context()), nil)
		return vmAct(rq, c)
	})
	hopts := []HandlerOption{WithPanicRecovery(cfg.rec)}
	if cfg.ph {
		hopts = append(hopts, WithPanicHandler(func(c echo.Context, _ any) error {
			vmReqOf(c.Request().Context()).log("ph")
			return echo.NewHTTPError(vmStatusPH, "vm")
		}))
	}
	if cfg.seh {
		hopts = append(hopts, WithScopeErrorHandler(func(c echo.Context, _ error) error {
			vmReqOf(c.Request().Context()).log("seh")
			return echo.NewHTTPError(vmStatusSEH, "vm")
		}))
	}
	if cfg.reh {
		hopts = append(hopts, WithResolutionErrorHandler(func(c echo.Context, _ error) error {
			vmReqOf(c.Request().Context()).log("reh")
			return echo.NewHTTPError(vmStatusREH, "vm")
		}))
	}
	e.GET("/handle", Handle((*vmCtrl).Serve, hopts...))
	return &vmEchoApp{e: e}
}

type nopWriter struct{}

func (nopWriter) Write(p []byte) (int, error) { return len(p), nil }

func TestVerifMw(t *testing.T) { vmMain(t) }
