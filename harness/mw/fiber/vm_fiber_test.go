// C16 harness, fiber adapter: drives the real ScopeMiddleware / Handle of this package through a
// fiber.App with app.Test (fasthttp in-process). app.Test serialises the request, so the request
// record travels as a header and an outermost harness middleware puts it into the UserContext; the
// same middleware recovers handler panics (without one a fiber handler panic kills the process) and
// answers 595. Injected with `go test -overlay`.
package fiber

import (
	"net/http"
	"net/http/httptest"
	"strconv"
	"sync"
	"testing"

	"github.com/gofiber/fiber/v2"
	"github.com/junioryono/godi/v4"
)

const vmName = "fiber"

var vmInflight sync.Map // request id -> *vmReq

func vmRq(c *fiber.Ctx) *vmReq { return vmReqOf(c.UserContext()) }

func (x *vmCtrl) Serve(c *fiber.Ctx) error {
	rq := vmRq(c)
	rq.sc.methodBody(x, rq)
	return vmAct(rq, c)
}

func vmAct(rq *vmReq, c *fiber.Ctx) error {
	switch rq.out {
	case "ok":
		return c.SendStatus(http.StatusOK)
	case "err":
		return fiber.NewError(vmStatusErr, "vm: handler error")
	case "panic":
		panic("vm: handler panics")
	}
	return nil
}

type vmFiberApp struct{ app *fiber.App }

func (a *vmFiberApp) serve(rq *vmReq) (status int, escaped bool) {
	id := strconv.Itoa(rq.id)
	vmInflight.Store(id, rq)
	defer vmInflight.Delete(id)
	req := httptest.NewRequest(http.MethodGet, "/"+rq.down, nil)
	req.Header.Set("X-Vm-Req", id)
	resp, err := a.app.Test(req, -1) // no timeout: the harness must never alarm on scheduling
	if err != nil {
		rq.log("test-error:" + err.Error())
		return 0, false
	}
	resp.Body.Close()
	rq.mu.Lock()
	escaped = rq.escaped
	rq.mu.Unlock()
	return resp.StatusCode, escaped
}

func vmBuild(sc *vmScenario, cfg vmCfg) vmApp {
	app := fiber.New(fiber.Config{DisableStartupMessage: true})
	// outermost: attach the request record, recover panics that leave the scope middleware
	app.Use(func(c *fiber.Ctx) (err error) {
		v, _ := vmInflight.Load(c.Get("X-Vm-Req"))
		rq, _ := v.(*vmReq)
		if rq == nil {
			return c.Next()
		}
		c.SetUserContext(rq.ctx(c.UserContext()))
		defer func() {
			if p := recover(); p != nil {
				rq.log("panic")
				rq.mu.Lock()
				rq.escaped = true
				rq.mu.Unlock()
				err = c.SendStatus(vmStatusOut)
			}
		}()
		return c.Next()
	})
	if cfg.inst {
		var opts []Option
		if cfg.eh {
			opts = append(opts, WithErrorHandler(func(c *fiber.Ctx, _ error) error {
				vmRq(c).log("eh")
				return c.SendStatus(vmStatusEH)
			}))
		}
		if cfg.ceh {
			opts = append(opts, WithCloseErrorHandler(func(err error) { vmCloseErr(err) }))
		}
		for i := 0; i < cfg.n; i++ {
			i := i
			opts = append(opts, WithMiddleware(func(s godi.Scope, c *fiber.Ctx) error {
				return sc.mwBody(i, vmRq(c), s, vmScopeOf(c.UserContext()), FromContext(c))
			}))
		}
		app.Use(ScopeMiddleware(sc.wrap, opts...))
	}
	app.Get("/plain", func(c *fiber.Ctx) error {
		rq := vmRq(c)
		sc.plainBody(rq, vmScopeOf(c.UserContext()), FromContext(c))
		return vmAct(rq, c)
	})
	hopts := []HandlerOption{WithPanicRecovery(cfg.rec)}
	if cfg.ph {
		hopts = append(hopts, WithPanicHandler(func(c *fiber.Ctx, _ any) error {
			vmRq(c).log("ph")
			return c.SendStatus(vmStatusPH)
		}))
	}
	if cfg.seh {
		hopts = append(hopts, WithScopeErrorHandler(func(c *fiber.Ctx, _ error) error {
			vmRq(c).log("seh")
			return c.SendStatus(vmStatusSEH)
		}))
	}
	if cfg.reh {
		hopts = append(hopts, WithResolutionErrorHandler(func(c *fiber.Ctx, _ error) error {
			vmRq(c).log("reh")
			return c.SendStatus(vmStatusREH)
		}))
	}
	app.Get("/handle", Handle((*vmCtrl).Serve, hopts...))
	return &vmFiberApp{app: app}
}

func TestVerifMw(t *testing.T) { vmMain(t) }
