// C16 harness, gin adapter: drives the real ScopeMiddleware / Handle of this package through a
// gin.Engine (no Recovery middleware) and httptest. Injected with `go test -overlay`.
package gin

import (
	"net/http"
	"net/http/httptest"
	"testing"

	"github.com/gin-gonic/gin"
	"github.com/junioryono/godi/v4"
)

const vmName = "gin"

func (c *vmCtrl) Serve(g *gin.Context) {
	rq := vmReqOf(g.Request.Context())
	rq.sc.methodBody(c, rq)
	vmAct(rq, g)
}

func vmAct(rq *vmReq, g *gin.Context) {
	switch rq.out {
	case "ok":
		g.Status(http.StatusOK)
		g.Writer.WriteHeaderNow()
	case "err":
		g.AbortWithStatus(vmStatusErr)
	case "panic":
		panic("vm: handler panics")
	}
}

type vmGinApp struct{ e *gin.Engine }

func (a *vmGinApp) serve(rq *vmReq) (status int, escaped bool) {
	rec := httptest.NewRecorder()
	req := httptest.NewRequest(http.MethodGet, "/"+rq.down, nil)
	req = req.WithContext(rq.ctx(req.Context()))
	func() {
		defer func() {
			if v := recover(); v != nil {
				rq.log("panic")
				escaped = true
			}
		}()
		a.e.ServeHTTP(rec, req)
	}()
	return rec.Code, escaped
}

// the custom handlers deliberately do NOT abort: stopping the chain is the middleware's job
func vmWrite(g *gin.Context, code int) {
	g.Status(code)
	g.Writer.WriteHeaderNow()
}

func vmBuild(sc *vmScenario, cfg vmCfg) vmApp {
	gin.SetMode(gin.TestMode)
	e := gin.New()
	if cfg.inst {
		var opts []Option
		if cfg.eh {
			opts = append(opts, WithErrorHandler(func(g *gin.Context, _ error) {
				vmReqOf(g.Request.Context()).log("eh")
				vmWrite(g, vmStatusEH)
			}))
		}
		if cfg.ceh {
			opts = append(opts, WithCloseErrorHandler(func(err error) { vmCloseErr(err) }))
		}
		for i := 0; i < cfg.n; i++ {
			i := i
			opts = append(opts, WithMiddleware(func(s godi.Scope, g *gin.Context) error {
				return sc.mwBody(i, vmReqOf(g.Request.Context()), s, vmScopeOf(g.Request.Context()), nil)
			}))
		}
		e.Use(ScopeMiddleware(sc.wrap, opts...))
	}
	e.GET("/plain", func(g *gin.Context) {
		rq := vmReqOf(g.Request.Context())
		sc.plainBody(rq, vmScopeOf(g.Request.Context()), nil)
		vmAct(rq, g)
	})
	hopts := []HandlerOption{WithPanicRecovery(cfg.rec)}
	if cfg.ph {
		hopts = append(hopts, WithPanicHandler(func(g *gin.Context, _ any) {
			vmReqOf(g.Request.Context()).log("ph")
			vmWrite(g, vmStatusPH)
		}))
	}
	if cfg.seh {
		hopts = append(hopts, WithScopeErrorHandler(func(g *gin.Context, _ error) {
			vmReqOf(g.Request.Context()).log("seh")
			vmWrite(g, vmStatusSEH)
		}))
	}
	if cfg.reh {
		hopts = append(hopts, WithResolutionErrorHandler(func(g *gin.Context, _ error) {
			vmReqOf(g.Request.Context()).log("reh")
			vmWrite(g, vmStatusREH)
		}))
	}
	e.GET("/handle", Handle((*vmCtrl).Serve, hopts...))
	return &vmGinApp{e: e}
}

func TestVerifMw(t *testing.T) { vmMain(t) }
