// GENERATED from harness/mw/common.go.tmpl by harness/mw/stamp.sh (package clause only) - edit the template.
//
// C16 harness, framework independent part: scenario language, generator, executor, observations,
// direct monitors. The framework adapter (vm_<fw>_test.go, same package) supplies vmName and vmBuild.
package http

import (
	"bufio"
	"context"
	"encoding/json"
	"errors"
	"fmt"
	"io"
	"log/slog"
	"math/rand"
	"os"
	"path/filepath"
	"sort"
	"strconv"
	"strings"
	"sync"
	"sync/atomic"
	"testing"
	"time"

	"github.com/junioryono/godi/v4"
)

// ---------------------------------------------------------------- scenario language

// vmCfg is one `mw new` line: how the app is assembled.
type vmCfg struct {
	inst                  bool // ScopeMiddleware installed
	n                     int  // configured middlewares
	eh, ceh, ph, seh, reh bool // custom (true) or default handlers
	rec                   bool // WithPanicRecovery
}

func b01(b bool) string {
	if b {
		return "1"
	}
	return "0"
}
func cd(b bool) string {
	if b {
		return "c"
	}
	return "d"
}

func (c vmCfg) line() string {
	return fmt.Sprintf("mw new %s inst=%s n=%d eh=%s ceh=%s rec=%s ph=%s seh=%s reh=%s", vmName, b01(c.inst), c.n, cd(c.eh), cd(c.ceh), b01(c.rec), cd(c.ph), cd(c.seh), cd(c.reh))
}

// vmSpec is what one request is told to do.
type vmSpec struct {
	batch      int    // 0 = sequential
	down       string // plain | handle
	fail       int    // index of the failing configured middleware, -1 = none
	createFail bool
	out        string // ok | err | panic
	rf         bool   // controller resolution fails
	cerr       bool   // Close of the scoped disposable returns an error
	pre        bool   // the incoming request context already carries a scope (created by the harness)
}

// vmReq is one request: its spec and what was observed.
type vmReq struct {
	vmSpec
	id int
	// observations
	mu          sync.Mutex
	events      []string
	created     []godi.Scope
	attempts    int
	status      int
	escaped     bool // a panic left the whole stack
	reqChanged  bool // net/http adapters: the caller's *http.Request was modified in place by the middleware
	outer       godi.Scope
	closesAtEnd map[godi.Scope]int32 // Close count of each created scope's disposable when the request had ended
	bar         *vmBarrier
	arrived     sync.Once
	sc          *vmScenario
}

func (r vmSpec) line() string {
	f := "-"
	if r.fail >= 0 {
		f = strconv.Itoa(r.fail)
	}
	cr := "ok"
	if r.createFail {
		cr = "fail"
	}
	body := fmt.Sprintf("down=%s fail=%s create=%s out=%s rf=%s cerr=%s pre=%s", r.down, f, cr, r.out, b01(r.rf), b01(r.cerr), b01(r.pre))
	if r.batch > 0 {
		return fmt.Sprintf("mw creq b=%d %s", r.batch, body)
	}
	return "mw req " + body
}

func (r *vmReq) log(ev string) {
	r.mu.Lock()
	r.events = append(r.events, ev)
	r.mu.Unlock()
}

// name of a scope relative to this request: s0 = the scope CreateScope gave to this request
func (r *vmReq) name(s godi.Scope) string {
	if s == nil {
		return "-"
	}
	r.mu.Lock()
	defer r.mu.Unlock()
	if len(r.created) > 0 && r.created[0] == s {
		return "s0"
	}
	return "x"
}

type vmKey struct{}

func vmWith(ctx context.Context, r *vmReq) context.Context { return context.WithValue(ctx, vmKey{}, r) }

// ctx is the context of the incoming request: it identifies the request record and, for `pre=1`,
// already carries a scope that does not belong to the request.
func (r *vmReq) ctx(parent context.Context) context.Context {
	if r.outer != nil {
		parent = r.outer.Context()
	}
	return vmWith(parent, r)
}
func vmReqOf(ctx context.Context) *vmReq {
	if ctx == nil {
		return nil
	}
	r, _ := ctx.Value(vmKey{}).(*vmReq)
	return r
}

// ---------------------------------------------------------------- services living in the request scope

// vmRes is the scoped disposable every scope owns (a scoped initializer depends on it, so it is
// constructed when the scope is created). Its Close is the observable effect of closing the scope.
type vmRes struct {
	rq     *vmReq
	scope  godi.Scope
	closes int32
}

func (x *vmRes) Close() error {
	atomic.AddInt32(&x.closes, 1)
	if x.rq != nil {
		if x.scope != nil && x.rq.sc != nil && x.rq.sc.visible(x.scope) {
			x.rq.log("close:" + x.rq.name(x.scope))
		}
		if x.rq.cerr {
			return &vmCloseError{rq: x.rq}
		}
	}
	return nil
}

// vmCloseError lets the (request-less) CloseErrorHandler find the request whose scope failed to close.
type vmCloseError struct{ rq *vmReq }

func (e *vmCloseError) Error() string { return "vm: close error" }

// vmCloseErr is the body of the custom CloseErrorHandler.
func vmCloseErr(err error) {
	var ce *vmCloseError
	if errors.As(err, &ce) {
		ce.rq.log("ceh")
		return
	}
	var de *godi.DisposalError
	if errors.As(err, &de) {
		for _, e := range de.Errors {
			vmCloseErr(e)
		}
	}
}

type vmProbe struct{}

// vmCtrl is the controller resolved by Handle; the framework adapter adds the method.
type vmCtrl struct {
	rq    *vmReq
	scope godi.Scope
}

func vmNewRes(ctx context.Context, s godi.Scope) *vmRes {
	x := &vmRes{rq: vmReqOf(ctx), scope: s}
	if x.rq != nil && x.rq.sc != nil {
		x.rq.sc.addRes(s, x)
	}
	return x
}

func vmInit(ctx context.Context, _ *vmRes) error {
	if r := vmReqOf(ctx); r != nil && r.createFail {
		return errors.New("vm: scope initializer fails")
	}
	return nil
}

func vmNewCtrl(ctx context.Context, s godi.Scope) (*vmCtrl, error) {
	r := vmReqOf(ctx)
	if r != nil {
		r.arrive()
		if r.rf {
			return nil, errors.New("vm: controller cannot be constructed")
		}
		r.log("res:" + r.name(s))
	}
	return &vmCtrl{rq: r, scope: s}, nil
}

func vmNewProbe() *vmProbe { return &vmProbe{} }

// ---------------------------------------------------------------- provider wrapper (counts CreateScope per request)

type vmProvider struct {
	godi.Provider
	sc *vmScenario
}

func (p *vmProvider) CreateScope(ctx context.Context) (godi.Scope, error) {
	r := vmReqOf(ctx)
	s, err := p.Provider.CreateScope(ctx)
	if r != nil {
		r.mu.Lock()
		r.attempts++
		if err == nil {
			r.created = append(r.created, s)
		}
		r.mu.Unlock()
		if err == nil {
			p.sc.addScope(s, r)
			r.log("create:" + r.name(s))
		} else {
			r.log("createfail")
		}
	}
	return s, err
}

// ---------------------------------------------------------------- concurrency: rendezvous inside the requests of a batch

type vmBarrier struct {
	mu      sync.Mutex
	need    int
	ch      chan struct{}
	timeout *int32 // counts timed-out arrivals of the whole run
}

func (b *vmBarrier) arrive() {
	b.mu.Lock()
	b.need--
	if b.need == 0 {
		close(b.ch)
	}
	b.mu.Unlock()
	d := 5 * time.Second
	if atomic.LoadInt32(b.timeout) >= 6 { // an implementation that keeps requests from arriving: stop waiting for it
		d = 20 * time.Millisecond
	}
	select {
	case <-b.ch:
	case <-time.After(d): // never a failure: only less overlap
		atomic.AddInt32(b.timeout, 1)
	}
}

// arrive is called at every point where user code runs inside a request; the first call of a
// participating request waits until all participants of the batch are inside their requests.
func (r *vmReq) arrive() {
	if r.bar != nil {
		r.arrived.Do(r.bar.arrive)
	}
}

// ---------------------------------------------------------------- scenario state

type vmApp interface {
	// serve runs the request through the real framework stack and returns the status code (0 if
	// none is meaningful) and whether a panic left the stack.
	serve(r *vmReq) (status int, escaped bool)
}

type vmScenario struct {
	cfg    vmCfg
	prov   godi.Provider
	wrap   *vmProvider
	app    vmApp
	mu     sync.Mutex
	scopes []godi.Scope          // every scope handed out, kept alive so identities stay unique
	owner  map[godi.Scope]*vmReq // who got it from CreateScope
	res    map[godi.Scope]*vmRes
	closed bool
}

func (sc *vmScenario) addScope(s godi.Scope, r *vmReq) {
	sc.mu.Lock()
	sc.scopes = append(sc.scopes, s)
	sc.owner[s] = r
	sc.mu.Unlock()
}
func (sc *vmScenario) addRes(s godi.Scope, x *vmRes) {
	sc.mu.Lock()
	sc.res[s] = x
	sc.mu.Unlock()
}

// visible: the scope was returned by CreateScope (scopes disposed inside a failing CreateScope are C10's business)
func (sc *vmScenario) visible(s godi.Scope) bool {
	sc.mu.Lock()
	defer sc.mu.Unlock()
	_, ok := sc.owner[s]
	return ok
}

func vmNewScenario(cfg vmCfg) (*vmScenario, error) {
	c := godi.NewCollection()
	for _, ctor := range []any{vmNewRes, vmInit, vmNewCtrl, vmNewProbe} {
		if err := c.AddScoped(ctor); err != nil {
			return nil, err
		}
	}
	p, err := c.Build()
	if err != nil {
		return nil, err
	}
	sc := &vmScenario{cfg: cfg, prov: p, owner: map[godi.Scope]*vmReq{}, res: map[godi.Scope]*vmRes{}}
	sc.wrap = &vmProvider{Provider: p, sc: sc}
	sc.app = vmBuild(sc, cfg)
	return sc, nil
}

// ---- callbacks used by the framework adapters

// live: the scope still resolves and its disposable has not been closed
func (sc *vmScenario) live(s godi.Scope) bool {
	if s == nil {
		return false
	}
	if _, err := godi.Resolve[*vmProbe](s); err != nil {
		return false
	}
	sc.mu.Lock()
	x := sc.res[s]
	sc.mu.Unlock()
	return x != nil && atomic.LoadInt32(&x.closes) == 0
}

func liveStr(b bool) string {
	if b {
		return "live"
	}
	return "dead"
}

// vmScopeOf: what godi.FromContext finds
func vmScopeOf(ctx context.Context) godi.Scope {
	s, err := godi.FromContext(ctx)
	if err != nil {
		return nil
	}
	return s
}

// mwBody is the body of configured middleware i.
func (sc *vmScenario) mwBody(i int, r *vmReq, arg, ctxScope, loc godi.Scope) error {
	if r == nil {
		return nil
	}
	r.arrive()
	r.log(fmt.Sprintf("mw%d:%s/%s/%s", i, r.name(arg), r.name(ctxScope), r.name(loc)))
	if r.fail == i {
		return errors.New("vm: middleware fails")
	}
	return nil
}

// plainBody is the body of the plain handler; the adapter then acts on r.out.
func (sc *vmScenario) plainBody(r *vmReq, ctxScope, loc godi.Scope) {
	r.arrive()
	r.log(fmt.Sprintf("h:%s/%s:%s", r.name(ctxScope), r.name(loc), liveStr(sc.live(ctxScope))))
}

// methodBody is the body of the controller method.
func (sc *vmScenario) methodBody(c *vmCtrl, r *vmReq) {
	var s godi.Scope
	if c != nil {
		s = c.scope
	}
	r.arrive()
	who := r.name(s)
	if c != nil && c.rq != r { // a scoped instance constructed for another request
		who = "x"
	}
	r.log(fmt.Sprintf("call:%s:%s", who, liveStr(sc.live(s))))
}

const (
	vmStatusEH  = 599
	vmStatusSEH = 598
	vmStatusREH = 597
	vmStatusPH  = 596
	vmStatusOut = 595 // fiber only: written by the recover middleware outside the scope middleware
	vmStatusErr = 418
)

// ---------------------------------------------------------------- run: files, stats, monitors

type vmRun struct {
	ops, obs, mon *bufio.Writer
	stats         map[string]int
	scen          int
	nline         int
	monBad        int
	cur           []string
	sc            *vmScenario
	nextID        int
	skip          bool // scenario of another framework (shared corpus / replay files)
	waited        time.Duration
	barrierT      int32 // rendezvous that timed out in this run
}

func (v *vmRun) emit(op, obs string) {
	fmt.Fprintln(v.ops, op)
	fmt.Fprintln(v.obs, obs)
	v.cur = append(v.cur, op)
	v.nline++
}

// vmExtra: set by an adapter's init() when it has hand-written scenarios of its own
var vmExtra func(v *vmRun)

func (v *vmRun) failMon(what string) {
	v.monBad++
	fmt.Fprintf(v.mon, "scenario=%d props=C16 what=%s\n", v.scen, what)
	for _, l := range v.cur {
		fmt.Fprintf(v.mon, "  %s\n", l)
	}
	v.stats["monitor_fail"]++
}

func kvs(w []string) map[string]string {
	m := map[string]string{}
	for _, x := range w {
		if i := strings.IndexByte(x, '='); i > 0 {
			m[x[:i]] = x[i+1:]
		}
	}
	return m
}

func (v *vmRun) parseReq(w []string) *vmReq {
	m := kvs(w)
	v.nextID++
	r := &vmReq{id: v.nextID, vmSpec: vmSpec{down: m["down"], fail: -1, out: m["out"], createFail: m["create"] == "fail", rf: m["rf"] == "1", cerr: m["cerr"] == "1", pre: m["pre"] == "1"}, sc: v.sc}
	if f, err := strconv.Atoi(m["fail"]); err == nil {
		r.fail = f
	}
	if b, err := strconv.Atoi(m["b"]); err == nil {
		r.batch = b
	}
	return r
}

// execLines runs a scenario script (lines of this framework; others are skipped).
func (v *vmRun) execLines(lines []string) {
	for i := 0; i < len(lines); i++ {
		w := strings.Fields(lines[i])
		if len(w) < 2 || w[0] != "mw" {
			continue
		}
		switch w[1] {
		case "new":
			v.skip = len(w) < 3 || w[2] != vmName
			if v.skip {
				continue
			}
			m := kvs(w)
			n, _ := strconv.Atoi(m["n"])
			cfg := vmCfg{inst: m["inst"] == "1", n: n, eh: m["eh"] == "c", ceh: m["ceh"] == "c", rec: m["rec"] == "1", ph: m["ph"] == "c", seh: m["seh"] == "c", reh: m["reh"] == "c"}
			if v.sc != nil && !v.sc.closed {
				_ = v.sc.prov.Close()
			}
			v.scen++
			v.cur = nil
			sc, err := vmNewScenario(cfg)
			if err != nil {
				panic("vm: cannot build scenario: " + err.Error())
			}
			v.sc = sc
			v.emit(cfg.line(), "ok")
			v.stats[fmt.Sprintf("cfg:inst=%s", b01(cfg.inst))]++
			v.stats[fmt.Sprintf("cfg:n=%d", cfg.n)]++
		case "closeprov":
			if v.skip || v.sc == nil {
				continue
			}
			_ = v.sc.prov.Close()
			v.sc.closed = true
			v.emit("mw closeprov", "ok")
			v.stats["op:closeprov"]++
		case "req":
			if v.skip || v.sc == nil {
				continue
			}
			r := v.parseReq(w[2:])
			v.runBatch([]*vmReq{r})
		case "creq":
			if v.skip || v.sc == nil {
				continue
			}
			first := v.parseReq(w[2:])
			batch := []*vmReq{first}
			for i+1 < len(lines) {
				w2 := strings.Fields(lines[i+1])
				if len(w2) < 3 || w2[0] != "mw" || w2[1] != "creq" || kvs(w2)["b"] != strconv.Itoa(first.batch) {
					break
				}
				batch = append(batch, v.parseReq(w2[2:]))
				i++
			}
			v.runBatch(batch)
		}
	}
}

// does the request get a scope (as far as the scenario tells)
func (v *vmRun) expectScope(r *vmReq) bool {
	return v.sc.cfg.inst && !r.createFail && !v.sc.closed
}

func (v *vmRun) runBatch(batch []*vmReq) {
	sc := v.sc
	if len(batch) > 1 {
		need := 0
		for _, r := range batch {
			if v.expectScope(r) {
				need++
			}
		}
		if need > 1 {
			bar := &vmBarrier{need: need, ch: make(chan struct{}), timeout: &v.barrierT}
			for _, r := range batch {
				if v.expectScope(r) {
					r.bar = bar
				}
			}
		}
		v.stats["batches"]++
		v.stats[fmt.Sprintf("batch_size:%d", len(batch))]++
	}
	sc.mu.Lock()
	before := len(sc.scopes)
	sc.mu.Unlock()
	for _, r := range batch {
		if r.pre && sc.cfg.inst && !sc.closed {
			if o, err := sc.prov.CreateScope(context.Background()); err == nil {
				r.outer = o
				v.stats["pre_existing_scope"]++
			}
		}
	}
	var wg sync.WaitGroup
	for _, r := range batch {
		wg.Add(1)
		go func(r *vmReq) {
			defer wg.Done()
			r.status, r.escaped = sc.app.serve(r)
		}(r)
	}
	wg.Wait()
	// the request has ended: everything C16 promises must hold NOW. The framework calls are
	// synchronous, so no wait is needed on correct code; the bounded wait only keeps a report about
	// a leak from being a report about scheduling. The Close counts are taken before the harness
	// closes its own outer scopes (whose cancellation would also tear down a leaked request scope).
	for _, r := range batch {
		r.closesAtEnd = map[godi.Scope]int32{}
		for _, s := range r.created {
			deadline := time.Now().Add(v.waitBudget(2 * time.Second))
			for {
				sc.mu.Lock()
				x := sc.res[s]
				sc.mu.Unlock()
				if x == nil {
					r.closesAtEnd[s] = -1
					break
				}
				r.closesAtEnd[s] = atomic.LoadInt32(&x.closes)
				if r.closesAtEnd[s] > 0 || time.Now().After(deadline) {
					break
				}
				time.Sleep(2 * time.Millisecond)
			}
		}
	}
	for _, r := range batch {
		if r.outer != nil {
			_ = r.outer.Close()
		}
	}
	sc.mu.Lock()
	earlier := map[godi.Scope]bool{}
	for _, s := range sc.scopes[:before] {
		earlier[s] = true
	}
	sc.mu.Unlock()
	for _, r := range batch {
		fresh := true
		for _, s := range r.created {
			if earlier[s] {
				fresh = false
			}
		}
		st := "none"
		switch {
		case r.escaped && vmName != "fiber":
			st = "-"
		case r.status != 0:
			st = strconv.Itoa(r.status)
		}
		r.mu.Lock()
		evs := append([]string{}, r.events...)
		r.mu.Unlock()
		v.emit(r.line(), strings.Join(append(evs, "status="+st, "fresh="+b01(fresh)), " "))
		v.monitors(r, evs, fresh, batch)
		v.stats["requests"]++
		v.stats["path:"+v.pathOf(r)]++
		v.stats["down:"+r.down]++
	}
	v.stats["barrier_timeouts"] = int(atomic.LoadInt32(&v.barrierT))
}

// waitBudget: bounded waits are for robustness, not part of any verdict; after 10 s of accumulated
// waiting (only a leaking implementation gets there) further waits are skipped.
func (v *vmRun) waitBudget(d time.Duration) time.Duration {
	if v.waited >= 10*time.Second {
		return 0
	}
	v.waited += d
	return d
}

func (v *vmRun) pathOf(r *vmReq) string {
	switch {
	case !v.sc.cfg.inst:
		return "no-middleware"
	case v.sc.closed:
		return "provider-closed"
	case r.createFail:
		return "create-fail"
	case r.fail >= 0 && r.fail < v.sc.cfg.n:
		return "mw-error"
	case r.down == "handle" && r.rf:
		return "resolution-error"
	}
	return "handler-" + r.out
}

// monitors: the statement of C16 evaluated directly on what the real stack did (no Lean model involved).
func (v *vmRun) monitors(r *vmReq, evs []string, fresh bool, batch []*vmReq) {
	cfg := v.sc.cfg
	bad := func(format string, a ...any) {
		v.failMon(fmt.Sprintf("%s %s: ", vmName, r.line()) + fmt.Sprintf(format, a...) + " events=[" + strings.Join(evs, " ") + "]")
	}
	wantScope := v.expectScope(r)
	mwFails := wantScope && r.fail >= 0 && r.fail < cfg.n
	reaches := !cfg.inst || (wantScope && !mwFails)
	// 1. exactly one scope per request that passes the middleware
	wantAttempts := 0
	if cfg.inst {
		wantAttempts = 1
	}
	if r.attempts != wantAttempts {
		bad("CreateScope called %d times for one request, want %d", r.attempts, wantAttempts)
	}
	if wantScope && len(r.created) != 1 {
		bad("%d scopes created for the request, want exactly 1", len(r.created))
	}
	if !wantScope && len(r.created) != 0 {
		bad("%d scopes created although creation must fail", len(r.created))
	}
	if !fresh {
		bad("the request got a scope that an earlier request already had")
	}
	if r.reqChanged {
		// http.Handler: "handlers should not modify the provided Request" - a caller that serves the same request again
		// (a fallback, a retry wrapper) would hand the next pass the context of a scope that is already closed
		bad("the middleware modified the caller's request in place: after ServeHTTP its context is not the one the caller set (it is the closed scope's)")
	}
	for _, o := range batch {
		if o != r && len(o.created) > 0 && len(r.created) > 0 && o.created[0] == r.created[0] {
			bad("concurrent requests %d and %d share a scope", r.id, o.id)
		}
	}
	// 2. same scope everywhere, in configuration order
	nextMw := 0
	var closeAt, lastUse = -1, -1
	nClose, nEH, nH, nCall, nRes, nSEH, nREH, nPH := 0, 0, 0, 0, 0, 0, 0, 0
	resBeforeCall := true
	for i, e := range evs {
		if strings.Contains(e, "x") {
			bad("event %q mentions a scope that is not this request's scope", e)
		}
		switch {
		case strings.HasPrefix(e, "mw"):
			p := strings.SplitN(e, ":", 2)
			if idx, _ := strconv.Atoi(p[0][2:]); idx != nextMw {
				bad("configured middlewares out of order: %q at position %d", e, nextMw)
			}
			nextMw++
			views := strings.Split(p[1], "/")
			if views[0] != "s0" || views[1] != "s0" || (vmName == "fiber" && views[2] != "s0") {
				bad("middleware does not see the request's scope through argument/context/locals: %q", e)
			}
			lastUse = i
		case strings.HasPrefix(e, "h:"):
			nH++
			lastUse = i
			if wantScope {
				want := "h:s0/-:live"
				if vmName == "fiber" {
					want = "h:s0/s0:live"
				}
				if e != want {
					bad("handler does not see the request's open scope: %q want %q", e, want)
				}
			}
		case strings.HasPrefix(e, "res:"):
			nRes++
			lastUse = i
			if e != "res:s0" {
				bad("controller resolved from another scope: %q", e)
			}
		case strings.HasPrefix(e, "call:"):
			nCall++
			lastUse = i
			if nRes == 0 {
				resBeforeCall = false
			}
			if e != "call:s0:live" {
				bad("controller method called with a controller of another or a closed scope: %q", e)
			}
		case strings.HasPrefix(e, "close:"):
			nClose++
			if closeAt < 0 {
				closeAt = i
			}
		case e == "eh":
			nEH++
		case e == "seh":
			nSEH++
		case e == "reh":
			nREH++
		case e == "ph":
			nPH++
		}
	}
	wantMw := 0
	if wantScope {
		wantMw = cfg.n
		if mwFails {
			wantMw = r.fail + 1
		}
	}
	if nextMw != wantMw {
		bad("%d configured middlewares ran, want %d", nextMw, wantMw)
	}
	// 3. closed exactly once by the end of the request, never before the last use
	for _, s := range r.created {
		switch n := r.closesAtEnd[s]; {
		case n < 0:
			bad("the request's scope has no disposable (harness invariant)")
		case n != 1:
			bad("scoped disposable closed %d times by the end of the request, want exactly 1", n)
		}
	}
	if closeAt >= 0 && lastUse > closeAt {
		bad("the scope is used after it was closed")
	}
	if nClose > len(r.created) {
		bad("%d close events for %d scopes", nClose, len(r.created))
	}
	// 4. error handler instead of the handler
	failing := cfg.inst && !reaches
	downRuns := nH + nCall + nRes + nSEH + nREH
	if failing {
		if downRuns != 0 {
			bad("the handler ran although scope creation or a middleware failed")
		}
		if cfg.eh && nEH != 1 {
			bad("error handler ran %d times, want 1", nEH)
		}
		if !cfg.eh && r.status != 500 {
			bad("default error handler: status %d, want 500", r.status)
		}
	} else {
		if nEH != 0 {
			bad("error handler ran on a path without error")
		}
		if r.down == "plain" && nH != 1 {
			bad("handler ran %d times, want 1", nH)
		}
	}
	// 5. Handle: resolve, then call; otherwise exactly one error handler
	if r.down == "handle" && reaches {
		if !resBeforeCall {
			bad("controller method called before the controller was resolved")
		}
		switch {
		case !cfg.inst:
			if nCall != 0 || nRes != 0 || (cfg.seh && nSEH != 1) || nREH != 0 || (!cfg.seh && r.status != 500) {
				bad("Handle without a scope: want exactly the scope-error handler")
			}
		case r.rf:
			if nCall != 0 || (cfg.reh && nREH != 1) || nSEH != 0 || (!cfg.reh && r.status != 500) {
				bad("Handle with failing resolution: want exactly the resolution-error handler")
			}
		default:
			if nCall != 1 || nRes != 1 || nSEH != 0 || nREH != 0 {
				bad("Handle: want resolve once, call once, no error handler")
			}
		}
	}
	// 6. panics swallowed iff recovery enabled
	invoked := reaches && (r.down == "plain" || (cfg.inst && !r.rf))
	wantEscape := invoked && r.out == "panic" && !(r.down == "handle" && cfg.rec)
	if r.escaped != wantEscape {
		bad("panic escaped=%v, want %v", r.escaped, wantEscape)
	}
	wantPH := invoked && r.out == "panic" && r.down == "handle" && cfg.rec
	if cfg.ph && (nPH == 1) != wantPH {
		bad("panic handler ran %d times, want %v", nPH, wantPH)
	}
	if wantPH && !cfg.ph && r.status != 500 {
		bad("default panic handler: status %d, want 500", r.status)
	}
}

// ---------------------------------------------------------------- generators

func (v *vmRun) reqLines(cfg vmCfg, exhaustive bool, rng *rand.Rand) []string {
	var out []string
	add := func(r vmSpec) { out = append(out, r.line()) }
	downs := []string{"plain", "handle"}
	outs := []string{"ok", "err", "panic"}
	for _, d := range downs {
		rfs := []bool{false}
		if d == "handle" {
			rfs = []bool{false, true}
		}
		if !cfg.inst {
			for _, o := range outs {
				add(vmSpec{down: d, fail: -1, out: o})
			}
			continue
		}
		add(vmSpec{down: d, fail: -1, createFail: true, out: "ok"})
		add(vmSpec{down: d, fail: -1, out: "ok", pre: true})
		add(vmSpec{down: d, fail: -1, out: "panic", pre: true})
		add(vmSpec{down: d, fail: -1, createFail: true, out: "ok", pre: true})
		if cfg.n > 0 {
			add(vmSpec{down: d, fail: cfg.n - 1, out: "ok", pre: true})
		}
		for f := -1; f < cfg.n; f++ {
			for _, o := range outs {
				for _, rf := range rfs {
					for _, ce := range []bool{false, true} {
						if f >= 0 && (o != "ok" || rf) && !exhaustive {
							continue // after a middleware error the handler is not reached
						}
						if !exhaustive && ce && rng.Intn(2) == 0 {
							continue
						}
						add(vmSpec{down: d, fail: f, out: o, rf: rf, cerr: ce})
					}
				}
			}
		}
	}
	return out
}

func (v *vmRun) streamExhaustive(rng *rand.Rand, maxN int, allFlags bool) {
	for _, inst := range []bool{true, false} {
		for n := 0; n <= maxN; n++ {
			if !inst && n > 0 {
				continue
			}
			nf := 4 // eh, rec + two random bits
			if allFlags {
				nf = 64
			}
			for f := 0; f < nf; f++ {
				cfg := vmCfg{inst: inst, n: n, eh: f&1 != 0, rec: f&2 != 0}
				if allFlags {
					cfg.ceh, cfg.ph, cfg.seh, cfg.reh = f&4 != 0, f&8 != 0, f&16 != 0, f&32 != 0
				} else {
					cfg.ceh, cfg.ph, cfg.seh, cfg.reh = rng.Intn(2) == 0, rng.Intn(2) == 0, rng.Intn(2) == 0, rng.Intn(2) == 0
				}
				lines := append([]string{cfg.line()}, v.reqLines(cfg, allFlags, rng)...)
				lines = append(lines, "mw closeprov", vmSpec{down: "plain", fail: -1, out: "ok"}.line(), vmSpec{down: "handle", fail: -1, out: "panic"}.line())
				v.execLines(lines)
			}
		}
	}
}

func (v *vmRun) randReq(rng *rand.Rand, cfg vmCfg) vmSpec {
	r := vmSpec{down: []string{"plain", "handle"}[rng.Intn(2)], fail: -1, out: []string{"ok", "ok", "err", "panic"}[rng.Intn(4)]}
	if cfg.n > 0 && rng.Intn(3) == 0 {
		r.fail = rng.Intn(cfg.n)
	}
	r.createFail = rng.Intn(8) == 0
	r.rf = rng.Intn(5) == 0
	r.cerr = rng.Intn(5) == 0
	r.pre = cfg.inst && rng.Intn(5) == 0
	return r
}

func (v *vmRun) streamRandom(rng *rand.Rand, count int) {
	for k := 0; k < count; k++ {
		cfg := vmCfg{inst: rng.Intn(8) != 0, n: rng.Intn(6), eh: rng.Intn(2) == 0, ceh: rng.Intn(2) == 0, rec: rng.Intn(2) == 0, ph: rng.Intn(2) == 0, seh: rng.Intn(2) == 0, reh: rng.Intn(2) == 0}
		if rng.Intn(10) == 0 {
			cfg.n = 6 + rng.Intn(10)
		}
		lines := []string{cfg.line()}
		batch := 0
		for i, m := 0, 3+rng.Intn(6); i < m; i++ {
			if rng.Intn(3) == 0 {
				batch++
				for j, sz := 0, 2+rng.Intn(3); j < sz; j++ {
					r := v.randReq(rng, cfg)
					r.batch = batch
					lines = append(lines, r.line())
				}
			} else {
				r := v.randReq(rng, cfg)
				lines = append(lines, r.line())
			}
		}
		if rng.Intn(4) == 0 {
			lines = append(lines, "mw closeprov")
			for i, m := 0, 1+rng.Intn(2); i < m; i++ {
				r := v.randReq(rng, cfg)
				lines = append(lines, r.line())
			}
		}
		v.execLines(lines)
	}
}

func (v *vmRun) streamFiles(dir string) {
	if dir == "" {
		return
	}
	files, _ := filepath.Glob(filepath.Join(dir, "*.ops"))
	sort.Strings(files)
	for _, f := range files {
		data, err := os.ReadFile(f)
		if err != nil {
			continue
		}
		v.skip = true
		v.execLines(strings.Split(string(data), "\n"))
		v.stats["corpus_files"]++
	}
}

func vmEnvInt(name string, def int) int {
	if s := os.Getenv(name); s != "" {
		if n, err := strconv.Atoi(s); err == nil {
			return n
		}
	}
	return def
}

func vmMain(t *testing.T) {
	out := os.Getenv("VERIF_OUT")
	if out == "" {
		t.Skip("VERIF_OUT not set")
	}
	slog.SetDefault(slog.New(slog.NewTextHandler(io.Discard, nil)))
	seed := int64(vmEnvInt("VERIF_SEED", 1))
	open := func(name string) (*os.File, *bufio.Writer) {
		f, err := os.Create(filepath.Join(out, name))
		if err != nil {
			t.Fatal(err)
		}
		return f, bufio.NewWriterSize(f, 1<<20)
	}
	fo, wo := open("ops.txt")
	fb, wb := open("obs.txt")
	fm, wm := open("mon.txt")
	v := &vmRun{ops: wo, obs: wb, mon: wm, stats: map[string]int{}}
	rng := rand.New(rand.NewSource(seed))
	start := time.Now()
	if d := os.Getenv("VERIF_REPLAY"); d != "" {
		v.streamFiles(d)
	} else {
		v.streamFiles(os.Getenv("VERIF_CORPUS"))
		v.streamExhaustive(rng, vmEnvInt("VERIF_MW_MAXN", 2), vmEnvInt("VERIF_MW_ALLFLAGS", 0) == 1)
		v.streamRandom(rng, vmEnvInt("VERIF_MW_RANDOM", 150))
	}
	if v.sc != nil && !v.sc.closed {
		_ = v.sc.prov.Close()
	}
	if vmExtra != nil && os.Getenv("VERIF_REPLAY") == "" {
		vmExtra(v) // adapter-specific hand-written scenarios (monitors only, no op lines)
	}
	wo.Flush()
	wb.Flush()
	wm.Flush()
	fo.Close()
	fb.Close()
	fm.Close()
	v.stats["scenarios"] = v.scen
	v.stats["nontrivial"] = v.scen
	v.stats["lines"] = v.nline
	v.stats["monitor_failures"] = v.monBad
	v.stats["wall_ms"] = int(time.Since(start).Milliseconds())
	js, _ := json.MarshalIndent(v.stats, "", " ")
	os.WriteFile(filepath.Join(out, "stats.json"), js, 0o644)
	t.Logf("mw harness %s: %d scenarios, %d lines, %d monitor failures", vmName, v.scen, v.nline, v.monBad)
}
