// C16 harness, net/http adapter: drives the real ScopeMiddleware / Handle of this package through
// net/http (ServeMux + httptest). Injected with `go test -overlay`; never committed to the repository.
package http

import (
	"net/http"
	"net/http/httptest"
	"testing"

	"github.com/junioryono/godi/v4"
)

const vmName = "http"

// the controller method routed through Handle
func (c *vmCtrl) Serve(w http.ResponseWriter, r *http.Request) {
	rq := vmReqOf(r.Context())
	rq.sc.methodBody(c, rq)
	vmAct(rq, w)
}

func vmAct(rq *vmReq, w http.ResponseWriter) {
	switch rq.out {
	case "ok":
		w.WriteHeader(http.StatusOK)
	case "err":
		http.Error(w, "vm: handler error", vmStatusErr)
	case "panic":
		panic("vm: handler panics")
	}
}

type vmHTTPApp struct{ h http.Handler }

func (a *vmHTTPApp) serve(rq *vmReq) (status int, escaped bool) {
	rec := httptest.NewRecorder()
	req := httptest.NewRequest(http.MethodGet, "/"+rq.down, nil)
	req = req.WithContext(rq.ctx(req.Context()))
	callerCtx := req.Context()
	defer func() {
		if req.Context() != callerCtx {
			rq.reqChanged = true
		}
	}()
	func() {
		defer func() {
			if v := recover(); v != nil {
				rq.log("panic")
				escaped = true
			}
		}()
		a.h.ServeHTTP(rec, req)
	}()
	return rec.Code, escaped
}

func vmBuild(sc *vmScenario, cfg vmCfg) vmApp {
	mux := http.NewServeMux()
	mux.HandleFunc("/plain", func(w http.ResponseWriter, r *http.Request) {
		rq := vmReqOf(r.Context())
		sc.plainBody(rq, vmScopeOf(r.Context()), nil)
		vmAct(rq, w)
	})
	hopts := []HandlerOption{WithPanicRecovery(cfg.rec)}
	if cfg.ph {
		hopts = append(hopts, WithPanicHandler(func(w http.ResponseWriter, r *http.Request, _ any) {
			vmReqOf(r.Context()).log("ph")
			w.WriteHeader(vmStatusPH)
		}))
	}
	if cfg.seh {
		hopts = append(hopts, WithScopeErrorHandler(func(w http.ResponseWriter, r *http.Request, _ error) {
			vmReqOf(r.Context()).log("seh")
			w.WriteHeader(vmStatusSEH)
		}))
	}
	if cfg.reh {
		hopts = append(hopts, WithResolutionErrorHandler(func(w http.ResponseWriter, r *http.Request, _ error) {
			vmReqOf(r.Context()).log("reh")
			w.WriteHeader(vmStatusREH)
		}))
	}
	mux.Handle("/handle", Handle((*vmCtrl).Serve, hopts...))
	if !cfg.inst {
		return &vmHTTPApp{h: mux}
	}
	var opts []Option
	if cfg.eh {
		opts = append(opts, WithErrorHandler(func(w http.ResponseWriter, r *http.Request, _ error) {
			vmReqOf(r.Context()).log("eh")
			w.WriteHeader(vmStatusEH)
		}))
	}
	if cfg.ceh {
		// the close error handler has no request at hand: the failing Close logs for it
		opts = append(opts, WithCloseErrorHandler(func(err error) { vmCloseErr(err) }))
	}
	for i := 0; i < cfg.n; i++ {
		i := i
		opts = append(opts, WithMiddleware(func(s godi.Scope, r *http.Request) error {
			return sc.mwBody(i, vmReqOf(r.Context()), s, vmScopeOf(r.Context()), nil)
		}))
	}
	return &vmHTTPApp{h: ScopeMiddleware(sc.wrap, opts...)(mux)}
}

func TestVerifMw(t *testing.T) { vmMain(t) }
