// C16 harness, chi adapter (the chi integration is plain net/http middleware): drives ScopeMiddleware / Handle through
// net/http (ServeMux + httptest). Injected with `go test -overlay`; never committed to the repository.
package chi

import (
	"context"
	"errors"
	"fmt"
	"net/http"
	"net/http/httptest"
	"reflect"
	"testing"
	"time"

	"github.com/junioryono/godi/v4"
)

const vmName = "chi"

// the controller method routed through Handle
func (c *vmCtrl) Serve(w http.ResponseWriter, r *http.Request) {
	rq := vmReqOf(r.Context())
	rq.sc.methodBody(c, rq)
	vmAct(rq, w)
}

func vmAct(rq *vmReq, w http.ResponseWriter) {
	switch rq.out {
	case "ok":
		w.WriteHeader(http.StatusOK)
	case "err":
		http.Error(w, "vm: handler error", vmStatusErr)
	case "panic":
		panic("vm: handler panics")
	}
}

type vmHTTPApp struct{ h http.Handler }

func (a *vmHTTPApp) serve(rq *vmReq) (status int, escaped bool) {
	rec := httptest.NewRecorder()
	req := httptest.NewRequest(http.MethodGet, "/"+rq.down, nil)
	req = req.WithContext(rq.ctx(req.Context()))
	callerCtx := req.Context()
	defer func() {
		if req.Context() != callerCtx {
			rq.reqChanged = true
		}
	}()
	func() {
		defer func() {
			if v := recover(); v != nil {
				rq.log("panic")
				escaped = true
			}
		}()
		a.h.ServeHTTP(rec, req)
	}()
	return rec.Code, escaped
}

func vmBuild(sc *vmScenario, cfg vmCfg) vmApp {
	mux := http.NewServeMux()
	mux.HandleFunc("/plain", func(w http.ResponseWriter, r *http.Request) {
		rq := vmReqOf(r.Context())
		sc.plainBody(rq, vmScopeOf(r.Context()), nil)
		vmAct(rq, w)
	})
	hopts := []HandlerOption{WithPanicRecovery(cfg.rec)}
	if cfg.ph {
		hopts = append(hopts, WithPanicHandler(func(w http.ResponseWriter, r *http.Request, _ any) {
			vmReqOf(r.Context()).log("ph")
			w.WriteHeader(vmStatusPH)
		}))
	}
	if cfg.seh {
		hopts = append(hopts, WithScopeErrorHandler(func(w http.ResponseWriter, r *http.Request, _ error) {
			vmReqOf(r.Context()).log("seh")
			w.WriteHeader(vmStatusSEH)
		}))
	}
	if cfg.reh {
		hopts = append(hopts, WithResolutionErrorHandler(func(w http.ResponseWriter, r *http.Request, _ error) {
			vmReqOf(r.Context()).log("reh")
			w.WriteHeader(vmStatusREH)
		}))
	}
	mux.Handle("/handle", Handle((*vmCtrl).Serve, hopts...))
	if !cfg.inst {
		return &vmHTTPApp{h: mux}
	}
	var opts []Option
	if cfg.eh {
		opts = append(opts, WithErrorHandler(func(w http.ResponseWriter, r *http.Request, _ error) {
			vmReqOf(r.Context()).log("eh")
			w.WriteHeader(vmStatusEH)
		}))
	}
	if cfg.ceh {
		// the close error handler has no request at hand: the failing Close logs for it
		opts = append(opts, WithCloseErrorHandler(func(err error) { vmCloseErr(err) }))
	}
	for i := 0; i < cfg.n; i++ {
		i := i
		opts = append(opts, WithMiddleware(func(s godi.Scope, r *http.Request) error {
			return sc.mwBody(i, vmReqOf(r.Context()), s, vmScopeOf(r.Context()), nil)
		}))
	}
	return &vmHTTPApp{h: ScopeMiddleware(sc.wrap, opts...)(mux)}
}

// ---- hand-written: the request's scope has ended before the chain reaches Handle ---------------------------------
// A middleware closes the scope, or the request context is cancelled (the scope's watcher closes it). Whatever Handle
// finds in the context, the request is answered by exactly one of: the controller, the scope-error handler, the
// resolution-error handler - never by nobody.
type vxCtrl struct{ called *int }

func (c *vxCtrl) Serve(w http.ResponseWriter, r *http.Request) {
	*c.called++
	w.WriteHeader(http.StatusOK)
}

func init() { vmExtra = vmEarlyEnd }

func vmEarlyEnd(v *vmRun) {
	for variant := 0; variant < 4; variant++ {
		called, seh, reh := 0, 0, 0
		c := godi.NewCollection()
		if err := c.AddScoped(func() *vxCtrl { return &vxCtrl{called: &called} }); err != nil {
			continue
		}
		p, err := c.Build()
		if err != nil {
			continue
		}
		h := Handle((*vxCtrl).Serve,
			WithScopeErrorHandler(func(w http.ResponseWriter, r *http.Request, _ error) { seh++; w.WriteHeader(vmStatusSEH) }),
			WithResolutionErrorHandler(func(w http.ResponseWriter, r *http.Request, _ error) { reh++; w.WriteHeader(vmStatusREH) }))
		ctx, cancel := context.WithCancel(context.Background())
		byCancel := variant >= 2
		mw := WithMiddleware(func(s godi.Scope, r *http.Request) error {
			if !byCancel {
				s.Close()
				return nil
			}
			cancel()
			for i := 0; i < 500; i++ { // the watcher closes the scope
				if _, e := s.Get(reflect.TypeOf((*vxCtrl)(nil))); errors.Is(e, godi.ErrScopeDisposed) {
					break
				}
				time.Sleep(2 * time.Millisecond)
			}
			return nil
		})
		app := ScopeMiddleware(p, mw)(h)
		rec := httptest.NewRecorder()
		req := httptest.NewRequest(http.MethodGet, "/x", nil).WithContext(ctx)
		func() {
			defer func() { recover() }()
			app.ServeHTTP(rec, req)
		}()
		cancel()
		v.scen++
		v.cur = []string{fmt.Sprintf("# hand-written: the scope of the request ends before Handle (variant %d: %s)", variant,
			map[bool]string{false: "a middleware closes it", true: "the request context is cancelled"}[byCancel])}
		if called+seh+reh != 1 {
			v.failMon(fmt.Sprintf("%s: a request whose scope had ended before the chain reached Handle was answered by nobody or twice: controller %d, scope-error handler %d, resolution-error handler %d (status %d)", vmName, called, seh, reh, rec.Code))
		}
		p.Close()
		v.stats["early_end"]++
	}
}

func TestVerifMw(t *testing.T) { vmMain(t) }
