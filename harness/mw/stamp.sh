#!/bin/sh
# stamps harness/mw/common.go.tmpl into the five framework packages (only the package clause differs)
set -e
cd "$(dirname "$0")"
for fw in http chi gin echo fiber; do
  mkdir -p "$fw"
  sed "s/^package PKG\$/package $fw/" common.go.tmpl > "$fw/vm_common_test.go.new"
  if ! cmp -s "$fw/vm_common_test.go.new" "$fw/vm_common_test.go"; then mv "$fw/vm_common_test.go.new" "$fw/vm_common_test.go"; else rm "$fw/vm_common_test.go.new"; fi
done
