import Driver.Util
import Driver.Graph
import Driver.Container
