import Driver.Util
import Driver.Graph
import Driver.Coll
