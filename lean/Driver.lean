import Driver.Util
import Driver.Graph
