import Driver.Util
import Driver.Graph
import Driver.Conc
