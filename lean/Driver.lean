import Driver.Util
import Driver.Graph
import Driver.Container
import Driver.Coll
import Driver.Mw
import Driver.Conc
