import GodiProofs.Graph.KahnMain
import GodiProofs.Graph.Dfs
import GodiProofs.Graph.Inv
import GodiProofs.Graph.Ops
import GodiProofs.Graph.Detect
import GodiProofs.Graph.Bridge
import GodiProofs.Props.C06
