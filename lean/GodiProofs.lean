import GodiProofs.Graph.KahnMain
import GodiProofs.Graph.Dfs
