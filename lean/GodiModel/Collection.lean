/-!
# M3 — transliteration of the registry half of `/repo/collection.go`

Anchors: `addService` (collection.go:494-723), `registerDescriptor` (:728-764), `rollbackTo`
(:817-839), `Remove`/`RemoveKeyed`/`removeLocked` (:426-461), the queries (:383-480), the snapshot
taken by `doBuild` (:273-290), `newDescriptorWithAnalyzer` (descriptor.go:74-222),
`Descriptor.Validate` (descriptor.go:255-305), `addOptions.Validate` (module.go:85-138).

Go maps are a key list plus a total function (`skeys`/`svc`, `gkeys`/`grp`); presence of a key is
`(svc k).isSome` / `grp g ≠ []`, the key lists are what `maps.Clone` / `range` enumerate.
`reflect.Type`s, names and group names are small numbers chosen by the harness (`0` = the empty
string for names and groups; types `0,1,2` are the three entries of `reservedTypes`).
A `*Descriptor` is a record with a unique `id` (the pointer); pointer comparisons in the Go code
(`members[len-1] == d`, `r.services[k] == d`, `d == descriptor`) compare `id`s.

What reflection computes from the constructor (`Analyze`, `Implements`, tag parsing, nil-ness of the
value) is *data of the request* (`Req`), supplied by the harness; what is modelled is everything
`addService` does with it: the order of the checks, the error layers, the fan-out into several
descriptors, their one-by-one registration and the rollback of a rejected call.
-/
namespace Godi.Coll

/-! ### identities, descriptors, errors -/

/-- `Descriptor.Key` (an `any`): absent, a `godi.Name`/`name:"…"` string, the running number
`registerDescriptor` gives a group member, or the generated `"v<n>"` of a void constructor -/
inductive Key
  | nil
  | name (n : Nat)
  | idx (i : Nat)
  | void (n : Nat)
deriving DecidableEq, Repr, Inhabited

def Key.isIdx : Key → Bool
  | .idx _ => true
  | _ => false

inductive Life
  | singleton | scoped | transient
deriving DecidableEq, Repr, Inhabited

/-- `TypeKey` -/
abbrev Ident := Nat × Key
/-- `GroupKey` (type, group name) -/
abbrev GKey := Nat × Nat

structure Desc where
  id : Nat := 0          -- the pointer
  ty : Nat
  key : Key := .nil
  grp : Nat := 0         -- `Group`, 0 = ""
  life : Life := .singleton
  ctor : Nat := 0        -- which registered constructor value (`Constructor`)
  void : Bool := false   -- `VoidReturn`
  inst : Bool := false   -- `IsInstance`
  /-- `siblings`: the instance keys `(type, key, group)` of the service-path descriptors created by
  the same Add call, this one included. One invocation of the constructor stores its outputs under
  all of them (scope.go:611-760). Group members are left out: their key is only known once they are
  appended, and they cannot be removed. -/
  stores : List (Nat × Key × Nat) := []
deriving DecidableEq, Repr, Inhabited

def Desc.ident (d : Desc) : Ident := (d.ty, d.key)
def Desc.instKey (d : Desc) : Nat × Key × Nat := (d.ty, d.key, d.grp)
def Desc.gkey (d : Desc) : GKey := (d.ty, d.grp)

/-- leaves of an error chain -/
inductive Leaf
  | constructorNil                         -- `ErrConstructorNil`
  | text                                   -- `fmt.Errorf` / `errors.New` without a godi type
  | alreadyRegistered (ty : Nat)           -- `AlreadyRegisteredError{ServiceType}`
  | typeMismatch (expected actual : Nat)   -- `TypeMismatchError` (no `Unwrap`)
deriving DecidableEq, Repr, Inhabited

/-- typed layers that have an `Unwrap` -/
inductive Kind
  | validation (ty : Option Nat)                    -- `ValidationError{ServiceType}`
  | registration (ty : Option Nat) (op : String)    -- `RegistrationError{ServiceType, Operation}`
  | reflection (op : String)                        -- `ReflectionAnalysisError{Operation}`
deriving DecidableEq, Repr, Inhabited

inductive Err
  | sentinel (l : Leaf)
  | typed (k : Kind) (cause : Err)
  | module (name : String) (cause : Err)           -- `ModuleError{Module, Cause}`
deriving DecidableEq, Repr, Inhabited

/-- `errors.Unwrap` -/
def Err.unwrap : Err → Option Err
  | .sentinel _ => none
  | .typed _ c => some c
  | .module _ c => some c

/-- the chain `errors.Is` / `errors.As` walk: the error, its cause, the cause's cause, … -/
def Err.chain : Err → List Err
  | .sentinel l => [.sentinel l]
  | .typed k c => .typed k c :: c.chain
  | .module n c => .module n c :: c.chain

/-- `errors.Is(e, target)` for comparable targets -/
def Err.is (e target : Err) : Bool := decide (target ∈ e.chain)

def eValidation (ty : Option Nat) (c : Err) : Err := .typed (.validation ty) c
def eRegistration (ty : Option Nat) (op : String) (c : Err) : Err := .typed (.registration ty op) c
def eText : Err := .sentinel .text
def eAlready (ty : Nat) : Err := .sentinel (.alreadyRegistered ty)

/-! ### the registry -/

def upd {κ α} [DecidableEq κ] (f : κ → α) (k : κ) (v : α) : κ → α := fun x => if x = k then v else f x

@[simp] theorem upd_self {κ α} [DecidableEq κ] (f : κ → α) (k : κ) (v : α) : upd f k v k = v := by simp [upd]
@[simp] theorem upd_ne {κ α} [DecidableEq κ] (f : κ → α) {k x : κ} (v : α) (h : x ≠ k) : upd f k v x = f x := by
  simp [upd, h]

/-- the three views of `collection` (collection.go:92-106) -/
structure Reg where
  skeys : List Ident := []
  svc : Ident → Option Desc := fun _ => none      -- `services`
  gkeys : List GKey := []
  grp : GKey → List Desc := fun _ => []           -- `groups`
  all : List Desc := []                            -- `allDescriptors`

/-- a collection: the registry plus the two counters that make pointers and void keys fresh
(`voidKeyCounter` is a package variable in Go: it is not part of the collection and never rolled
back) -/
structure Coll where
  reg : Reg := {}
  nextId : Nat := 0
  nextVoid : Nat := 0

def empty : Coll := {}

/-- `r.services[k] = d` -/
def Reg.setSvc (r : Reg) (k : Ident) (d : Desc) : Reg :=
  { r with skeys := if k ∈ r.skeys then r.skeys else r.skeys ++ [k], svc := upd r.svc k (some d) }
/-- `delete(r.services, k)` -/
def Reg.delSvc (r : Reg) (k : Ident) : Reg :=
  { r with skeys := r.skeys.erase k, svc := upd r.svc k none }
/-- `r.groups[g] = l` -/
def Reg.setGrp (r : Reg) (g : GKey) (l : List Desc) : Reg :=
  { r with gkeys := if g ∈ r.gkeys then r.gkeys else r.gkeys ++ [g], grp := upd r.grp g l }
/-- `delete(r.groups, g)` -/
def Reg.delGrp (r : Reg) (g : GKey) : Reg :=
  { r with gkeys := r.gkeys.erase g, grp := upd r.grp g [] }
/-- `r.allDescriptors = append(r.allDescriptors, d)` -/
def Reg.push (r : Reg) (d : Desc) : Reg := { r with all := r.all ++ [d] }

/-- the three entries of `reservedTypes` (collection.go:482-489): `context.Context`, `Provider`, `Scope` -/
def reserved (ty : Nat) : Bool := decide (ty < 3)

/-- `registerDescriptor` (collection.go:728-764). The descriptor gets the next free pointer. -/
def registerDescriptor (c : Coll) (d0 : Desc) : Except Err Coll :=
  if reserved d0.ty then .error (eValidation (some d0.ty) eText) else
  let d := { d0 with id := c.nextId }
  if d.key ≠ .nil ∨ d.grp = 0 then
    if (c.reg.svc d.ident).isSome then
      if d.key = .nil then .error (eAlready d.ty)
      else .error (eRegistration (some d.ty) "register" (eAlready d.ty))
    else .ok { c with reg := (c.reg.setSvc d.ident d).push d, nextId := c.nextId + 1 }
  else
    -- `descriptor.Key = len(r.groups[groupKey])` after the append
    let d' := { d with key := .idx ((c.reg.grp d.gkey).length + 1) }
    .ok { c with reg := (c.reg.setGrp d.gkey (c.reg.grp d.gkey ++ [d'])).push d', nextId := c.nextId + 1 }

/-- the second half of an iteration of `rollbackTo` (collection.go:831-834) -/
def rollbackSvc (r : Reg) (d : Desc) : Reg :=
  match r.svc d.ident with
  | some x => if x.id = d.id then r.delSvc d.ident else r
  | none => r

/-- one iteration of the loop in `rollbackTo` (collection.go:818-835) -/
def rollbackOne (r : Reg) (d : Desc) : Reg :=
  let members := r.grp d.gkey
  match members.getLast? with
  | some m =>
    if m.id = d.id then
      if members.length = 1 then r.delGrp d.gkey else r.setGrp d.gkey members.dropLast
    else rollbackSvc r d
  | none => rollbackSvc r d

/-- `rollbackTo` (collection.go:817-839): newest first, then truncate the list -/
def rollbackTo (r : Reg) (mark : Nat) : Reg :=
  let r1 := (r.all.drop mark).reverse.foldl rollbackOne r
  { r1 with all := r1.all.take mark }

/-! ### the request: what reflection hands to `addService` -/

/-- one field of an `Out` struct (`reflection.ResultField`): type, `name:"…"`, `group:"…"` -/
structure Field where
  ty : Nat
  name : Nat := 0
  grp : Nat := 0
deriving DecidableEq, Repr, Inhabited

def keyOfName (n : Nat) : Key := if n = 0 then .nil else .name n

structure Req where
  life : Life := .singleton
  ctor : Nat := 0
  svcNil : Bool := false          -- `service == nil`
  nilPtr : Bool := false          -- typed nil pointer (descriptor.go:99)
  nilFunc : Bool := false         -- nil func value: `Analyze` fails
  name : Nat := 0                 -- `godi.Name`
  group : Nat := 0                -- `godi.Group`
  optBad : Bool := false          -- backquote in a name / `As` of a non-interface (module.go:99-136)
  as : List (Nat × Bool) := []    -- `godi.As`: interface type, does `descriptor.Type` implement it
  primary : Nat := 0              -- `descriptor.Type`: first return / instance type / `struct{}`
  inst : Bool := false            -- not a function
  void : Bool := false            -- no non-error return
  valBad : Bool := false          -- `Validate` fails for another reason (channel return type …)
  resultObj : Bool := false       -- first return embeds `godi.Out`
  fields : List Field := []       -- its fields
  rets : List Nat := []           -- non-error return types of a plain function
deriving Repr, Inhabited

/-- `addOptions.Validate` (module.go:85-138) -/
def Req.optionsInvalid (r : Req) : Bool := (r.group != 0 && r.name != 0) || r.optBad

/-- an entry of one of the three fan-out loops: a pre-check that fails (the `Implements` test of
the `As` loop) or a descriptor to register -/
structure Item where
  pre : Option Err := none
  d : Desc
deriving DecidableEq, Repr, Inhabited

/-- the common shape of the three loops (collection.go:581-609, 629-663, 673-714): check, register,
wrap the failure; stops at the first failure and returns the state reached -/
def registerEach (op : String) : Coll → List Item → Coll × Option Err
  | c, [] => (c, none)
  | c, it :: rest =>
    match it.pre with
    | some e => (c, some e)
    | none =>
      match registerDescriptor c it.d with
      | .error e => (c, some (eRegistration (some it.d.ty) op e))
      | .ok c' => registerEach op c' rest

def Req.base (r : Req) : Desc := { ty := r.primary, life := r.life, ctor := r.ctor }

/-- result-object fields: own type, own name tag, own group tag; options `Name`/`Group` are not
applied. A field that carries both tags is refused when the loop reaches it, before its
`registerDescriptor` (collection.go:582-592); the fields registered before it are rolled back. -/
def Req.fieldItems (r : Req) : List Item :=
  r.fields.map fun f =>
    { pre := if f.name ≠ 0 ∧ f.grp ≠ 0 then
               some (eRegistration (some f.ty) "register result object field" (eValidation (some f.ty) eText))
             else none,
      d := { r.base with ty := f.ty, key := keyOfName f.name, grp := f.grp } }

/-- multiple returns: `Name` goes to the first return only, `Group` to all -/
def retItems (r : Req) : Nat → List Nat → List Item
  | _, [] => []
  | i, t :: rest =>
    { d := { r.base with ty := t, key := if i = 0 then keyOfName r.name else .nil, grp := r.group } }
      :: retItems r (i + 1) rest

/-- aliases: the descriptor's key and group under each interface type, after the `Implements` test -/
def Req.asItems (r : Req) (key0 : Key) : List Item :=
  r.as.map fun (ity, impl) =>
    { pre := if impl then none else some (.sentinel (.typeMismatch ity r.primary)),
      d := { r.base with ty := ity, key := key0, grp := r.group, inst := r.inst } }

/-- `linkSiblings` (collection.go:810-814), done up front: in Go the descriptors of one call are
linked after the loop; a call whose loop fails is rolled back, so nothing observes the difference -/
def linkSiblings (items : List Item) : List Item :=
  let keys := (items.filter fun it => it.d.key != .nil || it.d.grp == 0).map (·.d.instKey)
  items.map fun it => { it with d := { it.d with stores := keys } }

/-- which loop runs, with which wrapping operation -/
def Req.fanout (r : Req) (key0 : Key) : Option (String × List Item) :=
  if r.resultObj then some ("register result object field", linkSiblings r.fieldItems)
  else if !r.inst && r.rets.length > 1 then some ("register multi-return type", linkSiblings (retItems r 0 r.rets))
  else if !r.as.isEmpty then some ("register as interface", linkSiblings (r.asItems key0))
  else none

/-- the part of `addService` under the lock, before the deferred rollback (collection.go:542-722) -/
def addLocked (c : Coll) (r : Req) (key0 : Key) : Coll × Option Err :=
  if r.optionsInvalid then
    (c, some (eRegistration (some r.primary) "validate options" (eValidation none eText)))
  else
    match r.fanout key0 with
    | some (op, items) => registerEach op c items
    | none =>
      let stores := if key0 != .nil || r.group == 0 then [(r.primary, key0, r.group)] else []
      match registerDescriptor c { r.base with key := key0, grp := r.group, void := r.void, inst := r.inst, stores := stores } with
      | .ok c' => (c', none)
      | .error e => (c, some e)

/-- a void constructor draws the next `"v<n>"` key (descriptor.go:168-173) -/
def Req.drawVoid (r : Req) (c : Coll) : Coll := if r.void then { c with nextVoid := c.nextVoid + 1 } else c

/-- `descriptor.Key` after `newDescriptorWithAnalyzer`: the name option, else the void key, else nil -/
def Req.key0 (r : Req) (c1 : Coll) : Key :=
  if r.name ≠ 0 then .name r.name else if r.void then .void c1.nextVoid else .nil

/-- the checks made before the lock is taken (collection.go:495-528, descriptor.go:74-222,255-305).
Returns the collection (a void constructor draws a key even when the call is rejected afterwards),
and either the error or the descriptor's key. -/
def preChecks (c : Coll) (r : Req) : Coll × Except Err Key :=
  if r.svcNil then (c, .error (eValidation none (.sentinel .constructorNil))) else
  if r.optionsInvalid then (c, .error (eRegistration none "create descriptor" (eValidation none eText))) else
  if r.nilPtr then (c, .error (eRegistration none "create descriptor" (eValidation none (.sentinel .constructorNil)))) else
  if r.nilFunc then (c, .error (eRegistration none "create descriptor" (.typed (.reflection "analyze") eText))) else
  let c1 := r.drawVoid c
  let key0 := r.key0 c1
  if (key0 ≠ .nil ∧ r.group ≠ 0) ∨ r.valBad then
    (c1, .error (eRegistration (some r.primary) "validate descriptor" (eValidation (some r.primary) eText)))
  else if reserved r.primary then (c1, .error (eValidation (some r.primary) eText))
  else (c1, .ok key0)

/-- `addService` (collection.go:494-723) -/
def addService (c : Coll) (r : Req) : Coll × Option Err :=
  match preChecks c r with
  | (c1, .error e) => (c1, some e)
  | (c1, .ok key0) =>
    let mark := c1.reg.all.length
    match addLocked c1 r key0 with
    | (c2, none) => (c2, none)
    | (c2, some e) => ({ c2 with reg := rollbackTo c2.reg mark }, some e)

/-- `removeLocked` (collection.go:439-449) -/
def removeKey (c : Coll) (k : Ident) : Coll :=
  match c.reg.svc k with
  | none => c
  | some d => { c with reg := { c.reg.delSvc k with all := c.reg.all.filter (fun x => x.id != d.id) } }

/-- `Remove(t)` -/
def remove (c : Coll) (ty : Nat) : Coll := removeKey c (ty, .nil)
/-- `RemoveKeyed(t, key)` -/
def removeKeyed (c : Coll) (ty : Nat) (k : Key) : Coll := removeKey c (ty, k)

/-! ### queries -/

def contains (c : Coll) (ty : Nat) : Bool := (c.reg.svc (ty, .nil)).isSome
def containsKeyed (c : Coll) (ty : Nat) (k : Key) : Bool := (c.reg.svc (ty, k)).isSome
def hasGroup (c : Coll) (ty g : Nat) : Bool := g != 0 && !(c.reg.grp (ty, g)).isEmpty
def count (c : Coll) : Nat := c.reg.all.length
def toSlice (c : Coll) : List Desc := c.reg.all

/-! ### Build: what the provider gets

`doBuild` iterates `allDescriptors` (graph, singleton creation, initializers) and stores
`maps.Clone(sc.services)` and a map of `slices.Clone`d member lists in the provider. References to
Go maps are modelled explicitly, so that "the provider is unaffected by later changes" is a
statement about aliasing and not a triviality about values: a `Heap` holds map objects, the
collection and a provider hold *references*. The collection's operations write through its two
references and never rebind them. -/

structure SMap where
  keys : List Ident := []
  val : Ident → Option Desc := fun _ => none

structure GMap where
  keys : List GKey := []
  val : GKey → List Desc := fun _ => []

structure Heap where
  smaps : Nat → SMap := fun _ => {}
  gmaps : Nat → GMap := fun _ => {}
  next : Nat := 0

/-- `*collection`: the two map references and the slice -/
structure CollRef where
  sref : Nat
  gref : Nat
  all : List Desc := []
  nextId : Nat := 0
  nextVoid : Nat := 0

/-- `*provider` as far as the registry is concerned: the two maps it looks descriptors up in, and
the descriptors its dependency graph was built from -/
structure Prov where
  sref : Nat
  gref : Nat
  built : List Desc

/-- `NewCollection` -/
def Heap.newCollection (h : Heap) : Heap × CollRef :=
  ({ h with smaps := upd h.smaps h.next {}, gmaps := upd h.gmaps (h.next + 1) {}, next := h.next + 2 },
   { sref := h.next, gref := h.next + 1 })

/-- the value the collection's fields denote in a heap -/
def Heap.load (h : Heap) (r : CollRef) : Coll :=
  { reg := { skeys := (h.smaps r.sref).keys, svc := (h.smaps r.sref).val,
             gkeys := (h.gmaps r.gref).keys, grp := (h.gmaps r.gref).val, all := r.all },
    nextId := r.nextId, nextVoid := r.nextVoid }

/-- write a new value back through the same references -/
def Heap.store (h : Heap) (r : CollRef) (c : Coll) : Heap × CollRef :=
  ({ h with smaps := upd h.smaps r.sref ⟨c.reg.skeys, c.reg.svc⟩, gmaps := upd h.gmaps r.gref ⟨c.reg.gkeys, c.reg.grp⟩ },
   { r with all := c.reg.all, nextId := c.nextId, nextVoid := c.nextVoid })

/-- run a collection operation in place -/
def Heap.modify {α} (h : Heap) (r : CollRef) (f : Coll → Coll × α) : Heap × CollRef × α :=
  let (c', a) := f (h.load r)
  let (h', r') := h.store r c'
  (h', r', a)

/-- the snapshot of `doBuild` (collection.go:273-290): two *new* maps, contents copied -/
def Heap.build (h : Heap) (r : CollRef) : Heap × Prov :=
  ({ h with smaps := upd h.smaps h.next (h.smaps r.sref), gmaps := upd h.gmaps (h.next + 1) (h.gmaps r.gref),
            next := h.next + 2 },
   { sref := h.next, gref := h.next + 1, built := r.all })

/-- `provider.findDescriptor` (provider.go:305-312) -/
def Heap.provFind (h : Heap) (p : Prov) (k : Ident) : Option Desc := (h.smaps p.sref).val k
/-- `provider.findGroupDescriptors` (provider.go:316-323) -/
def Heap.provGroup (h : Heap) (p : Prov) (g : GKey) : List Desc := if g.2 = 0 then [] else (h.gmaps p.gref).val g

/-- any sequence of operations on the collection, each run in place -/
def Heap.runAll (h : Heap) (r : CollRef) : List (Coll → Coll × Option Err) → Heap × CollRef
  | [] => (h, r)
  | f :: rest =>
    let (h', r', _) := h.modify r f
    h'.runAll r' rest

/-- the same operations on the value -/
def applyAll (c : Coll) : List (Coll → Coll × Option Err) → Coll
  | [] => c
  | f :: rest => applyAll (f c).1 rest

/-- The instance keys under which one invocation of `d`'s constructor stores outputs
(scope.go:611-770): the siblings of the call that are still the registration of their identity
(`provider.isRegistered`, since 852a640; before, every sibling: finding D25). `ctor` identifies the Add
call: the harness gives every call its own constructor value. -/
def storeOuts (reg : List Desc) (d : Desc) : List (Nat × Key × Nat) :=
  d.stores.filter fun s =>
    ((reg.find? fun x => !x.key.isIdx && decide (x.ident = (s.1, s.2.1))).map (·.ctor)) == some d.ctor

/-- constructors Build runs: singletons, and scoped initializers of the root scope; an instance
registration has no constructor -/
def buildRuns (ds : List Desc) : List Nat :=
  (ds.filter fun d => !d.inst && (d.life == .singleton || (d.life == .scoped && d.void))).map (·.ctor)

end Godi.Coll
