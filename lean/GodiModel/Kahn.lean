/-! Prototype: Kahn's algorithm as in graph.go TopologicalSort (FIFO, Int counters). -/
namespace Godi.Kahn

abbrev Key := Nat

structure View where
  nodes : List Key
  deps : Key → List Key
  dependents : Key → List Key

/-- inner loop `for _, dependent := range node.Dependents { depCounts[dependent]--; if == 0 {enqueue} }` -/
def dec (c : Key → Int) (d : Key) : Key → Int := fun k => if k = d then c k - 1 else c k

def relax (cnt : Key → Int) : List Key → (Key → Int) × List Key
  | [] => (cnt, [])
  | d :: ds =>
    if cnt d - 1 = 0 then ((relax (dec cnt d) ds).1, d :: (relax (dec cnt d) ds).2)
    else relax (dec cnt d) ds

inductive Res | fuel | done (l : List Key)
deriving Repr, DecidableEq

def loop (v : View) : Nat → List Key → (Key → Int) → List Key → Res
  | 0, _, _, _ => .fuel
  | _+1, [], _, res => .done res
  | f+1, q :: qs, cnt, res =>
    let r := relax cnt (v.dependents q)
    loop v f (qs ++ r.2) r.1 (res ++ [q])

def initCnt (v : View) : Key → Int := fun k => ((v.deps k).length : Int)

def sort (v : View) : Option (List Key) :=
  let q0 := v.nodes.filter (fun k => initCnt v k == 0)
  match loop v (v.nodes.length + 1) q0 (initCnt v) [] with
  | .fuel => none
  | .done res => if res.length = v.nodes.length then some res else none

@[simp] theorem dec_self (c : Key → Int) (d : Key) : dec c d d = c d - 1 := by simp [dec]
@[simp] theorem dec_ne (c : Key → Int) {d k : Key} (h : k ≠ d) : dec c d k = c k := by simp [dec, h]

theorem relax_cons_pos (c : Key → Int) (d : Key) (ds : List Key) (h : c d - 1 = 0) :
    relax c (d :: ds) = ((relax (dec c d) ds).1, d :: (relax (dec c d) ds).2) := by
  simp [relax, h]

theorem relax_cons_neg (c : Key → Int) (d : Key) (ds : List Key) (h : c d - 1 ≠ 0) :
    relax c (d :: ds) = relax (dec c d) ds := by
  simp [relax, h]

theorem relax_cnt (c : Key → Int) (L : List Key) (k : Key) :
    (relax c L).1 k = c k - (L.count k : Int) := by
  induction L generalizing c with
  | nil => simp [relax]
  | cons d ds ih =>
    have key : (relax c (d :: ds)).1 = (relax (dec c d) ds).1 := by
      by_cases h : c d - 1 = 0
      · rw [relax_cons_pos c d ds h]
      · rw [relax_cons_neg c d ds h]
    rw [key, ih]
    by_cases hk : k = d
    · subst hk; simp; omega
    · have : d ≠ k := Ne.symm hk
      simp [hk, List.count_cons, this]

theorem relax_count (c : Key → Int) (L : List Key) (k : Key) :
    (relax c L).2.count k = if 1 ≤ c k ∧ c k ≤ (L.count k : Int) then 1 else 0 := by
  induction L generalizing c with
  | nil =>
    have : ¬ (1 ≤ c k ∧ c k ≤ 0) := by omega
    simp [relax, this]
  | cons d ds ih =>
    by_cases h : c d - 1 = 0
    · rw [relax_cons_pos c d ds h]
      by_cases hk : k = d
      · subst hk
        have h1 : ¬ (1 ≤ dec c k k ∧ dec c k k ≤ (List.count k ds : Int)) := by simp; omega
        have h2 : (1 ≤ c k ∧ c k ≤ ((List.count k (k :: ds) : Nat) : Int)) := by
          simp [List.count_cons]; omega
        rw [List.count_cons_self] at h2
        simp only [List.count_cons_self, ih, if_neg h1, if_pos h2]
      · have hdk : d ≠ k := Ne.symm hk
        simp [List.count_cons, hdk, ih, dec_ne c hk]
    · rw [relax_cons_neg c d ds h, ih]
      by_cases hk : k = d
      · subst hk
        simp only [dec_self, List.count_cons_self]
        have : (1 ≤ c k - 1 ∧ c k - 1 ≤ (List.count k ds : Int)) ↔
            (1 ≤ c k ∧ c k ≤ ((List.count k ds + 1 : Nat) : Int)) := by
          constructor <;> intro ⟨a, b⟩ <;> constructor <;> omega
        simp only [this]
      · have hdk : d ≠ k := Ne.symm hk
        simp [List.count_cons, hdk, dec_ne c hk]

end Godi.Kahn
