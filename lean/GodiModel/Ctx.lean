import GodiModel.Build
/-!
# M4 — contexts, as far as the container is concerned

A user context is a number (`0` = `context.Background()`); `ctxParent c` is the context it was derived from,
`ctxCancelled c` whether its `cancel()` has been called. A scope remembers the context it was created with
(`ScopeSt.ctxOf`, `0` = none given: then it inherits the creating scope's context). Cancelling a context ends
every context derived from it; every scope whose context has ended is closed by its cancellation watcher.
-/
namespace Godi.Container

/-- user context `c` is `x` or derived from `x` -/
def ctxUnder (st : State) : Nat → Nat → Nat → Bool
  | 0, _, _ => false
  | f+1, c, x => if c == 0 then false else if c == x then true else ctxUnder st f (st.ctxParent c) x

/-- the context of scope `s` is `x` or derived from it: through the context the scope was created with, or — when
none was given — through the scope that created it -/
def scopeCtxChain (st : State) : Nat → Nat → Nat → Bool
  | 0, _, _ => false
  | f+1, s, x =>
    let sc := st.scope s
    if sc.ctxOf != 0 then ctxUnder st (sc.ctxOf + 1) sc.ctxOf x
    else match sc.parent with
      | some p => if p == rootScope then false else scopeCtxChain st f p x
      | none => false

/-- the user context `c` or one of its ancestors has been cancelled -/
def ctxDone (st : State) : Nat → Nat → Bool
  | 0, _ => false
  | f+1, c => if c == 0 then false else st.ctxCancelled c || ctxDone st f (st.ctxParent c)

/-- the scopes (other than the root) whose context ends when `x` is cancelled -/
def scopesUnder (st : State) (x : Nat) : List Nat :=
  (List.range st.nscopes).filter (fun s => s != rootScope && scopeCtxChain st (s + 1) s x)

def closeAll (beh : Beh) (st : State) (l : List Nat) : State :=
  l.foldl (fun st s => (closeScope beh id (closeFuel st) st s).1) st

/-- `cancel()` of user context `x`, followed by the cancellation watchers of the scopes it ends -/
def cancelCtx (beh : Beh) (st : State) (x : Nat) : State :=
  let st0 := { st with ctxCancelled := fun c => c == x || st.ctxCancelled c }
  closeAll beh st0 (scopesUnder st0 x)

/-- a scope created with a context that is already done is closed at once by its watcher -/
def watchNew (beh : Beh) (st : State) (r : Except Err Nat) (ctx : Nat) : State :=
  match r with
  | .ok s => if ctxDone st (ctx + 1) ctx then (closeScope beh id (closeFuel st) st s).1 else st
  | .error _ => st

end Godi.Container
