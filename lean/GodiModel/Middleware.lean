/-!
# M7 — web middleware (`ScopeMiddleware`) and `Handle` wrappers: IR and interpreter

Anchors: `/repo/http/http.go`, `/repo/chi/chi.go`, `/repo/gin/gin.go`, `/repo/echo/echo.go`,
`/repo/fiber/fiber.go` (functions `ScopeMiddleware`, `Handle`, `WithMiddleware`).

The *programs* (`List Stmt`, `List HStmt`) are NOT written by hand: `extract/` re-reads the five Go
sources on every run and emits them into `GodiModel/Gen/Middleware.lean`. This file holds

* the IR datatypes (one constructor per recognised Go statement form, `unknown` for the rest),
* the interpreter: Go's control flow (`return`, `defer` in LIFO order, panics unwinding through the
  frame) over an abstract request environment `Req`,
* `Facts`: the per-framework behaviour **around** the extracted function that is modelled, not
  verified (the trusted part of C16, one small record per framework, see `harness/mw/README.md`).

What a request does is a value of `Req` (how many middlewares are configured, which one fails, whether
`CreateScope` fails, what the route handler does). The interpreter yields an event trace `List Ev`;
C16 is a set of statements about that trace for every `Req`.

Scope operations used here and proved elsewhere (trusted in this file): `CreateScope` returns a
fresh scope or an error (C02/C13), `scope.Context()` carries the scope (`FromContext`, C18),
`scope.Close()` is idempotent — only the first call closes the instances (C12), resolving from a
closed scope fails (C13).
-/
namespace Godi.Mw

abbrev Sid := Nat

/-! ## IR -/

/-- statements allowed inside an error branch of `ScopeMiddleware` -/
inductive EStmt where
  | errorHandler            -- `cfg.ErrorHandler(…, err)` (also the call inside `return cfg.ErrorHandler(c, err)`)
  | abort                   -- `c.Abort()` (gin)
  | closeNow                -- `scope.Close()` (result ignored)
  | ret                     -- `return …`
  | unknown (src : String)
  deriving DecidableEq, Repr, Inhabited

/-- statements of the per-request function returned by `ScopeMiddleware` -/
inductive Stmt where
  | create                                -- `scope, err := provider.CreateScope(<request context>)`
  | ifCreateErr (body : List EStmt)       -- `if err != nil { … }`
  | deferClose (report : Bool)            -- `defer func() { if err := scope.Close(); err != nil { cfg.CloseErrorHandler(err) } }()`
  | closeNow (report : Bool)              -- `if closeErr := scope.Close(); closeErr != nil { cfg.CloseErrorHandler(closeErr) }`
  | attachCtx                             -- request context := `scope.Context()`
  | attachLocals                          -- `c.Locals(scopeKey, scope)`
  | forMiddlewares (onErr : List EStmt)   -- `for _, mw := range cfg.Middlewares { if err := mw(scope, c); err != nil { … } }`
  | next                                  -- `next.ServeHTTP(w, r)` / `c.Next()` / `err = c.Next()` / the call in `return next(c)`
  | ret                                   -- `return …`
  | unknown (src : String)
  deriving DecidableEq, Repr, Inhabited

/-- statements allowed inside an error branch of `Handle` -/
inductive HEStmt where
  | scopeErrHandler         -- `cfg.ScopeErrorHandler(…)`
  | resolutionErrHandler    -- `cfg.ResolutionErrorHandler(…)`
  | ret
  | unknown (src : String)
  deriving DecidableEq, Repr, Inhabited

/-- statements of the per-request function returned by `Handle` -/
inductive HStmt where
  | deferRecover (guarded : Bool)     -- `[if cfg.PanicRecovery {] defer func() { if v := recover(); v != nil { cfg.PanicHandler(…) } }() [}]`
  | fromContext                       -- `scope, err := godi.FromContext(<request context>)`
  | fromLocals                        -- `scopeVal := c.Locals(scopeKey)`
  | castScope                         -- `scope, ok := scopeVal.(godi.Scope)`
  | ifScopeErr (body : List HEStmt)   -- `if err != nil {…}` after fromContext; `if scopeVal == nil {…}`; `if !ok {…}`
  | resolve                           -- `controller, err := godi.Resolve[T](scope)`
  | ifResolveErr (body : List HEStmt) -- `if err != nil { … }` after resolve
  | callMethod                        -- `method(controller, …)` (also the call in `return method(controller, c)`)
  | ret
  | unknown (src : String)
  deriving DecidableEq, Repr, Inhabited

/-- shape of the option plumbing (`defaultConfig`, `WithMiddleware`, the `for _, opt := range opts` loop) -/
structure OptShape where
  defaultMiddlewaresNil : Bool      -- `defaultConfig` starts with `Middlewares: nil`
  optsAppliedInOrder : Bool         -- `for _, opt := range opts { opt(cfg) }`
  withMiddlewareAppends : Bool      -- `c.Middlewares = append(c.Middlewares, mw)`
  deriving DecidableEq, Repr

/-! ## Trusted per-framework facts (modelled, not verified) -/

structure Facts where
  name : String
  /-- gin: when a handler of the chain returns without having called `c.Next()`, the engine runs the
  remaining handlers anyway unless `c.Abort()` was called. All other frameworks: the rest of the
  chain runs only inside the explicit `next` call. -/
  chainContinuesUnlessAborted : Bool
  /-- fiber/fasthttp: at the end of the request `RequestCtx.userValues.Reset()` calls `Close()` on
  every stored value that implements `io.Closer` — the scope stored by `c.Locals(scopeKey, scope)`.
  On the panic path this presupposes a recover middleware outside the scope middleware (without one
  a fiber handler panic kills the process). -/
  requestEndClosesLocals : Bool
  deriving DecidableEq, Repr

def httpFacts  : Facts := ⟨"http",  false, false⟩
def chiFacts   : Facts := ⟨"chi",   false, false⟩
def ginFacts   : Facts := ⟨"gin",   true,  false⟩
def echoFacts  : Facts := ⟨"echo",  false, false⟩
def fiberFacts : Facts := ⟨"fiber", false, true⟩

/-! ## Request environment -/

inductive Create where
  | ok | fail | provClosed
  deriving DecidableEq, Repr, Inhabited

inductive Outcome where
  | ok | err | panic
  deriving DecidableEq, Repr, Inhabited

/-- what is routed behind the scope middleware -/
inductive Down where
  | plain                                          -- a framework handler that looks the scope up itself
  | handle (recovery : Bool) (resolveFails : Bool) -- `Handle(method, WithPanicRecovery(recovery))`
  deriving DecidableEq, Repr, Inhabited

structure Req where
  installed : Bool := true     -- is `ScopeMiddleware` in the chain at all
  nMw : Nat := 0               -- `len(cfg.Middlewares)`
  mwFail : Option Nat := none  -- index of the configured middleware that returns an error
  create : Create := .ok
  down : Down := .plain
  outcome : Outcome := .ok     -- of the handler / controller method
  closeErr : Bool := false     -- `scope.Close()` returns an error
  outer : Option Sid := none   -- the incoming request context already carries a scope (of somebody else)
  deriving DecidableEq, Repr, Inhabited

/-! ## Events -/

inductive Ev where
  | scopeCreated (s : Sid)
  | createFailed
  | mwRan (i : Nat) (arg ctx loc : Option Sid)        -- configured middleware i ran: its scope argument, the scope in the request context, in the locals
  | errorHandlerRan
  | closeErrHandlerRan
  | handlerRan (ctx loc : Option Sid) (live : Bool)   -- plain handler: what it sees; `live` = the context scope is still open
  | handleScope (s : Sid)                             -- `Handle` found scope s
  | scopeErrHandler
  | handleResolved (s : Sid)                          -- controller resolved from scope s
  | resolutionErrHandler
  | methodCalled (c : Option Sid) (live : Bool)       -- controller method called with the controller resolved from scope c
  | panicHandler
  | scopeClosed (s : Sid)                             -- first (effective) Close of s
  | panicPropagated                                   -- a panic left the outermost modelled frame
  | nilDeref                                          -- use of the nil `scope` variable
  | stuck (src : String)                              -- an `.unknown` statement was reached
  deriving DecidableEq, Repr, Inhabited

inductive Ctl where
  | run | returned | panicking
  deriving DecidableEq, Repr, Inhabited

inductive Defer where
  | close (report : Bool)
  deriving DecidableEq, Repr

structure St where
  trace : List Ev := []
  nextSid : Sid := 0
  closed : List Sid := []          -- scopes already closed
  scope : Option Sid := none       -- the local variable `scope`
  createErr : Bool := false        -- the local `err` after create
  ctxScope : Option Sid := none    -- scope carried by the request context
  locScope : Option Sid := none    -- scope stored in the framework's locals
  defers : List Defer := []        -- newest first
  aborted : Bool := false
  nextCalled : Bool := false
  ctl : Ctl := .run
  deriving Repr

def St.emit (st : St) (e : Ev) : St := { st with trace := st.trace ++ [e] }
def St.setCtl (st : St) (c : Ctl) : St := { st with ctl := c }

/-- `scope.Close()` on the local variable -/
def closeScope (rq : Req) (report : Bool) (st : St) : St :=
  match st.scope with
  | none => (st.emit .nilDeref).setCtl .panicking
  | some s =>
    if s ∈ st.closed then st
    else
      let st := { st.emit (.scopeClosed s) with closed := s :: st.closed }
      if rq.closeErr && report then st.emit .closeErrHandlerRan else st

/-! ## `Handle` -/

structure HSt where
  g : St
  hscope : Option Sid := none
  scopeVal : Option Sid := none
  scopeErr : Bool := false
  controller : Option Sid := none
  resolveErr : Bool := false
  recoverDeferred : Bool := false
  ctl : Ctl := .run

def HSt.emit (h : HSt) (e : Ev) : HSt := { h with g := h.g.emit e }

def stepHE (e : HEStmt) (h : HSt) : HSt :=
  match e with
  | .scopeErrHandler => h.emit .scopeErrHandler
  | .resolutionErrHandler => h.emit .resolutionErrHandler
  | .ret => { h with ctl := .returned }
  | .unknown s => { h.emit (.stuck s) with ctl := .returned }

def execHE : List HEStmt → HSt → HSt
  | [], h => h
  | e :: es, h => if h.ctl = .run then execHE es (stepHE e h) else h

def stepH (rq : Req) (recovery resolveFails : Bool) (s : HStmt) (h : HSt) : HSt :=
  match s with
  | .deferRecover guarded =>
    if !guarded || recovery then { h with recoverDeferred := true } else h
  | .fromContext =>
    match h.g.ctxScope with
    | some s => { h.emit (.handleScope s) with hscope := some s, scopeErr := false }
    | none => { h with scopeErr := true }
  | .fromLocals => { h with scopeVal := h.g.locScope, scopeErr := h.g.locScope.isNone }
  | .castScope =>
    match h.scopeVal with
    | some s => { h.emit (.handleScope s) with hscope := some s, scopeErr := false }
    | none => { h with scopeErr := true }
  | .ifScopeErr body => if h.scopeErr then execHE body h else h
  | .resolve =>
    match h.hscope with
    | none => { h.emit .nilDeref with ctl := .panicking }
    | some s =>
      if s ∈ h.g.closed || resolveFails then { h with resolveErr := true }
      else { h.emit (.handleResolved s) with controller := some s, resolveErr := false }
  | .ifResolveErr body => if h.resolveErr then execHE body h else h
  | .callMethod =>
    let live := match h.controller with
      | some s => !(h.g.closed.contains s)
      | none => false
    let h := h.emit (.methodCalled h.controller live)
    if rq.outcome = .panic then { h with ctl := .panicking } else h
  | .ret => { h with ctl := .returned }
  | .unknown s => { h.emit (.stuck s) with ctl := .returned }

def execH (rq : Req) (recovery resolveFails : Bool) : List HStmt → HSt → HSt
  | [], h => h
  | s :: ss, h => if h.ctl = .run then execH rq recovery resolveFails ss (stepH rq recovery resolveFails s h) else h

/-- one call of the function returned by `Handle`; the result's `ctl` is `.panicking` iff a panic
leaves the frame, `.run` otherwise (control is back in the caller) -/
def runHandle (hp : List HStmt) (rq : Req) (recovery resolveFails : Bool) (st : St) : St :=
  let h := execH rq recovery resolveFails hp { g := st }
  if h.ctl = .panicking then
    if h.recoverDeferred then (h.g.emit .panicHandler).setCtl .run
    else h.g.setCtl .panicking
  else h.g.setCtl .run

/-- the plain handler: records what it sees, then behaves per `rq.outcome` -/
def runPlain (rq : Req) (st : St) : St :=
  let live := match st.ctxScope with
    | some s => !(st.closed.contains s)
    | none => false
  let st := st.emit (.handlerRan st.ctxScope st.locScope live)
  if rq.outcome = .panic then st.setCtl .panicking else st

/-- the rest of the chain behind the scope middleware -/
def runDown (hp : List HStmt) (rq : Req) (st : St) : St :=
  match rq.down with
  | .plain => runPlain rq st
  | .handle recovery resolveFails => runHandle hp rq recovery resolveFails st

/-! ## `ScopeMiddleware` -/

def stepE (rq : Req) (e : EStmt) (st : St) : St :=
  match e with
  | .errorHandler => st.emit .errorHandlerRan
  | .abort => { st with aborted := true }
  | .closeNow => closeScope rq false st
  | .ret => st.setCtl .returned
  | .unknown s => (st.emit (.stuck s)).setCtl .returned

def execE (rq : Req) : List EStmt → St → St
  | [], st => st
  | e :: es, st => if st.ctl = .run then execE rq es (stepE rq e st) else st

/-- the `for _, mw := range cfg.Middlewares` loop: `rem` middlewares left, the next one has index `i` -/
def runMws (rq : Req) (onErr : List EStmt) : Nat → Nat → St → St
  | 0, _, st => st
  | rem + 1, i, st =>
    if st.ctl = .run then
      let st := st.emit (.mwRan i st.scope st.ctxScope st.locScope)
      let st := if rq.mwFail = some i then execE rq onErr st else st
      runMws rq onErr rem (i + 1) st
    else st

def step (hp : List HStmt) (rq : Req) (s : Stmt) (st : St) : St :=
  match s with
  | .create =>
    match rq.create with
    | .ok => { st.emit (.scopeCreated st.nextSid) with scope := some st.nextSid, nextSid := st.nextSid + 1, createErr := false }
    | _ => { st.emit .createFailed with scope := none, createErr := true }
  | .ifCreateErr body => if st.createErr then execE rq body st else st
  | .deferClose report => { st with defers := .close report :: st.defers }
  | .closeNow report => closeScope rq report st
  | .attachCtx =>
    match st.scope with
    | none => (st.emit .nilDeref).setCtl .panicking
    | some s => { st with ctxScope := some s }
  | .attachLocals => { st with locScope := st.scope }
  | .forMiddlewares onErr => runMws rq onErr rq.nMw 0 st
  | .next => runDown hp rq { st with nextCalled := true }
  | .ret => st.setCtl .returned
  | .unknown s => (st.emit (.stuck s)).setCtl .returned

def exec (hp : List HStmt) (rq : Req) : List Stmt → St → St
  | [], st => st
  | s :: ss, st => if st.ctl = .run then exec hp rq ss (step hp rq s st) else st

/-- deferred calls run newest first, whether the frame returns or panics -/
def runDefers (rq : Req) : List Defer → St → St
  | [], st => st
  | .close report :: ds, st => runDefers rq ds (closeScope rq report st)

/-- end of the request as the framework sees it -/
def requestEnd (fw : Facts) (st : St) : St :=
  let st := if st.ctl = .panicking then st.emit .panicPropagated else st
  if fw.requestEndClosesLocals then
    match st.locScope with
    | some s => if s ∈ st.closed then st else { st.emit (.scopeClosed s) with closed := s :: st.closed }
    | none => st
  else st

/-- one request through `[scope middleware →] handler`, starting from scope counter `base` with the
scopes in `closed` already closed -/
def runRequest (fw : Facts) (mw : List Stmt) (hp : List HStmt) (rq : Req) (base : Sid) (closed : List Sid := []) : St :=
  let st0 : St := { nextSid := base, closed := closed, ctxScope := rq.outer }
  if !rq.installed then requestEnd fw (runDown hp rq st0)
  else
    let st := exec hp rq mw st0
    let st := runDefers rq st.defers { st with defers := [] }
    let st :=
      if st.ctl = .panicking then st
      else if fw.chainContinuesUnlessAborted && !st.nextCalled && !st.aborted then
        runDown hp rq (st.setCtl .run)
      else st
    requestEnd fw st

def trace (fw : Facts) (mw : List Stmt) (hp : List HStmt) (rq : Req) (base : Sid) : List Ev :=
  (runRequest fw mw hp rq base).trace

/-! ## Option plumbing -/

inductive Opt where
  | withMiddleware (id : Nat)
  | other
  deriving DecidableEq, Repr

/-- the middleware an option configures, if any -/
def Opt.mw? : Opt → Option Nat
  | .withMiddleware m => some m
  | .other => none

/-- `opt(cfg)` for an option of the recognised shape: `WithMiddleware` appends -/
def applyOpt (mws : List Nat) : Opt → List Nat
  | .withMiddleware m => mws ++ [m]
  | .other => mws

/-- `cfg.Middlewares` after `ScopeMiddleware(provider, opts...)` has applied the options; `none` when
the plumbing is not of the recognised shape -/
def configured (sh : OptShape) (opts : List Opt) : Option (List Nat) :=
  if sh.defaultMiddlewaresNil && sh.optsAppliedInOrder && sh.withMiddlewareAppends then
    some (opts.foldl applyOpt [])
  else none

/-- a framework integration = trusted facts + the three extracted pieces -/
structure Integration where
  facts : Facts
  mw : List Stmt
  handle : List HStmt
  opts : OptShape
  deriving Repr

end Godi.Mw
