/-!
# M2 — the constructor-analysis cache (internal/reflection/analyzer.go) and which function value
`createInstance` finally calls (scope.go, "always call the registered value")

A constructor value is (code pointer, signature, identity of the function value). Closures from one
function literal, method values and every `reflect.MakeFunc` function share a code pointer.
-/
namespace Godi.Analyzer

structure Ctor where
  codePtr : Nat
  sig : Nat
  fnId : Nat
deriving DecidableEq, Repr

structure Info where
  sig : Nat
  value : Nat      -- the function value stored in the cached analysis
deriving DecidableEq, Repr

abbrev Cache := List ((Nat × Nat) × Info)

def find (c : Cache) (k : Nat × Nat) : Option Info :=
  match c.find? (fun e => e.1 == k) with
  | some e => some e.2
  | none => none

/-- `Analyzer.Analyze`: the cache is keyed by (code pointer, signature) -/
def analyze (c : Cache) (k : Ctor) : Cache × Info :=
  match find c (k.codePtr, k.sig) with
  | some info => (c, info)
  | none => (((k.codePtr, k.sig), ⟨k.sig, k.fnId⟩) :: c, ⟨k.sig, k.fnId⟩)

/-- `createInstance`: `call := *info; call.Value = descriptor.Constructor` -/
def toCall (info : Info) (registered : Ctor) : Info := { info with value := registered.fnId }

end Godi.Analyzer
