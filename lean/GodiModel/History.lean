import GodiModel.Build
/-!
Histories: the operations a user can apply to a built provider, as data, and `run`.
`Provider.Close` is a separate operation (`closeProvider`) because most invariants are stated
"until the provider is closed".
-/
namespace Godi.Container

inductive Op
  | get (s : Option Nat) (ty key : Nat)            -- `none` = through the provider (root scope)
  | getGroup (s : Option Nat) (ty grp : Nat)
  | createScope (parent : Option Nat) (ctx : Nat)  -- `none` = `provider.CreateScope`
  | closeScope (s : Nat) (order : List Nat → List Nat)

def stepOp (beh : Beh) (st : State) : Op → State
  | .get none ty key => (providerGet beh st ty key).1
  | .get (some s) ty key => (scopeGet beh st s ty key).1
  | .getGroup none ty grp => (providerGetGroup beh st ty grp).1
  | .getGroup (some s) ty grp => (scopeGetGroup beh st s ty grp).1
  | .createScope none ctx => (providerCreateScope beh st ctx).1
  | .createScope (some p) ctx => (scopeCreateScope beh st p ctx).1
  | .closeScope s order => (closeScope beh order (closeFuel st) st s).1

def run (beh : Beh) (st : State) (ops : List Op) : State := ops.foldl (stepOp beh) st

end Godi.Container
