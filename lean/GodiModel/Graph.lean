import GodiModel.Kahn
import GodiModel.Dfs
/-!
# M1 — transliteration of `/repo/internal/graph/graph.go`

Go maps are modelled by a key list plus a total function (`nodes`/`prov`, `ekeys`/`edges`):
function update keeps every lemma about a map write a one-line `if`.  Where Go *ranges over a
map* the model takes the iteration order as an explicit argument (an **oracle**): `eorder` for
`range g.edges` in `updateDegrees`, `norder` for `range g.nodes` / `range depCounts`.
Theorems quantify over every such order; the driver uses the stored key lists.

Node keys `(reflect.Type, Key, Group)` are abstracted to `Nat` by the harness.
-/
namespace Godi.Graph
open Godi.Kahn (Key)

def upd {α} (f : Key → α) (k : Key) (v : α) : Key → α := fun x => if x = k then v else f x

@[simp] theorem upd_self {α} (f : Key → α) (k : Key) (v : α) : upd f k v k = v := by simp [upd]
@[simp] theorem upd_ne {α} (f : Key → α) {k x : Key} (v : α) (h : x ≠ k) : upd f k v x = f x := by
  simp [upd, h]

/-- `DependencyGraph` (graph.go:29-39) with the per-node fields of `Node` (graph.go:49-63) spread out
as functions of the key. `prov k = none` is `node.Provider == nil` (a placeholder node). -/
structure Graph where
  nodes : List Key := []
  prov : Key → Option Nat := fun _ => none
  ndeps : Key → List Key := fun _ => []
  ndependents : Key → List Key := fun _ => []
  inDeg : Key → Nat := fun _ => 0
  outDeg : Key → Nat := fun _ => 0
  depth : Key → Int := fun _ => 0
  ekeys : List Key := []
  edges : Key → List Key := fun _ => []
  sorted : Option (List Key) := none
  sortedDirty : Bool := true
  cycleTrue : List Key := []      -- keys `k` with `cycleCache[k] == true`
  cycleDirty : Bool := true

def empty : Graph := {}

/-- map write `g.nodes[k] = &Node{...}` for a key that is absent -/
def insertNode (g : Graph) (k : Key) : Graph :=
  if k ∈ g.nodes then g else
  { g with nodes := g.nodes ++ [k], prov := upd g.prov k none, ndeps := upd g.ndeps k [],
           ndependents := upd g.ndependents k [], inDeg := upd g.inDeg k 0, outDeg := upd g.outDeg k 0,
           depth := upd g.depth k 0 }

def setEdges (g : Graph) (k : Key) (ds : List Key) : Graph :=
  { g with ekeys := if k ∈ g.ekeys then g.ekeys else g.ekeys ++ [k], edges := upd g.edges k ds }

def delEdges (g : Graph) (k : Key) : Graph :=
  { g with ekeys := g.ekeys.erase k, edges := upd g.edges k [] }

def delNode (g : Graph) (k : Key) : Graph :=
  { g with nodes := g.nodes.erase k }

/-- inner loop of `updateDegrees` (graph.go:332-337) -/
def bumpTargets (from_ : Key) (g : Graph) : List Key → Graph
  | [] => g
  | to :: rest =>
    if to ∈ g.nodes then
      bumpTargets from_ { g with inDeg := upd g.inDeg to (g.inDeg to + 1),
                                 ndependents := upd g.ndependents to (g.ndependents to ++ [from_]) } rest
    else bumpTargets from_ g rest

/-- second loop of `updateDegrees` (graph.go:326-339), iterating `g.edges` in the order `eorder` -/
def degLoop (g : Graph) : List Key → Graph
  | [] => g
  | from_ :: rest =>
    if from_ ∈ g.nodes then
      let tos := g.edges from_
      let g1 := { g with outDeg := upd g.outDeg from_ tos.length, ndeps := upd g.ndeps from_ tos }
      degLoop (bumpTargets from_ g1 tos) rest
    else degLoop g rest

/-- `updateDegrees` (graph.go:317-340) -/
def updateDegreesWith (g : Graph) (eorder : List Key) : Graph :=
  degLoop { g with inDeg := fun _ => 0, outDeg := fun _ => 0, ndependents := fun _ => [] } eorder

def updateDegrees (g : Graph) : Graph := updateDegreesWith g g.ekeys

/-! ### cycle search -/

/-- enough fuel for the explicit-stack DFS: every iteration either pops an item or expands a
node that was never expanded before; pushes are bounded by the total number of edges. -/
def edgeCount (g : Graph) : Nat := (g.nodes.map (fun k => (g.edges k).length)).sum

def dfsFuel (g : Graph) : Nat := 2 * edgeCount g + 2 * g.nodes.length + 4

/-- the recursive closure `search` of `findCyclePath` (graph.go:525-544): loop over `g.edges[current]` -/
def searchList (rec : Key → List Key → Option (List Key) × List Key) (start : Key) :
    List Key → List Key → Option (List Key) × List Key
  | [], vis => (none, vis)
  | n :: rest, vis =>
    if n = start then (some [], vis)
    else if n ∈ vis then searchList rec start rest vis
    else match rec n (n :: vis) with
      | (some p, v) => (some p, v)
      | (none, v) => searchList rec start rest v

def search (edges : Key → List Key) (start : Key) : Nat → Key → List Key → Option (List Key) × List Key
  | 0, _, vis => (none, vis)
  | f+1, cur, vis =>
    match searchList (search edges start f) start (edges cur) vis with
    | (some p, v) => (some (cur :: p), v)
    | (none, v) => (none, v)

/-- `findCyclePath` (graph.go:521-551): `start :: … :: start`, or `none` -/
def findCyclePath (g : Graph) (start : Key) : Option (List Key) :=
  match (search g.edges start (g.nodes.length + 1) start []).1 with
  | some p => some (p ++ [start])
  | none => none

inductive CycleRes
  | ok
  | cycle (node : Key) (path : Option (List Key))
  | fuel
deriving Repr, DecidableEq

/-- `detectCyclesFrom` (graph.go:459-517). `g.nodes[start] == nil` returns at once. -/
def detectCyclesFrom (g : Graph) (start : Key) : Graph × CycleRes :=
  if start ∉ g.nodes then (g, .ok) else
  match Dfs.detectFrom g.edges (dfsFuel g) start with
  | .ok _ => (g, .ok)
  | .cycle k => ({ g with cycleTrue := g.cycleTrue ++ [k] }, .cycle k (findCyclePath g k))
  | .fuel => (g, .fuel)

/-! ### mutations -/

/-- the loop at graph.go:127-144: make sure every dependency has a node; returns the created keys -/
def ensureNodes (g : Graph) : List Key → Graph × List Key
  | [] => (g, [])
  | d :: ds =>
    if d ∈ g.nodes then ensureNodes g ds
    else
      let r := ensureNodes (insertNode g d) ds
      (r.1, d :: r.2)

/-- `AddProvider` (graph.go:88-178), including the rollback of a rejected add -/
def addProvider (g : Graph) (k : Key) (p : Nat) (deps : List Key) : Graph × CycleRes :=
  let existed := decide (k ∈ g.nodes)
  let g1 := insertNode g k
  let prevProv := g1.prov k
  let prevDeps := g1.ndeps k
  let prevEdges := g1.edges k
  let hadEdges := decide (k ∈ g1.ekeys)
  let g2 := delEdges { g1 with prov := upd g1.prov k (some p) } k
  let (g3, created) := ensureNodes g2 deps
  let g4 := setEdges { g3 with ndeps := upd g3.ndeps k deps } k deps
  let g5 := { updateDegrees g4 with sortedDirty := true, cycleDirty := true }
  match detectCyclesFrom g5 k with
  | (g6, .ok) => (g6, .ok)
  | (g6, r) =>
    let g7 :=
      if existed then
        let g' := { g6 with prov := upd g6.prov k prevProv, ndeps := upd g6.ndeps k prevDeps }
        if hadEdges then setEdges g' k prevEdges else delEdges g' k
      else delEdges (delNode g6 k) k
    let g8 := created.foldl delNode g7
    (updateDegrees g8, r)

/-- `AddProviderDeferred` (graph.go:182-243) -/
def addProviderDeferred (g : Graph) (k : Key) (p : Nat) (deps : List Key) : Graph :=
  let g1 := insertNode g k
  let g2 := { g1 with prov := upd g1.prov k (some p) }
  let g3 :=
    if deps.length > 0 then
      let (g', _) := ensureNodes g2 deps
      setEdges { g' with ndeps := upd g'.ndeps k deps } k deps
    else delEdges { g2 with ndeps := upd g2.ndeps k [] } k
  { g3 with sortedDirty := true, cycleDirty := true }

/-- first loop of `RemoveProvider` (graph.go:267-293): filter `k` out of every edge list -/
def filterEdges (g : Graph) (k : Key) : List Key → Graph
  | [] => g
  | f :: rest =>
    if k ∈ g.edges f then
      let g1 := { g with edges := upd g.edges f ((g.edges f).filter (· ≠ k)) }
      let g2 := if f ∈ g1.nodes then { g1 with ndeps := upd g1.ndeps f ((g1.ndeps f).filter (· ≠ k)) } else g1
      filterEdges g2 k rest
    else filterEdges g k rest

/-- second loop of `RemoveProvider` (graph.go:296-306) -/
def dropDependent (g : Graph) (k : Key) : List Key → Graph
  | [] => g
  | d :: rest =>
    if d ∈ g.nodes then
      dropDependent { g with ndependents := upd g.ndependents d ((g.ndependents d).filter (· ≠ k)) } k rest
    else dropDependent g k rest

/-- `RemoveProvider` (graph.go:246-314) -/
def removeProvider (g : Graph) (k : Key) : Graph :=
  if k ∉ g.nodes then g else
  let removedDeps := g.ndeps k
  let g1 := delEdges (delNode g k) k
  let g2 := filterEdges g1 k g1.ekeys
  let g3 := dropDependent g2 k removedDeps
  { updateDegrees g3 with sortedDirty := true, cycleDirty := true }

/-- `Clear` (graph.go:633-643) -/
def clear (_g : Graph) : Graph := {}

/-! ### queries -/

/-- Kahn's algorithm exactly as in `TopologicalSort` (graph.go:343-411); `norder` is the iteration
order of `range depCounts`. The cached answer is returned when it is not dirty. -/
def kahnView (g : Graph) (norder : List Key) : Kahn.View :=
  { nodes := norder, deps := g.ndeps, dependents := g.ndependents }

def topologicalSortWith (g : Graph) (norder : List Key) : Graph × Option (List Key) :=
  match g.sortedDirty, g.sorted with
  | false, some l => (g, some l)
  | _, _ =>
    match Kahn.sort (kahnView g norder) with
    | some l => ({ g with sorted := some l, sortedDirty := false }, some l)
    | none => (g, none)

def topologicalSort (g : Graph) : Graph × Option (List Key) := topologicalSortWith g g.nodes

def detectLoop (g : Graph) : List Key → Graph × CycleRes
  | [] => (g, .ok)
  | k :: rest =>
    match detectCyclesFrom g k with
    | (g1, .ok) => detectLoop g1 rest
    | r => r

def resetCycleCache (g : Graph) : Graph := { g with cycleTrue := [] }
def setCycleClean (g : Graph) : Graph := { g with cycleDirty := false }

/-- `DetectCycles` (graph.go:414-456) -/
def detectCyclesWith (g : Graph) (eorder norder : List Key) : Graph × CycleRes :=
  let g1 := updateDegreesWith g eorder
  if g1.cycleDirty then
    let r := detectLoop (resetCycleCache g1) norder
    (setCycleClean r.1, r.2)
  else
    match g1.cycleTrue with
    | k :: _ => (g1, .cycle k (findCyclePath g1 k))
    | [] => (g1, .ok)

def detectCycles (g : Graph) : Graph × CycleRes := detectCyclesWith g g.ekeys g.nodes

def size (g : Graph) : Nat := g.nodes.length
def hasNode (g : Graph) (k : Key) : Bool := decide (k ∈ g.nodes)
def getDependencies (g : Graph) (k : Key) : Option (List Key) := if k ∈ g.nodes then some (g.ndeps k) else none
def getDependents (g : Graph) (k : Key) : Option (List Key) := if k ∈ g.nodes then some (g.ndependents k) else none
def getRoots (g : Graph) : List Key := g.nodes.filter (fun k => g.inDeg k == 0)
def getLeaves (g : Graph) : List Key := g.nodes.filter (fun k => g.outDeg k == 0)

/-- the closure `collect` of `GetTransitiveDependencies` (graph.go:592-607) -/
def collectList (rec : Key → List Key × List Key → List Key × List Key) :
    List Key → List Key × List Key → List Key × List Key
  | [], s => s
  | d :: rest, (vis, res) =>
    if d ∈ vis then collectList rec rest (vis, res)
    else collectList rec rest (rec d (vis, res ++ [d]))

def collect (edges : Key → List Key) : Nat → Key → List Key × List Key → List Key × List Key
  | 0, _, s => s
  | f+1, cur, (vis, res) =>
    if cur ∈ vis then (vis, res)
    else collectList (collect edges f) (edges cur) (cur :: vis, res)

def getTransitiveDependencies (g : Graph) (k : Key) : List Key :=
  (collect g.edges (g.nodes.length + 2) k ([], [])).2

/-- BFS of `CalculateDepths` (graph.go:708-724) -/
def relaxDepth (g : Graph) (cur : Key) : List Key → Graph × List Key
  | [] => (g, [])
  | d :: rest =>
    if d ∈ g.nodes then
      let nd := g.depth cur + 1
      if nd < (g.nodes.length : Int) ∧ g.depth d < nd then
        let r := relaxDepth { g with depth := upd g.depth d nd } cur rest
        (r.1, d :: r.2)
      else relaxDepth g cur rest
    else relaxDepth g cur rest

def depthLoop : Nat → Graph → List Key → Graph
  | 0, g, _ => g
  | _+1, g, [] => g
  | f+1, g, cur :: q =>
    let r := relaxDepth g cur (g.ndependents cur)
    depthLoop f r.1 (q ++ r.2)

def calculateDepthsWith (g : Graph) (norder : List Key) : Graph :=
  let g1 := { g with depth := fun _ => -1 }
  let roots := norder.filter (fun k => (g1.ndeps k).length == 0)
  let g2 := roots.foldl (fun g k => { g with depth := upd g.depth k 0 }) g1
  depthLoop (g.nodes.length * g.nodes.length + g.nodes.length + 1) g2 roots

def calculateDepths (g : Graph) : Graph := calculateDepthsWith g g.nodes

end Godi.Graph
