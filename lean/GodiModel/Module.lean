import GodiModel.Collection
/-!
# M3' — modules (`/repo/module.go:36-72, 266-288`, `collection.AddModules` collection.go:353-365)

A `ModuleOption` is a closure over the collection. The ones the API can build are: the three
`Add*` builders, `Remove[T]`, `RemoveKeyed[T]`, and `NewModule(name, builders...)` whose builders
are again module options or `nil`. A module tree is therefore an inductive value. `Items` is the
`builders ...ModuleOption` slice: `skip` is a `nil` entry.
-/
namespace Godi.Coll

/-- the leaf builders -/
inductive Op
  | add (r : Req)                  -- `godi.AddSingleton/AddScoped/AddTransient(service, opts...)`
  | rm (ty : Nat)                  -- `godi.Remove[T]()`
  | rmk (ty : Nat) (k : Key)       -- `godi.RemoveKeyed[T](key)`
deriving Repr, Inhabited

/-- the effect of a leaf builder on the collection = the direct call -/
def step (c : Coll) : Op → Coll × Option Err
  | .add r => addService c r
  | .rm ty => (remove c ty, none)
  | .rmk ty k => (removeKeyed c ty k, none)

mutual
inductive Mod
  | op (o : Op)
  | node (name : String) (items : Items)     -- `NewModule(name, items...)`
inductive Items
  | nil
  | skip (tail : Items)                       -- a `nil` builder
  | cons (m : Mod) (tail : Items)
end

mutual
/-- calling the `ModuleOption` (module.go:37-50): a named module runs its builders in order, stops
at the first error and wraps it in one `ModuleError` -/
def runMod (c : Coll) : Mod → Coll × Option Err
  | .op o => step c o
  | .node name its =>
    match runItems c its with
    | (c', none) => (c', none)
    | (c', some e) => (c', some (.module name e))
/-- the loop shared by `NewModule` and `AddModules`: skip `nil`, stop at the first error -/
def runItems (c : Coll) : Items → Coll × Option Err
  | .nil => (c, none)
  | .skip t => runItems c t
  | .cons m t =>
    match runMod c m with
    | (c', none) => runItems c' t
    | (c', some e) => (c', some e)
end

/-- `collection.AddModules(modules...)`: the same loop, no wrapping at top level -/
def addModules (c : Coll) (ms : Items) : Coll × Option Err := runItems c ms

/-- a call that can change a collection: a direct call or `AddModules`. (Build and the queries do
not change it.) -/
inductive Call
  | op (o : Op)
  | mods (ms : Items)

def call (c : Coll) : Call → Coll
  | .op o => (step c o).1
  | .mods ms => (addModules c ms).1

/-- the collection after a history of calls -/
def runCalls (c : Coll) (cs : List Call) : Coll := cs.foldl call c

/-! ### flattening -/

mutual
/-- the leaf builders of a module tree, left to right, each with the names of the modules that
enclose it, outermost first -/
def annotMod (path : List String) : Mod → List (List String × Op)
  | .op o => [(path, o)]
  | .node name its => annotItems (path ++ [name]) its
def annotItems (path : List String) : Items → List (List String × Op)
  | .nil => []
  | .skip t => annotItems path t
  | .cons m t => annotMod path m ++ annotItems path t
end

def flattenMod (m : Mod) : List Op := (annotMod [] m).map (·.2)
def flattenItems (ms : Items) : List Op := (annotItems [] ms).map (·.2)

/-- direct calls, left to right, stopping at the first one that fails; reports its position -/
def runOps (c : Coll) : List Op → Coll × Option (Nat × Err)
  | [] => (c, none)
  | o :: rest =>
    match step c o with
    | (c', none) =>
      match runOps c' rest with
      | (c'', none) => (c'', none)
      | (c'', some (i, e)) => (c'', some (i + 1, e))
    | (c', some e) => (c', some (0, e))

/-- one `ModuleError` per name, outermost first -/
def wrapPath : List String → Err → Err
  | [], e => e
  | n :: rest, e => .module n (wrapPath rest e)

/-- `errors.As(e, &ModuleError{})` on one layer -/
def Err.moduleName? : Err → Option String
  | .module n _ => some n
  | _ => none

/-- the names of the modules enclosing the `i`-th leaf builder, outermost first -/
def pathAt (l : List (List String × Op)) (i : Nat) : List String :=
  match l[i]? with
  | some (p, _) => p
  | none => []

/-- the error `AddModules` / a module returns when the flattened calls fail at position `i` with `e` -/
def moduleError (l : List (List String × Op)) : Option (Nat × Err) → Option Err
  | none => none
  | some (i, e) => some (wrapPath (pathAt l i) e)

/-- conversions for readability of statements and for the driver -/
def Items.ofList : List (Option Mod) → Items
  | [] => .nil
  | none :: t => .skip (Items.ofList t)
  | some m :: t => .cons m (Items.ofList t)

end Godi.Coll
