import GodiModel.Kahn
/-! Prototype: the explicit-stack DFS of graph.go detectCyclesFrom -/
namespace Godi.Dfs
open Godi.Kahn (Key)

structure Item where
  key : Key
  fresh : Bool          -- Go: stackItem.visiting == true  (not yet expanded)
deriving DecidableEq, Repr

inductive DRes | fuel | cycle (k : Key) | ok (visited : List Key)
deriving Repr

def push (edges : Key → List Key) (visited : List Key) (k : Key) : List Item :=
  ((edges k).filter (fun d => decide (d ∉ visited))).reverse.map (fun d => ⟨d, true⟩)

def dfs (edges : Key → List Key) : Nat → List Item → List Key → List Key → DRes
  | 0, _, _, _ => .fuel
  | _+1, [], _, visited => .ok visited
  | f+1, it :: st, visiting, visited =>
    if it.fresh = false then dfs edges f st (visiting.erase it.key) (it.key :: visited)
    else if it.key ∈ visiting then .cycle it.key
    else if it.key ∈ visited then dfs edges f st visiting visited
    else dfs edges f (push edges visited it.key ++ ⟨it.key, false⟩ :: st) (it.key :: visiting) visited

def detectFrom (edges : Key → List Key) (fuel : Nat) (s : Key) : DRes :=
  dfs edges fuel [⟨s, true⟩] [] []

end Godi.Dfs
