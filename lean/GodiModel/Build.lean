import GodiModel.Container
import GodiModel.Graph
/-!
# M5, phases 1–3 of `doBuild` (collection.go): graph construction, cycle check, lifetime and
dependency validation — pure functions of the descriptor list.
-/
namespace Godi.Container
open Godi.Graph (Graph)

/-- node key of the dependency graph; injective while every component is below 1000 -/
def encode (i : Ident) : Nat := (i.ty * 1000 + i.key) * 1000 + i.grp

def depIdent (d : Dep) : Ident := ⟨d.ty, d.key, d.grp⟩

/-- the distinct (type, group) pairs, in order of first appearance -/
def groupKeys (descs : List Desc) : List (Nat × Nat) :=
  (descs.filter (fun d => d.ident.grp != 0)).foldl
    (fun acc d => if (d.ident.ty, d.ident.grp) ∈ acc then acc else acc ++ [(d.ident.ty, d.ident.grp)]) []

/-- what phase 1 feeds to `AddProviderDeferred`: every descriptor, then one node per group -/
def graphInput (descs : List Desc) : List (Nat × Nat × List Nat) :=
  descs.map (fun d => (encode d.ident, d.id + 1, d.deps.map (fun dep => encode (depIdent dep)))) ++
  (groupKeys descs).map (fun g => (encode ⟨g.1, 0, g.2⟩, 0,
      (groupMembers descs g.1 g.2).map (fun m => encode m.ident)))

def addAllDeferred (g : Graph) : List (Nat × Nat × List Nat) → Graph
  | [] => g
  | (k, p, ds) :: rest => addAllDeferred (Godi.Graph.addProviderDeferred g k p ds) rest

def buildGraph (descs : List Desc) : Graph := addAllDeferred {} (graphInput descs)

def isBuiltin (dep : Dep) : Bool := dep.key == 0 && dep.grp == 0 && dep.ty < 3

/-- `validateLifetimes`: some singleton or transient declares a dependency whose registration is scoped -/
def depScoped (descs : List Desc) (dep : Dep) : Bool :=
  if dep.grp != 0 then (groupMembers descs dep.ty dep.grp).any (fun m => m.life == .scoped)
  else match findService descs dep.ty dep.key with
    | some t => t.life == .scoped
    | none => false

def lifetimeConflict (descs : List Desc) : Bool :=
  descs.any (fun d => d.life != .scoped && d.deps.any (depScoped descs))

/-- `validateDependencies`: some required dependency is neither registered nor built in -/
def depMissing (descs : List Desc) (dep : Dep) : Bool :=
  !dep.optional && dep.grp == 0 && !isBuiltin dep && (findService descs dep.ty dep.key).isNone

def missingDependency (descs : List Desc) : Bool :=
  descs.any (fun d => d.deps.any (depMissing descs))

inductive Verdict | circular | lifetime | missing | ok
deriving DecidableEq, Repr

/-- the verdict of phases 1–3, in the order `doBuild` runs them -/
def verdict (descs : List Desc) : Verdict :=
  match (Godi.Graph.detectCycles (buildGraph descs)).2 with
  | .ok =>
    if lifetimeConflict descs then .lifetime
    else if missingDependency descs then .missing
    else .ok
  | _ => .circular

def verdictErr : Verdict → Err
  | .circular => [.build, .circular]
  | .lifetime => [.build, .lifetimeConflict]
  | .missing => [.build, .resolution, .notFound]
  | .ok => []

/-- `doBuild`: validation, then the run-time phases with the creation order the graph produced -/
def build (beh : Beh) (descs : List Desc) (order : List Nat) : State × Except Err Unit :=
  match verdict descs with
  | .ok => buildRuntime beh descs order
  | v => ({ descs := descs, disposed := true }, .error (verdictErr v))

end Godi.Container
