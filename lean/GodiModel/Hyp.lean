import GodiModel.Container
import GodiModel.Build
/-!
Executable checkers for the structural hypotheses the container theorems make about a registry
(`WF`, `RegWF`, `InstSingleton`, `InstDistinct`). The driver evaluates them on the descriptors the
harness dumps from godi's own collection (`p hyp`), so the hypotheses are checked against what the
real code produces in every scenario; `GodiProofs/Container/HypSound.lean` proves that `true` implies
the propositions the theorems assume.
-/
namespace Godi.Container

def isInstKind (k : Kind) (v : Inst) : Bool := match k with | .inst w => w == v | _ => false

def sibLifeB (descs : List Desc) : Bool :=
  descs.all fun d => d.sibs.all fun sid => match findDesc descs sid with
    | some sd => sd.life == d.life
    | none => true

def uniqueIdsB (descs : List Desc) : Bool := descs.all fun d => findDesc descs d.id == some d

def sameCtorB (descs : List Desc) : Bool :=
  descs.all fun d => descs.all fun d' => !(d'.ctor == d.ctor) || d' == d || d.sibs.contains d'.id

def selfInB (descs : List Desc) : Bool := descs.all fun d => d.sibs.isEmpty || d.sibs.contains d.id

def voidAloneB (descs : List Desc) : Bool := descs.all fun d => !(d.kind == .void) || d.sibs.isEmpty

def sibCtorB (descs : List Desc) : Bool :=
  descs.all fun d => d.sibs.all fun sid => match findDesc descs sid with
    | some sd => sd.ctor == d.ctor
    | none => true

def identUniqueB (descs : List Desc) : Bool :=
  descs.all fun d => descs.all fun d' => !(d'.ident == d.ident) || d' == d

def instSibsB (descs : List Desc) : Bool :=
  descs.all fun d => match d.kind with
    | .inst v => descs.all fun d' => !(d'.ctor == d.ctor) || isInstKind d'.kind v
    | _ => true

def instSingletonB (descs : List Desc) : Bool :=
  descs.all fun d => match d.kind with
    | .inst _ => d.life == .singleton
    | _ => true

def instDistinctB (descs : List Desc) : Bool :=
  descs.all fun d => match d.kind with
    | .inst v => descs.all fun d' => !(isInstKind d'.kind v) || d'.ctor == d.ctor
    | _ => true

/-- the node keys phase 1 of Build uses (one per descriptor, one per group) are pairwise distinct -/
def keysDistinctB (descs : List Desc) : Bool := decide (((graphInput descs).map (·.1)).Nodup)

/-- constructor id 0 (recorded as the producer of registered instance values) is no registration's constructor -/
def ctorZeroB (descs : List Desc) : Bool := descs.all fun d => !(d.ctor == 0)

/-- descriptors of one registration (one constructor) declare the same dependencies -/
def sibDepsB (descs : List Desc) : Bool :=
  descs.all fun d => descs.all fun d' => !(d'.ctor == d.ctor) || d'.deps == d.deps

/-- a group dependency carries no key -/
def depKeysB (descs : List Desc) : Bool :=
  descs.all fun d => d.deps.all fun dep => dep.grp == 0 || dep.key == 0

/-- names of the hypotheses that fail on `descs` (empty = all hold) -/
def failedHyps (descs : List Desc) : List String :=
  (if sibLifeB descs then [] else ["sibLife"]) ++ (if uniqueIdsB descs then [] else ["uniqueIds"]) ++
  (if sameCtorB descs then [] else ["sameCtor"]) ++ (if selfInB descs then [] else ["selfIn"]) ++
  (if voidAloneB descs then [] else ["voidAlone"]) ++ (if sibCtorB descs then [] else ["sibCtor"]) ++
  (if identUniqueB descs then [] else ["identUnique"]) ++ (if instSibsB descs then [] else ["instSibs"]) ++
  (if instSingletonB descs then [] else ["instSingleton"]) ++ (if instDistinctB descs then [] else ["instDistinct"]) ++
  (if keysDistinctB descs then [] else ["keysDistinct"]) ++ (if ctorZeroB descs then [] else ["ctorZero"]) ++
  (if sibDepsB descs then [] else ["sibDeps"]) ++ (if depKeysB descs then [] else ["depKeys"])

end Godi.Container
