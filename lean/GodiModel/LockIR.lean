/-! Event alphabet of tie T2 for M6: what `extract/lockfacts` reads off the Go source.
`held` lists are sorted; a read lock appears as `"<mutex>:r"`. -/
namespace Godi.LockIR

inductive Ev
  | lock (m : String) (held : List String)
  | rlock (m : String) (held : List String)
  | unlock (m : String)
  | runlock (m : String)
  | deferUnlock (m : String)
  | deferRUnlock (m : String)
  | methodValue (m : String)                      -- `m.Unlock` returned as a function value
  | atomic (op : String) (field : String) (held : List String)
  | chanClose (ch : String)
  | deferChanClose (ch : String)
  | chanRecv (ch : String) (held : List String)
  | spawnBegin | spawnEnd
  | closureBegin | deferClosureBegin | closureEnd
  | read (field : String) (held : List String)
  | write (field : String) (held : List String)      -- map element assignment
  | delete (field : String) (held : List String)
  | nilAssign (field : String) (held : List String)
  | assign (field : String) (held : List String)
  | plainRead (field : String) (held : List String)   -- a field without a mutex that some method assigns
  | plainWrite (field : String) (held : List String)
  | call (f : String) (held : List String)
  | deferCall (f : String) (held : List String)
  | ret (held : List String)
  | unknown (text : String)
deriving DecidableEq, Repr

end Godi.LockIR
