/-!
# M6 — small-step interleaving model of the locking / CAS / channel protocol of godi

Anchors: `/repo/scope.go` and `/repo/provider.go` as of commit `975a6cd` (after the `fix:` commits
`1998b84`, `2bd1169`, `611f8a8`, `d23542b`, `0c7a2e0`, `64d7b34`, `0cb30f3`): line numbers in the
comments below refer to those two files at that commit; `(*scope).Close` is `dispose`
(scope.go:275-353) behind a thin wrapper. When
the source moves, `Gen/LockFacts.lean` (regenerated on every run) is what ties the model to it.

One scope `S` (created by `provider.CreateScope`, so `parentScope == nil`) is modelled in full:
its `disposed` flag, its `closed` channel, its context, its instance cache (two scoped keys, `a`
whose constructor takes `b` as a parameter, so creation locks nest along that edge), the per-key
creation mutexes, the disposal list, the children table. Of the provider the scope table, the
`disposed` flag and the singleton table are modelled. Child scopes of `S` are created dynamically;
of a child only its own `disposed` flag (`kidDisp`), its `closed` channel (`kidClosed`) and its
entries in the two tables are modelled (a child has no resolvers of its own in the model).

Every thread is a program counter. ONE action =
* one mutex-protected region (table mutexes are never nested and never held across user code or a
  blocking operation — this is checked on the source by `Gen/LockFacts.lean`, theorem
  `LockFactsOk.table_locks_flat`), or
* one atomic operation (`atomic.LoadInt32`, `CompareAndSwapInt32`, `sync.Map.Load`), or
* one blocking operation (`m.Lock()` of a creation mutex, `<-s.closed`, `<-ctx.Done()`): not enabled
  while the mutex is held / the channel is not closed, or
* one call into USER code (constructor, `Close` method, scoped initializer).

Go memory-model facts ASSUMED (modelled, not verified): each such action is atomic and the
actions of all goroutines are sequentially consistent (`sync.Mutex`/`RWMutex` regions are mutually
exclusive and ordered by happens-before, `sync/atomic` operations are sequentially consistent,
`sync.Map.Load/Store/Delete` are linearizable, `close(ch)` happens before a receive that returns
because the channel is closed, `go f()` happens before `f` starts). Fields the code accesses
*outside* any of these (data races proper) are invisible here; they are the business of the
`-race` stream of the harness.

Partial operations are explicit: a Go map write on a `nil` map sets `panicked`; an `append` to a
disposal list that Close has already taken sets `resurrected` (Go allows it; the instance would
never be closed). Theorems show neither flag is ever set.
-/
namespace Godi.Conc

abbrev Inst := Nat
abbrev Cid := Nat

/-- the two scoped registrations: the constructor of `a` has a parameter of type `b` -/
inductive Key | a | b
deriving DecidableEq, Repr, Hashable

/-- a table indexed by `Key` -/
structure KV (α : Type) where
  a : α
  b : α
deriving DecidableEq, Repr, Hashable

namespace KV
def get (m : KV α) : Key → α
  | .a => m.a
  | .b => m.b
def set (m : KV α) (k : Key) (v : α) : KV α :=
  match k with
  | .a => { m with a := v }
  | .b => { m with b := v }
@[simp] theorem get_set_same (m : KV α) (k : Key) (v : α) : (m.set k v).get k = v := by
  cases k <;> rfl
@[simp] theorem get_set_ne (m : KV α) (k k' : Key) (v : α) (h : k ≠ k') : (m.set k v).get k' = m.get k' := by
  cases k <;> cases k' <;> first | rfl | exact absurd rfl h
theorem get_set (m : KV α) (k k' : Key) (v : α) :
    (m.set k v).get k' = if k = k' then v else m.get k' := by
  by_cases h : k = k'
  · subst h; simp
  · simp [h]
end KV

/-- what an API call returned -/
inductive Res
  | ok (k : Key) (i : Inst)   -- scoped resolution
  | okT (i : Inst)            -- transient resolution
  | okS                       -- singleton resolution
  | okChild (c : Cid)         -- CreateScope
  | okUnit                    -- Close returned nil
  | disposed                  -- ErrScopeDisposed (possibly wrapped by the constructor-invocation error)
  | provDisposed              -- ErrProviderDisposed
  | ctorErr                   -- the user's constructor failed
  | initErr                   -- a scoped initializer failed
  | notInit                   -- ErrSingletonNotInitialized
deriving DecidableEq, Repr, Hashable

/-- where a (nested) `Close` call returns to -/
inductive K
  | ret (r : Res)                       -- to the user / to a goroutine that ends
  | kids (rest : List Cid) (k : K)      -- into the children loop of `S.Close` (scope.go:276-280)
  | scopes (rest : List Nat)            -- into the scope loop of `provider.Close` (provider.go:209-215)
deriving DecidableEq, Repr, Hashable

inductive Pc
  -- `scope.Get` of scoped key `k`; `o = true`: nested inside the construction of `a`
  | rChk (k : Key) (o : Bool)             -- scope.go:130  atomic.LoadInt32(&s.disposed)
  | rRead (k : Key) (o : Bool)            -- scope.go:512 -> 382-384  RLock instancesMu; read; RUnlock
  | rMu (k : Key) (o : Bool)              -- scope.go:364-373  creatingMu region: find or make the mutex
  | rLock (k : Key) (o : Bool)            -- scope.go:375  m.Lock()            BLOCKING
  | rRe (k : Key) (o : Bool)              -- scope.go:522 -> 382-384  second look at the cache
  | rCtor (k : Key) (o : Bool)            -- scope.go:607  USER constructor
  | rSet (k : Key) (o : Bool) (i : Inst)  -- scope.go:397-401  Lock instancesMu; if != nil write; Unlock
  | rTrk (k : Key) (o : Bool) (i : Inst)  -- scope.go:436-448  Lock disposablesMu; load disposed; append; Unlock
  | rSelf (k : Key) (o : Bool) (i : Inst) -- scope.go:440  USER Close of the late instance
  | rUnl (k : Key) (o : Bool) (r : Res)   -- scope.go:520  deferred m.Unlock()
  -- `scope.Get` of a transient
  | tChk | tCtor | tTrk (i : Inst) | tSelf (i : Inst)   -- 130, 607, 404 -> 436-448, 440
  -- `scope.Get` of a singleton
  | gChk | gLoad                                        -- 130, 490 (sync.Map.Load, provider.go:266)
  | gMiss1                                              -- scope.go:496  after a miss: load s.disposed
  | gMiss2                                              -- scope.go:499  then load provider.disposed
  -- `scope.CreateScope`
  | sChk                  -- scope.go:203
  | sInit                 -- scope.go:211-212 -> 58-88: new child, USER initializers (80)
  | sAdd (c : Cid)        -- scope.go:219-226  Lock childrenMu; nil check; write; Unlock
  | sReg (c : Cid)        -- scope.go:229-236  Lock scopesMu; nil check; write; Unlock
  | sRe (c : Cid)         -- scope.go:242      atomic.LoadInt32(&child.disposed)
  | sUndo (c : Cid)       -- scope.go:243-245  Lock scopesMu; delete; Unlock  (then ErrScopeDisposed)
  | sSpawn (c : Cid)      -- scope.go:250      go watcher
  -- `dispose` of child `c` (same code as below, the child's private parts folded into the CAS step)
  | kCas (c : Cid) (k : K)   -- scope.go:276 (+293-324 on the child's own, empty, tables)
  | kWait (c : Cid) (k : K)  -- scope.go:281  <-s.closed                       BLOCKING
  | kDetP (c : Cid) (k : K)  -- scope.go:327-331  Lock S.childrenMu; delete; Unlock
  | kDetS (c : Cid) (k : K)  -- scope.go:334-338  Lock scopesMu; delete; Unlock
  | kSig (c : Cid) (k : K)   -- scope.go:285, 284 (deferred) closeErr = err; close(s.closed)  (+341-343 private)
  -- `dispose` of `S`
  | cCas (k : K)                       -- scope.go:276  CompareAndSwapInt32(&s.disposed, 0, 1)
  | cWait (k : K)                      -- scope.go:281-282  <-s.closed; read closeErr   BLOCKING
  | cTake (k : K)                      -- scope.go:293-299  Lock childrenMu; copy; = nil; Unlock   (BEFORE the cancel: 0c7a2e0)
  | cCancel (l : List Cid) (k : K)     -- scope.go:302-304  s.cancel()
  | cKids (l : List Cid) (k : K)       -- scope.go:308-309  loop head / child.dispose()
  | cTakeD (k : K)                     -- scope.go:315-318  Lock disposablesMu; take; = nil; Unlock
  | cDrain (l : List Inst) (k : K)     -- scope.go:320-321  USER Close, last created first
  | cDetS (k : K)                      -- scope.go:334-338  Lock scopesMu; delete; Unlock   (327-331 skipped: parentScope == nil)
  | cNil (k : K)                       -- scope.go:341-343  Lock instancesMu; = nil; Unlock
  | cErr (k : K)                       -- scope.go:285 (deferred, runs first)  s.closeErr = err   (plain write)
  | cSig (k : K)                       -- scope.go:284 (deferred, runs last)   close(s.closed)
  -- `provider.Close`
  | pCas                       -- provider.go:194
  | pTake                      -- provider.go:201-207  Lock scopesMu; copy; = nil; Unlock
  | pScopes (l : List Nat)     -- provider.go:209-211  loop head / s.dispose()
  | pRest                      -- provider.go:218-251  root scope, singleton disposables, sync.Map cleared
  -- goroutines godi starts, and the environment
  | wS                         -- provider.go:180-182  <-ctx.Done(); s.Close()             BLOCKING
  | wKid (c : Cid)             -- scope.go:250-252     <-ctx.Done(); child.Close()         BLOCKING
  | xCancel                    -- the user cancels the context `S` was created with
  | done (r : Res)
deriving DecidableEq, Repr, Hashable

/-- choices of the environment, fixed per thread (theorems quantify over all of them) -/
structure Cfg where
  failA : Bool := false     -- the constructor of `a` returns an error in this thread
  failB : Bool := false
  failT : Bool := false
  failInit : Bool := false  -- the scoped initializer fails in the child this thread creates
  rev : Bool := false       -- Go map iteration order of the snapshots this thread takes
deriving DecidableEq, Repr, Hashable

def Cfg.fails (c : Cfg) : Key → Bool
  | .a => c.failA
  | .b => c.failB

structure Sh where
  disposed : Bool := false                              -- scope.go:49
  closedSig : Bool := false                             -- scope.go:52 (closed channel closed)
  errSet : Bool := false                                -- scope.go:55 closeErr has been written
  cancelled : Bool := false                             -- S's context
  cache : Option (KV (Option Inst)) := some ⟨none, none⟩  -- scope.go:32
  lock : KV Bool := ⟨false, false⟩                      -- scope.go:37 (the mutexes in `creating`)
  disposables : Option (List Inst) := some []           -- scope.go:41
  children : Option (List Cid) := some []               -- scope.go:45
  scopes : Option (List Nat) := some [0]                -- provider.go:79 (0 = S)
  pdisposed : Bool := false                             -- provider.go:86
  singletons : Bool := true                             -- provider.go:62 populated by Build
  kidDisp : List Cid := []                              -- children whose CAS has been won
  kidClosed : List Cid := []                            -- children whose `closed` channel is closed
  nextI : Nat := 1
  nextC : Nat := 1
  -- ghost state
  created : List Inst := []      -- USER constructor completions
  closed : List Inst := []       -- USER Close calls
  ever : KV (List Inst) := ⟨[], []⟩   -- every instance ever written into the cache, per key
  casWins : Nat := 0
  snap : List Cid := []          -- the children `S.Close` found in the table (its loop's work list)
  userCancelled : Bool := false  -- the user (not `S.Close`) cancelled the context
  panicked : Bool := false       -- a write to a nil map happened
  resurrected : Bool := false    -- an append to a disposal list already taken by Close happened
deriving DecidableEq, Repr, Hashable

namespace Sh

def cacheGet (s : Sh) (k : Key) : Option Inst :=
  match s.cache with
  | none => none            -- reading a nil map is a miss
  | some c => c.get k

/-- Go: `s.instances[key] = instance` -/
def cacheWrite (s : Sh) (k : Key) (i : Inst) : Sh :=
  match s.cache with
  | none => { s with panicked := true }
  | some c => { s with cache := some (c.set k (some i)), ever := s.ever.set k (i :: s.ever.get k) }

/-- Go: `s.children[child] = struct{}{}` -/
def childWrite (s : Sh) (c : Cid) : Sh :=
  match s.children with
  | none => { s with panicked := true }
  | some l => { s with children := some (c :: l) }

/-- Go: `p.scopes[child] = struct{}{}` -/
def scopeWrite (s : Sh) (c : Nat) : Sh :=
  match s.scopes with
  | none => { s with panicked := true }
  | some l => { s with scopes := some (c :: l) }

/-- Go: `delete(m, k)` is a no-op on a nil map -/
def childDelete (s : Sh) (c : Cid) : Sh := { s with children := s.children.map (·.filter (· != c)) }
def scopeDelete (s : Sh) (c : Nat) : Sh := { s with scopes := s.scopes.map (·.filter (· != c)) }

/-- Go: `s.disposables = append(s.disposables, d)` works on a nil slice -/
def dispAppend (s : Sh) (i : Inst) : Sh :=
  match s.disposables with
  | none => { s with disposables := some [i], resurrected := true }
  | some l => { s with disposables := some (l ++ [i]) }

def alloc (s : Sh) : Sh := { s with nextI := s.nextI + 1, created := s.nextI :: s.created }
def userClose (s : Sh) (i : Inst) : Sh := { s with closed := i :: s.closed }

end Sh

def order (c : Cfg) (l : List Nat) : List Nat := if c.rev then l.reverse else l

def resume : K → Pc
  | .ret r => .done r
  | .kids rest k => .cKids rest k
  | .scopes rest => .pScopes rest

/-- resolution of key `k` ended with instance `i` -/
def afterOk (k : Key) (o : Bool) (i : Inst) : Pc := if o then .rCtor .a false else .done (.ok k i)
/-- resolution of key `k` ended with error `r` (before or after its lock was released) -/
def afterFail (o : Bool) (r : Res) : Pc := if o then .rUnl .a false r else .done r
/-- the cache has no instance: build the arguments, then call the constructor -/
def afterMiss : Key → Bool → Pc
  | .a, _ => .rChk .b true
  | .b, o => .rCtor .b o
def unlNext (k : Key) (o : Bool) : Res → Pc
  | .ok _ i => afterOk k o i
  | r => afterFail o r

/-- One atomic action of a thread at `pc`: new pc, new shared state, spawned goroutines.
`none`: finished, or blocked. -/
def act (c : Cfg) (s : Sh) : Pc → Option (Pc × Sh × List Pc)
  | .rChk k o => if s.disposed then some (afterFail o .disposed, s, []) else some (.rRead k o, s, [])
  | .rRead k o =>
    match s.cacheGet k with
    | some i => some (afterOk k o i, s, [])
    | none => some (.rMu k o, s, [])
  | .rMu k o => some (.rLock k o, s, [])
  | .rLock k o => if s.lock.get k then none else some (.rRe k o, { s with lock := s.lock.set k true }, [])
  | .rRe k o =>
    match s.cacheGet k with
    | some i => some (.rUnl k o (.ok k i), s, [])
    | none => some (afterMiss k o, s, [])
  | .rCtor k o =>
    if c.fails k then some (.rUnl k o .ctorErr, s, []) else some (.rSet k o s.nextI, s.alloc, [])
  | .rSet k o i =>
    -- `if s.instances != nil { s.instances[key] = instance }` inside one critical section
    if s.cache.isSome then some (.rTrk k o i, s.cacheWrite k i, []) else some (.rTrk k o i, s, [])
  | .rTrk k o i =>
    if s.disposed then some (.rSelf k o i, s, []) else some (.rUnl k o (.ok k i), s.dispAppend i, [])
  | .rSelf k o i => some (.rUnl k o .disposed, s.userClose i, [])
  | .rUnl k o r => some (unlNext k o r, { s with lock := s.lock.set k false }, [])
  | .tChk => if s.disposed then some (.done .disposed, s, []) else some (.tCtor, s, [])
  | .tCtor => if c.failT then some (.done .ctorErr, s, []) else some (.tTrk s.nextI, s.alloc, [])
  | .tTrk i => if s.disposed then some (.tSelf i, s, []) else some (.done (.okT i), s.dispAppend i, [])
  | .tSelf i => some (.done .disposed, s.userClose i, [])
  | .gChk => if s.disposed then some (.done .disposed, s, []) else some (.gLoad, s, [])
  | .gLoad => if s.singletons then some (.done .okS, s, []) else some (.gMiss1, s, [])
  | .gMiss1 => if s.disposed then some (.done .disposed, s, []) else some (.gMiss2, s, [])
  | .gMiss2 => if s.pdisposed then some (.done .provDisposed, s, []) else some (.done .notInit, s, [])
  | .sChk => if s.disposed then some (.done .disposed, s, []) else some (.sInit, s, [])
  | .sInit =>
    if c.failInit then some (.kCas s.nextC (.ret .initErr), { s with nextC := s.nextC + 1 }, [])  -- scope.go:83
    else some (.sAdd s.nextC, { s with nextC := s.nextC + 1 }, [])
  | .sAdd ch =>
    -- `if s.children == nil { unlock; child.Close(); return ErrScopeDisposed }; s.children[child] = …`
    if s.children.isNone then some (.kCas ch (.ret .disposed), s, []) else some (.sReg ch, s.childWrite ch, [])
  | .sReg ch =>
    if s.scopes.isNone then some (.kCas ch (.ret .provDisposed), s, []) else some (.sRe ch, s.scopeWrite ch, [])
  | .sRe ch => if ch ∈ s.kidDisp then some (.sUndo ch, s, []) else some (.sSpawn ch, s, [])
  | .sUndo ch => some (.done .disposed, s.scopeDelete ch, [])
  | .sSpawn ch => some (.done (.okChild ch), s, [.wKid ch])
  | .kCas ch k =>
    if ch ∈ s.kidDisp then some (.kWait ch k, s, []) else some (.kDetP ch k, { s with kidDisp := ch :: s.kidDisp }, [])
  | .kWait ch k => if ch ∈ s.kidClosed then some (resume k, s, []) else none
  | .kDetP ch k => some (.kDetS ch k, s.childDelete ch, [])
  | .kDetS ch k => some (.kSig ch k, s.scopeDelete ch, [])
  | .kSig ch k => some (resume k, { s with kidClosed := ch :: s.kidClosed }, [])
  | .cCas k =>
    if s.disposed then some (.cWait k, s, [])
    else some (.cTake k, { s with disposed := true, casWins := s.casWins + 1 }, [])
  | .cWait k => if s.closedSig then some (resume k, s, []) else none
  | .cTake k =>
    some (.cCancel (order c (s.children.getD [])) k, { s with children := none, snap := order c (s.children.getD []) }, [])
  | .cCancel l k => some (.cKids l k, { s with cancelled := true }, [])
  | .cKids l k =>
    match l with
    | [] => some (.cTakeD k, s, [])
    | ch :: rest => some (.kCas ch (.kids rest k), s, [])
  | .cTakeD k => some (.cDrain (s.disposables.getD []).reverse k, { s with disposables := none }, [])
  | .cDrain l k =>
    match l with
    | [] => some (.cDetS k, s, [])
    | i :: rest => some (.cDrain rest k, s.userClose i, [])
  | .cDetS k => some (.cNil k, s.scopeDelete 0, [])
  | .cNil k => some (.cErr k, { s with cache := none }, [])
  | .cErr k => some (.cSig k, { s with errSet := true }, [])
  | .cSig k => some (resume k, { s with closedSig := true }, [])
  | .pCas => if s.pdisposed then some (.done .okUnit, s, []) else some (.pTake, { s with pdisposed := true }, [])
  | .pTake => some (.pScopes (order c (s.scopes.getD [])), { s with scopes := none }, [])
  | .pScopes l =>
    match l with
    | [] => some (.pRest, s, [])
    | x :: rest => if x = 0 then some (.cCas (.scopes rest), s, []) else some (.kCas x (.scopes rest), s, [])
  | .pRest => some (.done .okUnit, { s with singletons := false }, [])
  | .wS => if s.cancelled then some (.cCas (.ret .okUnit), s, []) else none
  | .wKid ch => if s.cancelled || decide (ch ∈ s.kidDisp) then some (.kCas ch (.ret .okUnit), s, []) else none
  | .xCancel => some (.done .okUnit, { s with cancelled := true, userCancelled := true }, [])
  | .done _ => none

structure Thr where
  cfg : Cfg := {}
  start : Pc     -- ghost: the program this thread was started with (never changes)
  pc : Pc
deriving DecidableEq, Repr, Hashable

structure Sys where
  sh : Sh := {}
  thr : List Thr
deriving DecidableEq, Repr, Hashable

def spawn (l : List Pc) : List Thr := l.map (fun p => { start := p, pc := p })

/-- executable step of thread number `t` -/
def step? (s : Sys) (t : Nat) : Option Sys :=
  match s.thr[t]? with
  | none => none
  | some th =>
    match act th.cfg s.sh th.pc with
    | none => none
    | some (pc', sh', sp) => some { sh := sh', thr := s.thr.set t { th with pc := pc' } ++ spawn sp }

/-- the interleaving relation: any enabled thread takes one action -/
inductive Step : Sys → Sys → Prop
  | mk (sh : Sh) (pre post : List Thr) (th : Thr) (pc' : Pc) (sh' : Sh) (sp : List Pc) :
      act th.cfg sh th.pc = some (pc', sh', sp) →
      Step ⟨sh, pre ++ th :: post⟩ ⟨sh', pre ++ { th with pc := pc' } :: post ++ spawn sp⟩

inductive Reach : Sys → Sys → Prop
  | refl (s) : Reach s s
  | step {a b c} : Reach a b → Step b c → Reach a c

/-- replay of a schedule (a list of thread numbers); `none` if a scheduled thread is not enabled -/
def run (s : Sys) : List Nat → Option Sys
  | [] => some s
  | t :: ts =>
    match step? s t with
    | none => none
    | some s' => run s' ts

/-- the programs a scenario may start with -/
def Pc.initial : Pc → Bool
  | .rChk _ false | .tChk | .gChk | .sChk | .cCas (.ret .okUnit) | .pCas | .wS | .xCancel => true
  | _ => false

/-- the state right after `provider.CreateScope` returned `S` -/
def init (thr : List Thr) : Sys := { sh := {}, thr := thr }

def Thr.enabled (sh : Sh) (th : Thr) : Bool := (act th.cfg sh th.pc).isSome

/-- a thread that is allowed to sit still for ever: returned, or a watcher whose context is alive -/
def Pc.idle : Pc → Bool
  | .done _ | .wS | .wKid _ => true
  | _ => false

end Godi.Conc
