/-!
# M5 — the container at run time: Build phase 6, resolution, scopes, Close

Transliteration of `/repo/scope.go` (`resolve`, `createInstance`, `setInstance`, `track`, `newScope`,
`runInitializers`, `CreateScope`, `Close`), `/repo/provider.go` (`Get*`, `CreateScope`, `Close`,
`createAllSingletonsWithContext`) and of the argument building in
`/repo/internal/reflection/builders.go`, over the descriptors exactly as the provider holds them
(the harness dumps them from the real collection).

* constructors are opaque: `beh ctor n` says what the `n`-th invocation of constructor `ctor` does;
  `cbeh ctor n` says whether `Close` of what that invocation produced returns an error;
* Go maps ranged over (children of a scope, scopes of a provider, Kahn's order at Build) are
  explicit order arguments of the operations;
* the recursion `resolve → createInstance → buildArgs → resolve` has no guard in Go; the model takes
  fuel and running out of it is the explicit outcome `Layer.fuel`.
-/
namespace Godi.Container

abbrev Inst := Nat

structure Ident where
  ty : Nat
  key : Nat := 0      -- 0 = nil
  grp : Nat := 0      -- 0 = ""
deriving DecidableEq, Repr, Inhabited

/-- reserved (built-in) types -/
def tyCtx : Nat := 0
def tyProvider : Nat := 1
def tyScope : Nat := 2

inductive Life | singleton | scoped | transient
deriving DecidableEq, Repr, Inhabited

structure Dep where
  ty : Nat
  key : Nat := 0
  grp : Nat := 0
  optional : Bool := false
deriving DecidableEq, Repr, Inhabited

inductive Kind
  | plain                -- one value; further siblings are aliases of it
  | inst (v : Inst)      -- registered instance value
  | void                 -- no service output (initializer)
  | multi                -- multiple returns / result object: one value per sibling
deriving DecidableEq, Repr, Inhabited

structure Desc where
  id : Nat
  ident : Ident
  life : Life
  ctor : Nat
  kind : Kind
  deps : List Dep
  sibs : List Nat := []   -- ids of all descriptors of the registration, this one included ([] = alone)
  disp : Bool := false    -- the value produced for this descriptor has a `Close() error` method
deriving Repr, Inhabited, DecidableEq

/-- layers of godi's error values that are reachable through `errors.Is/As` -/
inductive Layer
  | build | resolution | invocation | panicL | validation | disposal | circular | lifetimeConflict
  | graphOp | notFound | scopeDisposed | providerDisposed | singletonNotInit | injected (c : Nat) | fuel
deriving DecidableEq, Repr, Inhabited

abbrev Err := List Layer

inductive Val
  | inst (i : Inst)
  | group (l : List Inst)
  | ctx (s : Nat)
  | scope (s : Nat)
  | provider
  | zero          -- optional dependency left at its zero value
  | unit          -- `struct{}{}` of a void-return constructor
  | absent        -- cached under the identity of a result-object field the constructor left nil
deriving DecidableEq, Repr, Inhabited

inductive Outcome | ok | err | panic | nilOut
deriving DecidableEq, Repr, Inhabited

inductive Event
  | ctor (d c inv scope : Nat) (args : List Val) (outs : List Inst)
  | ctorFail (d c inv scope : Nat) (how : Outcome)
  | closed (owner : Nat) (i : Inst) (ok : Bool)      -- owner: scope id, or `providerOwner`
deriving DecidableEq, Repr, Inhabited

def providerOwner : Nat := 1000000

structure ScopeSt where
  parent : Option Nat := none
  instances : Option (List (Ident × Val)) := some []
  disposables : Option (List Inst) := some []
  children : Option (List Nat) := some []
  disposed : Bool := false
  ctxOf : Nat := 0          -- user context the scope was created with (0 = Background / inherited)
deriving Repr, Inhabited

structure State where
  descs : List Desc := []
  singletons : List (Ident × Val) := []
  provDisposables : Option (List Inst) := some []
  scope : Nat → ScopeSt := fun _ => {}
  nscopes : Nat := 0
  provScopes : Option (List Nat) := some []
  initializers : List Nat := []        -- `voidReturnScopedDescriptors` (desc ids)
  disposed : Bool := false
  next : Inst := 1
  invs : Nat → Nat := fun _ => 0       -- invocations so far, per constructor
  instMeta : Inst → Nat × Nat := fun _ => (0, 0)    -- (ctor, invocation) that produced an instance
  log : List Event := []
  ctxParent : Nat → Nat := fun _ => 0  -- user contexts: parent (0 = Background)
  ctxCancelled : Nat → Bool := fun _ => false

def rootScope : Nat := 0

def updScope (st : State) (s : Nat) (f : ScopeSt → ScopeSt) : State :=
  { st with scope := fun x => if x = s then f (st.scope s) else st.scope x }

def lookup {α} (l : List (Ident × α)) (k : Ident) : Option α :=
  match l.find? (fun p => p.1 == k) with
  | some p => some p.2
  | none => none

def findDesc (descs : List Desc) (id : Nat) : Option Desc := descs.find? (fun d => d.id == id)

/-- `provider.findDescriptor`: the service map holds every descriptor that is not a group member -/
def findService (descs : List Desc) (ty key : Nat) : Option Desc :=
  descs.find? (fun d => d.ident.ty == ty && d.ident.key == key && d.ident.grp == 0)

/-- `provider.findGroupDescriptors`: members in registration order -/
def groupMembers (descs : List Desc) (ty grp : Nat) : List Desc :=
  descs.filter (fun d => d.ident.ty == ty && d.ident.grp == grp && grp != 0)

structure Beh where
  ctor : Nat → Nat → Outcome := fun _ _ => .ok
  close : Nat → Nat → Bool := fun _ _ => false    -- true = Close returns an error
  /-- a result object may leave one of its fields nil: `ProcessResultObject` skips it -/
  nilField : Nat → Nat → Option Nat := fun _ _ => none

/-! ### small state updates -/

def bumpInv (st : State) (c : Nat) : State :=
  { st with invs := fun x => if x = c then st.invs c + 1 else st.invs x }

def logEv (st : State) (e : Event) : State := { st with log := st.log ++ [e] }

/-- hand out `k` fresh instance ids, produced by invocation `n` of constructor `c` -/
def alloc (st : State) (k c n : Nat) : State :=
  { st with next := st.next + k,
            instMeta := fun i => if st.next ≤ i ∧ i < st.next + k then (c, n) else st.instMeta i }

def okOr {α} (r : Except Err Unit) (v : α) : Except Err α :=
  match r with
  | .ok _ => .ok v
  | .error e => .error e

def logClosed (st : State) (owner : Nat) (i : Inst) (ok : Bool) : State := logEv st (.closed owner i ok)

/-! ### ownership: `setInstance` / `track` / `shareInstance` -/

/-- `scope.track` (scope.go:401-419) -/
def track (st : State) (s : Nat) (v : Val) (disp : Bool) : State × Except Err Unit :=
  match v with
  | .inst i =>
    if (st.scope s).disposed then
      -- the late instance is disposed right away
      (if disp then logClosed st s i true else st, .error [.scopeDisposed])
    else if disp then
      (updScope st s (fun sc => { sc with disposables := some ((sc.disposables.getD []) ++ [i]) }), .ok ())
    else (st, .ok ())
  | _ => if (st.scope s).disposed then (st, .error [.scopeDisposed]) else (st, .ok ())

/-- map write `m[k] = v`: the newest binding shadows older ones (`lookup` takes the first) -/
def cachePut (m : List (Ident × Val)) (k : Ident) (v : Val) : List (Ident × Val) := (k, v) :: m

/-- `s.instances[key] = instance` under `instancesMu`, skipped when Close has released the map -/
def putInstance (st : State) (s : Nat) (k : Ident) (v : Val) : State :=
  updScope st s (fun sc => { sc with instances := sc.instances.map (fun m => cachePut m k v) })

/-- `provider.setSingleton` / `storeSingleton` (provider.go) -/
def storeSingleton (st : State) (k : Ident) (v : Val) : State :=
  { st with singletons := cachePut st.singletons k v }

/-- `scope.setInstance` (scope.go:360-376) -/
def setInstance (st : State) (s : Nat) (d : Desc) (k : Ident) (v : Val) : State × Except Err Unit :=
  match d.life with
  | .singleton =>
    let st1 := storeSingleton st k v
    match v with
    | .inst i =>
      if d.disp then ({ st1 with provDisposables := some ((st1.provDisposables.getD []) ++ [i]) }, .ok ())
      else (st1, .ok ())
    | _ => (st1, .ok ())
  | .scoped =>
    track (putInstance st s k v) s v d.disp
  | .transient => track st s v d.disp

/-- `scope.shareInstance` (scope.go:380-391) -/
def shareInstance (st : State) (s : Nat) (d : Desc) (k : Ident) (v : Val) : State :=
  match d.life with
  | .singleton => storeSingleton st k v
  | .scoped => putInstance st s k v
  | .transient => st

/-! ### resolution -/

def isConstruction (e : Err) : Bool := e.any (fun l => l == .invocation || l == .panicL)

def allocOuts (next : Inst) (n : Nat) : List Inst := (List.range n).map (· + next)

/-- store the outputs of one invocation under the identities of the sibling descriptors -/
def storeOuts (st : State) (s : Nat) (sibs : List Desc) (outs : List Inst) : State × Except Err Unit :=
  match sibs, outs with
  | d :: ds, o :: os =>
    let r1 := setInstance st s d d.ident (.inst o)
    let r2 := storeOuts r1.1 s ds os
    (r2.1, match r1.2, r2.2 with
      | _, .error e => .error e       -- Go keeps the last tracking error
      | .error e, .ok _ => .error e
      | .ok _, .ok _ => .ok ())
  | _, _ => (st, .ok ())

def shareAll (st : State) (s : Nat) (self : Nat) (sibs : List Desc) (v : Val) : State :=
  sibs.foldl (fun st d => if d.id = self then st else shareInstance st s d d.ident v) st

/-- a result-object field left nil: its identity is cached as `absent` (scoped: in the scope, singleton:
in the provider's table; transient: nothing) so that it is not constructed again -/
def markAbsent (st : State) (s : Nat) (sibs0 : List Desc) (nil? : Option Nat) : State :=
  match nil? with
  | some k => match sibs0[k]? with
    | some dk => shareInstance st s dk dk.ident .absent
    | none => st
  | none => st

@[simp] theorem markAbsent_none (st : State) (s : Nat) (sibs0 : List Desc) : markAbsent st s sibs0 none = st := rfl

def idxOfDesc (sibs : List Desc) (id : Nat) : Nat :=
  (sibs.map (·.id)).idxOf id

mutual
/-- `scope.resolve` behind `Get`/`GetKeyed` (scope.go:126-155, 430-502) -/
def resolve (beh : Beh) : Nat → State → Nat → Nat → Nat → State × Except Err Val
  | 0, st, _, _, _ => (st, .error [.fuel])
  | f+1, st, s, ty, key =>
    if (st.scope s).disposed then (st, .error [.scopeDisposed]) else
    if key = 0 ∧ ty = tyCtx then (st, .ok (.ctx s)) else
    if key = 0 ∧ ty = tyProvider then (st, .ok .provider) else
    if key = 0 ∧ ty = tyScope then (st, .ok (.scope s)) else
    match findService st.descs ty key with
    | none => (st, .error [.resolution, .notFound])
    | some d => resolveDesc beh f st s d
termination_by structural f => f

/-- the lifetime switch of `scope.resolve` for a known descriptor -/
def resolveDesc (beh : Beh) : Nat → State → Nat → Desc → State × Except Err Val
  | 0, st, _, _ => (st, .error [.fuel])
  | f+1, st, s, d =>
    match d.life with
    | .singleton =>
      match lookup st.singletons d.ident with
      | some .absent => (st, .error [.validation])     -- "result object field was nil"
      | some v => (st, .ok v)
      | none => (st, .error [.resolution, .singletonNotInit])
    | .scoped =>
      match lookup ((st.scope s).instances.getD []) d.ident with
      | some .absent => (st, .error [.validation])
      | some v => (st, .ok v)
      | none => createInstance beh f st s d
    | .transient => createInstance beh f st s d
termination_by structural f => f

/-- `scope.GetGroup` (scope.go:158-196) -/
def getGroup (beh : Beh) : Nat → State → Nat → Nat → Nat → State × Except Err Val
  | 0, st, _, _, _ => (st, .error [.fuel])
  | f+1, st, s, ty, grp =>
    if (st.scope s).disposed then (st, .error [.scopeDisposed]) else
    resolveMembers beh f st s (groupMembers st.descs ty grp) []
termination_by structural f => f

def resolveMembers (beh : Beh) : Nat → State → Nat → List Desc → List Inst → State × Except Err Val
  | 0, st, _, _, _ => (st, .error [.fuel])
  | _+1, st, _, [], acc => (st, .ok (.group acc))
  | f+1, st, s, d :: ds, acc =>
    let r := resolveDesc beh f st s d
    match r.2 with
    | .ok (.inst i) => resolveMembers beh f r.1 s ds (acc ++ [i])
    | .ok _ => resolveMembers beh f r.1 s ds acc
    | .error e => (r.1, .error (.resolution :: e))
termination_by structural f => f

/-- `buildArguments` / `BuildParamObject` (builders.go): one dependency after the other -/
def buildArgs (beh : Beh) : Nat → State → Nat → List Dep → List Val → State × Except Err (List Val)
  | 0, st, _, _, _ => (st, .error [.fuel])
  | _+1, st, _, [], acc => (st, .ok acc)
  | f+1, st, s, dep :: deps, acc =>
    let r := if dep.grp != 0 then getGroup beh f st s dep.ty dep.grp else resolve beh f st s dep.ty dep.key
    match r.2 with
    | .ok v => buildArgs beh f r.1 s deps (acc ++ [v])
    | .error e =>
      if dep.optional && !isConstruction e then buildArgs beh f r.1 s deps (acc ++ [.zero])
      else (r.1, .error e)
termination_by structural f => f

/-- `scope.createInstance` (scope.go:507-743) -/
def createInstance (beh : Beh) : Nat → State → Nat → Desc → State × Except Err Val
  | 0, st, _, _ => (st, .error [.fuel])
  | f+1, st, s, d =>
    match d.kind with
    | .inst v =>
      -- a value registered under several interface types is one service: shared with the siblings
      let r := setInstance st s d d.ident (.inst v)
      match r.2 with
      | .error e => (r.1, .error e)
      | .ok _ => (shareAll r.1 s d.id (d.sibs.filterMap (findDesc st.descs)) (.inst v), .ok (.inst v))
    | _ =>
      let ra := buildArgs beh f st s d.deps []
      match ra.2 with
      | .error e => (ra.1, .error (.invocation :: e))
      | .ok args =>
        let st2 := bumpInv ra.1 d.ctor
        let n := st2.invs d.ctor
        match beh.ctor d.ctor n with
        | .err => (logEv st2 (.ctorFail d.id d.ctor n s .err), .error [.invocation, .injected d.ctor])
        | .panic => (logEv st2 (.ctorFail d.id d.ctor n s .panic), .error [.panicL])
        | .nilOut => (logEv st2 (.ctorFail d.id d.ctor n s .nilOut), .error [.validation])
        | .ok =>
          let sibs := (d.sibs.filterMap (findDesc st2.descs))
          match d.kind with
          | .void =>
            let r := setInstance (logEv st2 (.ctor d.id d.ctor n s args [])) s d d.ident .unit
            (r.1, okOr r.2 .unit)
          | .multi =>
            let sibs0 := if sibs.isEmpty then [d] else sibs
            -- a nil field produces no value: the remaining fields are stored, the nil one is skipped
            let sibs' := match beh.nilField d.ctor n with
              | some k => sibs0.eraseIdx k
              | none => sibs0
            let outs := allocOuts st2.next sibs'.length
            let st3 := logEv (alloc st2 sibs'.length d.ctor n) (.ctor d.id d.ctor n s args outs)
            let r := storeOuts st3 s sibs' outs
            -- the identity of the nil field is remembered as constructed-without-value
            (markAbsent r.1 s sibs0 (beh.nilField d.ctor n),
                  if (sibs'.map (·.id)).contains d.id then okOr r.2 (.inst (outs.getD (idxOfDesc sibs' d.id) 0))
                  else match r.2 with
                    | .error e => .error e
                    | .ok _ => .error [.validation])  -- "result object produced no services"
          | _ =>
            let i := st2.next
            let st3 := logEv (alloc st2 1 d.ctor n) (.ctor d.id d.ctor n s args [i])
            let r := setInstance st3 s d d.ident (.inst i)
            match r.2 with
            | .error e => (r.1, .error e)
            | .ok _ => (shareAll r.1 s d.id sibs (.inst i), .ok (.inst i))
termination_by structural f => f
end

/-- the largest number of dependencies any registration declares -/
def maxDeps (descs : List Desc) : Nat := (descs.map (fun d => d.deps.length)).foldr max 0

/-- enough fuel for every acyclic configuration (proved: `GodiProofs/Container/Terminates.lean`): the
dependency nesting is at most `descs.length + 1` levels deep and one level spends at most
`descs.length + maxDeps descs + 6` units (one per argument, one per group member, a constant for the calls) -/
def fuelFor (st : State) : Nat := (st.descs.length + 2) * (st.descs.length + maxDeps st.descs + 6) + 16

/-! ### scopes -/

/-- `runInitializers` (scope.go:89-105) -/
def runInitializers (beh : Beh) (st : State) (s : Nat) : List Nat → State × Except Err Unit
  | [] => (st, .ok ())
  | id :: rest =>
    match findDesc st.descs id with
    | none => runInitializers beh st s rest
    | some d =>
      let r := createInstance beh (fuelFor st) st s d
      match r.2 with
      | .ok _ => runInitializers beh r.1 s rest
      | .error e => (r.1, .error (.resolution :: e))

/-- `for i := len(disposables)-1; i >= 0; i-- { disposables[i].Close() }` on the reversed list -/
def closeLoop (beh : Beh) (owner : Nat) (st : State) : List Inst → State × Bool
  | [] => (st, false)
  | i :: rest =>
    let bad := beh.close (st.instMeta i).1 (st.instMeta i).2
    let r := closeLoop beh owner (logClosed st owner i (!bad)) rest
    (r.1, bad || r.2)

def markDisposed (st : State) (s : Nat) : State := updScope st s (fun sc => { sc with disposed := true })
def takeChildren (st : State) (s : Nat) : State := updScope st s (fun sc => { sc with children := none })
def takeDisposables (st : State) (s : Nat) : State := updScope st s (fun sc => { sc with disposables := none })
def dropInstances (st : State) (s : Nat) : State := updScope st s (fun sc => { sc with instances := none })

/-- `delete(parent.children, s)`; `delete(provider.scopes, s)` — no-ops on tables that are nil -/
def detach (st : State) (s : Nat) : State :=
  let st1 := match (st.scope s).parent with
    | some p => updScope st p (fun sc => { sc with children := sc.children.map (fun (l : List Nat) => List.erase l s) })
    | none => st
  { st1 with provScopes := st1.provScopes.map (fun (l : List Nat) => List.erase l s) }

mutual
/-- `scope.Close` (scope.go:249-321); `order` chooses the iteration order of each children map -/
def closeScope (beh : Beh) (order : List Nat → List Nat) : Nat → State → Nat → State × Bool
  | 0, st, _ => (st, false)
  | f+1, st, s =>
    if (st.scope s).disposed then (st, false) else
    let kids := order ((st.scope s).children.getD [])
    let r1 := closeChildren beh order f (takeChildren (markDisposed st s) s) kids
    let ds := (r1.1.scope s).disposables.getD []
    let r2 := closeLoop beh s (takeDisposables r1.1 s) ds.reverse
    (dropInstances (detach r2.1 s) s, r1.2 || r2.2)
termination_by structural f => f

def closeChildren (beh : Beh) (order : List Nat → List Nat) : Nat → State → List Nat → State × Bool
  | 0, st, _ => (st, false)
  | _+1, st, [] => (st, false)
  | f+1, st, c :: rest =>
    let r1 := closeScope beh order f st c
    let r2 := closeChildren beh order f r1.1 rest
    (r2.1, r1.2 || r2.2)
termination_by structural f => f
end

/-- enough fuel for `Close` (proved: `GodiProofs/Container/Tree.lean`, `tree_close`): a scope's descendants are
younger than it, and closing the `i`-th child of a table spends `i` units before descending -/
def closeFuel (st : State) : Nat := (st.nscopes + 1) * (st.nscopes + 2) + 4

def allocScope (st : State) (parent : Option Nat) (ctx : Nat) : State :=
  { st with nscopes := st.nscopes + 1,
            scope := fun x => if x = st.nscopes then { parent := parent, ctxOf := ctx } else st.scope x }

def addProvScope (st : State) (s : Nat) : State :=
  { st with provScopes := st.provScopes.map (fun (l : List Nat) => l ++ [s]) }

def addChild (st : State) (p s : Nat) : State :=
  updScope st p (fun sc => { sc with children := sc.children.map (fun (l : List Nat) => l ++ [s]) })

/-- `newScope` (scope.go:55-85): a scope whose initializers fail is closed again -/
def newScope (beh : Beh) (st : State) (parent : Option Nat) (ctx : Nat) (runInit : Bool) :
    State × Except Err Nat :=
  let s := st.nscopes
  let st1 := allocScope st parent ctx
  if runInit then
    let r := runInitializers beh st1 s st1.initializers
    match r.2 with
    | .ok _ => (r.1, .ok s)
    | .error e => ((closeScope beh id (closeFuel r.1) r.1 s).1, .error e)
  else (st1, .ok s)

/-- `provider.CreateScope` (provider.go) -/
def providerCreateScope (beh : Beh) (st : State) (ctx : Nat) : State × Except Err Nat :=
  if st.disposed then (st, .error [.providerDisposed]) else
  let r := newScope beh st none ctx true
  match r.2 with
  | .error e => (r.1, .error e)
  | .ok s =>
    if r.1.provScopes.isNone then ((closeScope beh id (closeFuel r.1) r.1 s).1, .error [.providerDisposed])
    else (addProvScope r.1 s, .ok s)

/-- `scope.CreateScope` (scope.go:199-246) -/
def scopeCreateScope (beh : Beh) (st : State) (p : Nat) (ctx : Nat) : State × Except Err Nat :=
  if (st.scope p).disposed then (st, .error [.scopeDisposed]) else
  let r := newScope beh st (some p) ctx true
  match r.2 with
  | .error e => (r.1, .error e)
  | .ok s =>
    if (r.1.scope p).children.isNone then ((closeScope beh id (closeFuel r.1) r.1 s).1, .error [.scopeDisposed])
    else
      let st2 := addChild r.1 p s
      if st2.provScopes.isNone then ((closeScope beh id (closeFuel st2) st2 s).1, .error [.providerDisposed])
      else (addProvScope st2 s, .ok s)

/-- `provider.Close` (provider.go) -/
def closeProvider (beh : Beh) (order : List Nat → List Nat) (st : State) : State × Bool :=
  if st.disposed then (st, false) else
  let scopes := order (st.provScopes.getD [])
  let st2 := { st with disposed := true, provScopes := none }
  let r1 := closeChildren beh order (closeFuel st2 + scopes.length + 2) st2 scopes
  let r2 := closeScope beh order (closeFuel r1.1) r1.1 rootScope
  let ds := r2.1.provDisposables.getD []
  let r3 := closeLoop beh providerOwner { r2.1 with provDisposables := none } ds.reverse
  ({ r3.1 with singletons := [], initializers := [] }, r1.2 || r2.2 || r3.2)

/-- decidable "the result is `ok v`" (for `decide`d examples and witnesses) -/
def okIs (r : Except Err Val) (v : Val) : Bool :=
  match r with
  | .ok w => w == v
  | .error _ => false

/-! ### entry points (the disposed checks of `provider.Get*`) -/

def scopeGet (beh : Beh) (st : State) (s ty key : Nat) : State × Except Err Val :=
  resolve beh (fuelFor st) st s ty key

def scopeGetGroup (beh : Beh) (st : State) (s ty grp : Nat) : State × Except Err Val :=
  getGroup beh (fuelFor st) st s ty grp

def providerGet (beh : Beh) (st : State) (ty key : Nat) : State × Except Err Val :=
  if st.disposed then (st, .error [.providerDisposed]) else scopeGet beh st rootScope ty key

def providerGetGroup (beh : Beh) (st : State) (ty grp : Nat) : State × Except Err Val :=
  if st.disposed then (st, .error [.providerDisposed]) else scopeGetGroup beh st rootScope ty grp

/-! ### Build, phase 5–6 (collection.go: root scope, singletons in the given order, initializers) -/

def createSingletons (beh : Beh) (st : State) : List Nat → State × Except Err Unit
  | [] => (st, .ok ())
  | id :: rest =>
    match findDesc st.descs id with
    | none => createSingletons beh st rest
    | some d =>
      if d.life != .singleton then createSingletons beh st rest
      else if lookup st.singletons d.ident == some .absent then
        (st, .error [.resolution, .resolution, .validation])   -- a sibling's field for this identity was nil
      else if (lookup st.singletons d.ident).isSome then createSingletons beh st rest
      else
        let r := createInstance beh (fuelFor st) st rootScope d
        match r.2 with
        | .ok _ => createSingletons beh r.1 rest
        | .error e => (r.1, .error (.resolution :: e))

def isInitializer (d : Desc) : Bool := d.life == .scoped && d.kind == .void

/-- instance-valued registrations exist before Build: their values carry the ids below `firstFresh`,
constructors hand out ids from there on (so a fresh id never coincides with a registered value) -/
def instVal (d : Desc) : Nat := match d.kind with | .inst v => v | _ => 0
def firstFresh (descs : List Desc) : Nat := (descs.map instVal).foldl max 0 + 1

/-- phases 5 and 6 of `doBuild`; `order` = the topological order (desc ids) the graph produced -/
def buildRuntime (beh : Beh) (descs : List Desc) (order : List Nat) : State × Except Err Unit :=
  let st0 : State := { descs := descs, next := firstFresh descs }
  match newScope beh st0 none 0 false with
  | (st1, .error e) => (st1, .error (.build :: e))
  | (st1, .ok _) =>
    match createSingletons beh st1 order with
    | (st2, .error e) =>
      let (st3, ce) := closeProvider beh id st2
      (st3, .error (.build :: (if ce then e ++ [.disposal] else e)))
    | (st2, .ok _) =>
      let st3 := { st2 with initializers := (descs.filter isInitializer).map (·.id) }
      match runInitializers beh st3 rootScope st3.initializers with
      | (st4, .ok _) => (st4, .ok ())
      | (st4, .error e) =>
        let (st5, ce) := closeProvider beh id st4
        (st5, .error (.build :: (if ce then e ++ [.disposal] else e)))

end Godi.Container
