/-!
# M5 — the container at run time: Build phase 6, resolution, scopes, Close

Transliteration of `/repo/scope.go` (`resolve`, `createInstance`, `setInstance`, `track`, `newScope`,
`runInitializers`, `CreateScope`, `Close`), `/repo/provider.go` (`Get*`, `CreateScope`, `Close`,
`createAllSingletonsWithContext`) and of the argument building in
`/repo/internal/reflection/builders.go`, over the descriptors exactly as the provider holds them
(the harness dumps them from the real collection).

* constructors are opaque: `beh ctor n` says what the `n`-th invocation of constructor `ctor` does;
  `cbeh ctor n` says whether `Close` of what that invocation produced returns an error;
* Go maps ranged over (children of a scope, scopes of a provider, Kahn's order at Build) are
  explicit order arguments of the operations;
* the recursion `resolve → createInstance → buildArgs → resolve` has no guard in Go; the model takes
  fuel and running out of it is the explicit outcome `Layer.fuel`.
-/
namespace Godi.Container

abbrev Inst := Nat

structure Ident where
  ty : Nat
  key : Nat := 0      -- 0 = nil
  grp : Nat := 0      -- 0 = ""
deriving DecidableEq, Repr, Inhabited

/-- reserved (built-in) types -/
def tyCtx : Nat := 0
def tyProvider : Nat := 1
def tyScope : Nat := 2

inductive Life | singleton | scoped | transient
deriving DecidableEq, Repr, Inhabited

structure Dep where
  ty : Nat
  key : Nat := 0
  grp : Nat := 0
  optional : Bool := false
deriving DecidableEq, Repr, Inhabited

inductive Kind
  | plain                -- one value; further siblings are aliases of it
  | inst (v : Inst)      -- registered instance value
  | void                 -- no service output (initializer)
  | multi                -- multiple returns / result object: one value per sibling
deriving DecidableEq, Repr, Inhabited

structure Desc where
  id : Nat
  ident : Ident
  life : Life
  ctor : Nat
  kind : Kind
  deps : List Dep
  sibs : List Nat := []   -- ids of all descriptors of the registration, this one included ([] = alone)
  disp : Bool := false    -- the value produced for this descriptor has a `Close() error` method
deriving Repr, Inhabited

/-- layers of godi's error values that are reachable through `errors.Is/As` -/
inductive Layer
  | build | resolution | invocation | panicL | validation | disposal | circular | lifetimeConflict
  | graphOp | notFound | scopeDisposed | providerDisposed | singletonNotInit | injected (c : Nat) | fuel
deriving DecidableEq, Repr, Inhabited

abbrev Err := List Layer

inductive Val
  | inst (i : Inst)
  | group (l : List Inst)
  | ctx (s : Nat)
  | scope (s : Nat)
  | provider
  | zero          -- optional dependency left at its zero value
  | unit          -- `struct{}{}` of a void-return constructor
deriving DecidableEq, Repr, Inhabited

inductive Outcome | ok | err | panic | nilOut
deriving DecidableEq, Repr, Inhabited

inductive Event
  | ctor (d c inv scope : Nat) (args : List Val) (outs : List Inst)
  | ctorFail (d c inv scope : Nat) (how : Outcome)
  | closed (owner : Nat) (i : Inst) (ok : Bool)      -- owner: scope id, or `providerOwner`
deriving DecidableEq, Repr, Inhabited

def providerOwner : Nat := 1000000

structure ScopeSt where
  parent : Option Nat := none
  instances : Option (List (Ident × Val)) := some []
  disposables : Option (List Inst) := some []
  children : Option (List Nat) := some []
  disposed : Bool := false
  ctxOf : Nat := 0          -- user context the scope was created with (0 = Background / inherited)
deriving Repr, Inhabited

structure State where
  descs : List Desc := []
  singletons : List (Ident × Val) := []
  provDisposables : Option (List Inst) := some []
  scope : Nat → ScopeSt := fun _ => {}
  nscopes : Nat := 0
  provScopes : Option (List Nat) := some []
  initializers : List Nat := []        -- `voidReturnScopedDescriptors` (desc ids)
  disposed : Bool := false
  next : Inst := 1
  invs : Nat → Nat := fun _ => 0       -- invocations so far, per constructor
  instMeta : Inst → Nat × Nat := fun _ => (0, 0)    -- (ctor, invocation) that produced an instance
  log : List Event := []
  ctxParent : Nat → Nat := fun _ => 0  -- user contexts: parent (0 = Background)
  ctxCancelled : Nat → Bool := fun _ => false

def rootScope : Nat := 0

def updScope (st : State) (s : Nat) (f : ScopeSt → ScopeSt) : State :=
  { st with scope := fun x => if x = s then f (st.scope s) else st.scope x }

def lookup {α} (l : List (Ident × α)) (k : Ident) : Option α :=
  match l.find? (fun p => p.1 == k) with
  | some p => some p.2
  | none => none

def findDesc (descs : List Desc) (id : Nat) : Option Desc := descs.find? (fun d => d.id == id)

/-- `provider.findDescriptor`: the service map holds every descriptor that is not a group member -/
def findService (descs : List Desc) (ty key : Nat) : Option Desc :=
  descs.find? (fun d => d.ident.ty == ty && d.ident.key == key && d.ident.grp == 0)

/-- `provider.findGroupDescriptors`: members in registration order -/
def groupMembers (descs : List Desc) (ty grp : Nat) : List Desc :=
  descs.filter (fun d => d.ident.ty == ty && d.ident.grp == grp && grp != 0)

structure Beh where
  ctor : Nat → Nat → Outcome := fun _ _ => .ok
  close : Nat → Nat → Bool := fun _ _ => false    -- true = Close returns an error

/-! ### ownership: `setInstance` / `track` / `shareInstance` -/

/-- `scope.track` (scope.go:401-419) -/
def track (st : State) (s : Nat) (v : Val) (disp : Bool) : State × Except Err Unit :=
  match v with
  | .inst i =>
    if (st.scope s).disposed then
      -- the late instance is disposed right away
      (if disp then { st with log := st.log ++ [.closed s i true] } else st, .error [.scopeDisposed])
    else if disp then
      (updScope st s (fun sc => { sc with disposables := some ((sc.disposables.getD []) ++ [i]) }), .ok ())
    else (st, .ok ())
  | _ => if (st.scope s).disposed then (st, .error [.scopeDisposed]) else (st, .ok ())

/-- `provider.setSingleton` / `storeSingleton` (provider.go) -/
def storeSingleton (st : State) (k : Ident) (v : Val) : State :=
  { st with singletons := (k, v) :: st.singletons.filter (fun p => p.1 != k) }

/-- `scope.setInstance` (scope.go:360-376) -/
def setInstance (st : State) (s : Nat) (d : Desc) (k : Ident) (v : Val) : State × Except Err Unit :=
  match d.life with
  | .singleton =>
    let st1 := storeSingleton st k v
    match v with
    | .inst i =>
      if d.disp then ({ st1 with provDisposables := some ((st1.provDisposables.getD []) ++ [i]) }, .ok ())
      else (st1, .ok ())
    | _ => (st1, .ok ())
  | .scoped =>
    let st1 := updScope st s (fun sc =>
      match sc.instances with
      | some m => { sc with instances := some ((k, v) :: m.filter (fun p => p.1 != k)) }
      | none => sc)
    track st1 s v d.disp
  | .transient => track st s v d.disp

/-- `scope.shareInstance` (scope.go:380-391) -/
def shareInstance (st : State) (s : Nat) (d : Desc) (k : Ident) (v : Val) : State :=
  match d.life with
  | .singleton => storeSingleton st k v
  | .scoped =>
    updScope st s (fun sc =>
      match sc.instances with
      | some m => { sc with instances := some ((k, v) :: m.filter (fun p => p.1 != k)) }
      | none => sc)
  | .transient => st

/-! ### resolution -/

def isConstruction (e : Err) : Bool := e.any (fun l => l == .invocation || l == .panicL)

def allocOuts (next : Inst) (n : Nat) : List Inst := (List.range n).map (· + next)

/-- store the outputs of one invocation under the identities of the sibling descriptors -/
def storeOuts (st : State) (s : Nat) (sibs : List Desc) (outs : List Inst) : State × Except Err Unit :=
  match sibs, outs with
  | d :: ds, o :: os =>
    let (st1, r1) := setInstance st s d d.ident (.inst o)
    let (st2, r2) := storeOuts st1 s ds os
    match r1, r2 with
    | _, .error e => (st2, .error e)       -- Go keeps the last tracking error
    | .error e, .ok _ => (st2, .error e)
    | .ok _, .ok _ => (st2, .ok ())
  | _, _ => (st, .ok ())

def shareAll (st : State) (s : Nat) (self : Nat) (sibs : List Desc) (v : Val) : State :=
  sibs.foldl (fun st d => if d.id = self then st else shareInstance st s d d.ident v) st

def idxOfDesc (sibs : List Desc) (id : Nat) : Nat :=
  (sibs.map (·.id)).idxOf id

mutual
/-- `scope.resolve` behind `Get`/`GetKeyed` (scope.go:126-155, 430-502) -/
def resolve (beh : Beh) : Nat → State → Nat → Nat → Nat → State × Except Err Val
  | 0, st, _, _, _ => (st, .error [.fuel])
  | f+1, st, s, ty, key =>
    if (st.scope s).disposed then (st, .error [.scopeDisposed]) else
    if key = 0 ∧ ty = tyCtx then (st, .ok (.ctx s)) else
    if key = 0 ∧ ty = tyProvider then (st, .ok .provider) else
    if key = 0 ∧ ty = tyScope then (st, .ok (.scope s)) else
    match findService st.descs ty key with
    | none => (st, .error [.resolution, .notFound])
    | some d => resolveDesc beh f st s d

/-- the lifetime switch of `scope.resolve` for a known descriptor -/
def resolveDesc (beh : Beh) : Nat → State → Nat → Desc → State × Except Err Val
  | 0, st, _, _ => (st, .error [.fuel])
  | f+1, st, s, d =>
    match d.life with
    | .singleton =>
      match lookup st.singletons d.ident with
      | some v => (st, .ok v)
      | none => (st, .error [.resolution, .singletonNotInit])
    | .scoped =>
      match lookup ((st.scope s).instances.getD []) d.ident with
      | some v => (st, .ok v)
      | none => createInstance beh f st s d
    | .transient => createInstance beh f st s d

/-- `scope.GetGroup` (scope.go:158-196) -/
def getGroup (beh : Beh) : Nat → State → Nat → Nat → Nat → State × Except Err Val
  | 0, st, _, _, _ => (st, .error [.fuel])
  | f+1, st, s, ty, grp =>
    if (st.scope s).disposed then (st, .error [.scopeDisposed]) else
    resolveMembers beh f st s (groupMembers st.descs ty grp) []

def resolveMembers (beh : Beh) : Nat → State → Nat → List Desc → List Inst → State × Except Err Val
  | 0, st, _, _, _ => (st, .error [.fuel])
  | _+1, st, _, [], acc => (st, .ok (.group acc))
  | f+1, st, s, d :: ds, acc =>
    match resolveDesc beh f st s d with
    | (st1, .ok (.inst i)) => resolveMembers beh f st1 s ds (acc ++ [i])
    | (st1, .ok _) => resolveMembers beh f st1 s ds acc
    | (st1, .error e) => (st1, .error (.resolution :: e))

/-- `buildArguments` / `BuildParamObject` (builders.go): one dependency after the other -/
def buildArgs (beh : Beh) : Nat → State → Nat → List Dep → List Val → State × Except Err (List Val)
  | 0, st, _, _, _ => (st, .error [.fuel])
  | _+1, st, _, [], acc => (st, .ok acc)
  | f+1, st, s, dep :: deps, acc =>
    let r := if dep.grp != 0 then getGroup beh f st s dep.ty dep.grp else resolve beh f st s dep.ty dep.key
    match r with
    | (st1, .ok v) => buildArgs beh f st1 s deps (acc ++ [v])
    | (st1, .error e) =>
      if dep.optional && !isConstruction e then buildArgs beh f st1 s deps (acc ++ [.zero])
      else (st1, .error e)

/-- `scope.createInstance` (scope.go:507-743) -/
def createInstance (beh : Beh) : Nat → State → Nat → Desc → State × Except Err Val
  | 0, st, _, _ => (st, .error [.fuel])
  | f+1, st, s, d =>
    match d.kind with
    | .inst v =>
      match setInstance st s d d.ident (.inst v) with
      | (st1, .ok _) => (st1, .ok (.inst v))
      | (st1, .error e) => (st1, .error e)
    | _ =>
      match buildArgs beh f st s d.deps [] with
      | (st1, .error e) => (st1, .error (.invocation :: e))
      | (st1, .ok args) =>
        let n := st1.invs d.ctor + 1
        let st2 := { st1 with invs := fun c => if c = d.ctor then n else st1.invs c }
        match beh.ctor d.ctor n with
        | .err => ({ st2 with log := st2.log ++ [.ctorFail d.id d.ctor n s .err] }, .error [.invocation, .injected d.ctor])
        | .panic => ({ st2 with log := st2.log ++ [.ctorFail d.id d.ctor n s .panic] }, .error [.panicL])
        | .nilOut => ({ st2 with log := st2.log ++ [.ctorFail d.id d.ctor n s .nilOut] }, .error [.validation])
        | .ok =>
          let sibs := (d.sibs.filterMap (findDesc st2.descs))
          match d.kind with
          | .void =>
            let st3 := { st2 with log := st2.log ++ [.ctor d.id d.ctor n s args []] }
            match setInstance st3 s d d.ident .unit with
            | (st4, .ok _) => (st4, .ok .unit)
            | (st4, .error e) => (st4, .error e)
          | .multi =>
            let sibs' := if sibs.isEmpty then [d] else sibs
            let outs := allocOuts st2.next sibs'.length
            let st3 := { st2 with next := st2.next + sibs'.length,
                                  instMeta := fun i => if i ∈ outs then (d.ctor, n) else st2.instMeta i,
                                  log := st2.log ++ [.ctor d.id d.ctor n s args outs] }
            match storeOuts st3 s sibs' outs with
            | (st4, .error e) => (st4, .error e)
            | (st4, .ok _) => (st4, .ok (.inst (outs.getD (idxOfDesc sibs' d.id) 0)))
          | _ =>
            let i := st2.next
            let st3 := { st2 with next := i + 1,
                                  instMeta := fun j => if j = i then (d.ctor, n) else st2.instMeta j,
                                  log := st2.log ++ [.ctor d.id d.ctor n s args [i]] }
            match setInstance st3 s d d.ident (.inst i) with
            | (st4, .error e) => (st4, .error e)
            | (st4, .ok _) => (shareAll st4 s d.id sibs (.inst i), .ok (.inst i))
end

/-- enough fuel for every acyclic configuration: each level of the dependency nesting spends a
bounded number of units -/
def fuelFor (st : State) : Nat := 4 * (st.descs.length + 2) * (st.descs.length + 2) + 16

/-! ### scopes -/

/-- `runInitializers` (scope.go:89-105) -/
def runInitializers (beh : Beh) (st : State) (s : Nat) : List Nat → State × Except Err Unit
  | [] => (st, .ok ())
  | id :: rest =>
    match findDesc st.descs id with
    | none => runInitializers beh st s rest
    | some d =>
      match createInstance beh (fuelFor st) st s d with
      | (st1, .ok _) => runInitializers beh st1 s rest
      | (st1, .error e) => (st1, .error (.resolution :: e))

def closeLoop (beh : Beh) (owner : Nat) (st : State) : List Inst → State × Bool
  | [] => (st, false)
  | i :: rest =>
    let (c, n) := st.instMeta i
    let bad := beh.close c n
    let (st1, b1) := closeLoop beh owner { st with log := st.log ++ [.closed owner i (!bad)] } rest
    (st1, bad || b1)

mutual
/-- `scope.Close` (scope.go:249-321); `order` chooses the iteration order of each children map -/
def closeScope (beh : Beh) (order : List Nat → List Nat) : Nat → State → Nat → State × Bool
  | 0, st, _ => (st, false)
  | f+1, st, s =>
    if (st.scope s).disposed then (st, false) else
    let st1 := updScope st s (fun sc => { sc with disposed := true })
    let kids := order ((st1.scope s).children.getD [])
    let st2 := updScope st1 s (fun sc => { sc with children := none })
    let (st3, e1) := closeChildren beh order f st2 kids
    let ds := (st3.scope s).disposables.getD []
    let st4 := updScope st3 s (fun sc => { sc with disposables := none })
    let (st5, e2) := closeLoop beh s st4 ds.reverse
    let st6 := match (st5.scope s).parent with
      | some p => updScope st5 p (fun sc => { sc with children := sc.children.map (fun (l : List Nat) => List.erase l s) })
      | none => st5
    let st7 := { st6 with provScopes := st6.provScopes.map (fun (l : List Nat) => List.erase l s) }
    let st8 := updScope st7 s (fun sc => { sc with instances := none })
    (st8, e1 || e2)

def closeChildren (beh : Beh) (order : List Nat → List Nat) : Nat → State → List Nat → State × Bool
  | 0, st, _ => (st, false)
  | _+1, st, [] => (st, false)
  | f+1, st, c :: rest =>
    let (st1, e1) := closeScope beh order f st c
    let (st2, e2) := closeChildren beh order f st1 rest
    (st2, e1 || e2)
end

def closeFuel (st : State) : Nat := 2 * st.nscopes + 4

/-- `newScope` (scope.go:55-85) followed by the tracking of `CreateScope` -/
def newScope (beh : Beh) (st : State) (parent : Option Nat) (ctx : Nat) (runInit : Bool) :
    State × Except Err Nat :=
  let s := st.nscopes
  let st1 := { st with nscopes := s + 1,
                       scope := fun x => if x = s then { parent := parent, ctxOf := ctx } else st.scope x }
  if runInit then
    match runInitializers beh st1 s st1.initializers with
    | (st2, .ok _) => (st2, .ok s)
    | (st2, .error e) => ((closeScope beh id (closeFuel st2) st2 s).1, .error e)
  else (st1, .ok s)

/-- `provider.CreateScope` (provider.go) -/
def providerCreateScope (beh : Beh) (st : State) (ctx : Nat) : State × Except Err Nat :=
  if st.disposed then (st, .error [.providerDisposed]) else
  match newScope beh st none ctx true with
  | (st1, .error e) => (st1, .error e)
  | (st1, .ok s) =>
    match st1.provScopes with
    | none => ((closeScope beh id (closeFuel st1) st1 s).1, .error [.providerDisposed])
    | some l => ({ st1 with provScopes := some (l ++ [s]) }, .ok s)

/-- `scope.CreateScope` (scope.go:199-246) -/
def scopeCreateScope (beh : Beh) (st : State) (p : Nat) (ctx : Nat) : State × Except Err Nat :=
  if (st.scope p).disposed then (st, .error [.scopeDisposed]) else
  match newScope beh st (some p) ctx true with
  | (st1, .error e) => (st1, .error e)
  | (st1, .ok s) =>
    match (st1.scope p).children with
    | none => ((closeScope beh id (closeFuel st1) st1 s).1, .error [.scopeDisposed])
    | some l =>
      let st2 := updScope st1 p (fun sc => { sc with children := some (l ++ [s]) })
      match st2.provScopes with
      | none => ((closeScope beh id (closeFuel st2) st2 s).1, .error [.providerDisposed])
      | some ps => ({ st2 with provScopes := some (ps ++ [s]) }, .ok s)

/-- `provider.Close` (provider.go) -/
def closeProvider (beh : Beh) (order : List Nat → List Nat) (st : State) : State × Bool :=
  if st.disposed then (st, false) else
  let st1 := { st with disposed := true }
  let scopes := order (st1.provScopes.getD [])
  let st2 := { st1 with provScopes := none }
  let (st3, e1) := closeChildren beh order (closeFuel st2 + scopes.length + 2) st2 scopes
  let (st4, e2) := closeScope beh order (closeFuel st3) st3 rootScope
  let ds := st4.provDisposables.getD []
  let st5 := { st4 with provDisposables := none }
  let (st6, e3) := closeLoop beh providerOwner st5 ds.reverse
  ({ st6 with singletons := [], initializers := [] }, e1 || e2 || e3)

/-! ### entry points (the disposed checks of `provider.Get*`) -/

def scopeGet (beh : Beh) (st : State) (s ty key : Nat) : State × Except Err Val :=
  resolve beh (fuelFor st) st s ty key

def scopeGetGroup (beh : Beh) (st : State) (s ty grp : Nat) : State × Except Err Val :=
  getGroup beh (fuelFor st) st s ty grp

def providerGet (beh : Beh) (st : State) (ty key : Nat) : State × Except Err Val :=
  if st.disposed then (st, .error [.providerDisposed]) else scopeGet beh st rootScope ty key

def providerGetGroup (beh : Beh) (st : State) (ty grp : Nat) : State × Except Err Val :=
  if st.disposed then (st, .error [.providerDisposed]) else scopeGetGroup beh st rootScope ty grp

/-! ### Build, phase 5–6 (collection.go: root scope, singletons in the given order, initializers) -/

def createSingletons (beh : Beh) (st : State) : List Nat → State × Except Err Unit
  | [] => (st, .ok ())
  | id :: rest =>
    match findDesc st.descs id with
    | none => createSingletons beh st rest
    | some d =>
      if d.life != .singleton then createSingletons beh st rest
      else if (lookup st.singletons d.ident).isSome then createSingletons beh st rest
      else
        match createInstance beh (fuelFor st) st rootScope d with
        | (st1, .ok _) => createSingletons beh st1 rest
        | (st1, .error e) => (st1, .error (.resolution :: e))

def isInitializer (d : Desc) : Bool := d.life == .scoped && d.kind == .void

/-- phases 5 and 6 of `doBuild`; `order` = the topological order (desc ids) the graph produced -/
def buildRuntime (beh : Beh) (descs : List Desc) (order : List Nat) : State × Except Err Unit :=
  let st0 : State := { descs := descs }
  match newScope beh st0 none 0 false with
  | (st1, .error e) => (st1, .error (.build :: e))
  | (st1, .ok _) =>
    match createSingletons beh st1 order with
    | (st2, .error e) =>
      let (st3, ce) := closeProvider beh id st2
      (st3, .error (.build :: (if ce then e ++ [.disposal] else e)))
    | (st2, .ok _) =>
      let st3 := { st2 with initializers := (descs.filter isInitializer).map (·.id) }
      match runInitializers beh st3 rootScope st3.initializers with
      | (st4, .ok _) => (st4, .ok ())
      | (st4, .error e) =>
        let (st5, ce) := closeProvider beh id st4
        (st5, .error (.build :: (if ce then e ++ [.disposal] else e)))

end Godi.Container
