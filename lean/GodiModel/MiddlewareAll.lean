import GodiModel.Middleware
import GodiModel.Gen.Middleware
/-! The five integrations: trusted facts (hand-written, `Middleware.lean`) + extracted programs
(`Gen/Middleware.lean`, regenerated from the Go sources on every check). -/
namespace Godi.Mw

def http  : Integration := ⟨httpFacts,  Gen.httpScopeMw,  Gen.httpHandle,  Gen.httpOpts⟩
def chi   : Integration := ⟨chiFacts,   Gen.chiScopeMw,   Gen.chiHandle,   Gen.chiOpts⟩
def gin   : Integration := ⟨ginFacts,   Gen.ginScopeMw,   Gen.ginHandle,   Gen.ginOpts⟩
def echo  : Integration := ⟨echoFacts,  Gen.echoScopeMw,  Gen.echoHandle,  Gen.echoOpts⟩
def fiber : Integration := ⟨fiberFacts, Gen.fiberScopeMw, Gen.fiberHandle, Gen.fiberOpts⟩

def integrations : List Integration := [http, chi, gin, echo, fiber]

def byName (n : String) : Option Integration := integrations.find? (·.facts.name == n)

/-- the trace of one request against integration `I` -/
def Integration.run (I : Integration) (rq : Req) (base : Sid) (closed : List Sid := []) : St :=
  runRequest I.facts I.mw I.handle rq base closed

def Integration.trace (I : Integration) (rq : Req) (base : Sid) : List Ev := (I.run rq base).trace

/-- what persists between requests: the provider's scope counter and the scopes closed so far -/
structure Sys where
  nextSid : Sid := 0
  closed : List Sid := []
  deriving Repr

def Integration.step (I : Integration) (sys : Sys) (rq : Req) : Sys × List Ev :=
  let st := I.run rq sys.nextSid sys.closed
  (⟨st.nextSid, st.closed⟩, st.trace)

/-- a sequence of requests against the same provider, one after the other -/
def Integration.runSeq (I : Integration) : Sys → List Req → List (List Ev)
  | _, [] => []
  | sys, rq :: rqs => (I.step sys rq).2 :: I.runSeq (I.step sys rq).1 rqs

end Godi.Mw
