import GodiModel.Collection
/-!
# Spec: a registry is an ordered list of registrations

`Registry := List Desc`, in call order. A registration is either a *service* (found under its
`(type, key)` identity, at most one per identity) or a *group member* (its key is the running
number). Everything the collection answers, and everything a built provider looks up, is defined
here directly on the list; `GodiProofs/Props/C17.lean` shows that the three views of the Go
collection always agree with these definitions.
-/
namespace Godi.Spec
open Godi.Coll

abbrev Registry := List Desc

def isMember (d : Desc) : Bool := d.key.isIdx
def isSvc (d : Desc) : Bool := !d.key.isIdx

/-- the registration a `(type, key)` identity resolves to -/
def lookup (reg : Registry) (k : Ident) : Option Desc :=
  reg.find? fun d => isSvc d && decide (d.ident = k)

/-- the members of a group, in call order -/
def members (reg : Registry) (g : GKey) : List Desc :=
  reg.filter fun d => isMember d && decide (d.gkey = g)

/-- at most one service per identity -/
def Unique (reg : Registry) : Prop := ((reg.filter isSvc).map Desc.ident).Nodup

/-- removing an identity -/
def removeIdent (reg : Registry) (k : Ident) : Registry :=
  reg.filter fun d => !(isSvc d && decide (d.ident = k))

/-- the identities under which services are registered / the groups that have members -/
def serviceIdents (reg : Registry) : List Ident := (reg.filter isSvc).map Desc.ident

end Godi.Spec
