import GodiModel.Kahn
/-!
# Abstract specification: a plain digraph

`Digraph` is what property C19 calls "a plain reference digraph": a set of node identities and,
per node, the list of its dependencies. Everything else is the textbook definition.
-/
namespace Godi.Spec
open Godi.Kahn (Key)

structure Digraph where
  nodes : List Key
  edge : Key → List Key

/-- one or more edges from `a` to `b` -/
inductive Reach (edge : Key → List Key) : Key → Key → Prop
  | single {a b} : b ∈ edge a → Reach edge a b
  | cons {a b c} : b ∈ edge a → Reach edge b c → Reach edge a c

def HasCycle (d : Digraph) : Prop := ∃ k ∈ d.nodes, Reach d.edge k k

/-- executable checkers used by the correspondence check to validate nondeterministic outputs -/
def isWalk (edge : Key → List Key) : List Key → Bool
  | [] => true
  | [_] => true
  | a :: b :: rest => decide (b ∈ edge a) && isWalk edge (b :: rest)

/-- `p` is a closed walk `s, …, s` with at least one edge -/
def isClosedWalk (edge : Key → List Key) (p : List Key) : Bool :=
  decide (2 ≤ p.length) && (p.head? == p.getLast?) && isWalk edge p

/-- every dependency of `l[i]` occurs in `l` strictly before position `i` -/
def depsFirst (edge : Key → List Key) : List Key → List Key → Bool
  | _, [] => true
  | seen, k :: rest => (edge k).all (fun d => decide (d ∈ seen)) && depsFirst edge (k :: seen) rest

def sameSet (a b : List Key) : Bool := a.all (· ∈ b) && b.all (· ∈ a)

/-- `l` is a topological order of `d`: each node exactly once, dependencies first -/
def isTopoOrder (d : Digraph) (l : List Key) : Bool :=
  decide (l.length = d.nodes.length) && sameSet l d.nodes && decide l.Nodup && depsFirst d.edge [] l

end Godi.Spec
