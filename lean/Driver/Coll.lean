import GodiModel.Collection
import GodiModel.Module
import Driver.Util
/-!
Line protocol for M3 / M3' (`c …` lines). One output line per input line.

```
c new
c add <s|c|t> ctor=<n> form=<nil|nilptr|nilfunc|inst|fn|void|out> prim=<ty> name=<n> group=<g>
      optbad=<0|1> valbad=<0|1> as=<ty:0|1,…|-> rets=<ty,…|-> fields=<ty:name:grp,…|->
c rm <ty>            c rmk <ty> <key>           key ::= - | n<k> | i<k> | v<k>
c def <k> add …|rm …|rmk …                     (defines leaf builder k of the scenario; no effect)
c mods <tree…>       tree ::= ( <name> tree… ) | _ | @<k>      (AddModules(tree…))
c contains <ty> | c containsk <ty> <key> | c hasgroup <ty> <g> | c count | c slice
c build <p>          c pget <p> <ty> <key>      c pgroup <p> <ty> <g>
```
-/
namespace Driver.CollD
open Godi.Coll Driver

structure St where
  h : Heap := {}
  c : CollRef := { sref := 0, gref := 1 }
  provs : List (Nat × Prov) := []
  defs : List (Nat × Op) := []

def St.fresh : St :=
  let (h, c) := ({} : Heap).newCollection
  { h := h, c := c }

def parseKey (s : String) : Option Key :=
  if s = "-" then some .nil else
  match s.toList with
  | 'n' :: r => (String.ofList r).toNat?.map Key.name
  | 'i' :: r => (String.ofList r).toNat?.map Key.idx
  | 'v' :: r => (String.ofList r).toNat?.map Key.void
  | _ => none

def showKey : Key → String
  | .nil => "-"
  | .name n => s!"n{n}"
  | .idx i => s!"i{i}"
  | .void n => s!"v{n}"

def showLife : Life → String
  | .singleton => "s" | .scoped => "c" | .transient => "t"

def parseLife (s : String) : Option Life :=
  if s = "s" then some .singleton else if s = "c" then some .scoped else if s = "t" then some .transient else none

def showDesc (d : Desc) : String :=
  let fl := (if d.void then "v" else "") ++ (if d.inst then "i" else "")
  s!"{d.ty}/{showKey d.key}/{d.grp}/{showLife d.life}/{d.ctor}/{if fl = "" then "-" else fl}"

def showTy : Option Nat → String
  | none => "-"
  | some t => toString t

def us (s : String) : String := s.map fun ch => if ch = ' ' then '_' else ch

def showLeaf : Leaf → String
  | .constructorNil => "nilctor"
  | .text => "text"
  | .alreadyRegistered t => s!"already({t})"
  | .typeMismatch e a => s!"mismatch({e},{a})"

def showKind : Kind → String
  | .validation t => s!"val({showTy t})"
  | .registration t op => s!"reg({showTy t},{us op})"
  | .reflection op => s!"refl({us op})"

def showErr : Err → String
  | .sentinel l => showLeaf l
  | .typed k c => showKind k ++ ">" ++ showErr c
  | .module n c => s!"mod({if n = "" then "\"\"" else n})>" ++ showErr c

def showRes : Option Err → String
  | none => "ok"
  | some e => "err " ++ showErr e

/-- value of `k=` among the tokens -/
def kv (ws : List String) (k : String) : Option String :=
  (ws.find? (·.startsWith (k ++ "="))).map fun w => String.ofList (w.toList.drop (k.length + 1))

def listOf (s : String) : List String := if s = "-" || s = "" then [] else s.splitOn ","

def natOf (ws : List String) (k : String) : Option Nat := (kv ws k).bind (·.toNat?)

def parseAs (s : String) : Option (List (Nat × Bool)) :=
  (listOf s).mapM fun e =>
    match e.splitOn ":" with
    | [t, b] => t.toNat?.map fun t => (t, b = "1")
    | _ => none

def parseFields (s : String) : Option (List Field) :=
  (listOf s).mapM fun e =>
    match (e.splitOn ":").mapM (·.toNat?) with
    | some [t, n, g] => some { ty := t, name := n, grp := g }
    | _ => none

def parseReq (ws : List String) : Option Req :=
  match ws with
  | life :: rest => do
    let life ← parseLife life
    let form ← kv rest "form"
    let ctor ← natOf rest "ctor"
    let prim ← natOf rest "prim"
    let name ← natOf rest "name"
    let group ← natOf rest "group"
    let optbad ← natOf rest "optbad"
    let valbad ← natOf rest "valbad"
    let as ← (kv rest "as").bind parseAs
    let rets ← (kv rest "rets").bind fun s => (listOf s).mapM (·.toNat?)
    let fields ← (kv rest "fields").bind parseFields
    if !(["nil", "nilptr", "nilfunc", "inst", "fn", "void", "out"].contains form) then none else
    some { life := life, ctor := ctor, svcNil := form = "nil", nilPtr := form = "nilptr", nilFunc := form = "nilfunc",
           name := name, group := group, optBad := optbad = 1, as := as, primary := prim, inst := form = "inst",
           void := form = "void", valBad := valbad = 1, resultObj := form = "out", fields := fields, rets := rets }
  | [] => none

def parseOp (ws : List String) : Option Op :=
  match ws with
  | "add" :: rest => (parseReq rest).map Op.add
  | ["rm", t] => t.toNat?.map Op.rm
  | ["rmk", t, k] => do some (Op.rmk (← t.toNat?) (← parseKey k))
  | _ => none

mutual
/-- one tree; returns the rest of the tokens -/
def parseTree (defs : List (Nat × Op)) : Nat → List String → Option (Option Mod × List String)
  | 0, _ => none
  | _ + 1, [] => none
  | f + 1, w :: rest =>
    if w = "_" then some (none, rest)
    else if w = "(" then
      match rest with
      | name :: rest' =>
        match parseTrees defs f rest' with
        | some (its, rest'') => some (some (.node (if name = "\"\"" then "" else name) its), rest'')
        | none => none
      | [] => none
    else
      match w.toList with
      | '@' :: k =>
        match (String.ofList k).toNat? with
        | some k => (defs.lookup k).map fun o => (some (.op o), rest)
        | none => none
      | _ => none
/-- trees up to the closing parenthesis (or the end of the line at top level) -/
def parseTrees (defs : List (Nat × Op)) : Nat → List String → Option (Items × List String)
  | 0, _ => none
  | _ + 1, [] => some (.nil, [])
  | f + 1, w :: rest =>
    if w = ")" then some (.nil, rest)
    else
      match parseTree defs f (w :: rest) with
      | some (m, rest') =>
        match parseTrees defs f rest' with
        | some (its, rest'') => some ((match m with | none => .skip its | some m => .cons m its), rest'')
        | none => none
      | none => none
end

def dedupSorted : List Nat → List Nat
  | a :: b :: t => if a = b then dedupSorted (b :: t) else a :: dedupSorted (b :: t)
  | l => l

def runOn (s : St) (f : Coll → Coll × Option Err) : St × String :=
  let (h, c, e) := s.h.modify s.c f
  ({ s with h := h, c := c }, showRes e)

def step (s : St) (ws : List String) : St × String :=
  let cur := s.h.load s.c
  match ws with
  | ["new"] => (St.fresh, "ok")
  | "add" :: rest =>
    match parseReq rest with
    | some r => runOn s (fun c => addService c r)
    | none => (s, "bad-op")
  | ["rm", t] =>
    match t.toNat? with
    | some t => runOn s (fun c => (remove c t, none))
    | none => (s, "bad-op")
  | ["rmk", t, k] =>
    match t.toNat?, parseKey k with
    | some t, some k => runOn s (fun c => (removeKeyed c t k, none))
    | _, _ => (s, "bad-op")
  | "def" :: k :: rest =>
    match k.toNat?, parseOp rest with
    | some k, some o => ({ s with defs := (k, o) :: s.defs }, "ok")
    | _, _ => (s, "bad-op")
  | "mods" :: rest =>
    match parseTrees s.defs (rest.length + 1) rest with
    | some (its, []) => runOn s (fun c => addModules c its)
    | _ => (s, "bad-op")
  | ["contains", t] =>
    match t.toNat? with
    | some t => (s, showBool (contains cur t))
    | none => (s, "bad-op")
  | ["containsk", t, k] =>
    match t.toNat?, parseKey k with
    | some t, some k => (s, showBool (containsKeyed cur t k))
    | _, _ => (s, "bad-op")
  | ["hasgroup", t, g] =>
    match t.toNat?, g.toNat? with
    | some t, some g => (s, showBool (hasGroup cur t g))
    | _, _ => (s, "bad-op")
  | ["count"] => (s, toString (count cur))
  | ["slice"] => (s, "[" ++ " ".intercalate ((toSlice cur).map showDesc) ++ "]")
  | ["build", p] =>
    match p.toNat? with
    | some p =>
      let (h, pr) := s.h.build s.c
      ({ s with h := h, provs := (p, pr) :: s.provs },
       "ok runs=[" ++ showNats (dedupSorted (sortNats (buildRuns pr.built))) ++ "]")
    | none => (s, "bad-op")
  | ["pget", p, t, k] =>
    match p.toNat?, t.toNat?, parseKey k with
    | some p, some t, some k =>
      match s.provs.lookup p with
      | some pr =>
        match s.h.provFind pr (t, k) with
        | some d => (s, s!"ok {d.ctor}")
        | none => (s, "notfound")
      | none => (s, "bad-op")
    | _, _, _ => (s, "bad-op")
  | ["pgroup", p, t, g] =>
    match p.toNat?, t.toNat?, g.toNat? with
    | some p, some t, some g =>
      match s.provs.lookup p with
      | some pr => (s, "ok [" ++ showNats ((s.h.provGroup pr (t, g)).map (·.ctor)) ++ "]")
      | none => (s, "bad-op")
    | _, _, _ => (s, "bad-op")
  | _ => (s, "bad-op")

end Driver.CollD
