/-! Shared helpers of the line-protocol driver (core only). -/
namespace Driver

def words (line : String) : List String :=
  (line.trimAscii.toString.splitOn " ").filter (· ≠ "")

def nats? (ws : List String) : Option (List Nat) := ws.mapM (·.toNat?)

def showNats (l : List Nat) : String := " ".intercalate (l.map toString)

def sortNats (l : List Nat) : List Nat := (l.toArray.qsort (· < ·)).toList

def showBool (b : Bool) : String := if b then "true" else "false"

end Driver
