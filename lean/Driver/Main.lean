import Driver.Graph
import Driver.Conc
/-! `godi_model`: reads the line protocol on stdin, prints one observation per line. -/
open Driver

structure St where
  g : Godi.Graph.Graph := {}
  k : Driver.ConcD.St := {}

def stepLine (s : St) (line : String) : St × String :=
  match words line with
  | "g" :: rest => let (g, o) := GraphD.step s.g rest; ({ s with g := g }, o)
  | "k" :: rest => let (k, o) := ConcD.step s.k rest; ({ s with k := k }, o)
  | "#" :: _ => (s, "#")
  | [] => (s, "")
  | _ => (s, "bad-op")

partial def loop (h : IO.FS.Stream) (out : IO.FS.Stream) (s : St) : IO Unit := do
  let line ← h.getLine
  if line.isEmpty then return ()
  let (s', o) := stepLine s line
  out.putStrLn o
  loop h out s'

def main : IO Unit := do
  let out ← IO.getStdout
  loop (← IO.getStdin) out {}
  out.flush
