import Driver.Graph
import Driver.Container
import Driver.Coll
import Driver.Mw
import Driver.Conc
/-! `godi_model`: reads the line protocol on stdin, prints one observation per line. -/
open Driver

structure St where
  g : Godi.Graph.Graph := {}
  p : ContD.DSt := {}
  coll : CollD.St := {}
  mw : MwD.MwSt := {}
  k : Driver.ConcD.St := {}

def stepLine (s : St) (line : String) : St × String :=
  match words line with
  | "g" :: rest => let (g, o) := GraphD.step s.g rest; ({ s with g := g }, o)
  | "p" :: rest => let (p, o) := ContD.step s.p rest; ({ s with p := p }, o)
  | "c" :: rest => let (c, o) := CollD.step s.coll rest; ({ s with coll := c }, o)
  | "mw" :: rest => let (m, o) := MwD.step s.mw rest; ({ s with mw := m }, o)
  | "k" :: rest => let (k, o) := ConcD.step s.k rest; ({ s with k := k }, o)
  | "#" :: _ => (s, "#")
  | [] => (s, "")
  | _ => (s, "bad-op")

partial def loop (h : IO.FS.Stream) (out : IO.FS.Stream) (s : St) : IO Unit := do
  let line ← h.getLine
  if line.isEmpty then return ()
  let (s', o) := stepLine s line
  out.putStrLn o
  loop h out s'

def main : IO Unit := do
  let out ← IO.getStdout
  loop (← IO.getStdin) out {}
  out.flush
