import GodiModel.Graph
import GodiModel.Spec.Digraph
import Driver.Util
/-! Line protocol for M1 (`g …` lines). One output line per input line. -/
namespace Driver.GraphD
open Godi.Graph Godi.Spec Driver

def showCycle : CycleRes → String
  | .ok => "ok"
  | .fuel => "fuel"
  | .cycle n (some p) => s!"cycle {n} {showNats p}"
  | .cycle n none => s!"cycle {n} nopath"

def step (g : Graph) (ws : List String) : Graph × String :=
  match ws with
  | ["new"] => ({}, "ok")
  | ["clear"] => (clear g, "ok")
  | "add" :: rest =>
    match nats? rest with
    | some (k :: p :: ds) => let (g', r) := addProvider g k p ds; (g', showCycle r)
    | _ => (g, "bad-op")
  | "addd" :: rest =>
    match nats? rest with
    | some (k :: p :: ds) => (addProviderDeferred g k p ds, "ok")
    | _ => (g, "bad-op")
  | ["rm", k] =>
    match k.toNat? with
    | some k => (removeProvider g k, "ok")
    | none => (g, "bad-op")
  | "detect" :: obs =>
    let (g', r) := detectCycles g
    match r, obs with
    | .ok, ["ok"] => (g', "ok")
    | .ok, _ => (g', "ok model-says-acyclic")
    | .fuel, _ => (g', "fuel")
    | .cycle _ _, "cycle" :: rest =>
      match nats? rest with
      | some (n :: p) =>
        if isClosedWalk g'.edges p && p.head? == some n then (g', "cycle") else (g', "cycle badpath")
      | _ => (g', "cycle badpath")
    | .cycle _ _, _ => (g', "cycle model-says-cyclic")
  | "topo" :: obs =>
    let (g', r) := topologicalSort g
    match r, obs with
    | none, ["err"] => (g', "err")
    | none, _ => (g', "err model-says-unsortable")
    | some _, "ok" :: rest =>
      match nats? rest with
      | some l => if isTopoOrder ⟨g'.nodes, g'.ndeps⟩ l then (g', "ok") else (g', "ok badorder")
      | none => (g', "bad-op")
    | some _, _ => (g', "ok model-says-sortable")
  | ["size"] => (g, toString (size g))
  | ["has", k] =>
    match k.toNat? with
    | some k => (g, showBool (hasNode g k))
    | none => (g, "bad-op")
  | ["deps", k] =>
    match k.toNat? with
    | some k => (g, match getDependencies g k with | some l => "[" ++ showNats l ++ "]" | none => "nil")
    | none => (g, "bad-op")
  | ["dependents", k] =>
    match k.toNat? with
    | some k => (g, match getDependents g k with | some l => "[" ++ showNats (sortNats l) ++ "]" | none => "nil")
    | none => (g, "bad-op")
  | ["trans", k] =>
    match k.toNat? with
    | some k => (g, "[" ++ showNats (getTransitiveDependencies g k) ++ "]")
    | none => (g, "bad-op")
  | ["roots"] => (g, "[" ++ showNats (sortNats (getRoots g)) ++ "]")
  | ["leaves"] => (g, "[" ++ showNats (sortNats (getLeaves g)) ++ "]")
  | ["node", k] =>
    match k.toNat? with
    | some k =>
      if hasNode g k then
        let p := match g.prov k with | some p => toString p | none => "nil"
        (g, s!"p={p} in={g.inDeg k} out={g.outDeg k}")
      else (g, "nil")
    | none => (g, "bad-op")
  | ["depths"] =>
    let g' := calculateDepths g
    (g', " ".intercalate ((sortNats g'.nodes).map (fun k => s!"{k}:{g'.depth k}")))
  | _ => (g, "bad-op")

end Driver.GraphD
