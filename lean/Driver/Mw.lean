import GodiModel.MiddlewareAll
import Driver.Util
/-!
Line protocol for M7 (`mw …` lines). One output line per input line.

    mw new <fw> inst=<0|1> n=<k> eh=<c|d> ceh=<c|d> rec=<0|1> ph=<c|d> seh=<c|d> reh=<c|d>
    mw req  down=<plain|handle> fail=<i|-> create=<ok|fail> out=<ok|err|panic> rf=<0|1> cerr=<0|1> pre=<0|1>
    mw creq b=<batch> …same fields…        (member of a concurrent batch; same observation)
    mw closeprov

`c|d` = custom (observable: prints a token) or default handler (only its status code is observable).
Observation of a request: the event trace with the request's own scope written `s0`, any other
scope `x`, followed by `status=` and `fresh=` (the scope was never handed to an earlier request).
-/
namespace Driver.MwD
open Godi.Mw Driver

structure Cfg where
  fw : Integration := http
  inst : Bool := true
  n : Nat := 0
  eh : Bool := false      -- custom handlers
  ceh : Bool := false
  recov : Bool := false
  ph : Bool := false
  seh : Bool := false
  reh : Bool := false

structure MwSt where
  cfg : Cfg := {}
  sys : Sys := {}
  provClosed : Bool := false
  seen : List Sid := []     -- scopes handed out so far in this scenario

def kv (ws : List String) (k : String) : Option String :=
  ws.findSome? fun w => if w.startsWith (k ++ "=") then some ((w.drop (k.length + 1)).toString) else none

def flag (ws : List String) (k : String) (yes : String) : Bool := kv ws k == some yes

def showSid (base : Sid) : Option Sid → String
  | none => "-"
  | some s => if s == base then "s0" else "x"

def showLive (b : Bool) : String := if b then "live" else "dead"

def showEv (c : Cfg) (base : Sid) : Ev → Option String
  | .scopeCreated s => some s!"create:{showSid base (some s)}"
  | .createFailed => some "createfail"
  | .mwRan i a x l => some s!"mw{i}:{showSid base a}/{showSid base x}/{showSid base l}"
  | .errorHandlerRan => if c.eh then some "eh" else none
  | .closeErrHandlerRan => if c.ceh then some "ceh" else none
  | .handlerRan x l live => some s!"h:{showSid base x}/{showSid base l}:{showLive live}"
  | .handleScope _ => none
  | .scopeErrHandler => if c.seh then some "seh" else none
  | .handleResolved s => some s!"res:{showSid base (some s)}"
  | .resolutionErrHandler => if c.reh then some "reh" else none
  | .methodCalled x live => some s!"call:{showSid base x}:{showLive live}"
  | .panicHandler => if c.ph then some "ph" else none
  | .scopeClosed s => some s!"close:{showSid base (some s)}"
  | .panicPropagated => some "panic"
  | .nilDeref => some "nilderef"
  | .stuck _ => some "stuck"

/-- status codes the harness' handlers write: custom error handler 599, scope-error 598,
resolution-error 597, panic handler 596, every default handler 500; handler ok 200, handler error 418 -/
def writer (c : Cfg) (rq : Req) : Ev → Option String
  | .errorHandlerRan => some (if c.eh then "599" else "500")
  | .scopeErrHandler => some (if c.seh then "598" else "500")
  | .resolutionErrHandler => some (if c.reh then "597" else "500")
  | .panicHandler => some (if c.ph then "596" else "500")
  | .handlerRan .. | .methodCalled .. =>
    match rq.outcome with
    | .ok => some "200"
    | .err => some "418"
    | .panic => none
  | _ => none

def status (c : Cfg) (rq : Req) (t : List Ev) : String :=
  if t.contains .panicPropagated then
    (if c.fw.facts.name == "fiber" then "595" else "-")   -- fiber: the harness' outer recover answers 595
  else
    match t.filterMap (writer c rq) with
    | [] => "none"
    | w :: _ => w

def parseReq (c : Cfg) (provClosed : Bool) (ws : List String) : Option Req := do
  let down ← kv ws "down"
  let fail ← kv ws "fail"
  let create ← kv ws "create"
  let out ← kv ws "out"
  let mwFail ← (if fail == "-" then some none else fail.toNat?.map some)
  let outcome ← (match out with | "ok" => some Outcome.ok | "err" => some .err | "panic" => some .panic | _ => none)
  let cr ← (match create with | "ok" => some Create.ok | "fail" => some .fail | _ => none)
  let d ← (match down with
    | "plain" => some Down.plain
    | "handle" => some (Down.handle c.recov (flag ws "rf" "1"))
    | _ => none)
  pure { installed := c.inst, nMw := c.n, mwFail := mwFail, create := if provClosed then .provClosed else cr,
         down := d, outcome := outcome, closeErr := flag ws "cerr" "1" }

/-- `pre=1`: before the request the harness creates a scope of its own from the same provider and
puts its context under the request; it closes that scope after the request -/
def wantsOuter (c : Cfg) (provClosed : Bool) (ws : List String) : Bool :=
  flag ws "pre" "1" && c.inst && !provClosed

def step (s : MwSt) (ws : List String) : MwSt × String :=
  match ws with
  | "new" :: fw :: rest =>
    match byName fw, (kv rest "n").bind (·.toNat?) with
    | some I, some n =>
      ({ cfg := { fw := I, inst := flag rest "inst" "1", n := n, eh := flag rest "eh" "c", ceh := flag rest "ceh" "c",
                  recov := flag rest "rec" "1", ph := flag rest "ph" "c", seh := flag rest "seh" "c", reh := flag rest "reh" "c" } }, "ok")
    | _, _ => (s, "bad-op")
  | ["closeprov"] => ({ s with provClosed := true }, "ok")
  | kind :: rest =>
    if kind == "req" || kind == "creq" then
      match parseReq s.cfg s.provClosed rest with
      | none => (s, "bad-op")
      | some rq =>
        let pre := wantsOuter s.cfg s.provClosed rest
        let outer := s.sys.nextSid
        let sys0 : Sys := if pre then { s.sys with nextSid := outer + 1 } else s.sys
        let rq := if pre then { rq with outer := some outer } else rq
        let base := sys0.nextSid
        let (sys', t) := s.cfg.fw.step sys0 rq
        let sys' : Sys := if pre then { sys' with closed := outer :: sys'.closed } else sys'
        let evs := t.filterMap (showEv s.cfg base)
        let made := t.filterMap fun | .scopeCreated x => some x | _ => none
        let fresh := made.all fun x => !s.seen.contains x
        let line := " ".intercalate (evs ++ [s!"status={status s.cfg rq t}", s!"fresh={if fresh then 1 else 0}"])
        ({ s with sys := sys', seen := made ++ s.seen }, line)
    else (s, "bad-op")
  | [] => (s, "bad-op")

end Driver.MwD
