import GodiModel.Conc
import Driver.Util
import Std.Data.HashSet
/-! Line protocol for M6 (`k …` lines): replay of the harness' forced schedules.

A schedule step `k go <id> :: <snapshot>` releases harness thread `<id>` from the point of user code
it is parked at (or starts it); every thread that is not parked in user code then runs until nothing
can move. Several outcomes may be possible (the free-running threads race); the driver keeps the
SET of model states that are consistent with what the implementation showed so far, and answers
`ok` as long as the observed snapshot is one the model allows. -/
namespace Driver.ConcD
open Godi.Conc Driver

structure St where
  n : Nat := 0                    -- number of harness threads; thread `n` is the watcher of S
  kinds : List (Nat × Thr) := []  -- declared threads, by id
  started : List Bool := []
  cands : List Sys := []
  ready : Bool := false

/-- parked in user code: the harness scheduler decides when it goes on -/
def isUser : Pc → Bool
  | .rCtor _ _ | .tCtor | .sInit | .rSelf _ _ _ | .tSelf _ => true
  | .cDrain (_ :: _) _ => true
  | _ => false

def showRes : Res → String
  | .ok _ i => s!"ok{i}"
  | .okT i => s!"okT{i}"
  | .okS => "okS"
  | .okChild _ => "child"
  | .okUnit => "nil"
  | .disposed => "disposed"
  | .provDisposed => "provDisposed"
  | .ctorErr => "ctorErr"
  | .initErr => "initErr"
  | .notInit => "notInit"

def status (started : Bool) (pc : Pc) : String :=
  if !started then "new" else
  match pc with
  | .rCtor .a _ => "ctorA"
  | .rCtor .b _ => "ctorB"
  | .tCtor => "ctorT"
  | .sInit => "init"
  | .rSelf _ _ i => s!"close{i}"
  | .tSelf i => s!"close{i}"
  | .cDrain (i :: _) _ => s!"close{i}"
  | .done r => s!"done:{showRes r}"
  | _ => "blocked"

/-- the cancellation watcher of `S` (thread `w` of the protocol) shows only when it is parked in a
`Close` method -/
def watcherStatus (pc : Pc) : String :=
  match pc with
  | .cDrain (i :: _) _ => s!"close{i}"
  | _ => "-"

def snapshot (st : St) (s : Sys) : String :=
  let ts := (List.range st.n).map (fun t =>
    match s.thr[t]? with
    | some th => s!"{t}={status (st.started.getD t false) th.pc}"
    | none => s!"{t}=?")
  let w := match s.thr[st.n]? with
    | some th => watcherStatus th.pc
    | none => "?"
  " ".intercalate (ts ++ [s!"w={w}"])

/-- threads that run on their own right now -/
def movers (st : St) (s : Sys) : List Nat :=
  (List.range s.thr.length).filter (fun t =>
    match s.thr[t]? with
    | some th => (t > st.n || ((t == st.n || st.started.getD t false) && !isUser th.pc)) && th.enabled s.sh
    | none => false)

/-- control steps that neither read nor write shared state: they commute with every action of every
other thread, so taking one at once (instead of branching) loses no reachable quiescent state -/
def isLocal : Pc → Bool
  | .rMu _ _ | .cKids _ _ | .pScopes _ | .cDrain [] _ | .sSpawn _ => true
  | _ => false

/-- `kidDisp` / `kidClosed` are only ever asked for membership: their order is irrelevant -/
def canon (s : Sys) : Sys :=
  { s with sh := { s.sh with kidDisp := sortNats s.sh.kidDisp, kidClosed := sortNats s.sh.kidClosed } }

/-- all states in which nothing moves any more, reachable by letting the movers run in any order;
`none` when more than `limit` states would have to be visited -/
partial def settle (st : St) (limit : Nat) (todo : List Sys) (seen : Std.HashSet Sys) (out : List Sys) :
    Option (List Sys) :=
  match todo with
  | [] => some out
  | s :: rest =>
    if seen.contains s then settle st limit rest seen out else
    if seen.size > limit then none else
    let ms := movers st s
    let seen := seen.insert s
    if ms.isEmpty then settle st limit rest seen (let c := canon s; if out.contains c then out else c :: out)
    else
      let loc := ms.filter (fun t => match s.thr[t]? with | some th => isLocal th.pc | none => false)
      let ms := match loc with | t :: _ => [t] | [] => ms
      settle st limit (ms.filterMap (step? s) ++ rest) seen out

def mkThr (kind : String) (flags : List String) : Option Thr :=
  let cfg : Cfg := { failA := flags.contains "failA", failB := flags.contains "failB",
                     failT := flags.contains "failT", failInit := flags.contains "failInit" }
  let pc? : Option Pc := match kind with
    | "resA" => some (.rChk .a false)
    | "resB" => some (.rChk .b false)
    | "trans" => some .tChk
    | "single" => some .gChk
    | "child" => some .sChk
    | "close" => some (.cCas (.ret .okUnit))
    | "pclose" => some .pCas
    | "cancel" => some .xCancel
    | _ => none
  pc?.map (fun pc => { cfg := cfg, start := pc, pc := pc })

def dedup (l : List String) : List String := l.foldl (fun acc x => if acc.contains x then acc else acc ++ [x]) []

def splitObs (ws : List String) : List String × String :=
  match ws.span (· ≠ "::") with
  | (a, _ :: b) => (a, " ".intercalate b)
  | (a, []) => (a, "")

def showNatList (l : List Nat) : String := ",".intercalate (l.map toString)

def step (st : St) (ws : List String) : St × String :=
  match ws with
  | "new" :: _ => ({}, "ok")
  | "thr" :: id :: kind :: flags =>
    match id.toNat?, mkThr kind flags with
    | some i, some th =>
      if i = st.kinds.length then ({ st with kinds := st.kinds ++ [(i, th)] }, "ok") else (st, "bad-op thread ids must be consecutive")
    | _, _ => (st, "bad-op")
  | "go" :: id :: rest =>
    match (if id == "w" then some st.kinds.length else id.toNat?) with
    | none => (st, "bad-op")
    | some t =>
      -- first `go` of a scenario fixes the thread list
      let st := if st.ready then st else
        let thr := st.kinds.map (·.2) ++ [{ start := Pc.wS, pc := Pc.wS }]
        { st with n := st.kinds.length, started := st.kinds.map (fun _ => false), cands := [init thr], ready := true }
      if t > st.n then (st, "bad-op no such thread") else
      let obs := (splitObs rest).2
      let wasStarted := t == st.n || st.started.getD t false
      let st' := { st with started := st.started.set t true }
      -- released from user code: its USER action happens now
      let after := if wasStarted then st.cands.filterMap (fun s =>
          match s.thr[t]? with
          | some th => if isUser th.pc then step? s t else none
          | none => none)
        else st.cands
      if after.isEmpty then (st', "mismatch: thread is not parked in user code in the model") else
      match settle st' 400000 after {} [] with
      | none => (st', "mismatch: the model has too many interleavings to enumerate here")
      | some finals =>
      let good := finals.filter (fun s => snapshot st' s == obs)
      if good.isEmpty then
        (st', "mismatch: model allows { " ++ " | ".intercalate (dedup (finals.map (snapshot st'))) ++ " }")
      else ({ st' with cands := good }, "ok")
  | "end" :: rest =>
    let obs := (splitObs rest).2
    let render (s : Sys) : String :=
      s!"closed={showNatList s.sh.closed.reverse} created={s.sh.created.length} panicked={showBool (s.sh.panicked || s.sh.resurrected)}"
    let good := st.cands.filter (fun s => render s == obs)
    if !st.ready then (st, "ok")
    else if good.isEmpty then (st, "mismatch: model allows { " ++ " | ".intercalate (dedup (st.cands.map render)) ++ " }")
    else ({ st with cands := good }, "ok")
  | _ => (st, "bad-op")

end Driver.ConcD
