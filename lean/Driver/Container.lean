import GodiModel.Build
import GodiModel.Hyp
import GodiModel.Ctx
import Driver.Util
/-! Line protocol for M5 (`p …` lines). One output line per input line. -/
namespace Driver.ContD
open Godi.Container Driver

structure DSt where
  descs : List Desc := []
  behC : List (Nat × Nat × Outcome) := []
  behClose : List (Nat × Nat) := []
  behNil : List (Nat × Nat × Nat) := []
  st : State := {}
  built : Bool := false

def mkBeh (d : DSt) : Beh :=
  { ctor := fun c n => match d.behC.find? (fun e => e.1 == c && e.2.1 == n) with
      | some e => e.2.2
      | none => .ok,
    close := fun c n => d.behClose.any (fun e => e.1 == c && e.2 == n),
    nilField := fun c n => match d.behNil.find? (fun e => e.1 == c && e.2.1 == n) with
      | some e => some e.2.2
      | none => none }

def showLayer : Layer → String
  | .build => "build" | .resolution => "resolution" | .invocation => "invocation" | .panicL => "panic"
  | .validation => "validation" | .disposal => "disposal" | .circular => "circular"
  | .lifetimeConflict => "lifetime" | .graphOp => "graphop" | .notFound => "notfound"
  | .scopeDisposed => "scope-disposed" | .providerDisposed => "provider-disposed"
  | .singletonNotInit => "singleton-not-init" | .injected c => s!"injected{c}" | .fuel => "FUEL"

def sortStrs (l : List String) : List String := (l.toArray.qsort (· < ·)).toList

def showErr (e : Err) : String :=
  "err " ++ " ".intercalate (sortStrs (e.map showLayer).eraseDups)

def showVal : Val → String
  | .inst i => s!"i{i}"
  | .group l => "[" ++ " ".intercalate (l.map (fun i => s!"i{i}")) ++ "]"
  | .ctx s => s!"ctx:s{s}"
  | .scope s => s!"scope:s{s}"
  | .provider => "provider"
  | .zero => "nil"
  | .unit => "unit"
  | .absent => "absent"

def showOwner (o : Nat) : String := if o == providerOwner then "P" else s!"s{o}"

/-- constructor events in order, then Close events grouped per owner (owners sorted) -/
def showEvents (evs : List Event) : String :=
  let ctors := evs.filterMap (fun e => match e with
    | .ctor _ c inv s args outs =>
      some (s!"c{c}#{inv}@s{s}(" ++ ",".intercalate (args.map showVal) ++ ")->[" ++
        " ".intercalate (outs.map (fun i => s!"i{i}")) ++ "]")
    | .ctorFail _ c inv s how =>
      some (s!"c{c}#{inv}@s{s}!" ++ (match how with | .err => "err" | .panic => "panic" | .nilOut => "nil" | .ok => "ok"))
    | _ => none)
  let owners := sortNats ((evs.filterMap (fun e => match e with | .closed o _ _ => some o | _ => none)).eraseDups)
  let groups := owners.map (fun o =>
    showOwner o ++ ":[" ++ " ".intercalate (evs.filterMap (fun e => match e with
      | .closed o' i ok => if o' == o then some (s!"i{i}" ++ (if ok then "+" else "-")) else none
      | _ => none)) ++ "]")
  let a := " ".intercalate ctors
  let b := " ".intercalate groups
  (if a.isEmpty then "" else " | " ++ a) ++ (if b.isEmpty then "" else " | closed " ++ b)

def newEvents (old new : State) : List Event := new.log.drop old.log.length

def parseLife : String → Option Life
  | "S" => some .singleton | "C" => some .scoped | "T" => some .transient | _ => none

def parseKind (s : String) : Option Kind :=
  if s == "plain" then some .plain
  else if s == "void" then some .void
  else if s == "multi" then some .multi
  else if s.startsWith "inst:" then (s.drop 5).toString.toNat?.map Kind.inst
  else none

def parseList (s : String) (sep : String) : List String :=
  if s == "-" then [] else (s.splitOn sep).filter (· ≠ "")

def parseDep (s : String) : Option Dep :=
  match (s.splitOn ":").mapM (·.toNat?) with
  | some [ty, key, grp, opt] => some { ty := ty, key := key, grp := grp, optional := opt != 0 }
  | _ => none

def parseScope (s : String) : Option Nat :=
  if s.startsWith "s" then (s.drop 1).toString.toNat? else none

def step (d : DSt) (ws : List String) : DSt × String :=
  let beh := mkBeh d
  match ws with
  | ["new"] => ({}, "ok")
  | ["desc", id, ty, key, grp, life, ctor, kind, disp, sibs, deps] =>
    match id.toNat?, ty.toNat?, key.toNat?, grp.toNat?, parseLife life, ctor.toNat?, parseKind kind, disp.toNat?,
          (parseList sibs ",").mapM (·.toNat?), (parseList deps ";").mapM parseDep with
    | some id, some ty, some key, some grp, some life, some ctor, some kind, some disp, some sibs, some deps =>
      ({ d with descs := d.descs ++ [{ id := id, ident := ⟨ty, key, grp⟩, life := life, ctor := ctor, kind := kind,
                                       deps := deps, sibs := sibs, disp := disp != 0 }] }, "ok")
    | _, _, _, _, _, _, _, _, _, _ => (d, "bad-op")
  | ["beh", c, n, o] =>
    match c.toNat?, n.toNat?, (match o with | "err" => some Outcome.err | "panic" => some Outcome.panic | "nil" => some Outcome.nilOut | _ => none) with
    | some c, some n, some o => ({ d with behC := d.behC ++ [(c, n, o)] }, "ok")
    | _, _, _ => (d, "bad-op")
  | ["nbeh", c, n, k] =>
    match c.toNat?, n.toNat?, k.toNat? with
    | some c, some n, some k => ({ d with behNil := d.behNil ++ [(c, n, k)] }, "ok")
    | _, _, _ => (d, "bad-op")
  | ["cbeh", c, n] =>
    match c.toNat?, n.toNat? with
    | some c, some n => ({ d with behClose := d.behClose ++ [(c, n)] }, "ok")
    | _, _ => (d, "bad-op")
  | "build" :: order =>
    match nats? order with
    | none => (d, "bad-op")
    | some ids =>
      let (st, r) := build beh d.descs ids
      let evs := showEvents st.log
      match r with
      | .ok _ => ({ d with st := st, built := true }, "ok" ++ evs)
      | .error e => ({ d with st := st, built := false }, showErr e ++ evs)
  | ["hyp"] =>
    -- the structural hypotheses of the container theorems, evaluated on godi's own descriptors
    (d, match failedHyps d.descs with | [] => "ok" | l => "violated " ++ " ".intercalate l)
  | ["verdict"] =>
    (d, match verdict d.descs with | .circular => "circular" | .lifetime => "lifetime" | .missing => "missing" | .ok => "ok")
  | ["ctx", x, p] =>
    match x.toNat?, p.toNat? with
    | some x, some p => ({ d with st := { d.st with ctxParent := fun c => if c == x then p else d.st.ctxParent c } }, "ok")
    | _, _ => (d, "bad-op")
  | ["scope", frm, ctx] =>
    match ctx.toNat? with
    | none => (d, "bad-op")
    | some ctx =>
      let (st, r) := if frm == "P" then providerCreateScope beh d.st ctx
        else match parseScope frm with
          | some p => scopeCreateScope beh d.st p ctx
          | none => (d.st, .error [.fuel])
      -- a scope created with a context that is already done is closed at once by its watcher
      let st := watchNew beh st r ctx
      let evs := showEvents (newEvents d.st st)
      match r with
      | .ok s => ({ d with st := st }, s!"ok s{s}" ++ evs)
      | .error e => ({ d with st := st }, showErr e ++ evs)
  | ["get", frm, ty, key] =>
    match ty.toNat?, key.toNat? with
    | some ty, some key =>
      let (st, r) := if frm == "P" then providerGet beh d.st ty key
        else match parseScope frm with
          | some s => scopeGet beh d.st s ty key
          | none => (d.st, .error [.fuel])
      let evs := showEvents (newEvents d.st st)
      match r with
      | .ok v => ({ d with st := st }, "ok " ++ showVal v ++ evs)
      | .error e => ({ d with st := st }, showErr e ++ evs)
    | _, _ => (d, "bad-op")
  | ["getg", frm, ty, grp] =>
    match ty.toNat?, grp.toNat? with
    | some ty, some grp =>
      let (st, r) := if frm == "P" then providerGetGroup beh d.st ty grp
        else match parseScope frm with
          | some s => scopeGetGroup beh d.st s ty grp
          | none => (d.st, .error [.fuel])
      let evs := showEvents (newEvents d.st st)
      match r with
      | .ok v => ({ d with st := st }, "ok " ++ showVal v ++ evs)
      | .error e => ({ d with st := st }, showErr e ++ evs)
    | _, _ => (d, "bad-op")
  | ["close", frm] =>
    let (st, bad) := if frm == "P" then closeProvider beh id d.st
      else match parseScope frm with
        | some s => closeScope beh id (closeFuel d.st) d.st s
        | none => (d.st, false)
    ({ d with st := st }, (if bad then "err disposal" else "ok") ++ showEvents (newEvents d.st st))
  | ["cancel", x] =>
    match x.toNat? with
    | none => (d, "bad-op")
    | some x =>
      let st := cancelCtx beh d.st x
      ({ d with st := st }, "ok" ++ showEvents (newEvents d.st st))
  | ["state", frm] =>
    -- table sizes of a scope / the provider: what C14 observes
    if frm == "P" then
      (d, s!"scopes={match d.st.provScopes with | some l => toString l.length | none => "nil"} disposed={showBool d.st.disposed}")
    else match parseScope frm with
      | some s =>
        let sc := d.st.scope s
        (d, s!"children={match sc.children with | some l => toString l.length | none => "nil"} disposed={showBool sc.disposed}")
      | none => (d, "bad-op")
  | _ => (d, "bad-op")

end Driver.ContD
