import GodiModel.Kahn
import GodiModel.Dfs
import GodiModel.Graph
import GodiModel.Conc
import GodiModel.Spec.Digraph
