import GodiModel.Kahn
import GodiModel.Dfs
import GodiModel.Graph
import GodiModel.Conc
import GodiModel.LockIR
import GodiModel.Gen.LockFacts
import GodiModel.Spec.Digraph
