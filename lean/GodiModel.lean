import GodiModel.Kahn
import GodiModel.Dfs
import GodiModel.Graph
import GodiModel.Spec.Digraph
import GodiModel.Collection
import GodiModel.Module
import GodiModel.Spec.Registry
