import GodiModel.Kahn
import GodiModel.Dfs
import GodiModel.Graph
import GodiModel.Spec.Digraph
import GodiModel.Middleware
import GodiModel.Gen.Middleware
import GodiModel.MiddlewareAll
