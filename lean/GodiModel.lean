import GodiModel.Kahn
import GodiModel.Dfs
import GodiModel.Graph
import GodiModel.Spec.Digraph
import GodiModel.Container
import GodiModel.Build
