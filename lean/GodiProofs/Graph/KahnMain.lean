import GodiProofs.Graph.KahnInv
namespace Godi.Kahn

theorem inv_len_le (v : View) {queue cnt res} (inv : Inv v queue cnt res) :
    res.length ≤ v.nodes.length := by
  have nd : res.Nodup := (List.nodup_append.1 inv.nd).1
  exact nd.length_le_of_subset (fun k hk => inv.sub k (by simp [hk]))

theorem loop_spec (v : View) (wf : WF v) :
    ∀ fuel queue cnt res, Inv v queue cnt res → v.nodes.length + 1 ≤ fuel + res.length →
      ∃ out cnt', loop v fuel queue cnt res = .done out ∧ Inv v [] cnt' out := by
  intro fuel
  induction fuel with
  | zero =>
    intro queue cnt res inv h
    have := inv_len_le v inv
    omega
  | succ f ih =>
    intro queue cnt res inv h
    cases queue with
    | nil => exact ⟨res, cnt, by simp [loop], inv⟩
    | cons q qs =>
      have step := inv_step v wf q qs cnt res inv
      have := ih _ _ _ step (by simp; omega)
      simpa [loop] using this

/-- dependency-first order, stated on positions -/
def DepsFirst (v : View) (l : List Key) : Prop :=
  ∀ a ∈ l, ∀ d ∈ v.deps a, d ∈ l ∧ l.idxOf d < l.idxOf a

theorem subset_of_nodup_len {l n : List Key} (hl : l.Nodup) (hsub : l ⊆ n)
    (hlen : n.length ≤ l.length) : n ⊆ l := by
  intro x hx
  apply Classical.byContradiction
  intro hxl
  have h1 : l ⊆ n.erase x := by
    intro y hy
    have : y ≠ x := fun h => hxl (h ▸ hy)
    exact (List.mem_erase_of_ne this).2 (hsub hy)
  have h2 := hl.length_le_of_subset h1
  have h3 : (n.erase x).length = n.length - 1 := by rw [List.length_erase]; simp [hx]
  have h4 : 1 ≤ n.length := List.length_pos_of_mem hx
  omega

theorem topoRev_depsFirst_aux (v : View) : ∀ (r : List Key), r.Nodup → TopoRev v r → DepsFirst v r.reverse
  | [], _, _ => by intro a ha; simp at ha
  | q :: r, nd, h => by
    have ndr : r.Nodup := (List.nodup_cons.1 nd).2
    have hq : q ∉ r.reverse := by simpa using (List.nodup_cons.1 nd).1
    have ih' := topoRev_depsFirst_aux v r ndr h.2
    intro a ha d hd
    simp only [List.reverse_cons, List.mem_append, List.mem_singleton] at ha
    simp only [List.reverse_cons]
    rcases ha with ha | ha
    · have ⟨h1, h2⟩ := ih' a ha d hd
      refine ⟨by simp at h1; simp [h1], ?_⟩
      rw [List.idxOf_append, List.idxOf_append, if_pos h1, if_pos ha]
      exact h2
    · subst ha
      have hdl : d ∈ r.reverse := by simpa using h.1 d hd
      refine ⟨by simp at hdl; simp [hdl], ?_⟩
      rw [List.idxOf_append, List.idxOf_append, if_pos hdl, if_neg hq]
      have := List.idxOf_lt_length_of_mem hdl
      omega

theorem topoRev_depsFirst (v : View) (l : List Key) (nd : l.Nodup) (h : TopoRev v l.reverse) :
    DepsFirst v l := by
  have := topoRev_depsFirst_aux v l.reverse (nd.perm (List.reverse_perm l).symm) h
  simpa using this

/-- SOUNDNESS: whatever the seed order, a successful sort is a permutation of the nodes with
    every dependency strictly before its dependent. -/
theorem sort_sound (v : View) (wf : WF v) (l : List Key) (h : sort v = some l) :
    l.Perm v.nodes ∧ DepsFirst v l := by
  unfold sort at h
  obtain ⟨out, cnt', hloop, inv⟩ :=
    loop_spec v wf (v.nodes.length + 1) _ _ [] (inv_init v wf) (by simp)
  simp only [hloop] at h
  split at h
  · rename_i hlen
    injection h with h; subst h
    have nd : out.Nodup := by simpa using inv.nd
    have sub : out ⊆ v.nodes := fun k hk => inv.sub k (by simp [hk])
    have sup : v.nodes ⊆ out := subset_of_nodup_len nd sub (by omega)
    refine ⟨?_, topoRev_depsFirst v out nd inv.topo⟩
    exact (List.perm_ext_iff_of_nodup nd wf.nodup).2 (fun a => ⟨fun h => sub h, fun h => sup h⟩)
  · cases h

/-! ### completeness on acyclic graphs -/

inductive Path (v : View) : Key → Key → Prop
  | single {a b} : b ∈ v.deps a → Path v a b
  | cons {a b c} : b ∈ v.deps a → Path v b c → Path v a c

def HasCycle (v : View) : Prop := ∃ k ∈ v.nodes, Path v k k

theorem Path.snoc {v : View} {a c b : Key} (p : Path v a c) (h : b ∈ v.deps c) : Path v a b := by
  induction p with
  | single h1 => exact .cons h1 (.single h)
  | cons h1 _ ih => exact .cons h1 (ih h)

/-- a reversed walk: the head is a dependency of the next element -/
def RWalk (v : View) : List Key → Prop
  | [] => True
  | [_] => True
  | b :: a :: rest => b ∈ v.deps a ∧ RWalk v (a :: rest)

theorem rwalk_tail {v : View} {a : Key} {l : List Key} (h : RWalk v (a :: l)) : RWalk v l := by
  cases l with
  | nil => trivial
  | cons b r => exact h.2

theorem rwalk_drop {v : View} : ∀ (pre : List Key) (l : List Key), RWalk v (pre ++ l) → RWalk v l
  | [], _, h => h
  | _ :: pre, l, h => rwalk_drop pre l (rwalk_tail h)

theorem rwalk_take {v : View} : ∀ (l post : List Key), RWalk v (l ++ post) → RWalk v l
  | [], _, _ => trivial
  | [_], _, _ => trivial
  | b :: a :: l, post, h => ⟨h.1, rwalk_take (a :: l) post h.2⟩

theorem path_of_rwalk (v : View) : ∀ (l : List Key) (a b : Key), RWalk v (b :: l ++ [a]) → Path v a b
  | [], _, _, h => .single h.1
  | c :: l, a, _, h => (path_of_rwalk v l a c h.2).snoc h.1

theorem exists_dup_of_not_nodup : ∀ (l : List Key), ¬ l.Nodup →
    ∃ x pre mid post, l = pre ++ x :: mid ++ x :: post
  | [], h => absurd List.nodup_nil h
  | a :: l, h => by
    by_cases ha : a ∈ l
    · obtain ⟨s, t, rfl⟩ := List.append_of_mem ha
      exact ⟨a, [], s, t, by simp⟩
    · have : ¬ l.Nodup := fun hn => h (List.nodup_cons.2 ⟨ha, hn⟩)
      obtain ⟨x, pre, mid, post, rfl⟩ := exists_dup_of_not_nodup l this
      exact ⟨x, a :: pre, mid, post, by simp⟩

/-- if every key of `S` has a dependency in `S`, there are arbitrarily long reversed walks inside `S` -/
theorem long_rwalk (v : View) (S : Key → Prop) (hS : ∀ k, S k → ∃ d ∈ v.deps k, S d) (k0 : Key) (h0 : S k0) :
    ∀ n, ∃ hd tl, (hd :: tl).length = n + 1 ∧ RWalk v (hd :: tl) ∧ (∀ x ∈ hd :: tl, S x) := by
  intro n
  induction n with
  | zero => exact ⟨k0, [], rfl, trivial, by simp [h0]⟩
  | succ n ih =>
    obtain ⟨hd, tl, hlen, hw, hall⟩ := ih
    obtain ⟨d, hd1, hd2⟩ := hS hd (hall hd (by simp))
    refine ⟨d, hd :: tl, by simp at hlen ⊢; omega, ⟨hd1, hw⟩, ?_⟩
    intro x hx
    simp only [List.mem_cons] at hx
    rcases hx with hx | hx
    · subst hx; exact hd2
    · exact hall x (by simp only [List.mem_cons]; exact hx)

/-- a set of nodes in which every member has a dependency inside the set contains a cycle -/
theorem cycle_of_no_sink (v : View) (S : Key → Prop) (hsub : ∀ k, S k → k ∈ v.nodes)
    (hS : ∀ k, S k → ∃ d ∈ v.deps k, S d) (k0 : Key) (h0 : S k0) : HasCycle v := by
  obtain ⟨hd, tl, hlen, hw, hall⟩ := long_rwalk v S hS k0 h0 v.nodes.length
  have hnn : ¬ (hd :: tl).Nodup := by
    intro nd
    have := nd.length_le_of_subset (fun x hx => hsub x (hall x hx))
    omega
  obtain ⟨x, pre, mid, post, heq⟩ := exists_dup_of_not_nodup _ hnn
  rw [heq] at hw hall
  have h1 : RWalk v (x :: mid ++ x :: post) := rwalk_drop pre _ (by simpa using hw)
  have h2 : RWalk v (x :: mid ++ [x]) := by
    have : x :: mid ++ x :: post = (x :: mid ++ [x]) ++ post := by simp
    rw [this] at h1
    exact rwalk_take _ post h1
  exact ⟨x, hsub x (hall x (by simp)), path_of_rwalk v mid x x h2⟩

/-- COMPLETENESS: on an acyclic graph Kahn succeeds for every seed order. -/
theorem sort_complete (v : View) (wf : WF v) (hac : ¬ HasCycle v) : ∃ l, sort v = some l := by
  unfold sort
  obtain ⟨out, cnt', hloop, inv⟩ :=
    loop_spec v wf (v.nodes.length + 1) _ _ [] (inv_init v wf) (by simp)
  simp only [hloop]
  by_cases hlen : out.length = v.nodes.length
  · exact ⟨out, by simp [hlen]⟩
  · exfalso
    apply hac
    have nd : out.Nodup := by simpa using inv.nd
    have sub : out ⊆ v.nodes := fun k hk => inv.sub k (by simp [hk])
    -- some node is missing from the output
    have hmiss : ∃ k ∈ v.nodes, k ∉ out := by
      apply Classical.byContradiction
      intro hno
      have sup : v.nodes ⊆ out := by
        intro k hk
        apply Classical.byContradiction
        intro hk'
        exact hno ⟨k, hk, hk'⟩
      have h1 := wf.nodup.length_le_of_subset sup
      have h2 := nd.length_le_of_subset sub
      omega
    obtain ⟨k0, hk0, hk0'⟩ := hmiss
    refine cycle_of_no_sink v (fun k => k ∈ v.nodes ∧ k ∉ out) (fun k h => h.1) ?_ k0 ⟨hk0, hk0'⟩
    intro k ⟨hk, hk'⟩
    have hr := inv.ready k hk
    have : pending v out k ≠ 0 := fun h => hk' (by simpa using hr.2 h)
    rw [Ne, pending_zero_iff] at this
    have : ∃ d ∈ v.deps k, d ∉ out := by
      apply Classical.byContradiction
      intro hno
      apply this
      intro d hd
      apply Classical.byContradiction
      intro hd'
      exact hno ⟨d, hd, hd'⟩
    obtain ⟨d, hd, hd'⟩ := this
    exact ⟨d, hd, wf.deps_closed k hk d hd, hd'⟩

/-- and conversely a successful sort certifies acyclicity -/
theorem sort_some_acyclic (v : View) (wf : WF v) (l : List Key) (h : sort v = some l) : ¬ HasCycle v := by
  obtain ⟨hperm, hdf⟩ := sort_sound v wf l h
  intro ⟨k, hk, hp⟩
  have key : ∀ a b, Path v a b → a ∈ l → b ∈ l ∧ l.idxOf b < l.idxOf a := by
    intro a b p
    induction p with
    | single h1 => intro ha; exact hdf _ ha _ h1
    | cons h1 _ ih =>
      intro ha
      have ⟨m1, m2⟩ := hdf _ ha _ h1
      have ⟨m3, m4⟩ := ih m1
      exact ⟨m3, by omega⟩
  have := key k k hp (hperm.mem_iff.2 hk)
  omega

#print axioms sort_sound
#print axioms sort_complete
#print axioms sort_some_acyclic
end Godi.Kahn
