import GodiProofs.Graph.Ops
/-! `RemoveProvider` refines "delete the node and every edge pointing at it". -/
namespace Godi.Graph
open Godi.Kahn (Key)

theorem filter_ne_eq_self (l : List Key) (k : Key) (h : k ∉ l) : l.filter (· ≠ k) = l := by
  apply List.filter_eq_self.2
  intro a ha
  simp only [ne_eq, decide_eq_true_eq]
  intro e; subst e; exact h ha

/-- the first loop of `RemoveProvider`: every visited adjacency list loses `k` -/
theorem filterEdges_spec (k : Key) : ∀ (l : List Key) (g : Graph),
    (filterEdges g k l).nodes = g.nodes ∧ (filterEdges g k l).ekeys = g.ekeys ∧
    (∀ x, (filterEdges g k l).edges x = if x ∈ l then (g.edges x).filter (· ≠ k) else g.edges x) ∧
    (∀ x, (filterEdges g k l).ndeps x =
      if x ∈ l ∧ k ∈ g.edges x ∧ x ∈ g.nodes then (g.ndeps x).filter (· ≠ k) else g.ndeps x) := by
  intro l
  induction l with
  | nil => intro g; simp [filterEdges]
  | cons f rest ih =>
    intro g
    unfold filterEdges
    split
    next hk =>
      simp only []
      generalize hg2 : (if f ∈ ({ g with edges := upd g.edges f ((g.edges f).filter (· ≠ k)) } : Graph).nodes
        then { ({ g with edges := upd g.edges f ((g.edges f).filter (· ≠ k)) } : Graph) with
          ndeps := upd g.ndeps f ((g.ndeps f).filter (· ≠ k)) }
        else ({ g with edges := upd g.edges f ((g.edges f).filter (· ≠ k)) } : Graph)) = g2
      have hn2 : g2.nodes = g.nodes := by rw [← hg2]; split <;> rfl
      have hk2 : g2.ekeys = g.ekeys := by rw [← hg2]; split <;> rfl
      have he2 : g2.edges = upd g.edges f ((g.edges f).filter (· ≠ k)) := by rw [← hg2]; split <;> rfl
      have hd2 : g2.ndeps = if f ∈ g.nodes then upd g.ndeps f ((g.ndeps f).filter (· ≠ k)) else g.ndeps := by
        rw [← hg2]; split <;> rfl
      obtain ⟨i1, i2, i3, i4⟩ := ih g2
      refine ⟨i1.trans hn2, i2.trans hk2, ?_, ?_⟩
      · intro x
        rw [i3 x, he2]
        by_cases hxf : x = f
        · subst hxf
          simp only [upd_self, List.mem_cons, true_or, ↓reduceIte]
          split
          · simp [List.filter_filter]
          · rfl
        · simp only [upd_ne _ _ hxf, List.mem_cons, hxf, false_or]
      · intro x
        rw [i4 x, he2, hd2, hn2]
        by_cases hxf : x = f
        · subst hxf
          by_cases hxn : x ∈ g.nodes
          · simp only [upd_self, hxn, ↓reduceIte, List.mem_cons, true_or, hk, and_self, and_true]
            have : k ∉ (g.edges x).filter (· ≠ k) := by simp
            simp [this]
          · simp [hxn]
        · by_cases hfn : f ∈ g.nodes
          · simp only [hfn, ↓reduceIte, upd_ne _ _ hxf, List.mem_cons, hxf, false_or]
          · simp only [hfn, ↓reduceIte, upd_ne _ _ hxf, List.mem_cons, hxf, false_or]
    next hk =>
      obtain ⟨i1, i2, i3, i4⟩ := ih g
      refine ⟨i1, i2, ?_, ?_⟩
      · intro x
        rw [i3 x]
        by_cases hxf : x = f
        · subst hxf
          simp only [List.mem_cons, true_or, ↓reduceIte]
          split
          · rfl
          · exact (filter_ne_eq_self _ k hk).symm
        · simp only [List.mem_cons, hxf, false_or]
      · intro x
        rw [i4 x]
        by_cases hxf : x = f
        · subst hxf; simp [hk]
        · simp only [List.mem_cons, hxf, false_or]

theorem dropDependent_frame (k : Key) : ∀ (l : List Key) (g : Graph),
    (dropDependent g k l).nodes = g.nodes ∧ (dropDependent g k l).ekeys = g.ekeys ∧
    (dropDependent g k l).edges = g.edges ∧ (dropDependent g k l).ndeps = g.ndeps := by
  intro l
  induction l with
  | nil => intro g; simp [dropDependent]
  | cons d rest ih =>
    intro g
    unfold dropDependent
    split
    · obtain ⟨a, b, c, e⟩ := ih { g with ndependents := upd g.ndependents d ((g.ndependents d).filter (· ≠ k)) }
      exact ⟨a, b, c, e⟩
    · exact ih g

/-- REFINEMENT of `RemoveProvider`: the node is gone, every adjacency list has lost it, everything
else is as before; the structural invariant holds again and all derived fields are in sync -/
theorem removeProvider_refines (g : Graph) (b : Base g) (k : Key) (hk : k ∈ g.nodes) :
    Base (removeProvider g k) ∧ Synced (removeProvider g k) ∧
    (∀ x, x ∈ (removeProvider g k).nodes ↔ x ∈ g.nodes ∧ x ≠ k) ∧
    (∀ x, (removeProvider g k).edges x = if x = k then [] else (g.edges x).filter (· ≠ k)) := by
  unfold removeProvider
  simp only [hk, not_true_eq_false, ↓reduceIte]
  -- g1: node and its adjacency list deleted
  generalize hg1 : delEdges (delNode g k) k = g1
  have n1 : g1.nodes = g.nodes.erase k := by rw [← hg1]; rfl
  have k1 : g1.ekeys = g.ekeys.erase k := by rw [← hg1]; rfl
  have e1 : g1.edges = upd g.edges k [] := by rw [← hg1]; rfl
  have d1 : g1.ndeps = g.ndeps := by rw [← hg1]; rfl
  obtain ⟨f1, f2, f3, f4⟩ := filterEdges_spec k g1.ekeys g1
  generalize hg2 : filterEdges g1 k g1.ekeys = g2 at f1 f2 f3 f4
  obtain ⟨r1, r2, r3, r4⟩ := dropDependent_frame k (g.ndeps k) g2
  generalize hg3 : dropDependent g2 k (g.ndeps k) = g3 at r1 r2 r3 r4
  have memErase : ∀ x, x ∈ g.nodes.erase k ↔ x ∈ g.nodes ∧ x ≠ k := by
    intro x; rw [b.nodesNodup.mem_erase_iff]; exact and_comm
  have memEraseK : ∀ x, x ∈ g.ekeys.erase k ↔ x ∈ g.ekeys ∧ x ≠ k := by
    intro x; rw [b.ekeysNodup.mem_erase_iff]; exact and_comm
  -- adjacency lists of g3
  have hedges : ∀ x, g3.edges x = if x = k then [] else (g.edges x).filter (· ≠ k) := by
    intro x
    rw [r3, f3 x, e1, k1]
    by_cases hxk : x = k
    · subst hxk
      have : x ∉ g.ekeys.erase x := by rw [memEraseK]; simp
      simp [this]
    · simp only [hxk, ↓reduceIte, upd_ne _ _ hxk]
      split
      · rfl
      next hx =>
        have : x ∉ g.ekeys := fun h => hx ((memEraseK x).2 ⟨h, hxk⟩)
        simp [b.offKeys x this]
  have hnodes3 : g3.nodes = g.nodes.erase k := by rw [r1, f1, n1]
  have hekeys3 : g3.ekeys = g.ekeys.erase k := by rw [r2, f2, k1]
  have b3 : Base g3 := by
    refine ⟨by rw [hnodes3]; exact b.nodesNodup.erase k, by rw [hekeys3]; exact b.ekeysNodup.erase k, ?_, ?_, ?_, ?_⟩
    · intro x hx
      rw [hekeys3, memEraseK] at hx
      rw [hnodes3, memErase]; exact ⟨b.ekeysSub x hx.1, hx.2⟩
    · intro x hx d hd
      rw [hnodes3, memErase] at hx ⊢
      rw [hedges x] at hd
      simp only [hx.2, ↓reduceIte, List.mem_filter, ne_eq, decide_eq_true_eq] at hd
      exact ⟨b.targets x hx.1 d hd.1, hd.2⟩
    · intro x hx
      rw [hekeys3, memEraseK] at hx
      rw [hedges x]
      by_cases hxk : x = k
      · simp [hxk]
      · have : x ∉ g.ekeys := fun h => hx ⟨h, hxk⟩
        simp [hxk, b.offKeys x this]
    · intro x hx
      rw [hnodes3, memErase] at hx
      rw [hedges x, r4, f4 x, d1, e1, k1, n1]
      simp only [hx.2, ↓reduceIte, upd_ne _ _ hx.2]
      rw [b.deps x hx.1]
      split
      · rfl
      next hcond =>
        -- k does not occur in the list (or the list is not visited because it is empty)
        by_cases hke : k ∈ g.edges x
        · exfalso; apply hcond
          have hxe : x ∈ g.ekeys := by
            apply Classical.byContradiction; intro hn
            rw [b.offKeys x hn] at hke; simp at hke
          exact ⟨(memEraseK x).2 ⟨hxe, hx.2⟩, hke, (memErase x).2 hx⟩
        · exact (filter_ne_eq_self _ k hke).symm
  have bfin := updateDegreesWith_base g3 g3.ekeys (List.Perm.refl _) b3
  have sfin := updateDegreesWith_synced g3 g3.ekeys (List.Perm.refl _) b3
  have fr := updateDegreesWith_frame g3 g3.ekeys
  refine ⟨setFlags_base _ true true bfin, setFlags_synced _ true true sfin, ?_, ?_⟩
  · intro x
    show x ∈ (updateDegrees g3).nodes ↔ _
    unfold updateDegrees
    rw [fr.1, hnodes3, memErase]
  · intro x
    show (updateDegrees g3).edges x = _
    unfold updateDegrees
    rw [fr.2.1]; exact hedges x

end Godi.Graph
