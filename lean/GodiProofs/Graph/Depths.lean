import GodiProofs.Graph.Bridge
/-!
# `CalculateDepths`: every depth it assigns is witnessed by a dependency chain (soundness half)

`CalculateDepths` relaxes labels along the dependents lists, starting from the nodes without dependencies. Whatever
the queue order and the fuel: a depth `m ≥ 0` assigned to `k` comes with a chain `k → … → root` of exactly `m`
dependency edges ending in a node without dependencies; nodes that are not reached keep `-1`. (That the label is the
LONGEST such chain on an acyclic graph is the `_partial` half, validated by the exhaustive correspondence stream and
the reference-digraph monitor `longest`.)
-/
namespace Godi.Graph
open Godi.Spec
open Godi.Kahn (Key)

/-- a chain of `m` dependency edges from `k` down to a node without dependencies -/
inductive Chain (E : Key → List Key) : Key → Nat → Prop
  | root {k : Key} : E k = [] → Chain E k 0
  | step {k c : Key} {m : Nat} : c ∈ E k → Chain E c m → Chain E k (m + 1)

structure DInv (g0 g : Graph) : Prop where
  edges : g.edges = g0.edges
  nodes : g.nodes = g0.nodes
  ndependents : g.ndependents = g0.ndependents
  wit : ∀ k, g.depth k = -1 ∨ ∃ m : Nat, g.depth k = (m : Int) ∧ Chain g0.edges k m

theorem relaxDepth_inv (g0 : Graph) (cur : Key) : ∀ (l : List Key) (g : Graph), DInv g0 g → 0 ≤ g.depth cur →
    (∀ d ∈ l, d ∈ g0.nodes → cur ∈ g0.edges d) →
    DInv g0 (relaxDepth g cur l).1 ∧ (∀ x, g.depth x ≤ (relaxDepth g cur l).1.depth x) ∧
    (∀ x ∈ (relaxDepth g cur l).2, 0 ≤ (relaxDepth g cur l).1.depth x ∧ x ∈ g0.nodes) := by
  intro l
  induction l with
  | nil => intro g inv _ _; exact ⟨inv, fun _ => Int.le_refl _, fun x hx => by cases hx⟩
  | cons d rest ih =>
    intro g inv hc hdep
    have hrest : ∀ d ∈ rest, d ∈ g0.nodes → cur ∈ g0.edges d := fun x hx => hdep x (List.mem_cons_of_mem _ hx)
    unfold relaxDepth
    by_cases hd : d ∈ g.nodes
    · simp only [hd, if_true]
      by_cases hcond : g.depth cur + 1 < (g.nodes.length : Int) ∧ g.depth d < g.depth cur + 1
      · simp only [hcond, and_self, if_true]
        -- the updated graph
        have hd0 : d ∈ g0.nodes := by rw [← inv.nodes]; exact hd
        have inv' : DInv g0 { g with depth := upd g.depth d (g.depth cur + 1) } := by
          refine ⟨inv.edges, inv.nodes, inv.ndependents, ?_⟩
          intro k
          by_cases hk : k = d
          · subst hk
            rcases inv.wit cur with h | ⟨m, hm, hch⟩
            · rw [h] at hc; exact absurd hc (by decide)
            · refine Or.inr ⟨m + 1, ?_, Chain.step (hdep k (List.mem_cons_self ..) hd0) hch⟩
              simp only [upd, if_true]; rw [hm]; rfl
          · have : upd g.depth d (g.depth cur + 1) k = g.depth k := by simp [upd, hk]
            simp only [this]; exact inv.wit k
        have hmono : ∀ x, g.depth x ≤ upd g.depth d (g.depth cur + 1) x := by
          intro x
          by_cases hx : x = d
          · subst hx; simp only [upd, if_true]; omega
          · simp [upd, hx]
        have hc' : 0 ≤ ({ g with depth := upd g.depth d (g.depth cur + 1) } : Graph).depth cur :=
          Int.le_trans hc (hmono cur)
        obtain ⟨i1, m1, q1⟩ := ih _ inv' hc' hrest
        refine ⟨i1, fun x => Int.le_trans (hmono x) (m1 x), ?_⟩
        intro x hx
        rcases List.mem_cons.1 hx with h | h
        · subst h
          refine ⟨?_, hd0⟩
          have := m1 x
          have e : ({ g with depth := upd g.depth x (g.depth cur + 1) } : Graph).depth x = g.depth cur + 1 := by
            simp [upd]
          rw [e] at this
          omega
        · exact q1 x h
      · simp only [hcond, if_false]
        exact ih g inv hc hrest
    · simp only [hd, if_false]
      exact ih g inv hc hrest

theorem depthLoop_inv (g0 : Graph) (s : Synced g0) : ∀ (f : Nat) (g : Graph) (q : List Key), DInv g0 g →
    (∀ x ∈ q, 0 ≤ g.depth x ∧ x ∈ g0.nodes) → DInv g0 (depthLoop f g q) := by
  intro f
  induction f with
  | zero => intro g q inv _; exact inv
  | succ f ih =>
    intro g q inv hq
    cases q with
    | nil => exact inv
    | cons cur rest =>
      unfold depthLoop
      obtain ⟨hc, hcn⟩ := hq cur (List.mem_cons_self ..)
      have hdep : ∀ d ∈ g.ndependents cur, d ∈ g0.nodes → cur ∈ g0.edges d := by
        intro d hd hdn
        rw [inv.ndependents] at hd
        have := s.cons cur hcn d hdn
        have hpos : 0 < (g0.ndependents cur).count d := List.count_pos_iff.2 hd
        rw [this] at hpos
        exact List.count_pos_iff.1 hpos
      obtain ⟨i1, m1, q1⟩ := relaxDepth_inv g0 cur (g.ndependents cur) g inv hc hdep
      apply ih _ _ i1
      intro x hx
      rcases List.mem_append.1 hx with h | h
      · obtain ⟨a, b⟩ := hq x (List.mem_cons_of_mem _ h)
        exact ⟨Int.le_trans a (m1 x), b⟩
      · exact q1 x h

/-- SOUNDNESS of `CalculateDepths` -/
theorem depths_witnessed (g : Graph) (b : Base g) (s : Synced g) (norder : List Key) (hn : ∀ k ∈ norder, k ∈ g.nodes) (k : Key) :
    (calculateDepthsWith g norder).depth k = -1 ∨
    ∃ m : Nat, (calculateDepthsWith g norder).depth k = (m : Int) ∧ Chain g.edges k m := by
  unfold calculateDepthsWith
  simp only []
  -- the roots get depth 0
  have hroots : ∀ (l : List Key) (g1 : Graph), DInv g g1 → (∀ x ∈ l, g.edges x = [] ∧ x ∈ g.nodes) →
      DInv g (l.foldl (fun g k => { g with depth := upd g.depth k 0 }) g1) ∧
      ∀ x, (x ∈ l ∨ 0 ≤ g1.depth x) → 0 ≤ (l.foldl (fun g k => { g with depth := upd g.depth k 0 }) g1).depth x := by
    intro l
    induction l with
    | nil =>
      intro g1 inv _
      refine ⟨inv, ?_⟩
      intro x hx
      rcases hx with h | h
      · cases h
      · exact h
    | cons r rest ih =>
      intro g1 inv hl
      have inv' : DInv g { g1 with depth := upd g1.depth r 0 } := by
        refine ⟨inv.edges, inv.nodes, inv.ndependents, ?_⟩
        intro k
        by_cases hk : k = r
        · subst hk
          exact Or.inr ⟨0, by simp [upd], Chain.root (hl k (List.mem_cons_self ..)).1⟩
        · have : upd g1.depth r 0 k = g1.depth k := by simp [upd, hk]
          simp only [this]; exact inv.wit k
      obtain ⟨i2, h2⟩ := ih _ inv' (fun x hx => hl x (List.mem_cons_of_mem _ hx))
      refine ⟨i2, ?_⟩
      intro x hx
      apply h2 x
      rcases hx with h | h
      · rcases List.mem_cons.1 h with e | e
        · subst e; exact Or.inr (by simp [upd])
        · exact Or.inl e
      · by_cases hxr : x = r
        · subst hxr; exact Or.inr (by simp [upd])
        · exact Or.inr (by simpa [upd, hxr] using h)
  have inv0 : DInv g { g with depth := fun _ => -1 } := ⟨rfl, rfl, rfl, fun _ => Or.inl rfl⟩
  have hl : ∀ x ∈ norder.filter (fun k => (({ g with depth := fun _ => -1 } : Graph).ndeps k).length == 0),
      g.edges x = [] ∧ x ∈ g.nodes := by
    intro x hx
    obtain ⟨h1, h2⟩ := List.mem_filter.1 hx
    have hxn := hn x h1
    refine ⟨?_, hxn⟩
    have : (g.ndeps x).length = 0 := by simpa using h2
    rw [← b.deps x hxn]
    exact List.eq_nil_of_length_eq_zero this
  obtain ⟨i1, h1⟩ := hroots _ _ inv0 hl
  exact (depthLoop_inv g s _ _ _ i1 (fun x hx => And.intro (h1 x (Or.inl hx)) (hl x hx).2)).wit k

end Godi.Graph
