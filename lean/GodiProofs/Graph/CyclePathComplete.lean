import GodiProofs.Graph.CyclePath
import GodiProofs.Graph.Transitive
/-!
# `findCyclePath` finds a path whenever the node is on a cycle

The depth-first `search` of graph.go, with the fuel the model runs on: when it answers "no path" from the start node,
the nodes it visited are closed under the edge relation and none of their edges leads to the start — so the start is on
no cycle. Hence a circular-dependency error always carries a path (`CircularDependencyError.Path` is never empty), and
by `findCyclePath_sound` that path is a real closed walk. Fuel: every nested call marks a node of the graph that was
unmarked (`unv`, as for `GetTransitiveDependencies`).
-/
namespace Godi.Graph
open Godi.Kahn (Key)
open Godi.Spec

/-- what a failed search leaves behind -/
structure NoPath (E : Key → List Key) (start : Key) (vis vis2 : List Key) : Prop where
  sub : ∀ x ∈ vis, x ∈ vis2
  closed : ∀ x ∈ vis2, x ∉ vis → ∀ y ∈ E x, y ≠ start ∧ y ∈ vis2

theorem searchList_none (E : Key → List Key) (start : Key) (U : List Key) (f : Nat)
    (ih : ∀ cur vis, cur ∈ U → unv U vis + 1 ≤ f → (search E start f cur vis).1 = none →
      NoPath E start vis (search E start f cur vis).2 ∧ ∀ y ∈ E cur, y ≠ start ∧ y ∈ (search E start f cur vis).2) :
    ∀ (l vis : List Key), (∀ y ∈ l, y ∈ U) → unv U vis ≤ f → (searchList (search E start f) start l vis).1 = none →
      NoPath E start vis (searchList (search E start f) start l vis).2 ∧
        ∀ y ∈ l, y ≠ start ∧ y ∈ (searchList (search E start f) start l vis).2 := by
  intro l
  induction l with
  | nil =>
    intro vis _ _ _
    exact ⟨⟨fun _ h => h, fun x hx hn => absurd hx hn⟩, fun y hy => by cases hy⟩
  | cons n rest ihl =>
    intro vis hU hf hnone
    have hrU : ∀ y ∈ rest, y ∈ U := fun y hy => hU y (List.mem_cons_of_mem _ hy)
    by_cases hns : n = start
    · simp [searchList, hns] at hnone
    · by_cases hnv : n ∈ vis
      · have e : searchList (search E start f) start (n :: rest) vis = searchList (search E start f) start rest vis := by
          simp only [searchList, hns, hnv, if_false, if_true]
        rw [e] at hnone ⊢
        obtain ⟨np, hm⟩ := ihl vis hrU hf hnone
        refine ⟨np, ?_⟩
        intro y hy
        rcases List.mem_cons.1 hy with h | h
        · subst h; exact ⟨hns, np.sub _ hnv⟩
        · exact hm y h
      · cases hs : search E start f n (n :: vis) with
        | mk res v =>
          cases res with
          | some p =>
            have : (searchList (search E start f) start (n :: rest) vis).1 = some p := by
              simp only [searchList, hns, hnv, if_false, hs]
            rw [this] at hnone; cases hnone
          | none =>
            have e : searchList (search E start f) start (n :: rest) vis = searchList (search E start f) start rest v := by
              simp only [searchList, hns, hnv, if_false, hs]
            rw [e] at hnone ⊢
            have hnU : n ∈ U := hU n (List.mem_cons_self ..)
            have hlt := unv_lt U hnU hnv
            obtain ⟨np1, hm1⟩ := ih n (n :: vis) hnU (by omega) (by rw [hs])
            rw [hs] at np1 hm1
            simp only [] at np1 hm1
            have hfv : unv U v ≤ f := Nat.le_trans (unv_mono U (fun x hx => np1.sub x (List.mem_cons_of_mem _ hx))) hf
            obtain ⟨np2, hm2⟩ := ihl v hrU hfv hnone
            refine ⟨⟨fun x hx => np2.sub x (np1.sub x (List.mem_cons_of_mem _ hx)), ?_⟩, ?_⟩
            · intro x hx hxn y hy
              by_cases hxv : x ∈ v
              · by_cases hxe : x = n
                · subst hxe
                  exact ⟨(hm1 y hy).1, np2.sub y (hm1 y hy).2⟩
                · have hx2 : x ∉ n :: vis := by
                    intro h; rcases List.mem_cons.1 h with h | h
                    · exact hxe h
                    · exact hxn h
                  obtain ⟨a, b⟩ := np1.closed x hxv hx2 y hy
                  exact ⟨a, np2.sub y b⟩
              · exact np2.closed x hx hxv y hy
            · intro y hy
              rcases List.mem_cons.1 hy with h | h
              · subst h; exact ⟨hns, np2.sub _ (np1.sub _ (List.mem_cons_self ..))⟩
              · exact hm2 y h

theorem search_none (E : Key → List Key) (start : Key) (U : List Key) (hU : ∀ x ∈ U, ∀ y ∈ E x, y ∈ U) :
    ∀ (f : Nat) (cur : Key) (vis : List Key), cur ∈ U → unv U vis + 1 ≤ f → (search E start f cur vis).1 = none →
      NoPath E start vis (search E start f cur vis).2 ∧ ∀ y ∈ E cur, y ≠ start ∧ y ∈ (search E start f cur vis).2 := by
  intro f
  induction f with
  | zero => intro cur vis _ hf _; omega
  | succ f ih =>
    intro cur vis hc hf hnone
    cases hs : searchList (search E start f) start (E cur) vis with
    | mk res v =>
      cases res with
      | some p =>
        have : (search E start (f + 1) cur vis).1 = some (cur :: p) := by simp only [search, hs]
        rw [this] at hnone; cases hnone
      | none =>
        have e : search E start (f + 1) cur vis = (none, v) := by simp only [search, hs]
        rw [e]
        have := searchList_none E start U f ih (E cur) vis (hU cur hc) (by omega) (by rw [hs])
        rw [hs] at this
        exact this

/-- COMPLETENESS of `findCyclePath` -/
theorem findCyclePath_complete (g : Graph) (b : Base g) (k : Key) (hk : k ∈ g.nodes) (h : Reach g.edges k k) :
    ∃ p, findCyclePath g k = some p := by
  cases hs : (search g.edges k (g.nodes.length + 1) k []).1 with
  | some q => exact ⟨q ++ [k], by unfold findCyclePath; rw [hs]⟩
  | none =>
    exfalso
    have hf : unv g.nodes [] + 1 ≤ g.nodes.length + 1 := by
      have := List.countP_le_length (p := fun x => decide (x ∉ ([] : List Key))) (l := g.nodes)
      unfold unv; omega
    obtain ⟨np, hm⟩ := search_none g.edges k g.nodes (fun x hx y hy => b.targets x hx y hy) _ k [] hk hf hs
    -- everything reachable from k lies in the visited set, and no edge of the visited set (or of k) leads to k
    have cl : ∀ a c, Reach g.edges a c → (a = k ∨ a ∈ (search g.edges k (g.nodes.length + 1) k []).2) →
        c ≠ k ∧ c ∈ (search g.edges k (g.nodes.length + 1) k []).2 := by
      intro a c hr
      induction hr with
      | single h1 =>
        intro ha
        rcases ha with rfl | ha
        · exact hm _ h1
        · exact np.closed _ ha (by simp) _ h1
      | @cons a' b' c' h1 _ ih =>
        intro ha
        have hb : b' ≠ k ∧ b' ∈ (search g.edges k (g.nodes.length + 1) k []).2 := by
          rcases ha with rfl | ha
          · exact hm _ h1
          · exact np.closed _ ha (by simp) _ h1
        exact ih (Or.inr hb.2)
    exact (cl k k h (Or.inl rfl)).1 rfl

/-- a circular-dependency report always carries a path -/
theorem detectCyclesFrom_has_path (g : Graph) (b : Base g) (s k : Key) (path : Option (List Key)) (g' : Graph)
    (h : detectCyclesFrom g s = (g', .cycle k path)) : ∃ p, path = some p := by
  obtain ⟨hr, _⟩ := detectCyclesFrom_sound g s k path g' h
  have hk : k ∈ g.nodes := by
    cases hr with
    | single h1 =>
      by_cases hn : k ∈ g.nodes
      · exact hn
      · have : g.edges k = [] := b.offKeys k (fun he => hn (b.ekeysSub k he))
        rw [this] at h1; cases h1
    | cons h1 _ =>
      by_cases hn : k ∈ g.nodes
      · exact hn
      · have : g.edges k = [] := b.offKeys k (fun he => hn (b.ekeysSub k he))
        rw [this] at h1; cases h1
  obtain ⟨p, hp⟩ := findCyclePath_complete g b k hk hr
  unfold detectCyclesFrom at h
  split at h
  · simp at h
  · split at h
    · simp at h
    next k' heq =>
      simp only [Prod.mk.injEq, CycleRes.cycle.injEq] at h
      obtain ⟨_, hk', hpath⟩ := h
      subst hk'
      exact ⟨p, by rw [← hpath, hp]⟩
    · simp at h

end Godi.Graph
