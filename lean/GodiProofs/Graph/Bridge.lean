import GodiProofs.Graph.Detect
import GodiModel.Spec.Digraph
/-! The three reachability relations used by the component proofs are the specification's `Reach`. -/
namespace Godi.Graph
open Godi.Kahn (Key)
open Godi.Spec

def abs (g : Graph) : Digraph := ⟨g.nodes, g.edges⟩

theorem reach_of_dfsPath {edges : Key → List Key} {a b : Key} (p : Dfs.Path edges a b) : Reach edges a b := by
  induction p with
  | single h => exact .single h
  | cons h _ ih => exact .cons h ih

theorem dfsPath_of_reach {edges : Key → List Key} {a b : Key} (p : Reach edges a b) : Dfs.Path edges a b := by
  induction p with
  | single h => exact .single h
  | cons h _ ih => exact .cons h ih

theorem reach_mem_nodes {g : Graph} (b : Base g) {a c : Key} (p : Reach g.edges a c) (ha : a ∈ g.nodes) :
    c ∈ g.nodes := by
  induction p with
  | single h => exact b.targets _ ha _ h
  | cons h _ ih => exact ih (b.targets _ ha _ h)

theorem kahnPath_of_reach {g : Graph} (b : Base g) (norder : List Key) {a c : Key}
    (p : Reach g.edges a c) (ha : a ∈ g.nodes) : Kahn.Path (kahnView g norder) a c := by
  induction p with
  | single h => exact .single (by simpa [kahnView, b.deps _ ha] using h)
  | cons h _ ih =>
    exact .cons (by simpa [kahnView, b.deps _ ha] using h) (ih (b.targets _ ha _ h))

theorem reach_of_kahnPath {g : Graph} (b : Base g) (norder : List Key) {a c : Key}
    (p : Kahn.Path (kahnView g norder) a c) (ha : a ∈ g.nodes) : Reach g.edges a c := by
  induction p with
  | single h =>
    simp only [kahnView] at h; rw [b.deps _ ha] at h; exact .single h
  | cons h _ ih =>
    simp only [kahnView] at h; rw [b.deps _ ha] at h
    exact .cons h (ih (b.targets _ ha _ h))

theorem kahn_hasCycle_iff {g : Graph} (b : Base g) (norder : List Key) (hp : norder.Perm g.nodes) :
    Kahn.HasCycle (kahnView g norder) ↔ HasCycle (abs g) := by
  constructor
  · rintro ⟨k, hk, p⟩
    have hk' : k ∈ g.nodes := hp.mem_iff.1 hk
    exact ⟨k, hk', reach_of_kahnPath b norder p hk'⟩
  · rintro ⟨k, hk, p⟩
    exact ⟨k, hp.mem_iff.2 hk, kahnPath_of_reach b norder p hk⟩

end Godi.Graph
