import GodiProofs.Graph.Bridge
import GodiProofs.Graph.DfsFuel
/-! `findCyclePath` only ever reports real closed walks; `detectCyclesFrom` at the model level. -/
namespace Godi.Graph
open Godi.Kahn (Key)
open Godi.Spec

theorem isWalk_cons_cons (edges : Key → List Key) (a b : Key) (rest : List Key) :
    isWalk edges (a :: b :: rest) = (decide (b ∈ edges a) && isWalk edges (b :: rest)) := by
  simp [isWalk]

def GoodRes (edges : Key → List Key) (start n : Key) (q : List Key) : Prop :=
  q.head? = some n ∧ isWalk edges (q ++ [start]) = true

theorem searchList_sound (edges : Key → List Key) (start : Key)
    (rec : Key → List Key → Option (List Key) × List Key)
    (hrec : ∀ n v q, (rec n v).1 = some q → GoodRes edges start n q) :
    ∀ (l vis : List Key) (p : List Key), (searchList rec start l vis).1 = some p →
      (p = [] ∧ start ∈ l) ∨ (∃ n ∈ l, GoodRes edges start n p) := by
  intro l
  induction l with
  | nil => intro vis p h; simp [searchList] at h
  | cons n rest ih =>
    intro vis p h
    unfold searchList at h
    split at h
    next hn =>
      simp at h; subst h; exact Or.inl ⟨rfl, by simp [hn]⟩
    next hn =>
      split at h
      · rcases ih _ _ h with ⟨h1, h2⟩ | ⟨m, hm, hg⟩
        · exact Or.inl ⟨h1, List.mem_cons_of_mem _ h2⟩
        · exact Or.inr ⟨m, List.mem_cons_of_mem _ hm, hg⟩
      · split at h
        next q v heq =>
          simp at h; subst h
          exact Or.inr ⟨n, by simp, hrec n (n :: vis) q (by rw [heq])⟩
        next v heq =>
          rcases ih _ _ h with ⟨h1, h2⟩ | ⟨m, hm, hg⟩
          · exact Or.inl ⟨h1, List.mem_cons_of_mem _ h2⟩
          · exact Or.inr ⟨m, List.mem_cons_of_mem _ hm, hg⟩

theorem search_sound (edges : Key → List Key) (start : Key) :
    ∀ (f : Nat) (cur : Key) (vis q : List Key), (search edges start f cur vis).1 = some q →
      GoodRes edges start cur q := by
  intro f
  induction f with
  | zero => intro cur vis q h; simp [search] at h
  | succ f ih =>
    intro cur vis q h
    unfold search at h
    split at h
    next p v heq =>
      simp at h; subst h
      have hl := searchList_sound edges start (search edges start f) (fun n v q hq => ih n v q hq)
        (edges cur) vis p (by rw [heq])
      rcases hl with ⟨rfl, hs⟩ | ⟨n, hn, hg1, hg2⟩
      · exact ⟨rfl, by simp [isWalk, hs]⟩
      · refine ⟨rfl, ?_⟩
        cases p with
        | nil => simp at hg1
        | cons a rest =>
          simp at hg1; subst hg1
          simp only [List.cons_append] at hg2 ⊢
          rw [isWalk_cons_cons]; simp [hn, hg2]
    next v heq => simp at h

/-- the path of a circular-dependency error is a closed walk of the dependency relation that
starts and ends at the reported node -/
theorem findCyclePath_sound (g : Graph) (start : Key) (p : List Key) (h : findCyclePath g start = some p) :
    isClosedWalk g.edges p = true ∧ p.head? = some start := by
  unfold findCyclePath at h
  split at h
  next q heq =>
    simp at h; subst h
    obtain ⟨h1, h2⟩ := search_sound g.edges start _ start [] q heq
    cases q with
    | nil => simp at h1
    | cons a rest =>
      simp at h1; subst h1
      refine ⟨?_, by simp⟩
      simp only [isClosedWalk, Bool.and_eq_true, decide_eq_true_eq]
      refine ⟨⟨by simp, ?_⟩, h2⟩
      have : ((a :: rest) ++ [a]).getLast? = some a := List.getLast?_concat ..
      rw [this]; simp
  next => simp at h

/-- a closed walk with at least one edge is a cycle in the sense of the specification -/
theorem reach_of_isWalk (edges : Key → List Key) : ∀ (l : List Key) (a b : Key),
    isWalk edges (a :: l ++ [b]) = true → Reach edges a b := by
  intro l
  induction l with
  | nil => intro a b h; simp [isWalk] at h; exact .single h
  | cons c rest ih =>
    intro a b h
    simp only [List.cons_append] at h
    rw [isWalk_cons_cons] at h
    simp only [Bool.and_eq_true, decide_eq_true_eq] at h
    exact .cons h.1 (ih c b h.2)

/-! ### detectCyclesFrom -/

theorem edgeCount_eq (g : Graph) : edgeCount g = (g.nodes.map (fun k => (g.edges k).length)).sum := rfl

theorem detectCyclesFrom_never_fuel (g : Graph) (b : Base g) (s : Key) :
    (detectCyclesFrom g s).2 ≠ .fuel := by
  unfold detectCyclesFrom
  split
  · simp
  next hs =>
    have hs' : s ∈ g.nodes := by simpa using hs
    have := Dfs.detectFrom_no_fuel g.edges g.nodes b.nodesNodup b.targets s hs' (dfsFuel g)
      (by unfold dfsFuel; rw [edgeCount_eq]; omega)
    split
    · simp
    · simp
    next heq => exact absurd heq this

/-- SOUNDNESS: a reported node lies on a cycle, and a reported path is a real cycle through it -/
theorem detectCyclesFrom_sound (g : Graph) (s k : Key) (path : Option (List Key)) (g' : Graph)
    (h : detectCyclesFrom g s = (g', .cycle k path)) :
    Reach g.edges k k ∧ ∀ p, path = some p → isClosedWalk g.edges p = true ∧ p.head? = some k := by
  unfold detectCyclesFrom at h
  split at h
  · simp at h
  · split at h
    · simp at h
    next k' heq =>
      simp only [Prod.mk.injEq, CycleRes.cycle.injEq] at h
      obtain ⟨_, hk, hp⟩ := h
      subst hk
      refine ⟨reach_of_dfsPath (Dfs.detectFrom_sound g.edges _ s k' heq), ?_⟩
      intro p hpp
      exact findCyclePath_sound g k' p (by rw [hp, hpp])
    · simp at h

/-- COMPLETENESS: a clean run certifies that no cycle is reachable from the start node -/
theorem detectCyclesFrom_complete (g : Graph) (s : Key) (hs : s ∈ g.nodes) (g' : Graph)
    (h : detectCyclesFrom g s = (g', .ok)) :
    ¬ Reach g.edges s s ∧ ∀ c, Reach g.edges s c → ¬ Reach g.edges c c := by
  unfold detectCyclesFrom at h
  split at h
  next hn => exact absurd hs hn
  · split at h
    next out heq =>
      have := Dfs.detectFrom_complete g.edges _ s out heq
      refine ⟨fun hr => this s (Or.inl rfl) (dfsPath_of_reach hr), ?_⟩
      intro c hc hcc
      exact this c (Or.inr (dfsPath_of_reach hc)) (dfsPath_of_reach hcc)
    · simp at h
    · simp at h

/-- the answer of `detectCyclesFrom` depends on the structural fields only -/
theorem detectCyclesFrom_congr {g g' : Graph} (h : SameStruct g g') (k : Key) :
    (detectCyclesFrom g' k).2 = (detectCyclesFrom g k).2 := by
  obtain ⟨h1, h2, _, _, _, _, _, _⟩ := h
  unfold detectCyclesFrom dfsFuel edgeCount findCyclePath
  rw [h1, h2]
  split
  · rfl
  · split <;> rfl

theorem detectLoop_ok_iff (l : List Key) : ∀ (g : Graph),
    (detectLoop g l).2 = .ok ↔ ∀ k ∈ l, (detectCyclesFrom g k).2 = .ok := by
  induction l with
  | nil => intro g; simp [detectLoop]
  | cons k rest ih =>
    intro g
    unfold detectLoop
    split
    next g1 heq =>
      have e1 : g1 = (detectCyclesFrom g k).1 := by rw [heq]
      have e2 : (detectCyclesFrom g k).2 = .ok := by rw [heq]
      rw [ih g1]
      have hs : SameStruct g g1 := e1 ▸ detectCyclesFrom_same g k
      constructor
      · intro h x hx
        rcases List.mem_cons.1 hx with rfl | hx
        · exact e2
        · rw [← detectCyclesFrom_congr hs x]; exact h x hx
      · intro h x hx
        rw [detectCyclesFrom_congr hs x]; exact h x (List.mem_cons_of_mem _ hx)
    next r hne =>
      constructor
      · intro h; exact absurd h (by
          intro hh
          have : (detectCyclesFrom g k).2 = .ok := hh
          cases hd : detectCyclesFrom g k with
          | mk a b => rw [hd] at this; simp at this; subst this; exact hne a hd)
      · intro h
        have := h k (by simp)
        cases hd : detectCyclesFrom g k with
        | mk a b => rw [hd] at this; simp at this; subst this; exact absurd hd (hne a)

end Godi.Graph
