import GodiProofs.Graph.Inv
/-!
Every mutation of the graph model preserves the structural invariant `Base`, and the mutations
that finish with `updateDegrees` also establish `Synced`. The frame facts (`nodes`, `edges` after
each op) are what the refinement to the plain digraph (C19) is read off from.
-/
namespace Godi.Graph
open Godi.Kahn (Key)

theorem base_empty : Base ({} : Graph) := by
  refine ⟨by simp, by simp, ?_, ?_, ?_, ?_⟩ <;> simp

theorem synced_empty : Synced ({} : Graph) := by
  refine ⟨?_, ?_, ?_, ?_⟩ <;> simp

/-! ### insertNode / ensureNodes -/

theorem insertNode_nodes_mem (g : Graph) (k x : Key) : x ∈ (insertNode g k).nodes ↔ x ∈ g.nodes ∨ x = k := by
  unfold insertNode
  split
  next h => constructor
            · intro hx; exact Or.inl hx
            · rintro (hx | rfl); exact hx; exact h
  next h => simp

theorem insertNode_edges (g : Graph) (k : Key) : (insertNode g k).edges = g.edges ∧ (insertNode g k).ekeys = g.ekeys := by
  unfold insertNode; split <;> simp

theorem insertNode_base (g : Graph) (k : Key) (b : Base g) : Base (insertNode g k) := by
  unfold insertNode
  split
  · exact b
  next hk =>
    have hke : k ∉ g.ekeys := fun h => hk (b.ekeysSub k h)
    refine ⟨?_, b.ekeysNodup, ?_, ?_, b.offKeys, ?_⟩
    · simp only [List.nodup_append, List.nodup_cons, List.not_mem_nil, not_false_eq_true, List.nodup_nil,
        and_self, List.mem_cons, or_false, true_and]
      exact ⟨b.nodesNodup, by intro a ha b' hb; subst hb; intro h; subst h; exact hk ha⟩
    · intro x hx; simp only [List.mem_append, List.mem_singleton]; exact Or.inl (b.ekeysSub x hx)
    · intro x hx d hd
      simp only [List.mem_append, List.mem_singleton] at hx ⊢
      rcases hx with hx | rfl
      · exact Or.inl (b.targets x hx d hd)
      · simp [b.offKeys x hke] at hd
    · intro x hx
      simp only [List.mem_append, List.mem_singleton] at hx
      by_cases hxk : x = k
      · subst hxk; simp [b.offKeys x hke]
      · rcases hx with hx | hx
        · simp [hxk, b.deps x hx]
        · exact absurd hx hxk

theorem ensureNodes_spec (ds : List Key) : ∀ (g : Graph), Base g →
    Base (ensureNodes g ds).1 ∧ (ensureNodes g ds).1.edges = g.edges ∧ (ensureNodes g ds).1.ekeys = g.ekeys ∧
    (∀ x, x ∈ (ensureNodes g ds).1.nodes ↔ x ∈ g.nodes ∨ x ∈ ds) ∧
    (∀ x, x ∈ (ensureNodes g ds).2 ↔ x ∉ g.nodes ∧ x ∈ ds) ∧
    (∀ x ∈ g.nodes, (ensureNodes g ds).1.ndeps x = g.ndeps x ∧ (ensureNodes g ds).1.prov x = g.prov x) := by
  induction ds with
  | nil => intro g b; simp [ensureNodes, b]
  | cons d rest ih =>
    intro g b
    unfold ensureNodes
    split
    next hd =>
      obtain ⟨h1, h2, h3, h4, h5, h6⟩ := ih g b
      refine ⟨h1, h2, h3, ?_, ?_, h6⟩
      · intro x; rw [h4]; simp only [List.mem_cons]
        constructor
        · rintro (h | h); exact Or.inl h; exact Or.inr (Or.inr h)
        · rintro (h | h | h); exact Or.inl h; subst h; exact Or.inl hd; exact Or.inr h
      · intro x; rw [h5]; simp only [List.mem_cons]
        constructor
        · rintro ⟨a, c⟩; exact ⟨a, Or.inr c⟩
        · rintro ⟨a, c | c⟩; subst c; exact absurd hd a; exact ⟨a, c⟩
    next hd =>
      obtain ⟨h1, h2, h3, h4, h5, h6⟩ := ih (insertNode g d) (insertNode_base g d b)
      have e := insertNode_edges g d
      simp only []
      refine ⟨h1, h2.trans e.1, h3.trans e.2, ?_, ?_, ?_⟩
      · intro x; rw [h4, insertNode_nodes_mem]; simp only [List.mem_cons]
        constructor
        · rintro ((h | h) | h); exact Or.inl h; exact Or.inr (Or.inl h); exact Or.inr (Or.inr h)
        · rintro (h | h | h); exact Or.inl (Or.inl h); exact Or.inl (Or.inr h); exact Or.inr h
      · intro x; simp only [List.mem_cons]; rw [h5, insertNode_nodes_mem]
        constructor
        · rintro (rfl | ⟨a, c⟩)
          · exact ⟨hd, Or.inl rfl⟩
          · exact ⟨fun h => a (Or.inl h), Or.inr c⟩
        · rintro ⟨a, rfl | c⟩
          · exact Or.inl rfl
          · by_cases hx : x = d
            · exact Or.inl hx
            · exact Or.inr ⟨by rintro (h | h); exact a h; exact hx h, c⟩
      · intro x hx
        have hxd : x ≠ d := by intro h; subst h; exact hd hx
        have := h6 x ((insertNode_nodes_mem g d x).2 (Or.inl hx))
        rw [this.1, this.2]
        unfold insertNode
        simp [hd, hxd]

/-! ### writing / deleting an adjacency list -/

/-- `node.Dependencies = ds; g.edges[k] = ds` -/
def putEdges (g : Graph) (k : Key) (ds : List Key) : Graph :=
  setEdges { g with ndeps := upd g.ndeps k ds } k ds

/-- `node.Dependencies = nil; delete(g.edges, k)` -/
def dropEdges (g : Graph) (k : Key) : Graph :=
  delEdges { g with ndeps := upd g.ndeps k [] } k

theorem putEdges_base (g : Graph) (k : Key) (ds : List Key) (b : Base g) (hk : k ∈ g.nodes)
    (hds : ∀ d ∈ ds, d ∈ g.nodes) : Base (putEdges g k ds) := by
  unfold putEdges setEdges
  refine ⟨b.nodesNodup, ?_, ?_, ?_, ?_, ?_⟩
  · simp only []
    split
    · exact b.ekeysNodup
    next h =>
      simp only [List.nodup_append, List.nodup_cons, List.not_mem_nil, not_false_eq_true, List.nodup_nil,
        and_self, List.mem_cons, or_false, true_and]
      exact ⟨b.ekeysNodup, by intro a ha b' hb; subst hb; intro h'; subst h'; exact h ha⟩
  · intro x hx
    simp only [] at hx ⊢
    split at hx
    · exact b.ekeysSub x hx
    · simp only [List.mem_append, List.mem_singleton] at hx
      rcases hx with hx | rfl
      · exact b.ekeysSub x hx
      · exact hk
  · intro x hx d hd
    simp only [] at hx hd ⊢
    by_cases hxk : x = k
    · subst hxk; simp at hd; exact hds d hd
    · simp [hxk] at hd; exact b.targets x hx d hd
  · intro x hx
    simp only [] at hx ⊢
    have hxk : x ≠ k := by
      intro h; subst h; apply hx; split; assumption; simp
    have hx' : x ∉ g.ekeys := by
      intro h; apply hx; split; exact h; simp [h]
    simp [hxk, b.offKeys x hx']
  · intro x hx
    simp only [] at hx ⊢
    by_cases hxk : x = k
    · subst hxk; simp
    · simp [hxk, b.deps x hx]

theorem dropEdges_base (g : Graph) (k : Key) (b : Base g) : Base (dropEdges g k) := by
  unfold dropEdges delEdges
  refine ⟨b.nodesNodup, b.ekeysNodup.erase k, ?_, ?_, ?_, ?_⟩
  · intro x hx; exact b.ekeysSub x (List.mem_of_mem_erase hx)
  · intro x hx d hd
    simp only [] at hx hd ⊢
    by_cases hxk : x = k
    · subst hxk; simp at hd
    · simp [hxk] at hd; exact b.targets x hx d hd
  · intro x hx
    simp only [] at hx ⊢
    by_cases hxk : x = k
    · subst hxk; simp
    · have : x ∉ g.ekeys := fun h => hx ((List.mem_erase_of_ne hxk).2 h)
      simp [hxk, b.offKeys x this]
  · intro x hx
    simp only [] at hx ⊢
    by_cases hxk : x = k
    · subst hxk; simp
    · simp [hxk, b.deps x hx]

def setProv (g : Graph) (k : Key) (p : Option Nat) : Graph := { g with prov := upd g.prov k p }

theorem setProv_base (g : Graph) (k : Key) (p : Option Nat) (b : Base g) : Base (setProv g k p) :=
  ⟨b.nodesNodup, b.ekeysNodup, b.ekeysSub, b.targets, b.offKeys, b.deps⟩

@[simp] theorem setProv_nodes (g : Graph) (k : Key) (p : Option Nat) : (setProv g k p).nodes = g.nodes := rfl
@[simp] theorem setProv_edges (g : Graph) (k : Key) (p : Option Nat) : (setProv g k p).edges = g.edges := rfl
@[simp] theorem setProv_ekeys (g : Graph) (k : Key) (p : Option Nat) : (setProv g k p).ekeys = g.ekeys := rfl
@[simp] theorem setProv_ndeps (g : Graph) (k : Key) (p : Option Nat) : (setProv g k p).ndeps = g.ndeps := rfl

theorem setFlags_base (g : Graph) (a c : Bool) (b : Base g) :
    Base { g with sortedDirty := a, cycleDirty := c } :=
  ⟨b.nodesNodup, b.ekeysNodup, b.ekeysSub, b.targets, b.offKeys, b.deps⟩

theorem setFlags_synced (g : Graph) (a c : Bool) (s : Synced g) :
    Synced { g with sortedDirty := a, cycleDirty := c } :=
  ⟨s.depnSub, s.cons, s.inDeg, s.outDeg⟩

/-! ### AddProviderDeferred -/

theorem addProviderDeferred_eq (g : Graph) (k : Key) (p : Nat) (ds : List Key) :
    addProviderDeferred g k p ds =
      { (if ds.length > 0 then putEdges (ensureNodes (setProv (insertNode g k) k (some p)) ds).1 k ds
         else dropEdges (setProv (insertNode g k) k (some p)) k) with sortedDirty := true, cycleDirty := true } := by
  unfold addProviderDeferred putEdges dropEdges setProv
  simp only []

theorem addProviderDeferred_base (g : Graph) (k : Key) (p : Nat) (ds : List Key) (b : Base g) :
    Base (addProviderDeferred g k p ds) := by
  rw [addProviderDeferred_eq]
  have b2 : Base (setProv (insertNode g k) k (some p)) := setProv_base _ _ _ (insertNode_base g k b)
  have hk2 : k ∈ (insertNode g k).nodes := (insertNode_nodes_mem g k k).2 (Or.inr rfl)
  apply setFlags_base
  split
  · obtain ⟨h1, _, _, h4, _⟩ := ensureNodes_spec ds _ b2
    apply putEdges_base _ _ _ h1
    · exact (h4 k).2 (Or.inl hk2)
    · intro d hd; exact (h4 d).2 (Or.inr hd)
  · exact dropEdges_base _ _ b2

/-- refinement facts of the deferred add: the adjacency function and the node set -/
theorem addProviderDeferred_edges (g : Graph) (k : Key) (p : Nat) (ds : List Key) (b : Base g) :
    (addProviderDeferred g k p ds).edges = upd g.edges k ds := by
  rw [addProviderDeferred_eq]
  have e := insertNode_edges g k
  have b2 : Base (setProv (insertNode g k) k (some p)) := setProv_base _ _ _ (insertNode_base g k b)
  split
  next h =>
    obtain ⟨_, h2, _⟩ := ensureNodes_spec ds _ b2
    show upd (ensureNodes (setProv (insertNode g k) k (some p)) ds).1.edges k ds = _
    rw [h2, setProv_edges, e.1]
  next h =>
    have : ds = [] := by cases ds with | nil => rfl | cons _ _ => simp at h
    subst this
    show upd (setProv (insertNode g k) k (some p)).edges k [] = _
    rw [setProv_edges, e.1]

theorem addProviderDeferred_nodes (g : Graph) (k : Key) (p : Nat) (ds : List Key) (b : Base g) (x : Key) :
    x ∈ (addProviderDeferred g k p ds).nodes ↔ x ∈ g.nodes ∨ x = k ∨ x ∈ ds := by
  rw [addProviderDeferred_eq]
  have b2 : Base (setProv (insertNode g k) k (some p)) := setProv_base _ _ _ (insertNode_base g k b)
  split
  next h =>
    obtain ⟨_, _, _, h4, _⟩ := ensureNodes_spec ds _ b2
    show x ∈ (ensureNodes (setProv (insertNode g k) k (some p)) ds).1.nodes ↔ _
    rw [h4, setProv_nodes, insertNode_nodes_mem]
    constructor
    · rintro ((h | h) | h); exact Or.inl h; exact Or.inr (Or.inl h); exact Or.inr (Or.inr h)
    · rintro (h | h | h); exact Or.inl (Or.inl h); exact Or.inl (Or.inr h); exact Or.inr h
  next h =>
    have : ds = [] := by cases ds with | nil => rfl | cons _ _ => simp at h
    subst this
    show x ∈ (setProv (insertNode g k) k (some p)).nodes ↔ _
    rw [setProv_nodes, insertNode_nodes_mem]
    simp

end Godi.Graph
