import GodiModel.Graph
import GodiProofs.Graph.KahnMain
/-!
Structural invariant `Base` of the M1 graph state and the fact that `updateDegrees` (for every
iteration order of `g.edges`) establishes `Synced`: the per-node `Dependents`/degree fields agree
with the adjacency lists. `Synced` is exactly the well-formedness (`Kahn.WF`) that the proof of
Kahn's algorithm needs.
-/
namespace Godi.Graph
open Godi.Kahn (Key)

structure Base (g : Graph) : Prop where
  nodesNodup : g.nodes.Nodup
  ekeysNodup : g.ekeys.Nodup
  ekeysSub : ∀ k ∈ g.ekeys, k ∈ g.nodes
  targets : ∀ k ∈ g.nodes, ∀ d ∈ g.edges k, d ∈ g.nodes
  offKeys : ∀ k, k ∉ g.ekeys → g.edges k = []
  deps : ∀ k ∈ g.nodes, g.ndeps k = g.edges k

structure Synced (g : Graph) : Prop where
  depnSub : ∀ q ∈ g.nodes, ∀ k ∈ g.ndependents q, k ∈ g.nodes
  cons : ∀ q ∈ g.nodes, ∀ k ∈ g.nodes, (g.ndependents q).count k = (g.edges k).count q
  inDeg : ∀ q ∈ g.nodes, g.inDeg q = (g.ndependents q).length
  outDeg : ∀ k ∈ g.nodes, g.outDeg k = (g.edges k).length

/-! ### bumpTargets -/

theorem bumpTargets_frame (f : Key) (tos : List Key) : ∀ (g : Graph),
    (bumpTargets f g tos).nodes = g.nodes ∧ (bumpTargets f g tos).edges = g.edges ∧
    (bumpTargets f g tos).ekeys = g.ekeys ∧ (bumpTargets f g tos).ndeps = g.ndeps ∧
    (bumpTargets f g tos).outDeg = g.outDeg ∧ (bumpTargets f g tos).prov = g.prov ∧
    (bumpTargets f g tos).sorted = g.sorted ∧ (bumpTargets f g tos).sortedDirty = g.sortedDirty ∧
    (bumpTargets f g tos).cycleTrue = g.cycleTrue ∧ (bumpTargets f g tos).cycleDirty = g.cycleDirty ∧
    (bumpTargets f g tos).depth = g.depth := by
  induction tos with
  | nil => intro g; simp [bumpTargets]
  | cons t rest ih =>
    intro g
    unfold bumpTargets
    split
    · have := ih { g with inDeg := upd g.inDeg t (g.inDeg t + 1),
                           ndependents := upd g.ndependents t (g.ndependents t ++ [f]) }
      simpa using this
    · exact ih g

theorem bumpTargets_dependents (f : Key) (tos : List Key) : ∀ (g : Graph) (q : Key),
    (bumpTargets f g tos).ndependents q =
      g.ndependents q ++ List.replicate (if q ∈ g.nodes then tos.count q else 0) f := by
  induction tos with
  | nil => intro g q; simp [bumpTargets]
  | cons t rest ih =>
    intro g q
    unfold bumpTargets
    split
    next ht =>
      rw [ih]
      by_cases hq : q = t
      · subst hq
        simp [ht, List.replicate_succ, List.append_assoc]
      · have : t ≠ q := Ne.symm hq
        by_cases hqn : q ∈ g.nodes <;> simp [hq, hqn, List.count_cons, this]
    next ht =>
      rw [ih]
      by_cases hq : q = t
      · subst hq; simp [ht]
      · have : t ≠ q := Ne.symm hq
        by_cases hqn : q ∈ g.nodes <;> simp [hqn, List.count_cons, this]

theorem bumpTargets_inDeg (f : Key) (tos : List Key) : ∀ (g : Graph) (q : Key),
    (bumpTargets f g tos).inDeg q = g.inDeg q + (if q ∈ g.nodes then tos.count q else 0) := by
  induction tos with
  | nil => intro g q; simp [bumpTargets]
  | cons t rest ih =>
    intro g q
    unfold bumpTargets
    split
    next ht =>
      rw [ih]
      by_cases hq : q = t
      · subst hq; simp [ht]; omega
      · have : t ≠ q := Ne.symm hq
        by_cases hqn : q ∈ g.nodes <;> simp [hq, hqn, List.count_cons, this]
    next ht =>
      rw [ih]
      by_cases hq : q = t
      · subst hq; simp [ht]
      · have : t ≠ q := Ne.symm hq
        by_cases hqn : q ∈ g.nodes <;> simp [hqn, List.count_cons, this]

/-! ### degLoop -/

/-- one iteration of the outer loop of `updateDegrees` for a key that has a node -/
def degStep (g : Graph) (f : Key) : Graph :=
  bumpTargets f { g with outDeg := upd g.outDeg f (g.edges f).length, ndeps := upd g.ndeps f (g.edges f) } (g.edges f)

theorem degLoop_cons (g : Graph) (f : Key) (rest : List Key) :
    degLoop g (f :: rest) = if f ∈ g.nodes then degLoop (degStep g f) rest else degLoop g rest := by
  simp [degLoop, degStep]

theorem degStep_nodes (g : Graph) (f : Key) : (degStep g f).nodes = g.nodes :=
  (bumpTargets_frame f _ _).1
theorem degStep_edges (g : Graph) (f : Key) : (degStep g f).edges = g.edges :=
  (bumpTargets_frame f _ _).2.1
theorem degStep_ekeys (g : Graph) (f : Key) : (degStep g f).ekeys = g.ekeys :=
  (bumpTargets_frame f _ _).2.2.1
theorem degStep_ndeps (g : Graph) (f : Key) : (degStep g f).ndeps = upd g.ndeps f (g.edges f) :=
  (bumpTargets_frame f _ _).2.2.2.1
theorem degStep_outDeg (g : Graph) (f : Key) : (degStep g f).outDeg = upd g.outDeg f (g.edges f).length :=
  (bumpTargets_frame f _ _).2.2.2.2.1
theorem degStep_rest (g : Graph) (f : Key) :
    (degStep g f).prov = g.prov ∧ (degStep g f).sorted = g.sorted ∧ (degStep g f).sortedDirty = g.sortedDirty ∧
    (degStep g f).cycleTrue = g.cycleTrue ∧ (degStep g f).cycleDirty = g.cycleDirty ∧ (degStep g f).depth = g.depth :=
  (bumpTargets_frame f _ _).2.2.2.2.2
theorem degStep_dependents (g : Graph) (f q : Key) :
    (degStep g f).ndependents q =
      g.ndependents q ++ List.replicate (if q ∈ g.nodes then (g.edges f).count q else 0) f :=
  bumpTargets_dependents f _ _ q
theorem degStep_inDeg (g : Graph) (f q : Key) :
    (degStep g f).inDeg q = g.inDeg q + (if q ∈ g.nodes then (g.edges f).count q else 0) :=
  bumpTargets_inDeg f _ _ q

theorem degLoop_frame (order : List Key) : ∀ (g : Graph),
    (degLoop g order).nodes = g.nodes ∧ (degLoop g order).edges = g.edges ∧
    (degLoop g order).ekeys = g.ekeys ∧ (degLoop g order).prov = g.prov ∧
    (degLoop g order).sorted = g.sorted ∧ (degLoop g order).sortedDirty = g.sortedDirty ∧
    (degLoop g order).cycleTrue = g.cycleTrue ∧ (degLoop g order).cycleDirty = g.cycleDirty ∧
    (degLoop g order).depth = g.depth := by
  induction order with
  | nil => intro g; simp [degLoop]
  | cons f rest ih =>
    intro g
    rw [degLoop_cons]
    split
    · obtain ⟨a1, a2, a3, a4, a5, a6, a7, a8, a9⟩ := ih (degStep g f)
      obtain ⟨b4, b5, b6, b7, b8, b9⟩ := degStep_rest g f
      exact ⟨a1.trans (degStep_nodes g f), a2.trans (degStep_edges g f), a3.trans (degStep_ekeys g f),
        a4.trans b4, a5.trans b5, a6.trans b6, a7.trans b7, a8.trans b8, a9.trans b9⟩
    · exact ih g

/-- count form of the `Dependents` lists built by the second loop of `updateDegrees` -/
theorem degLoop_count (order : List Key) : ∀ (g : Graph) (q k : Key),
    ((degLoop g order).ndependents q).count k =
      (g.ndependents q).count k +
        (if q ∈ g.nodes ∧ k ∈ g.nodes then order.count k * (g.edges k).count q else 0) := by
  induction order with
  | nil => intro g q k; simp [degLoop]
  | cons f rest ih =>
    intro g q k
    rw [degLoop_cons]
    split
    next hf =>
      rw [ih, degStep_nodes, degStep_edges, degStep_dependents]
      by_cases hq : q ∈ g.nodes
      · by_cases hk : k ∈ g.nodes
        · by_cases hkf : k = f
          · subst hkf
            simp only [hq, hk, and_self, if_true, List.count_append, List.count_replicate_self,
              List.count_cons_self, Nat.add_mul, Nat.one_mul]
            omega
          · have h1 : f ≠ k := Ne.symm hkf
            have h2 : (f == k) = false := by simp [h1]
            simp [hq, hk, List.count_append, List.count_replicate, List.count_cons, h2]
        · simp [hq, hk, List.count_append, List.count_replicate]
          intro h; subst h; exact absurd hf hk
      · simp [hq]
    next hf =>
      rw [ih]
      by_cases hkf : k = f
      · subst hkf; simp [hf]
      · have h1 : f ≠ k := Ne.symm hkf
        have h2 : (f == k) = false := by simp [h1]
        simp [List.count_cons, h2]

theorem degLoop_mem (order : List Key) : ∀ (g : Graph) (q k : Key),
    k ∈ (degLoop g order).ndependents q → k ∈ g.ndependents q ∨ (k ∈ order ∧ k ∈ g.nodes) := by
  induction order with
  | nil => intro g q k h; simpa [degLoop] using h
  | cons f rest ih =>
    intro g q k h
    rw [degLoop_cons] at h
    split at h
    next hf =>
      rcases ih _ q k h with h1 | ⟨h1, h2⟩
      · rw [degStep_dependents] at h1
        simp only [List.mem_append, List.mem_replicate] at h1
        rcases h1 with h1 | ⟨_, h1⟩
        · exact Or.inl h1
        · subst h1; exact Or.inr ⟨by simp, hf⟩
      · rw [degStep_nodes] at h2
        exact Or.inr ⟨by simp [h1], h2⟩
    next hf =>
      rcases ih _ q k h with h1 | ⟨h1, h2⟩
      · exact Or.inl h1
      · exact Or.inr ⟨by simp [h1], h2⟩

theorem degLoop_inDeg (order : List Key) : ∀ (g : Graph),
    (∀ q, g.inDeg q = (g.ndependents q).length) →
    ∀ q, (degLoop g order).inDeg q = ((degLoop g order).ndependents q).length := by
  induction order with
  | nil => intro g h q; simpa [degLoop] using h q
  | cons f rest ih =>
    intro g h q
    rw [degLoop_cons]
    split
    next hf =>
      apply ih
      intro q'
      rw [degStep_inDeg, degStep_dependents]
      simp [h q']
    next hf => exact ih g h q

theorem degLoop_outDeg (order : List Key) : ∀ (g : Graph) (k : Key),
    (degLoop g order).outDeg k =
      if k ∈ order ∧ k ∈ g.nodes then (g.edges k).length else g.outDeg k := by
  induction order with
  | nil => intro g k; simp [degLoop]
  | cons f rest ih =>
    intro g k
    rw [degLoop_cons]
    split
    next hf =>
      rw [ih, degStep_nodes, degStep_edges, degStep_outDeg]
      by_cases hkf : k = f
      · subst hkf; simp [hf]
      · simp [hkf]
    next hf =>
      rw [ih]
      by_cases hkf : k = f
      · subst hkf; simp [hf]
      · simp [hkf]

theorem degLoop_ndeps (order : List Key) : ∀ (g : Graph) (k : Key),
    (degLoop g order).ndeps k =
      if k ∈ order ∧ k ∈ g.nodes then g.edges k else g.ndeps k := by
  induction order with
  | nil => intro g k; simp [degLoop]
  | cons f rest ih =>
    intro g k
    rw [degLoop_cons]
    split
    next hf =>
      rw [ih, degStep_nodes, degStep_edges, degStep_ndeps]
      by_cases hkf : k = f
      · subst hkf; simp [hf]
      · simp [hkf]
    next hf =>
      rw [ih]
      by_cases hkf : k = f
      · subst hkf; simp [hf]
      · simp [hkf]

/-! ### updateDegrees -/

theorem updateDegreesWith_frame (g : Graph) (eorder : List Key) :
    (updateDegreesWith g eorder).nodes = g.nodes ∧ (updateDegreesWith g eorder).edges = g.edges ∧
    (updateDegreesWith g eorder).ekeys = g.ekeys ∧ (updateDegreesWith g eorder).prov = g.prov ∧
    (updateDegreesWith g eorder).sorted = g.sorted ∧ (updateDegreesWith g eorder).sortedDirty = g.sortedDirty ∧
    (updateDegreesWith g eorder).cycleTrue = g.cycleTrue ∧ (updateDegreesWith g eorder).cycleDirty = g.cycleDirty ∧
    (updateDegreesWith g eorder).depth = g.depth := by
  unfold updateDegreesWith
  exact degLoop_frame eorder _

theorem updateDegreesWith_base (g : Graph) (eorder : List Key) (hp : eorder.Perm g.ekeys) (b : Base g) :
    Base (updateDegreesWith g eorder) := by
  have fr := updateDegreesWith_frame g eorder
  obtain ⟨f1, f2, f3, -⟩ := fr
  refine ⟨by rw [f1]; exact b.nodesNodup, by rw [f3]; exact b.ekeysNodup, ?_, ?_, ?_, ?_⟩
  · intro k hk; rw [f3] at hk; rw [f1]; exact b.ekeysSub k hk
  · intro k hk d hd; rw [f1] at hk ⊢; rw [f2] at hd; exact b.targets k hk d hd
  · intro k hk; rw [f3] at hk; rw [f2]; exact b.offKeys k hk
  · intro k hk
    rw [f1] at hk; rw [f2]
    unfold updateDegreesWith
    rw [degLoop_ndeps]
    simp only []
    split
    · rfl
    · exact b.deps k hk

/-- `updateDegrees`, for every iteration order of the `edges` map, makes the per-node fields agree
with the adjacency lists. -/
theorem updateDegreesWith_synced (g : Graph) (eorder : List Key) (hp : eorder.Perm g.ekeys) (b : Base g) :
    Synced (updateDegreesWith g eorder) := by
  have fr := updateDegreesWith_frame g eorder
  obtain ⟨f1, f2, f3, -⟩ := fr
  have hnd : eorder.Nodup := (List.Perm.nodup_iff hp).mpr b.ekeysNodup
  have hmem : ∀ k, k ∈ eorder ↔ k ∈ g.ekeys := fun k => hp.mem_iff
  refine ⟨?_, ?_, ?_, ?_⟩
  · intro q _ k hk
    rw [f1]
    unfold updateDegreesWith at hk
    rcases degLoop_mem eorder _ q k hk with h | ⟨_, h⟩
    · simp at h
    · exact h
  · intro q hq k hk
    rw [f1] at hq hk; rw [f2]
    unfold updateDegreesWith
    rw [degLoop_count]
    simp only [List.count_nil, Nat.zero_add, hq, hk, and_self, if_true]
    by_cases hke : k ∈ g.ekeys
    · have : eorder.count k = 1 := by rw [hnd.count]; simp [(hmem k).mpr hke]
      simp [this]
    · simp [b.offKeys k hke]
  · intro q _
    unfold updateDegreesWith
    exact degLoop_inDeg eorder _ (by intro q'; simp) q
  · intro k hk
    rw [f1] at hk; rw [f2]
    unfold updateDegreesWith
    rw [degLoop_outDeg]
    simp only []
    split
    · rfl
    next h =>
      have : k ∉ g.ekeys := by
        intro hke; exact h ⟨(hmem k).mpr hke, hk⟩
      simp [b.offKeys k this]

/-- `Base ∧ Synced` is the well-formedness the Kahn proof needs, for every order in which the
`depCounts` map is ranged over. -/
theorem kahn_wf (g : Graph) (b : Base g) (s : Synced g) (norder : List Key) (hp : norder.Perm g.nodes) :
    Kahn.WF (kahnView g norder) := by
  have hmem : ∀ k, k ∈ norder ↔ k ∈ g.nodes := fun k => hp.mem_iff
  refine ⟨(List.Perm.nodup_iff hp).mpr b.nodesNodup, ?_, ?_, ?_⟩
  · intro k hk d hd
    simp only [kahnView] at hk hd ⊢
    rw [hmem] at hk ⊢
    rw [b.deps k hk] at hd
    exact b.targets k hk d hd
  · intro q hq k hk
    simp only [kahnView] at hq hk ⊢
    rw [hmem] at hq ⊢
    exact s.depnSub q hq k hk
  · intro q hq k hk
    simp only [kahnView] at hq hk ⊢
    rw [hmem] at hq hk
    rw [b.deps k hk]
    exact s.cons q hq k hk

end Godi.Graph
