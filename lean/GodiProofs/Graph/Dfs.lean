import GodiModel.Dfs
import GodiProofs.Graph.KahnMain
namespace Godi.Dfs
open Godi.Kahn (Key)

/-! ### reachability -/
inductive Path (edges : Key → List Key) : Key → Key → Prop
  | single {a b} : b ∈ edges a → Path edges a b
  | cons {a b c} : b ∈ edges a → Path edges b c → Path edges a c

theorem Path.snoc {edges} {a c b : Key} (p : Path edges a c) (h : b ∈ edges c) : Path edges a b := by
  induction p with
  | single h1 => exact .cons h1 (.single h)
  | cons h1 _ ih => exact .cons h1 (ih h)

/-- reflexive-transitive reachability -/
def RT (edges : Key → List Key) (a b : Key) : Prop := a = b ∨ Path edges a b

theorem RT.snoc {edges} {a c b : Key} (p : RT edges a c) (h : b ∈ edges c) : Path edges a b := by
  rcases p with rfl | p
  · exact .single h
  · exact p.snoc h

/-! ### stack structure -/
def markers : List Item → List Key
  | [] => []
  | it :: st => if it.fresh then markers st else it.key :: markers st

def nearest : List Item → Option Key
  | [] => none
  | it :: st => if it.fresh then nearest st else some it.key

def Good (edges : Key → List Key) : List Item → Prop
  | [] => True
  | it :: st => (∀ p, nearest st = some p → it.key ∈ edges p) ∧ Good edges st

theorem nearest_of_mem_markers : ∀ (st : List Item) (k : Key), k ∈ markers st → ∃ t, nearest st = some t
  | it :: st, k, h => by
    cases hf : it.fresh
    · exact ⟨it.key, by simp [nearest, hf]⟩
    · simp [markers, hf] at h
      obtain ⟨t, ht⟩ := nearest_of_mem_markers st k h
      exact ⟨t, by simp [nearest, hf, ht]⟩

theorem chain_to_nearest (edges) : ∀ (st : List Item), Good edges st → ∀ k ∈ markers st, ∀ t,
    nearest st = some t → RT edges k t
  | it :: st, g, k, hk, t, ht => by
    cases hf : it.fresh
    · simp [nearest, hf] at ht
      simp [markers, hf] at hk
      subst ht
      rcases hk with hk | hk
      · exact Or.inl hk
      · obtain ⟨t', ht'⟩ := nearest_of_mem_markers st k hk
        have h1 := chain_to_nearest edges st g.2 k hk t' ht'
        exact Or.inr (h1.snoc (g.1 t' ht'))
    · simp [nearest, hf] at ht
      simp [markers, hf] at hk
      exact chain_to_nearest edges st g.2 k hk t ht

theorem markers_push_append (edges visited k) (rest : List Item) :
    markers (push edges visited k ++ rest) = markers rest := by
  unfold push
  induction ((edges k).filter (fun d => decide (d ∉ visited))).reverse with
  | nil => simp
  | cons a l ih => simp [markers, ih]

theorem nearest_push_append (edges visited k) (rest : List Item) :
    nearest (push edges visited k ++ rest) = nearest rest := by
  unfold push
  induction ((edges k).filter (fun d => decide (d ∉ visited))).reverse with
  | nil => simp
  | cons a l ih => simp [nearest, ih]

theorem nearest_fresh_append : ∀ (l rest : List Item), (∀ i ∈ l, i.fresh = true) →
    nearest (l ++ rest) = nearest rest
  | [], _, _ => rfl
  | a :: l, rest, h => by
    have ha := h a (by simp)
    simp only [List.cons_append, nearest, ha, if_true]
    exact nearest_fresh_append l rest (fun i hi => h i (by simp [hi]))

theorem good_fresh_append (edges) (k : Key) (st : List Item) (g : Good edges (⟨k, false⟩ :: st)) :
    ∀ (P : List Item), (∀ i ∈ P, i.fresh = true ∧ i.key ∈ edges k) →
      Good edges (P ++ ⟨k, false⟩ :: st)
  | [], _ => g
  | a :: l, h => by
    refine ⟨?_, good_fresh_append edges k st g l (fun i hi => h i (by simp [hi]))⟩
    intro p hp
    change nearest (l ++ ⟨k, false⟩ :: st) = some p at hp
    rw [nearest_fresh_append l _ (fun i hi => (h i (by simp [hi])).1)] at hp
    simp [nearest] at hp
    subst hp
    exact (h a (by simp)).2

theorem good_push (edges visited) (k : Key) (st : List Item) (g : Good edges (⟨k, false⟩ :: st)) :
    Good edges (push edges visited k ++ ⟨k, false⟩ :: st) := by
  apply good_fresh_append edges k st g
  intro i hi
  simp [push] at hi
  obtain ⟨a, ⟨h1, _⟩, rfl⟩ := hi
  exact ⟨rfl, h1⟩

/-! ### soundness: a reported node lies on a cycle -/
structure SInv (edges : Key → List Key) (st : List Item) (visiting : List Key) : Prop where
  good : Good edges st
  vis : ∀ k, k ∈ visiting ↔ k ∈ markers st
  vnd : visiting.Nodup
  mnd : (markers st).Nodup

theorem dfs_sound (edges : Key → List Key) : ∀ fuel st visiting visited k,
    SInv edges st visiting → dfs edges fuel st visiting visited = .cycle k → Path edges k k := by
  intro fuel
  induction fuel with
  | zero => intro st visiting visited k _ h; simp [dfs] at h
  | succ f ih =>
    intro st visiting visited k inv h
    cases st with
    | nil => simp [dfs] at h
    | cons it st =>
      simp only [dfs] at h
      split at h
      · -- pop marker
        rename_i hf
        apply ih st (visiting.erase it.key) (it.key :: visited) k ?_ h
        have hm : markers (it :: st) = it.key :: markers st := by simp [markers, hf]
        have mnd := inv.mnd; rw [hm] at mnd
        refine ⟨inv.good.2, ?_, inv.vnd.erase _, (List.nodup_cons.1 mnd).2⟩
        intro x
        rw [inv.vnd.mem_erase_iff, inv.vis x, hm]
        constructor
        · intro ⟨h1, h2⟩; simpa [h1] using h2
        · intro hx
          refine ⟨?_, by simp [hx]⟩
          intro hxe; subst hxe; exact (List.nodup_cons.1 mnd).1 hx
      · split at h
        · -- cycle found
          rename_i hf hin
          injection h with h; subst h
          have hf' : it.fresh = true := by cases h' : it.fresh <;> simp_all
          have hm : markers (it :: st) = markers st := by simp [markers, hf']
          have hk : it.key ∈ markers st := by rw [← hm]; exact (inv.vis _).1 hin
          obtain ⟨t, ht⟩ := nearest_of_mem_markers st _ hk
          have h1 := chain_to_nearest edges st inv.good.2 _ hk t ht
          exact h1.snoc (inv.good.1 t ht)
        · split at h
          · rename_i hf hin hv
            have hf' : it.fresh = true := by cases h' : it.fresh <;> simp_all
            apply ih st visiting visited k ?_ h
            have hm : markers (it :: st) = markers st := by simp [markers, hf']
            exact ⟨inv.good.2, by simpa [hm] using inv.vis, inv.vnd, by simpa [hm] using inv.mnd⟩
          · rename_i hf hin hv
            have hf' : it.fresh = true := by cases h' : it.fresh <;> simp_all
            apply ih _ (it.key :: visiting) visited k ?_ h
            have hm : markers (it :: st) = markers st := by simp [markers, hf']
            have hm2 : markers (push edges visited it.key ++ ⟨it.key, false⟩ :: st) = it.key :: markers st := by
              rw [markers_push_append]; simp [markers]
            have hnot : it.key ∉ markers st := by rw [← hm]; exact fun h => hin ((inv.vis _).2 h)
            refine ⟨good_push edges visited it.key st ⟨inv.good.1, inv.good.2⟩, ?_, ?_, ?_⟩
            · intro x; rw [hm2]; simp only [List.mem_cons]; rw [inv.vis x, hm]
            · exact List.nodup_cons.2 ⟨hin, inv.vnd⟩
            · rw [hm2]; exact List.nodup_cons.2 ⟨hnot, by simpa [hm] using inv.mnd⟩

theorem detectFrom_sound (edges : Key → List Key) (fuel : Nat) (s k : Key)
    (h : detectFrom edges fuel s = .cycle k) : Path edges k k := by
  apply dfs_sound edges fuel [⟨s, true⟩] [] [] k ?_ h
  exact ⟨by simp [Good, nearest], by simp [markers], by simp, by simp [markers]⟩

/-! ### completeness: a clean run certifies that no cycle is reachable from the start -/

/-- newest-first list in which every element's out-neighbours occur further down -/
def Closed (edges : Key → List Key) : List Key → Prop
  | [] => True
  | k :: older => (∀ d ∈ edges k, d ∈ older) ∧ Closed edges older

theorem closed_edge (edges) : ∀ (l : List Key), Closed edges l → ∀ a ∈ l, ∀ d ∈ edges a, d ∈ l
  | k :: older, h, a, ha, d, hd => by
    simp only [List.mem_cons] at ha
    rcases ha with ha | ha
    · subst ha; exact List.mem_cons_of_mem _ (h.1 d hd)
    · exact List.mem_cons_of_mem _ (closed_edge edges older h.2 a ha d hd)

theorem closed_path (edges) (l : List Key) (h : Closed edges l) {a b : Key} (p : Path edges a b) :
    a ∈ l → b ∈ l := by
  induction p with
  | single h1 => intro ha; exact closed_edge edges l h _ ha _ h1
  | cons h1 _ ih => intro ha; exact ih (closed_edge edges l h _ ha _ h1)

theorem closed_acyclic (edges) : ∀ (l : List Key), Closed edges l → ∀ a ∈ l, ¬ Path edges a a
  | k :: older, h, a, ha, p => by
    by_cases hao : a ∈ older
    · exact closed_acyclic edges older h.2 a hao p
    · simp only [List.mem_cons] at ha
      rcases ha with ha | ha
      · subst ha
        -- first edge lands in `older`, which is closed, so the path can never come back to `a`
        cases p with
        | single h1 => exact hao (h.1 _ h1)
        | cons h1 p' => exact hao (closed_path edges older h.2 p' (h.1 _ h1))
      · exact hao ha

def Cover (edges : Key → List Key) (visited : List Key) : List Key → List Item → Prop
  | _, [] => True
  | above, it :: st =>
    (it.fresh = false → ∀ w ∈ edges it.key, w ∈ visited ∨ w ∈ above) ∧
      Cover edges visited (it.key :: above) st

theorem cover_mono (edges) : ∀ (st : List Item) (vis vis' above above' : List Key),
    (∀ w, w ∈ vis ∨ w ∈ above → w ∈ vis' ∨ w ∈ above') →
    Cover edges vis above st → Cover edges vis' above' st
  | [], _, _, _, _, _, _ => trivial
  | it :: st, vis, vis', above, above', hm, h => by
    refine ⟨fun hf w hw => hm w (h.1 hf w hw), ?_⟩
    apply cover_mono edges st vis vis' (it.key :: above) (it.key :: above') ?_ h.2
    intro w hw
    simp only [List.mem_cons] at hw ⊢
    rcases hw with hw | hw | hw
    · rcases hm w (Or.inl hw) with h1 | h1
      · exact Or.inl h1
      · exact Or.inr (Or.inr h1)
    · exact Or.inr (Or.inl hw)
    · rcases hm w (Or.inr hw) with h1 | h1
      · exact Or.inl h1
      · exact Or.inr (Or.inr h1)

theorem cover_fresh_prefix (edges vis) : ∀ (P : List Item) (above : List Key) (rest : List Item),
    (∀ i ∈ P, i.fresh = true) →
    Cover edges vis (P.reverse.map (·.key) ++ above) rest → Cover edges vis above (P ++ rest)
  | [], _, _, _, h => by simpa using h
  | a :: P, above, rest, hf, h => by
    refine ⟨fun hfa => by simp [hf a (by simp)] at hfa, ?_⟩
    apply cover_fresh_prefix edges vis P (a.key :: above) rest (fun i hi => hf i (by simp [hi]))
    simpa using h

structure CInv (edges : Key → List Key) (s : Key) (st : List Item) (visited : List Key) : Prop where
  start : s ∈ visited ∨ s ∈ st.map (·.key)
  closed : Closed edges visited
  cover : Cover edges visited [] st

theorem dfs_complete (edges : Key → List Key) (s : Key) : ∀ fuel st visiting visited out,
    CInv edges s st visited → dfs edges fuel st visiting visited = .ok out →
      s ∈ out ∧ Closed edges out := by
  intro fuel
  induction fuel with
  | zero => intro st visiting visited out _ h; simp [dfs] at h
  | succ f ih =>
    intro st visiting visited out inv h
    cases st with
    | nil =>
      simp only [dfs] at h
      injection h with h; subst h
      refine ⟨?_, inv.closed⟩
      rcases inv.start with h | h
      · exact h
      · simp at h
    | cons it st =>
      simp only [dfs] at h
      split at h
      · -- pop marker: all children already visited
        rename_i hf
        apply ih st _ (it.key :: visited) out ?_ h
        have hch : ∀ w ∈ edges it.key, w ∈ visited := by
          intro w hw
          rcases inv.cover.1 hf w hw with h1 | h1
          · exact h1
          · simp at h1
        refine ⟨?_, ⟨hch, inv.closed⟩, ?_⟩
        · rcases inv.start with h1 | h1
          · exact Or.inl (List.mem_cons_of_mem _ h1)
          · simp only [List.map_cons, List.mem_cons] at h1
            rcases h1 with h1 | h1
            · exact Or.inl (by simp [h1])
            · exact Or.inr h1
        · apply cover_mono edges st visited (it.key :: visited) [it.key] [] ?_ inv.cover.2
          intro w hw
          simp only [List.mem_cons, List.not_mem_nil, or_false] at hw ⊢
          rcases hw with hw | hw
          · exact Or.inr hw
          · exact Or.inl hw
      · split at h
        · cases h
        · split at h
          · -- fresh but already visited
            rename_i hf hin hv
            apply ih st visiting visited out ?_ h
            refine ⟨?_, inv.closed, ?_⟩
            · rcases inv.start with h1 | h1
              · exact Or.inl h1
              · simp only [List.map_cons, List.mem_cons] at h1
                rcases h1 with h1 | h1
                · exact Or.inl (h1 ▸ hv)
                · exact Or.inr h1
            · apply cover_mono edges st visited visited [it.key] [] ?_ inv.cover.2
              intro w hw
              simp only [List.mem_cons, List.not_mem_nil, or_false] at hw ⊢
              rcases hw with hw | hw
              · exact hw
              · exact hw ▸ hv
          · -- expand
            rename_i hf hin hv
            apply ih _ (it.key :: visiting) visited out ?_ h
            refine ⟨?_, inv.closed, ?_⟩
            · rcases inv.start with h1 | h1
              · exact Or.inl h1
              · right
                simp only [List.map_cons, List.mem_cons] at h1
                simp only [List.map_append, List.map_cons, List.mem_append, List.mem_cons]
                rcases h1 with h1 | h1
                · exact Or.inr (Or.inl h1)
                · exact Or.inr (Or.inr h1)
            · apply cover_fresh_prefix edges visited (push edges visited it.key) [] _
                (by intro i hi; simp [push] at hi; obtain ⟨a, _, rfl⟩ := hi; rfl)
              refine ⟨?_, ?_⟩
              · intro _ w hw
                by_cases hwv : w ∈ visited
                · exact Or.inl hwv
                · right
                  simp [push]
                  exact ⟨hw, hwv⟩
              · apply cover_mono edges st visited visited [it.key] _ ?_ inv.cover.2
                intro w hw
                simp only [List.mem_cons, List.not_mem_nil, or_false] at hw
                rcases hw with hw | hw
                · exact Or.inl hw
                · right; simp [hw]

/-- If the run from `s` finishes cleanly, nothing reachable from `s` lies on a cycle. -/
theorem detectFrom_complete (edges : Key → List Key) (fuel : Nat) (s : Key) (out : List Key)
    (h : detectFrom edges fuel s = .ok out) : ∀ c, RT edges s c → ¬ Path edges c c := by
  have ⟨hs, hc⟩ := dfs_complete edges s fuel [⟨s, true⟩] [] [] out
    ⟨Or.inr (by simp), trivial, ⟨by simp, trivial⟩⟩ h
  intro c hr
  have hcin : c ∈ out := by
    rcases hr with rfl | p
    · exact hs
    · exact closed_path edges out hc p hs
  exact closed_acyclic edges out hc c hcin

#print axioms detectFrom_complete
#print axioms detectFrom_sound
end Godi.Dfs
