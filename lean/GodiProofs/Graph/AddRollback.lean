import GodiProofs.Graph.Add
/-! Rejected `AddProvider`: the rollback restores the digraph. -/
namespace Godi.Graph
open Godi.Kahn (Key)

theorem foldl_delNode_fields (l : List Key) : ∀ (g : Graph),
    (l.foldl delNode g).edges = g.edges ∧ (l.foldl delNode g).ekeys = g.ekeys ∧ (l.foldl delNode g).ndeps = g.ndeps ∧
    (g.nodes.Nodup → (l.foldl delNode g).nodes.Nodup ∧ ∀ x, x ∈ (l.foldl delNode g).nodes ↔ x ∈ g.nodes ∧ x ∉ l) := by
  induction l with
  | nil => intro g; simp
  | cons a rest ih =>
    intro g
    simp only [List.foldl_cons]
    obtain ⟨h1, h2, h3, h4⟩ := ih (delNode g a)
    refine ⟨h1, h2, h3, ?_⟩
    intro hn
    obtain ⟨h5, h6⟩ := h4 (hn.erase a)
    refine ⟨h5, fun x => ?_⟩
    rw [h6 x]
    show x ∈ g.nodes.erase a ∧ x ∉ rest ↔ _
    rw [hn.mem_erase_iff]
    simp only [List.mem_cons, not_or]
    constructor
    · rintro ⟨⟨h1', h2'⟩, h3'⟩; exact ⟨h2', h1', h3'⟩
    · rintro ⟨h1', h2', h3'⟩; exact ⟨⟨h2', h1'⟩, h3'⟩

theorem not_mem_erase_self {l : List Key} (h : l.Nodup) (k : Key) : k ∉ l.erase k :=
  fun hm => ((List.Nodup.mem_erase_iff h).1 hm).1 rfl

theorem added_ekeys (g : Graph) (b : Base g) (k : Key) (p : Nat) (deps : List Key) :
    (added g k p deps).ekeys = g.ekeys.erase k ++ [k] := by
  have b2 : Base (dropEdges (setProv (insertNode g k) k (some p)) k) :=
    dropEdges_base _ _ (setProv_base _ _ _ (insertNode_base g k b))
  obtain ⟨_, _, h3, _⟩ := ensureNodes_spec deps _ b2
  have h3' : (ensureNodes (dropEdges (setProv (insertNode g k) k (some p)) k) deps).1.ekeys = g.ekeys.erase k := by
    rw [h3]
    show (setProv (insertNode g k) k (some p)).ekeys.erase k = _
    rw [setProv_ekeys, (insertNode_edges g k).2]
  unfold added
  show (if k ∈ (ensureNodes (dropEdges (setProv (insertNode g k) k (some p)) k) deps).1.ekeys then _ else _) = _
  rw [if_neg (by rw [h3']; exact not_mem_erase_self b.ekeysNodup k), h3']

theorem createdBy_mem (g : Graph) (b : Base g) (k : Key) (p : Nat) (deps : List Key) (x : Key) :
    x ∈ createdBy g k p deps ↔ (x ∉ g.nodes ∧ x ≠ k) ∧ x ∈ deps := by
  unfold createdBy
  have b2 : Base (dropEdges (setProv (insertNode g k) k (some p)) k) :=
    dropEdges_base _ _ (setProv_base _ _ _ (insertNode_base g k b))
  obtain ⟨_, _, _, _, h5, _⟩ := ensureNodes_spec deps _ b2
  rw [h5]
  show x ∉ (insertNode g k).nodes ∧ x ∈ deps ↔ _
  rw [insertNode_nodes_mem]
  simp only [not_or]

/-- what the first half of the rollback (everything but dropping the created placeholders) reaches -/
structure RolledTo (g g7 : Graph) (k : Key) (deps : List Key) : Prop where
  edges : g7.edges = g.edges
  ekeys : ∀ x, x ∈ g7.ekeys ↔ x ∈ g.ekeys
  ekeysNodup : g7.ekeys.Nodup
  nodesNodup : g7.nodes.Nodup
  nodes : ∀ x, x ∈ g7.nodes ↔ (x ∈ g.nodes ∨ (x ∈ deps ∧ x ≠ k))
  ndeps : ∀ x, x ∈ g.nodes → g7.ndeps x = g.edges x


theorem upd_upd_self (f : Key → List Key) (k : Key) (v : List Key) : upd (upd f k v) k (f k) = f := by
  funext x
  by_cases hx : x = k
  · subst hx; simp
  · simp [upd_ne _ _ hx]

section
variable (g : Graph) (b : Base g) (k : Key) (deps : List Key) (g6 : Graph) (b6 : Base g6)
  (e6 : g6.edges = upd g.edges k deps)
  (n6 : ∀ x, x ∈ g6.nodes ↔ x ∈ g.nodes ∨ x = k ∨ x ∈ deps)
  (k6 : g6.ekeys = g.ekeys.erase k ++ [k])
include b b6 e6 n6 k6

theorem ndeps6 (x : Key) (hx : x ∈ g.nodes) (hxk : x ≠ k) : g6.ndeps x = g.edges x := by
  rw [b6.deps x ((n6 x).2 (Or.inl hx)), e6, upd_ne _ _ hxk]

theorem nodes_existing (hex : k ∈ g.nodes) (x : Key) : x ∈ g6.nodes ↔ (x ∈ g.nodes ∨ (x ∈ deps ∧ x ≠ k)) := by
  rw [n6]
  constructor
  · rintro (h | h | h)
    · exact Or.inl h
    · exact Or.inl (h ▸ hex)
    · by_cases hxk : x = k
      · exact Or.inl (hxk ▸ hex)
      · exact Or.inr ⟨h, hxk⟩
  · rintro (h | ⟨h, _⟩)
    · exact Or.inl h
    · exact Or.inr (Or.inr h)

theorem ekeys_erased (hhad : k ∉ g.ekeys) (x : Key) : x ∈ g6.ekeys.erase k ↔ x ∈ g.ekeys := by
  rw [List.Nodup.mem_erase_iff b6.ekeysNodup, k6]
  simp only [List.mem_append, List.mem_singleton]
  rw [List.Nodup.mem_erase_iff b.ekeysNodup]
  constructor
  · rintro ⟨hne, (⟨_, h⟩ | h)⟩
    · exact h
    · exact absurd h hne
  · intro h
    have hne : x ≠ k := fun e => hhad (e ▸ h)
    exact ⟨hne, Or.inl ⟨hne, h⟩⟩

/-- key existed with its own edge list: provider and edge list are put back -/
theorem rolled_A (hex : k ∈ g.nodes) (hhad : k ∈ g.ekeys) (pv : Option Nat) :
    RolledTo g (setEdges { g6 with prov := upd g6.prov k pv, ndeps := upd g6.ndeps k (g.ndeps k) } k (g.edges k)) k deps := by
  have hk6 : k ∈ g6.ekeys := by rw [k6]; simp
  refine ⟨?_, ?_, ?_, b6.nodesNodup, nodes_existing g b k deps g6 b6 e6 n6 k6 hex, ?_⟩
  · show upd g6.edges k (g.edges k) = g.edges
    rw [e6]; exact upd_upd_self _ _ _
  · intro x
    show x ∈ (if k ∈ g6.ekeys then g6.ekeys else g6.ekeys ++ [k]) ↔ _
    rw [if_pos hk6, k6]
    simp only [List.mem_append, List.mem_singleton]
    rw [List.Nodup.mem_erase_iff b.ekeysNodup]
    constructor
    · rintro (⟨_, h⟩ | h)
      · exact h
      · exact h ▸ hhad
    · intro h
      by_cases hx : x = k
      · exact Or.inr hx
      · exact Or.inl ⟨hx, h⟩
  · show (if k ∈ g6.ekeys then g6.ekeys else g6.ekeys ++ [k]).Nodup
    rw [if_pos hk6]; exact b6.ekeysNodup
  · intro x hx
    show upd g6.ndeps k (g.ndeps k) x = g.edges x
    by_cases hxk : x = k
    · subst hxk; simp [b.deps x hx]
    · rw [upd_ne _ _ hxk]; exact ndeps6 g b k deps g6 b6 e6 n6 k6 x hx hxk

/-- key existed as a placeholder only: its edge list is removed again -/
theorem rolled_B (hex : k ∈ g.nodes) (hhad : k ∉ g.ekeys) (pv : Option Nat) :
    RolledTo g (delEdges { g6 with prov := upd g6.prov k pv, ndeps := upd g6.ndeps k (g.ndeps k) } k) k deps := by
  refine ⟨?_, ekeys_erased g b k deps g6 b6 e6 n6 k6 hhad, b6.ekeysNodup.erase k, b6.nodesNodup,
    nodes_existing g b k deps g6 b6 e6 n6 k6 hex, ?_⟩
  · show upd g6.edges k [] = g.edges
    rw [e6, ← b.offKeys k hhad]; exact upd_upd_self _ _ _
  · intro x hx
    show upd g6.ndeps k (g.ndeps k) x = g.edges x
    by_cases hxk : x = k
    · subst hxk; simp [b.deps x hx]
    · rw [upd_ne _ _ hxk]; exact ndeps6 g b k deps g6 b6 e6 n6 k6 x hx hxk

/-- key was new: node and edge list are removed -/
theorem rolled_C (hex : k ∉ g.nodes) : RolledTo g (delEdges (delNode g6 k) k) k deps := by
  have hhad : k ∉ g.ekeys := fun h => hex (b.ekeysSub k h)
  refine ⟨?_, ekeys_erased g b k deps g6 b6 e6 n6 k6 hhad, b6.ekeysNodup.erase k, b6.nodesNodup.erase k, ?_, ?_⟩
  · show upd g6.edges k [] = g.edges
    rw [e6, ← b.offKeys k hhad]; exact upd_upd_self _ _ _
  · intro x
    show x ∈ g6.nodes.erase k ↔ _
    rw [List.Nodup.mem_erase_iff b6.nodesNodup, n6]
    constructor
    · rintro ⟨hne, (h | h | h)⟩
      · exact Or.inl h
      · exact absurd h hne
      · exact Or.inr ⟨h, hne⟩
    · rintro (h | ⟨h, hne⟩)
      · exact ⟨fun e => hex (e ▸ h), Or.inl h⟩
      · exact ⟨hne, Or.inr (Or.inr h)⟩
  · intro x hx
    exact ndeps6 g b k deps g6 b6 e6 n6 k6 x hx (fun e => hex (e ▸ hx))
end

/-- dropping the placeholders this add created and recomputing the derived fields -/
theorem rolled_finish (g g7 : Graph) (b : Base g) (k : Key) (deps created : List Key) (h7 : RolledTo g g7 k deps)
    (hc : ∀ x, x ∈ created ↔ (x ∉ g.nodes ∧ x ≠ k) ∧ x ∈ deps) :
    let r := updateDegrees (created.foldl delNode g7)
    Base r ∧ Synced r ∧ r.edges = g.edges ∧ (∀ x, x ∈ r.nodes ↔ x ∈ g.nodes) := by
  intro r
  obtain ⟨f1, f2, f3, f4⟩ := foldl_delNode_fields created g7
  obtain ⟨f5, f6⟩ := f4 h7.nodesNodup
  have hn8 : ∀ x, x ∈ (created.foldl delNode g7).nodes ↔ x ∈ g.nodes := by
    intro x
    rw [f6, h7.nodes, hc]
    constructor
    · rintro ⟨(h | ⟨h1, h2⟩), h3⟩
      · exact h
      · apply Classical.byContradiction; intro hx; exact h3 ⟨⟨hx, h2⟩, h1⟩
    · intro h; exact ⟨Or.inl h, fun h' => h'.1.1 h⟩
  have b8 : Base (created.foldl delNode g7) := by
    refine ⟨f5, by rw [f2]; exact h7.ekeysNodup, ?_, ?_, ?_, ?_⟩
    · intro x hx; rw [f2, h7.ekeys] at hx; exact (hn8 x).2 (b.ekeysSub x hx)
    · intro x hx d hd; rw [f1, h7.edges] at hd; exact (hn8 d).2 (b.targets x ((hn8 x).1 hx) d hd)
    · intro x hx; rw [f2, h7.ekeys] at hx; rw [f1, h7.edges]; exact b.offKeys x hx
    · intro x hx; rw [f3, f1, h7.edges]; exact h7.ndeps x ((hn8 x).1 hx)
  have fr := updateDegreesWith_frame (created.foldl delNode g7) (created.foldl delNode g7).ekeys
  refine ⟨updateDegreesWith_base _ _ (List.Perm.refl _) b8, updateDegreesWith_synced _ _ (List.Perm.refl _) b8, ?_, ?_⟩
  · show (updateDegrees _).edges = _
    unfold updateDegrees; rw [fr.2.1, f1, h7.edges]
  · intro x
    show x ∈ (updateDegrees _).nodes ↔ _
    unfold updateDegrees; rw [fr.1]; exact hn8 x

/-- REJECTED ADD: the rollback restores the digraph — same node set, same adjacency function — with
the structural invariant and all derived fields in sync -/
theorem rollback_spec (g : Graph) (b : Base g) (k : Key) (p : Nat) (deps : List Key) (g6 : Graph)
    (hs : SameStruct (checked g k p deps) g6) :
    Base (rollback g g6 k (createdBy g k p deps)) ∧ Synced (rollback g g6 k (createdBy g k p deps)) ∧
    (rollback g g6 k (createdBy g k p deps)).edges = g.edges ∧
    (∀ x, x ∈ (rollback g g6 k (createdBy g k p deps)).nodes ↔ x ∈ g.nodes) := by
  obtain ⟨cb, _, ce, cn, ck⟩ := checked_base_synced g b k p deps
  have b6 : Base g6 := hs.base cb
  have e6 : g6.edges = upd g.edges k deps := hs.edges.trans ce
  have n6 : ∀ x, x ∈ g6.nodes ↔ x ∈ g.nodes ∨ x = k ∨ x ∈ deps := fun x => by rw [hs.nodes]; exact cn x
  have k6 : g6.ekeys = g.ekeys.erase k ++ [k] := by rw [hs.ekeys, ck]; exact added_ekeys g b k p deps
  have hc := createdBy_mem g b k p deps
  unfold rollback
  by_cases hex : k ∈ g.nodes
  · have hins : insertNode g k = g := by unfold insertNode; simp [hex]
    simp only [hex, decide_true, if_true, hins]
    by_cases hhad : k ∈ g.ekeys
    · simp only [hhad, decide_true, if_true]
      exact rolled_finish g _ b k deps _ (rolled_A g b k deps g6 b6 e6 n6 k6 hex hhad _) hc
    · simp only [hhad, decide_false, Bool.false_eq_true, if_false]
      exact rolled_finish g _ b k deps _ (rolled_B g b k deps g6 b6 e6 n6 k6 hex hhad _) hc
  · simp only [hex, decide_false, Bool.false_eq_true, if_false]
    exact rolled_finish g _ b k deps _ (rolled_C g b k deps g6 b6 e6 n6 k6 hex) hc

/-- REJECTED ADD, at the level of `addProvider` -/
theorem addProvider_rejected (g : Graph) (b : Base g) (k : Key) (p : Nat) (deps : List Key)
    (h : (addProvider g k p deps).2 ≠ .ok) :
    Base (addProvider g k p deps).1 ∧ Synced (addProvider g k p deps).1 ∧
    (addProvider g k p deps).1.edges = g.edges ∧
    (∀ x, x ∈ (addProvider g k p deps).1.nodes ↔ x ∈ g.nodes) := by
  rw [addProvider_eq] at h ⊢
  have hs := detectCyclesFrom_same (checked g k p deps) k
  generalize detectCyclesFrom (checked g k p deps) k = r at h hs ⊢
  obtain ⟨g6, res⟩ := r
  cases res with
  | ok => simp at h
  | cycle n path => exact rollback_spec g b k p deps g6 hs
  | fuel => exact rollback_spec g b k p deps g6 hs


/-! ### when is an add accepted? -/
open Godi.Spec

theorem reach_trans {E : Key → List Key} {a b c : Key} (h1 : Reach E a b) (h2 : Reach E b c) : Reach E a c := by
  induction h1 with
  | single h => exact .cons h h2
  | cons h _ ih => exact .cons h (ih h2)

/-- a walk in the graph with `k`'s edge list replaced either avoids `k` as a source — then it is a walk
of the old graph — or passes through `k` -/
theorem reach_upd_split (E : Key → List Key) (k : Key) (ds : List Key) {a b : Key}
    (h : Reach (upd E k ds) a b) :
    Reach E a b ∨ ((a = k ∨ Reach (upd E k ds) a k) ∧ Reach (upd E k ds) k b) := by
  induction h with
  | @single a b hab =>
    by_cases hak : a = k
    · subst hak; exact Or.inr ⟨Or.inl rfl, .single hab⟩
    · rw [upd_ne _ _ hak] at hab; exact Or.inl (.single hab)
  | @cons a m c ham hmc ih =>
    by_cases hak : a = k
    · subst hak; exact Or.inr ⟨Or.inl rfl, .cons ham hmc⟩
    · have ham' : m ∈ E a := by rw [upd_ne _ _ hak] at ham; exact ham
      rcases ih with h | ⟨h1, h2⟩
      · exact Or.inl (.cons ham' h)
      · refine Or.inr ⟨Or.inr ?_, h2⟩
        rcases h1 with h1 | h1
        · subst h1; exact .single ham
        · exact .cons ham h1

/-- DECISION: on an acyclic graph, `AddProvider` accepts exactly when the updated digraph is still
acyclic (never "out of fuel") -/
theorem addProvider_ok_iff (g : Graph) (b : Base g) (k : Key) (p : Nat) (deps : List Key)
    (hacyc : ∀ c, ¬ Reach g.edges c c) :
    (addProvider g k p deps).2 = .ok ↔ ∀ c, ¬ Reach (upd g.edges k deps) c c := by
  obtain ⟨cb, _, ce, cn, _⟩ := checked_base_synced g b k p deps
  have hk : k ∈ (checked g k p deps).nodes := (cn k).2 (Or.inr (Or.inl rfl))
  have hnf := detectCyclesFrom_never_fuel (checked g k p deps) cb k
  have hres : (addProvider g k p deps).2 = (detectCyclesFrom (checked g k p deps) k).2 := by
    rw [addProvider_eq]
    generalize detectCyclesFrom (checked g k p deps) k = r
    obtain ⟨g6, res⟩ := r
    cases res <;> rfl
  rw [hres]
  constructor
  · intro hok c hc
    have hc' := detectCyclesFrom_complete (checked g k p deps) k hk (detectCyclesFrom (checked g k p deps) k).1
      (by rw [← hok])
    rw [ce] at hc'
    rcases reach_upd_split g.edges k deps hc with h | ⟨h1, h2⟩
    · exact hacyc c h
    · apply hc'.1
      rcases h1 with h1 | h1
      · subst h1; exact h2
      · exact reach_trans h2 h1
  · intro hno
    generalize hr : detectCyclesFrom (checked g k p deps) k = r at hnf ⊢
    obtain ⟨g6, res⟩ := r
    cases res with
    | ok => rfl
    | fuel => exact absurd rfl hnf
    | cycle n path =>
      have := (detectCyclesFrom_sound (checked g k p deps) k n path g6 hr).1
      rw [ce] at this
      exact absurd this (hno n)

end Godi.Graph
