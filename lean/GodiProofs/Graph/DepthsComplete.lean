import GodiProofs.Graph.Depths
/-!
# `CalculateDepths` on an acyclic graph: the depth is the length of the LONGEST dependency chain

Completeness half. On an acyclic graph (a) a chain has fewer edges than there are nodes, so the guard `nd < len(nodes)` never
stops a relaxation; (b) the potential "sum over the nodes of `n - 1 - depth`" plus the queue length drops with every
iteration, so the fuel `n² + n + 1` is never exhausted and the loop ends with an empty queue; (c) a node that is not in
the queue is relaxed: every dependent of it has a larger depth. At the end every chain of `m` edges from `k` forces
`depth k ≥ m`; with the soundness half (`depths_witnessed`) the depth is the maximum.
-/
namespace Godi.Graph
open Godi.Spec
open Godi.Kahn (Key)

def Acyclic (g : Graph) : Prop := ∀ k, ¬ Reach g.edges k k

/-! ### (a) chains are short -/

theorem nodup_length_le : ∀ (l N : List Key), l.Nodup → (∀ x ∈ l, x ∈ N) → l.length ≤ N.length := by
  intro l
  induction l with
  | nil => intro N _ _; exact Nat.zero_le _
  | cons x rest ih =>
    intro N hn hs
    simp only [List.nodup_cons] at hn
    have hx : x ∈ N := hs x (List.mem_cons_self ..)
    have := ih (N.erase x) hn.2 (fun y hy => by
      have hne : y ≠ x := fun e => hn.1 (e ▸ hy)
      exact (List.mem_erase_of_ne hne).2 (hs y (List.mem_cons_of_mem _ hy)))
    rw [List.length_erase_of_mem hx] at this
    have hpos : 0 < N.length := List.length_pos_of_mem hx
    simp only [List.length_cons]
    omega

theorem reach_target_mem {g : Graph} (b : Base g) {a c : Key} (ha : a ∈ g.nodes) (h : Reach g.edges a c) : c ∈ g.nodes := by
  induction h with
  | single h1 => exact b.targets _ ha _ h1
  | cons h1 _ ih => exact ih (b.targets _ ha _ h1)

theorem chain_list {E : Key → List Key} : ∀ {k : Key} {m : Nat}, Chain E k m →
    ∃ l : List Key, l.length = m + 1 ∧ l.Pairwise (fun a b => Reach E a b) ∧ ∀ x ∈ l, x = k ∨ Reach E k x := by
  intro k m h
  induction h with
  | @root k _ => exact ⟨[k], rfl, by simp, fun x hx => Or.inl (by simpa using hx)⟩
  | @step k c m hc _ ih =>
    obtain ⟨l, hl, hp, hm⟩ := ih
    have hr : ∀ x ∈ l, Reach E k x := by
      intro x hx
      rcases hm x hx with e | e
      · subst e; exact .single hc
      · exact .cons hc e
    refine ⟨k :: l, by simp [hl], List.pairwise_cons.2 ⟨hr, hp⟩, ?_⟩
    intro x hx
    rcases List.mem_cons.1 hx with e | e
    · exact Or.inl e
    · exact Or.inr (hr x e)

theorem chain_short (g : Graph) (b : Base g) (hac : Acyclic g) {k : Key} (hk : k ∈ g.nodes) {m : Nat}
    (h : Chain g.edges k m) : m + 1 ≤ g.nodes.length := by
  obtain ⟨l, hl, hp, hm⟩ := chain_list h
  have hnd : l.Nodup := by
    refine hp.imp ?_
    intro a c hr e
    subst e
    exact hac a hr
  have hsub : ∀ x ∈ l, x ∈ g.nodes := by
    intro x hx
    rcases hm x hx with e | e
    · subst e; exact hk
    · exact reach_target_mem b hk e
  have := nodup_length_le l g.nodes hnd hsub
  omega

/-! ### (b) the potential -/

def slack (n : Nat) (depth : Key → Int) (k : Key) : Nat := ((n : Int) - 1 - depth k).toNat

def pot (g : Graph) (N : List Key) : Nat := (N.map (slack N.length g.depth)).sum

theorem sum_map_upd (n : Nat) (f : Key → Int) (d : Key) (v : Int) : ∀ (N : List Key), N.Nodup → d ∈ N →
    (N.map (slack n (upd f d v))).sum + slack n f d = (N.map (slack n f)).sum + slack n (upd f d v) d := by
  intro N
  induction N with
  | nil => intro _ h; cases h
  | cons x rest ih =>
    intro hn hd
    simp only [List.nodup_cons] at hn
    simp only [List.map_cons, List.sum_cons]
    by_cases hx : x = d
    · subst hx
      have : ∀ y ∈ rest, slack n (upd f x v) y = slack n f y := by
        intro y hy
        have : y ≠ x := fun e => hn.1 (e ▸ hy)
        simp [slack, upd, this]
      have e : rest.map (slack n (upd f x v)) = rest.map (slack n f) := List.map_congr_left this
      rw [e]; omega
    · have hdr : d ∈ rest := by
        rcases List.mem_cons.1 hd with e | e
        · exact absurd e.symm hx
        · exact e
      have := ih hn.2 hdr
      have hxx : slack n (upd f d v) x = slack n f x := by simp [slack, upd, hx]
      rw [hxx]; omega

theorem sum_le_mul (n : Nat) (f : Key → Nat) : ∀ (N : List Key), (∀ x ∈ N, f x ≤ n) → (N.map f).sum ≤ n * N.length := by
  intro N
  induction N with
  | nil => intro _; simp
  | cons x rest ih =>
    intro h
    simp only [List.map_cons, List.sum_cons, List.length_cons]
    have h1 := h x (List.mem_cons_self ..)
    have h2 := ih (fun y hy => h y (List.mem_cons_of_mem _ hy))
    rw [Nat.mul_succ]; omega

/-! ### relaxation of one node -/

structure RelaxPost (g0 g g' : Graph) (cur : Key) (l out : List Key) : Prop where
  done : ∀ d ∈ l, d ∈ g0.nodes → g.depth cur + 1 ≤ g'.depth d
  changed : ∀ x, g'.depth x ≠ g.depth x → x ∈ out
  pot : pot g' g0.nodes + out.length ≤ pot g g0.nodes
  curSame : g'.depth cur = g.depth cur

theorem relaxDepth_post (g0 : Graph) (b : Base g0) (hac : Acyclic g0) (cur : Key) (hcur : cur ∈ g0.nodes) :
    ∀ (l : List Key) (g : Graph), DInv g0 g → 0 ≤ g.depth cur →
    (∀ d ∈ l, d ∈ g0.nodes → cur ∈ g0.edges d) →
    RelaxPost g0 g (relaxDepth g cur l).1 cur l (relaxDepth g cur l).2 := by
  intro l
  induction l with
  | nil =>
    intro g _ _ _
    refine ⟨?_, ?_, ?_, rfl⟩
    · intro d hd; cases hd
    · intro x hx; exact absurd rfl hx
    · simp [relaxDepth]
  | cons d rest ih =>
    intro g inv hc hdep
    have hrest : ∀ d ∈ rest, d ∈ g0.nodes → cur ∈ g0.edges d := fun x hx => hdep x (List.mem_cons_of_mem _ hx)
    -- the chain of `cur`
    obtain ⟨mc, hmc, hchain⟩ : ∃ m : Nat, g.depth cur = (m : Int) ∧ Chain g0.edges cur m := by
      rcases inv.wit cur with h | h
      · rw [h] at hc; exact absurd hc (by decide)
      · exact h
    unfold relaxDepth
    by_cases hd : d ∈ g.nodes
    · have hd0 : d ∈ g0.nodes := by rw [← inv.nodes]; exact hd
      have hcd : cur ∈ g0.edges d := hdep d (List.mem_cons_self ..) hd0
      have hne : d ≠ cur := by
        intro e; subst e; exact hac d (.single hcd)
      -- the guard `nd < n` holds: `nd` is the length of a chain of `d`
      have hshort := chain_short g0 b hac hd0 (Chain.step hcd hchain)
      have hguard : g.depth cur + 1 < (g.nodes.length : Int) := by rw [inv.nodes, hmc]; omega
      simp only [hd, if_true]
      by_cases hlt : g.depth d < g.depth cur + 1
      · simp only [hguard, hlt, and_self, if_true]
        have inv' : DInv g0 { g with depth := upd g.depth d (g.depth cur + 1) } := by
          refine ⟨inv.edges, inv.nodes, inv.ndependents, ?_⟩
          intro k
          by_cases hk : k = d
          · subst hk
            refine Or.inr ⟨mc + 1, ?_, Chain.step hcd hchain⟩
            simp only [upd, if_true]; rw [hmc]; rfl
          · have : upd g.depth d (g.depth cur + 1) k = g.depth k := by simp [upd, hk]
            simp only [this]; exact inv.wit k
        have hcs : ({ g with depth := upd g.depth d (g.depth cur + 1) } : Graph).depth cur = g.depth cur := by
          simp [upd, Ne.symm hne]
        have post := ih _ inv' (by rw [hcs]; exact hc) hrest
        refine ⟨?_, ?_, ?_, ?_⟩
        · intro x hx hxn
          rcases List.mem_cons.1 hx with e | e
          · subst e
            -- depths only grow afterwards
            have hm := (relaxDepth_inv g0 cur rest _ inv' (by rw [hcs]; exact hc) hrest).2.1 x
            have e2 : ({ g with depth := upd g.depth x (g.depth cur + 1) } : Graph).depth x = g.depth cur + 1 := by simp [upd]
            rw [e2] at hm; exact hm
          · have := post.done x e hxn
            rw [hcs] at this; exact this
        · intro x hx
          by_cases hxd : x = d
          · exact hxd ▸ List.mem_cons_self ..
          · refine List.mem_cons_of_mem _ (post.changed x ?_)
            have : ({ g with depth := upd g.depth d (g.depth cur + 1) } : Graph).depth x = g.depth x := by simp [upd, hxd]
            rw [this]; exact hx
        · -- the potential: the raised label pays for the queue entry
          have hsum := sum_map_upd g0.nodes.length g.depth d (g.depth cur + 1) g0.nodes b.nodesNodup hd0
          have hp := post.pot
          unfold pot at hp ⊢
          simp only [List.length_cons]
          have hdlow : -1 ≤ g.depth d := by
            rcases inv.wit d with h | ⟨m, hm, _⟩
            · rw [h]; decide
            · rw [hm]; omega
          have hs1 : slack g0.nodes.length (upd g.depth d (g.depth cur + 1)) d + 1 ≤ slack g0.nodes.length g.depth d := by
            simp only [slack, upd, if_true]
            rw [inv.nodes] at hguard
            omega
          show (g0.nodes.map (slack g0.nodes.length (relaxDepth { g with depth := upd g.depth d (g.depth cur + 1) } cur rest).1.depth)).sum
              + ((relaxDepth { g with depth := upd g.depth d (g.depth cur + 1) } cur rest).2.length + 1) ≤ _
          have hp' : (g0.nodes.map (slack g0.nodes.length (relaxDepth { g with depth := upd g.depth d (g.depth cur + 1) } cur rest).1.depth)).sum
              + (relaxDepth { g with depth := upd g.depth d (g.depth cur + 1) } cur rest).2.length
              ≤ (g0.nodes.map (slack g0.nodes.length (upd g.depth d (g.depth cur + 1)))).sum := hp
          omega
        · rw [post.curSame]; exact hcs
      · have hcond : ¬ (g.depth cur + 1 < (g.nodes.length : Int) ∧ g.depth d < g.depth cur + 1) := fun h => hlt h.2
        simp only [hcond, if_false]
        have post := ih g inv hc hrest
        refine ⟨?_, post.changed, post.pot, post.curSame⟩
        intro x hx hxn
        rcases List.mem_cons.1 hx with e | e
        · subst e
          have hm := (relaxDepth_inv g0 cur rest g inv hc hrest).2.1 x
          omega
        · exact post.done x e hxn
    · simp only [hd, if_false]
      have post := ih g inv hc hrest
      refine ⟨?_, post.changed, post.pot, post.curSame⟩
      intro x hx hxn
      rcases List.mem_cons.1 hx with e | e
      · subst e; rw [← inv.nodes] at hxn; exact absurd hxn hd
      · exact post.done x e hxn

/-! ### (c) the loop -/

structure CInv (g0 g : Graph) (q : List Key) : Prop where
  d : DInv g0 g
  relaxed : ∀ u ∈ g0.nodes, 0 ≤ g.depth u → u ∉ q → ∀ x ∈ g0.nodes, u ∈ g0.edges x → g.depth u + 1 ≤ g.depth x
  queue : ∀ x ∈ q, 0 ≤ g.depth x ∧ x ∈ g0.nodes
  roots : ∀ k ∈ g0.nodes, g0.edges k = [] → 0 ≤ g.depth k

theorem depthLoop_complete (g0 : Graph) (b : Base g0) (s : Synced g0) (hac : Acyclic g0) :
    ∀ (f : Nat) (g : Graph) (q : List Key), CInv g0 g q → pot g g0.nodes + q.length + 1 ≤ f →
      CInv g0 (depthLoop f g q) [] := by
  intro f
  induction f with
  | zero => intro g q _ hf; omega
  | succ f ih =>
    intro g q inv hf
    cases q with
    | nil =>
      have : depthLoop (f + 1) g [] = g := by simp [depthLoop]
      rw [this]; exact inv
    | cons cur rest =>
      have e : depthLoop (f + 1) g (cur :: rest) =
          depthLoop f (relaxDepth g cur (g.ndependents cur)).1 (rest ++ (relaxDepth g cur (g.ndependents cur)).2) := by
        simp [depthLoop]
      rw [e]
      obtain ⟨hc, hcn⟩ := inv.queue cur (List.mem_cons_self ..)
      have hdep : ∀ d ∈ g.ndependents cur, d ∈ g0.nodes → cur ∈ g0.edges d := by
        intro d hd hdn
        rw [inv.d.ndependents] at hd
        have := s.cons cur hcn d hdn
        have hpos : 0 < (g0.ndependents cur).count d := List.count_pos_iff.2 hd
        rw [this] at hpos
        exact List.count_pos_iff.1 hpos
      obtain ⟨i1, m1, q1⟩ := relaxDepth_inv g0 cur (g.ndependents cur) g inv.d hc hdep
      have post := relaxDepth_post g0 b hac cur hcn (g.ndependents cur) g inv.d hc hdep
      apply ih
      · refine ⟨i1, ?_, ?_, ?_⟩
        · intro u hu hu0 hunq x hx hux
          have hur : u ∉ rest := fun h => hunq (List.mem_append.2 (Or.inl h))
          have hu2 : u ∉ (relaxDepth g cur (g.ndependents cur)).2 := fun h => hunq (List.mem_append.2 (Or.inr h))
          have hsame : (relaxDepth g cur (g.ndependents cur)).1.depth u = g.depth u := by
            by_cases h : (relaxDepth g cur (g.ndependents cur)).1.depth u = g.depth u
            · exact h
            · exact absurd (post.changed u h) hu2
          rw [hsame] at hu0 ⊢
          by_cases huc : u = cur
          · subst huc
            -- every dependent of `cur` was looked at
            have hxd : x ∈ g.ndependents u := by
              rw [inv.d.ndependents]
              have := s.cons u hu x hx
              have hpos : 0 < (g0.edges x).count u := List.count_pos_iff.2 hux
              rw [← this] at hpos
              exact List.count_pos_iff.1 hpos
            exact post.done x hxd hx
          · have hunq' : u ∉ cur :: rest := by
              intro h; rcases List.mem_cons.1 h with h | h
              · exact huc h
              · exact hur h
            exact Int.le_trans (inv.relaxed u hu hu0 hunq' x hx hux) (m1 x)
        · intro x hx
          rcases List.mem_append.1 hx with h | h
          · obtain ⟨a, c⟩ := inv.queue x (List.mem_cons_of_mem _ h)
            exact ⟨Int.le_trans a (m1 x), c⟩
          · exact q1 x h
        · intro k hk hke
          exact Int.le_trans (inv.roots k hk hke) (m1 k)
      · have := post.pot
        simp only [List.length_append, List.length_cons] at hf ⊢
        omega

/-- a chain of `m` edges from `k` forces depth `≥ m` once the queue is empty -/
theorem chain_le_depth (g0 g : Graph) (b : Base g0) (inv : CInv g0 g []) : ∀ {k : Key} {m : Nat}, k ∈ g0.nodes →
    Chain g0.edges k m → (m : Int) ≤ g.depth k := by
  intro k m hk h
  induction h with
  | root he => exact inv.roots _ hk he
  | @step k c m hc _ ih =>
    have hcn : c ∈ g0.nodes := b.targets k hk c hc
    have h1 := ih hcn
    have h0 : 0 ≤ g.depth c := by omega
    have := inv.relaxed c hcn h0 (by simp) k hk hc
    omega

/-- COMPLETENESS + SOUNDNESS: on an acyclic graph the depth of a node bounds the length of every dependency chain from
it down to a node without dependencies, and it is the length of one of them: it is the length of the LONGEST chain -/
theorem depths_exact (g : Graph) (b : Base g) (s : Synced g) (hac : Acyclic g) (norder : List Key)
    (hp : norder.Perm g.nodes) (k : Key) (hk : k ∈ g.nodes) :
    (∀ m', Chain g.edges k m' → (m' : Int) ≤ (calculateDepthsWith g norder).depth k) ∧
    ((calculateDepthsWith g norder).depth k = -1 ∨
      ∃ m : Nat, (calculateDepthsWith g norder).depth k = (m : Int) ∧ Chain g.edges k m) := by
  have hn : ∀ x ∈ norder, x ∈ g.nodes := fun x hx => hp.mem_iff.1 hx
  -- the state the loop starts from
  have key : CInv g (calculateDepthsWith g norder) [] := by
    unfold calculateDepthsWith
    simp only []
    -- roots: exactly the members of the list get 0, everything else keeps its label
    have hfold : ∀ (l : List Key) (g1 : Graph) (x : Key),
        (l.foldl (fun g k => { g with depth := upd g.depth k 0 }) g1).depth x = if x ∈ l then 0 else g1.depth x := by
      intro l
      induction l with
      | nil => intro g1 x; simp
      | cons r rest ih =>
        intro g1 x
        simp only [List.foldl_cons]
        rw [ih]
        by_cases hxr : x ∈ rest
        · simp [hxr]
        · by_cases hx : x = r
          · subst hx; simp [hxr, upd]
          · simp [hxr, hx, upd]
    have hframe : ∀ (l : List Key) (g1 : Graph),
        (l.foldl (fun g k => { g with depth := upd g.depth k 0 }) g1).edges = g1.edges ∧
        (l.foldl (fun g k => { g with depth := upd g.depth k 0 }) g1).nodes = g1.nodes ∧
        (l.foldl (fun g k => { g with depth := upd g.depth k 0 }) g1).ndependents = g1.ndependents := by
      intro l
      induction l with
      | nil => intro g1; exact ⟨rfl, rfl, rfl⟩
      | cons r rest ih => intro g1; simp only [List.foldl_cons]; exact ih _
    generalize hroots : norder.filter (fun k => (({ g with depth := fun _ => -1 } : Graph).ndeps k).length == 0) = roots
    have hrl : ∀ x, x ∈ roots ↔ (x ∈ g.nodes ∧ g.edges x = []) := by
      intro x
      rw [← hroots, List.mem_filter]
      constructor
      · rintro ⟨h1, h2⟩
        have hxn := hn x h1
        refine ⟨hxn, ?_⟩
        have : (g.ndeps x).length = 0 := by simpa using h2
        rw [← b.deps x hxn]; exact List.eq_nil_of_length_eq_zero this
      · rintro ⟨h1, h2⟩
        refine ⟨hp.mem_iff.2 h1, ?_⟩
        show ((g.ndeps x).length == 0) = true
        rw [b.deps x h1, h2]; rfl
    obtain ⟨fe, fn, fd⟩ := hframe roots { g with depth := fun _ => -1 }
    have c0 : CInv g (roots.foldl (fun g k => { g with depth := upd g.depth k 0 }) { g with depth := fun _ => -1 }) roots := by
      refine ⟨⟨fe, fn, fd, ?_⟩, ?_, ?_, ?_⟩
      · intro x
        rw [hfold]
        by_cases hx : x ∈ roots
        · rw [if_pos hx]
          exact Or.inr ⟨0, rfl, Chain.root ((hrl x).1 hx).2⟩
        · rw [if_neg hx]; exact Or.inl rfl
      · intro u _ hu0 hunq
        rw [hfold, if_neg hunq] at hu0
        have hu1 : (0 : Int) ≤ -1 := hu0
        exact absurd hu1 (by decide)
      · intro x hx
        rw [hfold, if_pos hx]
        exact ⟨Int.le_refl _, ((hrl x).1 hx).1⟩
      · intro x hx hxe
        rw [hfold]
        have : x ∈ roots := (hrl x).2 ⟨hx, hxe⟩
        rw [if_pos this]; exact Int.le_refl _
    apply depthLoop_complete g b s hac _ _ _ c0
    -- the fuel
    have hpot : pot (roots.foldl (fun g k => { g with depth := upd g.depth k 0 }) { g with depth := fun _ => -1 }) g.nodes
        ≤ g.nodes.length * g.nodes.length := by
      unfold pot
      apply sum_le_mul
      intro x _
      have : -1 ≤ (roots.foldl (fun (g : Graph) k => { g with depth := upd g.depth k 0 }) { g with depth := fun _ => -1 }).depth x := by
        rw [hfold]; split
        · decide
        · show (-1 : Int) ≤ -1; exact Int.le_refl _
      simp only [slack]; omega
    have hrlen : roots.length ≤ g.nodes.length := by
      rw [← hroots, ← hp.length_eq]; exact List.length_filter_le _ _
    omega
  exact ⟨fun m' hm' => chain_le_depth g _ b key hk hm', depths_witnessed g b s norder hn k⟩

end Godi.Graph
