import GodiProofs.Graph.Dfs
/-!
Termination of the explicit-stack DFS of `detectCyclesFrom`: with the fuel the model supplies the
search never runs out of fuel — i.e. the unbounded `for len(stack) > 0` loop of the Go code
terminates on every graph. Potential: stack height + Σ over never-expanded nodes of (2 + out-degree).
-/
namespace Godi.Dfs
open Godi.Kahn (Key)

/-- weight of the nodes of `U` that were never expanded -/
def rem (edges : Key → List Key) (seen : Key → Bool) : List Key → Nat
  | [] => 0
  | u :: us => (if seen u then 0 else 2 + (edges u).length) + rem edges seen us

theorem rem_mono (edges : Key → List Key) (seen seen' : Key → Bool) (U : List Key)
    (h : ∀ u ∈ U, seen u = true → seen' u = true) : rem edges seen' U ≤ rem edges seen U := by
  induction U with
  | nil => simp [rem]
  | cons u us ih =>
    have ih' := ih (fun x hx => h x (List.mem_cons_of_mem _ hx))
    have hu := h u (by simp)
    simp only [rem]
    cases hs : seen u <;> cases hs' : seen' u <;> simp_all <;> omega

theorem rem_mark (edges : Key → List Key) (seen seen' : Key → Bool) (k : Key) :
    ∀ (U : List Key), U.Nodup → k ∈ U → seen k = false → seen' k = true →
    (∀ u, u ≠ k → seen' u = seen u) →
    rem edges seen' U + (2 + (edges k).length) = rem edges seen U := by
  intro U
  induction U with
  | nil => intro _ h; simp at h
  | cons u us ih =>
    intro nd hk hs hs' hother
    rw [List.nodup_cons] at nd
    simp only [rem]
    by_cases huk : u = k
    · subst huk
      have : rem edges seen' us = rem edges seen us := by
        have h1 : rem edges seen' us ≤ rem edges seen us :=
          rem_mono edges seen seen' us (fun x hx hsx => by
            have : x ≠ u := fun e => nd.1 (e ▸ hx)
            rw [hother x this]; exact hsx)
        have h2 : rem edges seen us ≤ rem edges seen' us :=
          rem_mono edges seen' seen us (fun x hx hsx => by
            have : x ≠ u := fun e => nd.1 (e ▸ hx)
            rw [← hother x this]; exact hsx)
        omega
      simp [hs, hs', this]; omega
    · have hk' : k ∈ us := by
        rcases List.mem_cons.1 hk with h | h
        · exact absurd h.symm huk
        · exact h
      have := ih nd.2 hk' hs hs' hother
      rw [hother u huk]
      omega

theorem push_length_le (edges : Key → List Key) (visited : List Key) (k : Key) :
    (push edges visited k).length ≤ (edges k).length := by
  simp only [push, List.length_map, List.length_reverse]
  exact List.length_filter_le _ _

def seenOf (visiting visited : List Key) : Key → Bool := fun u => decide (u ∈ visiting) || decide (u ∈ visited)

/-- the potential strictly decreases, hence fuel above it is never exhausted -/
theorem dfs_no_fuel (edges : Key → List Key) (U : List Key) (nd : U.Nodup)
    (closed : ∀ u ∈ U, ∀ d ∈ edges u, d ∈ U) :
    ∀ fuel st visiting visited, (∀ it ∈ st, it.key ∈ U) →
      st.length + rem edges (seenOf visiting visited) U < fuel →
      dfs edges fuel st visiting visited ≠ .fuel := by
  intro fuel
  induction fuel with
  | zero => intro st visiting visited _ h; omega
  | succ f ih =>
    intro st visiting visited hst hlt
    cases st with
    | nil => simp [dfs]
    | cons it st =>
      unfold dfs
      have hitU : it.key ∈ U := hst it (by simp)
      have hstU : ∀ i ∈ st, i.key ∈ U := fun i hi => hst i (List.mem_cons_of_mem _ hi)
      split
      · -- backtracking: pop the marker
        apply ih _ _ _ hstU
        have := rem_mono edges (seenOf visiting visited) (seenOf (visiting.erase it.key) (it.key :: visited)) U
          (fun u _ hu => by
            simp only [seenOf, Bool.or_eq_true, decide_eq_true_eq, List.mem_cons] at hu ⊢
            by_cases huk : u = it.key
            · exact Or.inr (Or.inl huk)
            · rcases hu with hu | hu
              · exact Or.inl ((List.mem_erase_of_ne huk).2 hu)
              · exact Or.inr (Or.inr hu))
        simp only [List.length_cons] at hlt
        omega
      · split
        · simp
        · split
          · -- already visited: pop
            apply ih _ _ _ hstU
            simp only [List.length_cons] at hlt
            omega
          · -- expand
            rename_i hfresh hnvis hnvisited
            apply ih
            · intro i hi
              simp only [List.mem_append, List.mem_cons] at hi
              rcases hi with hi | hi | hi
              · simp only [push, List.mem_map, List.mem_reverse, List.mem_filter] at hi
                obtain ⟨d, ⟨hd, _⟩, rfl⟩ := hi
                exact closed _ hitU d hd
              · subst hi; exact hitU
              · exact hstU i hi
            · have hm := rem_mark edges (seenOf visiting visited) (seenOf (it.key :: visiting) visited) it.key U nd hitU
                (by simp [seenOf, hnvis, hnvisited]) (by simp [seenOf])
                (by intro u hu; simp [seenOf, hu])
              have hp := push_length_le edges visited it.key
              simp only [List.length_append, List.length_cons] at hlt ⊢
              omega

theorem rem_none (edges : Key → List Key) (U : List Key) :
    rem edges (fun _ => false) U = 2 * U.length + (U.map (fun k => (edges k).length)).sum := by
  induction U with
  | nil => simp [rem]
  | cons u us ih => simp [rem, ih]; omega

/-- `detectFrom` with `2·|E| + 2·|V| + 4` units of fuel always finishes -/
theorem detectFrom_no_fuel (edges : Key → List Key) (U : List Key) (nd : U.Nodup)
    (closed : ∀ u ∈ U, ∀ d ∈ edges u, d ∈ U) (s : Key) (hs : s ∈ U) (fuel : Nat)
    (hf : 2 * U.length + (U.map (fun k => (edges k).length)).sum + 1 < fuel) :
    detectFrom edges fuel s ≠ .fuel := by
  unfold detectFrom
  apply dfs_no_fuel edges U nd closed
  · intro it hit; simp at hit; subst hit; exact hs
  · have : seenOf [] [] = fun _ => false := by funext u; simp [seenOf]
    rw [this, rem_none]
    simp
    omega

end Godi.Dfs
