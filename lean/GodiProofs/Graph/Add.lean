import GodiProofs.Graph.Remove
import GodiProofs.Graph.CyclePath
/-! The immediate `AddProvider`: accepted adds refine the digraph update, rejected adds leave it as it was. -/
namespace Godi.Graph
open Godi.Kahn (Key)

/-- graphs that agree on everything except the `Dependencies` field of node `k` -/
structure EqExc (X Y : Graph) (k : Key) : Prop where
  nodes : X.nodes = Y.nodes
  prov : X.prov = Y.prov
  ndeps : ∀ x, x ≠ k → X.ndeps x = Y.ndeps x
  ndependents : X.ndependents = Y.ndependents
  inDeg : X.inDeg = Y.inDeg
  outDeg : X.outDeg = Y.outDeg
  depth : X.depth = Y.depth
  ekeys : X.ekeys = Y.ekeys
  edges : X.edges = Y.edges
  sorted : X.sorted = Y.sorted
  sortedDirty : X.sortedDirty = Y.sortedDirty
  cycleTrue : X.cycleTrue = Y.cycleTrue
  cycleDirty : X.cycleDirty = Y.cycleDirty

theorem insertNode_eqExc (X Y : Graph) (k d : Key) (h : EqExc X Y k) (hk : k ∈ X.nodes) :
    EqExc (insertNode X d) (insertNode Y d) k := by
  unfold insertNode
  rw [← h.nodes]
  split
  · exact h
  next hd =>
    have hdk : d ≠ k := fun e => hd (e ▸ hk)
    refine ⟨by simp [h.nodes], by simp [h.prov], ?_, by simp [h.ndependents], by simp [h.inDeg], by simp [h.outDeg],
      by simp [h.depth], h.ekeys, h.edges, h.sorted, h.sortedDirty, h.cycleTrue, h.cycleDirty⟩
    intro x hx
    simp only []
    by_cases hxd : x = d
    · subst hxd; simp
    · simp [upd_ne _ _ hxd, h.ndeps x hx]

theorem ensureNodes_eqExc (k : Key) : ∀ (ds : List Key) (X Y : Graph), EqExc X Y k → k ∈ X.nodes →
    EqExc (ensureNodes X ds).1 (ensureNodes Y ds).1 k ∧ (ensureNodes X ds).2 = (ensureNodes Y ds).2 := by
  intro ds
  induction ds with
  | nil => intro X Y h _; exact ⟨h, rfl⟩
  | cons d rest ih =>
    intro X Y h hk
    unfold ensureNodes
    rw [← h.nodes]
    split
    · exact ih X Y h hk
    next hd =>
      have h1 := insertNode_eqExc X Y k d h hk
      have hk1 : k ∈ (insertNode X d).nodes := (insertNode_nodes_mem X d k).2 (Or.inl hk)
      obtain ⟨h2, h3⟩ := ih _ _ h1 hk1
      exact ⟨h2, by simp only [h3]⟩

theorem putEdges_eqExc (X Y : Graph) (k : Key) (ds : List Key) (h : EqExc X Y k) : putEdges X k ds = putEdges Y k ds := by
  unfold putEdges setEdges
  have hn : upd X.ndeps k ds = upd Y.ndeps k ds := by
    funext x
    by_cases hx : x = k
    · subst hx; simp
    · simp [upd_ne _ _ hx, h.ndeps x hx]
  cases X; cases Y
  simp only [] at h hn ⊢
  obtain ⟨h1, h2, _, h4, h5, h6, h7, h8, h9, h10, h11, h12, h13⟩ := h
  simp only [] at h1 h2 h4 h5 h6 h7 h8 h9 h10 h11 h12 h13
  subst h1 h2 h4 h5 h6 h7 h8 h9 h10 h11 h12 h13
  simp [hn]

/-- the state `AddProvider` has built just before the cycle check, in terms of the primitives whose
invariants are already known -/
def added (g : Graph) (k : Key) (p : Nat) (deps : List Key) : Graph :=
  putEdges (ensureNodes (dropEdges (setProv (insertNode g k) k (some p)) k) deps).1 k deps

theorem added_base (g : Graph) (b : Base g) (k : Key) (p : Nat) (deps : List Key) : Base (added g k p deps) := by
  unfold added
  have b2 : Base (dropEdges (setProv (insertNode g k) k (some p)) k) :=
    dropEdges_base _ _ (setProv_base _ _ _ (insertNode_base g k b))
  have hk2 : k ∈ (dropEdges (setProv (insertNode g k) k (some p)) k).nodes :=
    (insertNode_nodes_mem g k k).2 (Or.inr rfl)
  obtain ⟨h1, _, _, h4, _⟩ := ensureNodes_spec deps _ b2
  exact putEdges_base _ _ _ h1 ((h4 k).2 (Or.inl hk2)) (fun d hd => (h4 d).2 (Or.inr hd))

theorem added_edges (g : Graph) (b : Base g) (k : Key) (p : Nat) (deps : List Key) :
    (added g k p deps).edges = upd g.edges k deps := by
  unfold added
  have b2 : Base (dropEdges (setProv (insertNode g k) k (some p)) k) :=
    dropEdges_base _ _ (setProv_base _ _ _ (insertNode_base g k b))
  obtain ⟨_, h2, _⟩ := ensureNodes_spec deps _ b2
  show upd (ensureNodes (dropEdges (setProv (insertNode g k) k (some p)) k) deps).1.edges k deps = _
  rw [h2]
  show upd (upd (setProv (insertNode g k) k (some p)).edges k []) k deps = _
  rw [setProv_edges, (insertNode_edges g k).1]
  funext x
  by_cases hx : x = k
  · subst hx; simp
  · simp [upd_ne _ _ hx]

theorem added_nodes (g : Graph) (b : Base g) (k : Key) (p : Nat) (deps : List Key) (x : Key) :
    x ∈ (added g k p deps).nodes ↔ x ∈ g.nodes ∨ x = k ∨ x ∈ deps := by
  unfold added
  have b2 : Base (dropEdges (setProv (insertNode g k) k (some p)) k) :=
    dropEdges_base _ _ (setProv_base _ _ _ (insertNode_base g k b))
  obtain ⟨_, _, _, h4, _⟩ := ensureNodes_spec deps _ b2
  show x ∈ (ensureNodes (dropEdges (setProv (insertNode g k) k (some p)) k) deps).1.nodes ↔ _
  rw [h4]
  show x ∈ (insertNode g k).nodes ∨ x ∈ deps ↔ _
  rw [insertNode_nodes_mem]
  constructor
  · rintro ((h | h) | h); exact Or.inl h; exact Or.inr (Or.inl h); exact Or.inr (Or.inr h)
  · rintro (h | h | h); exact Or.inl (Or.inl h); exact Or.inl (Or.inr h); exact Or.inr h

/-- what `AddProvider` really computes (with `delEdges`) is `added` -/
theorem addProvider_g4 (g : Graph) (k : Key) (p : Nat) (deps : List Key) :
    let g2 := delEdges { insertNode g k with prov := upd (insertNode g k).prov k (some p) } k
    setEdges { (ensureNodes g2 deps).1 with ndeps := upd (ensureNodes g2 deps).1.ndeps k deps } k deps = added g k p deps ∧
    (ensureNodes g2 deps).2 = (ensureNodes (dropEdges (setProv (insertNode g k) k (some p)) k) deps).2 := by
  intro g2
  have he : EqExc g2 (dropEdges (setProv (insertNode g k) k (some p)) k) k := by
    refine ⟨rfl, rfl, ?_, rfl, rfl, rfl, rfl, rfl, rfl, rfl, rfl, rfl, rfl⟩
    intro x hx
    show (insertNode g k).ndeps x = upd (insertNode g k).ndeps k [] x
    rw [upd_ne _ _ hx]
  have hk2 : k ∈ g2.nodes := (insertNode_nodes_mem g k k).2 (Or.inr rfl)
  obtain ⟨h1, h2⟩ := ensureNodes_eqExc k deps _ _ he hk2
  exact ⟨putEdges_eqExc _ _ k deps h1, h2⟩

end Godi.Graph

namespace Godi.Graph
open Godi.Kahn (Key)

/-- `AddProvider` in terms of `added`: the state handed to the cycle check, and the rollback -/
def checked (g : Graph) (k : Key) (p : Nat) (deps : List Key) : Graph :=
  { updateDegrees (added g k p deps) with sortedDirty := true, cycleDirty := true }

def createdBy (g : Graph) (k : Key) (p : Nat) (deps : List Key) : List Key :=
  (ensureNodes (dropEdges (setProv (insertNode g k) k (some p)) k) deps).2

def rollback (g g6 : Graph) (k : Key) (created : List Key) : Graph :=
  let g1 := insertNode g k
  let g7 :=
    if decide (k ∈ g.nodes) then
      let g' := { g6 with prov := upd g6.prov k (g1.prov k), ndeps := upd g6.ndeps k (g1.ndeps k) }
      if decide (k ∈ g1.ekeys) then setEdges g' k (g1.edges k) else delEdges g' k
    else delEdges (delNode g6 k) k
  updateDegrees (created.foldl delNode g7)

theorem addProvider_eq (g : Graph) (k : Key) (p : Nat) (deps : List Key) :
    addProvider g k p deps =
      (match detectCyclesFrom (checked g k p deps) k with
       | (g6, .ok) => (g6, .ok)
       | (g6, r) => (rollback g g6 k (createdBy g k p deps), r)) := by
  obtain ⟨h4, hc⟩ := addProvider_g4 g k p deps
  unfold addProvider
  simp only []
  rw [show (ensureNodes (delEdges { insertNode g k with prov := upd (insertNode g k).prov k (some p) } k) deps) =
    ((ensureNodes (delEdges { insertNode g k with prov := upd (insertNode g k).prov k (some p) } k) deps).1,
     (ensureNodes (delEdges { insertNode g k with prov := upd (insertNode g k).prov k (some p) } k) deps).2) from rfl]
  simp only [h4, hc]
  rfl

theorem checked_base_synced (g : Graph) (b : Base g) (k : Key) (p : Nat) (deps : List Key) :
    Base (checked g k p deps) ∧ Synced (checked g k p deps) ∧
    (checked g k p deps).edges = upd g.edges k deps ∧
    (∀ x, x ∈ (checked g k p deps).nodes ↔ x ∈ g.nodes ∨ x = k ∨ x ∈ deps) ∧
    (checked g k p deps).ekeys = (added g k p deps).ekeys := by
  have ba := added_base g b k p deps
  have fr := updateDegreesWith_frame (added g k p deps) (added g k p deps).ekeys
  refine ⟨setFlags_base _ true true (updateDegreesWith_base _ _ (List.Perm.refl _) ba),
    setFlags_synced _ true true (updateDegreesWith_synced _ _ (List.Perm.refl _) ba), ?_, ?_, ?_⟩
  · show (updateDegrees (added g k p deps)).edges = _
    unfold updateDegrees; rw [fr.2.1]; exact added_edges g b k p deps
  · intro x
    show x ∈ (updateDegrees (added g k p deps)).nodes ↔ _
    unfold updateDegrees; rw [fr.1]; exact added_nodes g b k p deps x
  · show (updateDegrees (added g k p deps)).ekeys = _
    unfold updateDegrees; exact fr.2.2.1

/-- ACCEPTED ADD: the digraph update, with all derived fields in sync -/
theorem addProvider_accepted (g : Graph) (b : Base g) (k : Key) (p : Nat) (deps : List Key)
    (h : (addProvider g k p deps).2 = .ok) :
    Base (addProvider g k p deps).1 ∧ Synced (addProvider g k p deps).1 ∧
    (addProvider g k p deps).1.edges = upd g.edges k deps ∧
    (∀ x, x ∈ (addProvider g k p deps).1.nodes ↔ x ∈ g.nodes ∨ x = k ∨ x ∈ deps) := by
  rw [addProvider_eq] at h ⊢
  obtain ⟨cb, cs, ce, cn, _⟩ := checked_base_synced g b k p deps
  have hs := detectCyclesFrom_same (checked g k p deps) k
  generalize detectCyclesFrom (checked g k p deps) k = r at h hs ⊢
  obtain ⟨g6, res⟩ := r
  cases res with
  | ok =>
    simp only [] at hs ⊢
    exact ⟨hs.base cb, hs.synced cs, hs.edges.trans ce, fun x => by rw [hs.nodes]; exact cn x⟩
  | cycle n path => simp at h
  | fuel => simp at h

end Godi.Graph
