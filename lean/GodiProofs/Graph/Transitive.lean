import GodiProofs.Graph.Bridge
/-!
# `GetTransitiveDependencies` is the reachable set

The recursive closure `collect` of graph.go, with the fuel the model runs on, returns exactly the nodes reachable from
the start by one or more edges, except the start itself (which is marked visited before the walk), each once.
Proof: one invariant pair for the depth-first walk — every node that became visited during a call has all its
successors visited when the call returns (closure), and the visited set is the start plus the result list — and a
counting argument for the fuel: every nested call marks a node of `start :: nodes` that was not marked before.
-/
namespace Godi.Graph
open Godi.Spec
open Godi.Kahn (Key)

/-- members of `U` not visited yet -/
def unv (U vis : List Key) : Nat := U.countP (fun x => decide (x ∉ vis))

theorem unv_mono (U : List Key) {vis vis2 : List Key} (h : ∀ x ∈ vis, x ∈ vis2) : unv U vis2 ≤ unv U vis := by
  unfold unv
  induction U with
  | nil => simp
  | cons x rest ih =>
    simp only [List.countP_cons]
    by_cases h2 : x ∈ vis2
    · simp only [h2, not_true_eq_false, decide_false, Bool.false_eq_true, if_false]; omega
    · have h1 : x ∉ vis := fun hx => h2 (h x hx)
      simp only [h1, h2, not_false_eq_true, decide_true, if_true]; omega

theorem unv_lt (U : List Key) {vis : List Key} {cur : Key} (hc : cur ∈ U) (hv : cur ∉ vis) :
    unv U (cur :: vis) < unv U vis := by
  induction U with
  | nil => cases hc
  | cons x rest ih =>
    have hm := unv_mono rest (vis := vis) (vis2 := cur :: vis) (fun x hx => List.mem_cons_of_mem _ hx)
    unfold unv at ih hm ⊢
    simp only [List.countP_cons]
    by_cases hx : x = cur
    · subst hx
      have h2 : x ∈ x :: vis := List.mem_cons_self ..
      simp only [h2, not_true_eq_false, decide_false, Bool.false_eq_true, if_false, hv,
        not_false_eq_true, decide_true, if_true]
      omega
    · have hcr : cur ∈ rest := by
        rcases List.mem_cons.1 hc with h | h
        · exact absurd h.symm hx
        · exact h
      have := ih hcr
      by_cases h1 : x ∈ vis
      · have h2 : x ∈ cur :: vis := List.mem_cons_of_mem _ h1
        simp only [h1, h2, not_true_eq_false, decide_false, Bool.false_eq_true, if_false]; omega
      · have h2 : x ∉ cur :: vis := by
          intro h; rcases List.mem_cons.1 h with h | h
          · exact hx h
          · exact h1 h
        simp only [h1, h2, not_false_eq_true, decide_true, if_true]; omega

theorem reach_snoc {E : Key → List Key} {a b c : Key} (h : Reach E a b) (hc : c ∈ E b) : Reach E a c := by
  induction h with
  | single h1 => exact .cons h1 (.single hc)
  | cons h1 _ ih => exact .cons h1 (ih hc)

/-- the visited set is the start plus the result list; the result has no repetition and not the start -/
def Jp (k : Key) (vis res : List Key) : Prop := (∀ x, x ∈ vis ↔ x = k ∨ x ∈ res) ∧ k ∉ res ∧ res.Nodup

def SoundV (E : Key → List Key) (k : Key) (vis : List Key) : Prop := ∀ x ∈ vis, x = k ∨ Reach E k x

structure Out (E : Key → List Key) (k : Key) (vis vis2 res2 : List Key) : Prop where
  sub : ∀ x ∈ vis, x ∈ vis2
  closed : ∀ x ∈ vis2, x ∉ vis → ∀ y ∈ E x, y ∈ vis2
  j : Jp k vis2 res2
  sound : SoundV E k vis2

theorem Out.trans {E : Key → List Key} {k : Key} {v0 v1 v2 r2 : List Key}
    (sub01 : ∀ x ∈ v0, x ∈ v1) (cl01 : ∀ x ∈ v1, x ∉ v0 → ∀ y ∈ E x, y ∈ v1) (o : Out E k v1 v2 r2) : Out E k v0 v2 r2 := by
  refine ⟨fun x hx => o.sub x (sub01 x hx), ?_, o.j, o.sound⟩
  intro x hx hn y hy
  by_cases h1 : x ∈ v1
  · exact o.sub y (cl01 x h1 hn y hy)
  · exact o.closed x hx h1 y hy

theorem jp_push {k d : Key} {vis res : List Key} (j : Jp k vis res) (hd : d ∉ vis) : Jp k (d :: vis) (res ++ [d]) := by
  obtain ⟨j1, j2, j3⟩ := j
  have hk : k ∈ vis := (j1 k).2 (Or.inl rfl)
  have hdk : d ≠ k := fun e => hd (e ▸ hk)
  have hdr : d ∉ res := fun h => hd ((j1 d).2 (Or.inr h))
  refine ⟨?_, ?_, ?_⟩
  · intro x
    rw [List.mem_cons, List.mem_append, List.mem_singleton, j1 x]
    constructor
    · rintro (h | h | h)
      · exact Or.inr (Or.inr h)
      · exact Or.inl h
      · exact Or.inr (Or.inl h)
    · rintro (h | h | h)
      · exact Or.inr (Or.inl h)
      · exact Or.inr (Or.inr h)
      · exact Or.inl h
  · simp only [List.mem_append, List.mem_singleton, not_or]
    exact ⟨j2, fun e => hdk e.symm⟩
  · rw [List.nodup_append]
    refine ⟨j3, by simp, ?_⟩
    intro a ha b hb
    simp only [List.mem_singleton] at hb
    subst hb
    intro e; subst e; exact hdr ha

theorem list_out (E : Key → List Key) (k : Key) (U : List Key) (f : Nat)
    (ih : ∀ cur vis res, cur ∈ U → cur ∉ vis → unv U vis ≤ f → Jp k (cur :: vis) res → SoundV E k (cur :: vis) →
      Out E k vis (collect E f cur (vis, res)).1 (collect E f cur (vis, res)).2 ∧ cur ∈ (collect E f cur (vis, res)).1) :
    ∀ (l : List Key) (vis res : List Key), (∀ d ∈ l, d ∈ U) → (∀ d ∈ l, Reach E k d) → unv U vis ≤ f →
      Jp k vis res → SoundV E k vis →
      Out E k vis (collectList (collect E f) l (vis, res)).1 (collectList (collect E f) l (vis, res)).2 ∧
        ∀ d ∈ l, d ∈ (collectList (collect E f) l (vis, res)).1 := by
  intro l
  induction l with
  | nil =>
    intro vis res _ _ _ j s
    exact ⟨⟨fun _ h => h, fun x hx hn => absurd hx hn, j, s⟩, fun d hd => by cases hd⟩
  | cons d rest ihl =>
    intro vis res hlU hlR hf j s
    have hrU : ∀ d ∈ rest, d ∈ U := fun x hx => hlU x (List.mem_cons_of_mem _ hx)
    have hrR : ∀ d ∈ rest, Reach E k d := fun x hx => hlR x (List.mem_cons_of_mem _ hx)
    by_cases hd : d ∈ vis
    · have e : collectList (collect E f) (d :: rest) (vis, res) = collectList (collect E f) rest (vis, res) := by
        simp only [collectList, hd, if_true]
      rw [e]
      obtain ⟨o, hm⟩ := ihl vis res hrU hrR hf j s
      refine ⟨o, ?_⟩
      intro x hx
      rcases List.mem_cons.1 hx with h | h
      · subst h; exact o.sub _ hd
      · exact hm x h
    · have e : collectList (collect E f) (d :: rest) (vis, res) =
          collectList (collect E f) rest (collect E f d (vis, res ++ [d])) := by
        simp only [collectList, hd, if_false]
      rw [e]
      have s1 : SoundV E k (d :: vis) := by
        intro x hx
        rcases List.mem_cons.1 hx with h | h
        · subst h; exact Or.inr (hlR _ (List.mem_cons_self ..))
        · exact s x h
      obtain ⟨o1, hd1⟩ := ih d vis (res ++ [d]) (hlU d (List.mem_cons_self ..)) hd hf (jp_push j hd) s1
      cases hs : collect E f d (vis, res ++ [d]) with
      | mk v1 r1 =>
        rw [hs] at o1 hd1
        simp only [] at o1 hd1
        have hf1 : unv U v1 ≤ f := Nat.le_trans (unv_mono U o1.sub) hf
        obtain ⟨o2, hm2⟩ := ihl v1 r1 hrU hrR hf1 o1.j o1.sound
        refine ⟨Out.trans o1.sub o1.closed o2, ?_⟩
        intro x hx
        rcases List.mem_cons.1 hx with h | h
        · subst h; exact o2.sub _ hd1
        · exact hm2 x h

theorem collect_out (E : Key → List Key) (k : Key) (U : List Key) (hU : ∀ x ∈ U, ∀ y ∈ E x, y ∈ U) : ∀ (f : Nat) (cur : Key) (vis res : List Key), cur ∈ U → cur ∉ vis → unv U vis ≤ f →
    Jp k (cur :: vis) res → SoundV E k (cur :: vis) →
    Out E k vis (collect E f cur (vis, res)).1 (collect E f cur (vis, res)).2 ∧ cur ∈ (collect E f cur (vis, res)).1 := by
  intro f
  induction f with
  | zero =>
    intro cur vis res hc hv hf _ _
    have := unv_lt U hc hv
    omega
  | succ f ih =>
    intro cur vis res hc hv hf j s
    have e : collect E (f + 1) cur (vis, res) = collectList (collect E f) (E cur) (cur :: vis, res) := by
      simp only [collect, hv, if_false]
    rw [e]
    have hf2 : unv U (cur :: vis) ≤ f := by have := unv_lt U hc hv; omega
    have hR : ∀ d ∈ E cur, Reach E k d := by
      intro d hd
      rcases s cur (List.mem_cons_self ..) with h | h
      · subst h; exact .single hd
      · exact reach_snoc h hd
    obtain ⟨o, hm⟩ := list_out E k U f ih (E cur) (cur :: vis) res (hU cur hc) hR hf2 j s
    refine ⟨⟨fun x hx => o.sub x (List.mem_cons_of_mem _ hx), ?_, o.j, o.sound⟩, o.sub _ (List.mem_cons_self ..)⟩
    intro x hx hn y hy
    by_cases hxc : x = cur
    · subst hxc; exact hm y hy
    · refine o.closed x hx ?_ y hy
      intro h; rcases List.mem_cons.1 h with h | h
      · exact hxc h
      · exact hn h

/-- EXACTNESS of `GetTransitiveDependencies` -/
theorem transitive_spec (g : Graph) (b : Base g) (k : Key) :
    (getTransitiveDependencies g k).Nodup ∧
    ∀ x, x ∈ getTransitiveDependencies g k ↔ (x ≠ k ∧ Reach g.edges k x) := by
  have hU : ∀ x ∈ k :: g.nodes, ∀ y ∈ g.edges x, y ∈ k :: g.nodes := by
    intro x hx y hy
    by_cases hn : x ∈ g.nodes
    · exact List.mem_cons_of_mem _ (b.targets x hn y hy)
    · have : g.edges x = [] := b.offKeys x (fun h => hn (b.ekeysSub x h))
      rw [this] at hy; cases hy
  have hf : unv (k :: g.nodes) [] ≤ g.nodes.length + 2 := by
    unfold unv
    have := List.countP_le_length (p := fun x => decide (x ∉ ([] : List Key))) (l := k :: g.nodes)
    simp only [List.length_cons] at this
    omega
  have j0 : Jp k [k] [] := ⟨fun x => by simp, by simp, by simp⟩
  have s0 : SoundV g.edges k [k] := fun x hx => Or.inl (by simpa using hx)
  obtain ⟨o, hk⟩ := collect_out g.edges k (k :: g.nodes) hU (g.nodes.length + 2) k [] [] (List.mem_cons_self ..)
    (by simp) hf j0 s0
  unfold getTransitiveDependencies
  obtain ⟨j1, j2, j3⟩ := o.j
  refine ⟨j3, ?_⟩
  intro x
  constructor
  · intro hx
    have hxv := (j1 x).2 (Or.inr hx)
    have hne : x ≠ k := fun e => j2 (e ▸ hx)
    rcases o.sound x hxv with h | h
    · exact absurd h hne
    · exact ⟨hne, h⟩
  · rintro ⟨hne, hr⟩
    have cl : ∀ a c, Reach g.edges a c → a ∈ (collect g.edges (g.nodes.length + 2) k ([], [])).1 →
        c ∈ (collect g.edges (g.nodes.length + 2) k ([], [])).1 := by
      intro a c h
      induction h with
      | single h1 => intro ha; exact o.closed _ ha (by simp) _ h1
      | cons h1 _ ih => intro ha; exact ih (o.closed _ ha (by simp) _ h1)
    rcases (j1 x).1 (cl k x hr hk) with h | h
    · exact absurd h hne
    · exact h

end Godi.Graph
