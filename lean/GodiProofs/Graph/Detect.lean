import GodiProofs.Graph.Ops
import GodiProofs.Graph.Dfs
/-! Frame facts of the cycle check: it only touches the cycle cache. -/
namespace Godi.Graph
open Godi.Kahn (Key)

/-- the structural fields (everything except caches, flags and depths) coincide -/
structure SameStruct (g g' : Graph) : Prop where
  nodes : g'.nodes = g.nodes
  edges : g'.edges = g.edges
  ekeys : g'.ekeys = g.ekeys
  ndeps : g'.ndeps = g.ndeps
  ndependents : g'.ndependents = g.ndependents
  inDeg : g'.inDeg = g.inDeg
  outDeg : g'.outDeg = g.outDeg
  prov : g'.prov = g.prov

theorem SameStruct.refl (g : Graph) : SameStruct g g := ⟨rfl, rfl, rfl, rfl, rfl, rfl, rfl, rfl⟩
theorem SameStruct.trans {a b c : Graph} (h1 : SameStruct a b) (h2 : SameStruct b c) : SameStruct a c :=
  ⟨h2.nodes.trans h1.nodes, h2.edges.trans h1.edges, h2.ekeys.trans h1.ekeys, h2.ndeps.trans h1.ndeps,
   h2.ndependents.trans h1.ndependents, h2.inDeg.trans h1.inDeg, h2.outDeg.trans h1.outDeg, h2.prov.trans h1.prov⟩

theorem SameStruct.base {g g' : Graph} (h : SameStruct g g') (b : Base g) : Base g' := by
  obtain ⟨h1, h2, h3, h4, _, _, _, _⟩ := h
  refine ⟨h1 ▸ b.nodesNodup, h3 ▸ b.ekeysNodup, ?_, ?_, ?_, ?_⟩
  · rw [h1, h3]; exact b.ekeysSub
  · rw [h1, h2]; exact b.targets
  · rw [h2, h3]; exact b.offKeys
  · rw [h1, h2, h4]; exact b.deps

theorem SameStruct.synced {g g' : Graph} (h : SameStruct g g') (s : Synced g) : Synced g' := by
  obtain ⟨h1, h2, _, _, h5, h6, h7, _⟩ := h
  refine ⟨?_, ?_, ?_, ?_⟩
  · rw [h1, h5]; exact s.depnSub
  · rw [h1, h2, h5]; exact s.cons
  · rw [h1, h5, h6]; exact s.inDeg
  · rw [h1, h2, h7]; exact s.outDeg

theorem detectCyclesFrom_same (g : Graph) (k : Key) : SameStruct g (detectCyclesFrom g k).1 := by
  unfold detectCyclesFrom
  split
  · exact SameStruct.refl g
  · split <;> first | exact SameStruct.refl g | exact ⟨rfl, rfl, rfl, rfl, rfl, rfl, rfl, rfl⟩

theorem detectLoop_same (l : List Key) : ∀ g, SameStruct g (detectLoop g l).1 := by
  induction l with
  | nil => intro g; exact SameStruct.refl g
  | cons k rest ih =>
    intro g
    unfold detectLoop
    have h1 := detectCyclesFrom_same g k
    split
    next g1 heq =>
      have : g1 = (detectCyclesFrom g k).1 := by rw [heq]
      subst this
      exact h1.trans (ih _)
    next r hne =>
      exact h1

theorem updateDegreesWith_same_struct (g : Graph) (eorder : List Key) :
    (updateDegreesWith g eorder).nodes = g.nodes ∧ (updateDegreesWith g eorder).edges = g.edges ∧
    (updateDegreesWith g eorder).ekeys = g.ekeys := by
  have := updateDegreesWith_frame g eorder
  exact ⟨this.1, this.2.1, this.2.2.1⟩

theorem resetCycleCache_same (g : Graph) : SameStruct g (resetCycleCache g) := ⟨rfl, rfl, rfl, rfl, rfl, rfl, rfl, rfl⟩
theorem setCycleClean_same (g : Graph) : SameStruct g (setCycleClean g) := ⟨rfl, rfl, rfl, rfl, rfl, rfl, rfl, rfl⟩
@[simp] theorem resetCycleCache_sortedDirty (g : Graph) : (resetCycleCache g).sortedDirty = g.sortedDirty := rfl
@[simp] theorem setCycleClean_sortedDirty (g : Graph) : (setCycleClean g).sortedDirty = g.sortedDirty := rfl

theorem detectCyclesWith_dirty (g : Graph) (eorder norder : List Key)
    (h : (updateDegreesWith g eorder).cycleDirty = true) :
    detectCyclesWith g eorder norder =
      (setCycleClean (detectLoop (resetCycleCache (updateDegreesWith g eorder)) norder).1,
       (detectLoop (resetCycleCache (updateDegreesWith g eorder)) norder).2) := by
  simp [detectCyclesWith, h]

theorem detectCyclesWith_clean (g : Graph) (eorder norder : List Key)
    (h : (updateDegreesWith g eorder).cycleDirty = false) :
    (detectCyclesWith g eorder norder).1 = updateDegreesWith g eorder := by
  simp only [detectCyclesWith, h, Bool.false_eq_true, ↓reduceIte]
  split <;> rfl

/-- after `DetectCycles` — whatever it answers and for every iteration order — the graph is
structurally the one before, with its degree/dependent fields in sync -/
theorem detectCyclesWith_base_synced (g : Graph) (eorder norder : List Key) (hp : eorder.Perm g.ekeys)
    (b : Base g) :
    Base (detectCyclesWith g eorder norder).1 ∧ Synced (detectCyclesWith g eorder norder).1 ∧
    (detectCyclesWith g eorder norder).1.nodes = g.nodes ∧ (detectCyclesWith g eorder norder).1.edges = g.edges := by
  have b1 := updateDegreesWith_base g eorder hp b
  have s1 := updateDegreesWith_synced g eorder hp b
  have f1 := updateDegreesWith_same_struct g eorder
  cases hd : (updateDegreesWith g eorder).cycleDirty with
  | false =>
    rw [detectCyclesWith_clean g eorder norder hd]
    exact ⟨b1, s1, f1.1, f1.2.1⟩
  | true =>
    rw [detectCyclesWith_dirty g eorder norder hd]
    have hs : SameStruct (updateDegreesWith g eorder)
        (setCycleClean (detectLoop (resetCycleCache (updateDegreesWith g eorder)) norder).1) :=
      ((resetCycleCache_same (updateDegreesWith g eorder)).trans (detectLoop_same norder _)).trans (setCycleClean_same _)
    exact ⟨hs.base b1, hs.synced s1, hs.nodes.trans f1.1, hs.edges.trans f1.2.1⟩

end Godi.Graph
