import GodiProofs.Graph.Ops
import GodiProofs.Graph.Dfs
/-! Frame facts of the cycle check: it only touches the cycle cache. -/
namespace Godi.Graph
open Godi.Kahn (Key)

/-- the structural fields (everything except caches, flags and depths) coincide -/
structure SameStruct (g g' : Graph) : Prop where
  nodes : g'.nodes = g.nodes
  edges : g'.edges = g.edges
  ekeys : g'.ekeys = g.ekeys
  ndeps : g'.ndeps = g.ndeps
  ndependents : g'.ndependents = g.ndependents
  inDeg : g'.inDeg = g.inDeg
  outDeg : g'.outDeg = g.outDeg
  prov : g'.prov = g.prov

theorem SameStruct.refl (g : Graph) : SameStruct g g := ⟨rfl, rfl, rfl, rfl, rfl, rfl, rfl, rfl⟩
theorem SameStruct.trans {a b c : Graph} (h1 : SameStruct a b) (h2 : SameStruct b c) : SameStruct a c :=
  ⟨h2.nodes.trans h1.nodes, h2.edges.trans h1.edges, h2.ekeys.trans h1.ekeys, h2.ndeps.trans h1.ndeps,
   h2.ndependents.trans h1.ndependents, h2.inDeg.trans h1.inDeg, h2.outDeg.trans h1.outDeg, h2.prov.trans h1.prov⟩

theorem SameStruct.base {g g' : Graph} (h : SameStruct g g') (b : Base g) : Base g' := by
  obtain ⟨h1, h2, h3, h4, _, _, _, _⟩ := h
  refine ⟨h1 ▸ b.nodesNodup, h3 ▸ b.ekeysNodup, ?_, ?_, ?_, ?_⟩
  · rw [h1, h3]; exact b.ekeysSub
  · rw [h1, h2]; exact b.targets
  · rw [h2, h3]; exact b.offKeys
  · rw [h1, h2, h4]; exact b.deps

theorem SameStruct.synced {g g' : Graph} (h : SameStruct g g') (s : Synced g) : Synced g' := by
  obtain ⟨h1, h2, _, _, h5, h6, h7, _⟩ := h
  refine ⟨?_, ?_, ?_, ?_⟩
  · rw [h1, h5]; exact s.depnSub
  · rw [h1, h2, h5]; exact s.cons
  · rw [h1, h5, h6]; exact s.inDeg
  · rw [h1, h2, h7]; exact s.outDeg

theorem detectCyclesFrom_same (g : Graph) (k : Key) : SameStruct g (detectCyclesFrom g k).1 := by
  unfold detectCyclesFrom
  split
  · exact SameStruct.refl g
  · split <;> first | exact SameStruct.refl g | exact ⟨rfl, rfl, rfl, rfl, rfl, rfl, rfl, rfl⟩

theorem detectLoop_same (l : List Key) : ∀ g, SameStruct g (detectLoop g l).1 := by
  induction l with
  | nil => intro g; exact SameStruct.refl g
  | cons k rest ih =>
    intro g
    unfold detectLoop
    have h1 := detectCyclesFrom_same g k
    split
    next g1 heq =>
      have : g1 = (detectCyclesFrom g k).1 := by rw [heq]
      subst this
      exact h1.trans (ih _)
    next r hne =>
      exact h1

theorem updateDegreesWith_same_struct (g : Graph) (eorder : List Key) :
    (updateDegreesWith g eorder).nodes = g.nodes ∧ (updateDegreesWith g eorder).edges = g.edges ∧
    (updateDegreesWith g eorder).ekeys = g.ekeys := by
  have := updateDegreesWith_frame g eorder
  exact ⟨this.1, this.2.1, this.2.2.1⟩

/-- after `DetectCycles` — whatever it answers and for every iteration order — the graph is
structurally the one before, with its degree/dependent fields in sync -/
theorem detectCyclesWith_base_synced (g : Graph) (eorder norder : List Key) (hp : eorder.Perm g.ekeys)
    (b : Base g) :
    Base (detectCyclesWith g eorder norder).1 ∧ Synced (detectCyclesWith g eorder norder).1 ∧
    (detectCyclesWith g eorder norder).1.nodes = g.nodes ∧ (detectCyclesWith g eorder norder).1.edges = g.edges := by
  have b1 := updateDegreesWith_base g eorder hp b
  have s1 := updateDegreesWith_synced g eorder hp b
  have f1 := updateDegreesWith_same_struct g eorder
  unfold detectCyclesWith
  simp only []
  split
  · split
    · exact ⟨b1, s1, f1.1, f1.2.1⟩
    · exact ⟨b1, s1, f1.1, f1.2.1⟩
  · have hs0 : SameStruct (updateDegreesWith g eorder) { updateDegreesWith g eorder with cycleTrue := [] } :=
      ⟨rfl, rfl, rfl, rfl, rfl, rfl, rfl, rfl⟩
    have hs1 := detectLoop_same norder { updateDegreesWith g eorder with cycleTrue := [] }
    have hs := hs0.trans hs1
    have hs2 : SameStruct (detectLoop { updateDegreesWith g eorder with cycleTrue := [] } norder).1
        { (detectLoop { updateDegreesWith g eorder with cycleTrue := [] } norder).1 with cycleDirty := false } :=
      ⟨rfl, rfl, rfl, rfl, rfl, rfl, rfl, rfl⟩
    have hs3 := hs.trans hs2
    exact ⟨hs3.base b1, hs3.synced s1, hs3.nodes.trans f1.1, hs3.edges.trans f1.2.1⟩

end Godi.Graph
