import GodiModel.Kahn
namespace Godi.Kahn

structure WF (v : View) : Prop where
  nodup : v.nodes.Nodup
  deps_closed : ∀ k ∈ v.nodes, ∀ d ∈ v.deps k, d ∈ v.nodes
  depn_closed : ∀ q ∈ v.nodes, ∀ k ∈ v.dependents q, k ∈ v.nodes
  cons : ∀ q ∈ v.nodes, ∀ k ∈ v.nodes, (v.dependents q).count k = (v.deps k).count q

/-- number of dependency occurrences of `k` not yet emitted -/
def pending (v : View) (res : List Key) (k : Key) : Nat :=
  (v.deps k).countP (fun d => decide (d ∉ res))

def TopoRev (v : View) : List Key → Prop
  | [] => True
  | k :: older => (∀ d ∈ v.deps k, d ∈ older) ∧ TopoRev v older

theorem countP_snoc (res l : List Key) (q : Key) (hq : q ∉ res) :
    l.countP (fun d => decide (d ∉ res ++ [q])) + l.count q
      = l.countP (fun d => decide (d ∉ res)) := by
  induction l with
  | nil => simp
  | cons a l ih =>
    by_cases ha : a = q
    · subst ha
      simp [List.countP_cons, List.count_cons, hq] at ih ⊢
      omega
    · have : q ≠ a := Ne.symm ha
      by_cases har : a ∈ res
      · simp [List.countP_cons, List.count_cons, ha, har] at ih ⊢; omega
      · simp [List.countP_cons, List.count_cons, ha, har] at ih ⊢; omega

theorem pending_snoc (v : View) (res : List Key) (q k : Key) (hq : q ∉ res) :
    pending v (res ++ [q]) k + (v.deps k).count q = pending v res k :=
  countP_snoc res (v.deps k) q hq

theorem pending_zero_iff (v : View) (res : List Key) (k : Key) :
    pending v res k = 0 ↔ ∀ d ∈ v.deps k, d ∈ res := by
  simp [pending, List.countP_eq_zero]

structure Inv (v : View) (queue : List Key) (cnt : Key → Int) (res : List Key) : Prop where
  nd : (res ++ queue).Nodup
  sub : ∀ k ∈ res ++ queue, k ∈ v.nodes
  cntEq : ∀ k ∈ v.nodes, cnt k = (pending v res k : Int)
  ready : ∀ k ∈ v.nodes, (k ∈ res ++ queue ↔ pending v res k = 0)
  topo : TopoRev v res.reverse

theorem inv_init (v : View) (wf : WF v) :
    Inv v (v.nodes.filter (fun k => initCnt v k == 0)) (initCnt v) [] := by
  have hp : ∀ k, pending v [] k = (v.deps k).length := by
    intro k; simp [pending]
  refine ⟨?_, ?_, ?_, ?_, ?_⟩
  · simpa using List.Nodup.sublist List.filter_sublist wf.nodup
  · intro k hk; simp at hk; exact hk.1
  · intro k _; simp [initCnt, hp]
  · intro k hk
    simp [initCnt, hp, hk]
  · simp [TopoRev]

theorem inv_step (v : View) (wf : WF v) (q : Key) (qs : List Key) (cnt : Key → Int) (res : List Key)
    (inv : Inv v (q :: qs) cnt res) :
    Inv v (qs ++ (relax cnt (v.dependents q)).2) (relax cnt (v.dependents q)).1 (res ++ [q]) := by
  have hqn : q ∈ v.nodes := inv.sub q (by simp)
  have hnd := inv.nd
  have hq_res : q ∉ res := by
    intro h
    have := (List.nodup_append.1 hnd).2.2 q h q (by simp)
    exact this rfl
  have hq_qs : q ∉ qs := by
    have := (List.nodup_append.1 hnd).2.1
    exact (List.nodup_cons.1 this).1
  -- pending of q is zero
  have hq0 : pending v res q = 0 := (inv.ready q hqn).1 (by simp)
  -- new pending
  have hpend : ∀ k ∈ v.nodes, (pending v (res ++ [q]) k : Int)
      = cnt k - ((v.dependents q).count k : Int) := by
    intro k hk
    have h1 := pending_snoc v res q k hq_res
    have h2 := wf.cons q hqn k hk
    have h3 := inv.cntEq k hk
    omega
  -- characterisation of the newly enqueued keys
  have hnew : ∀ k ∈ v.nodes, (k ∈ (relax cnt (v.dependents q)).2 ↔
      (pending v (res ++ [q]) k = 0 ∧ 1 ≤ pending v res k)) := by
    intro k hk
    rw [← List.count_pos_iff, relax_count]
    have h1 := pending_snoc v res q k hq_res
    have h2 := wf.cons q hqn k hk
    have h3 := inv.cntEq k hk
    constructor
    · intro h
      split at h
      · rename_i hc; omega
      · omega
    · intro ⟨a, b⟩
      have : 1 ≤ cnt k ∧ cnt k ≤ ((v.dependents q).count k : Int) := by omega
      simp [this]
  have hnew_sub : ∀ k ∈ (relax cnt (v.dependents q)).2, k ∈ v.nodes := by
    intro k hk
    have : 0 < (relax cnt (v.dependents q)).2.count k := List.count_pos_iff.2 hk
    rw [relax_count] at this
    split at this
    · rename_i hc
      have : 0 < (v.dependents q).count k := by omega
      exact wf.depn_closed q hqn k (List.count_pos_iff.1 this)
    · omega
  have hnew_nd : (relax cnt (v.dependents q)).2.Nodup := by
    rw [List.nodup_iff_count]
    intro k; rw [relax_count]; split <;> omega
  refine ⟨?_, ?_, ?_, ?_, ?_⟩
  · -- nodup
    have hrq : (res ++ (q :: qs)).Nodup := hnd
    rw [List.nodup_append] at hrq ⊢
    obtain ⟨ndres, ndq, disj⟩ := hrq
    have ndqs := (List.nodup_cons.1 ndq).2
    refine ⟨?_, ?_, ?_⟩
    · rw [List.nodup_append]
      refine ⟨ndres, by simp, ?_⟩
      intro a ha b hb; simp at hb; subst hb; intro h; subst h; exact hq_res ha
    · rw [List.nodup_append]
      refine ⟨ndqs, hnew_nd, ?_⟩
      intro a ha b hb hab; subst hab
      have hkn := hnew_sub a hb
      have := ((hnew a hkn).1 hb).2
      have hin : a ∈ res ++ q :: qs := by simp [ha]
      have := (inv.ready a hkn).1 hin
      omega
    · intro a ha b hb hab; subst hab
      simp at ha hb
      rcases hb with hb | hb
      · rcases ha with ha | ha
        · exact disj a ha a (by simp [hb]) rfl
        · subst ha; exact hq_qs hb
      · have hkn := hnew_sub a hb
        have h1 := ((hnew a hkn).1 hb).2
        have hin : a ∈ res ++ q :: qs := by
          rcases ha with ha | ha
          · simp [ha]
          · subst ha; simp
        have := (inv.ready a hkn).1 hin
        omega
  · intro k hk
    simp only [List.mem_append, List.mem_singleton] at hk
    rcases hk with (h | h) | h | h
    · exact inv.sub k (by simp [h])
    · subst h; exact hqn
    · exact inv.sub k (by simp [h])
    · exact hnew_sub k h
  · intro k hk
    rw [relax_cnt, hpend k hk]
  · intro k hk
    have hold := inv.ready k hk
    have hn := hnew k hk
    have h1 := pending_snoc v res q k hq_res
    constructor
    · intro hin
      simp only [List.mem_append, List.mem_singleton] at hin
      rcases hin with (hin | hin) | hin | hin
      · have := hold.1 (by simp [hin]); omega
      · subst hin; omega
      · have := hold.1 (by simp [hin]); omega
      · exact (hn.1 hin).1
    · intro h0
      simp only [List.mem_append, List.mem_singleton]
      by_cases hp : pending v res k = 0
      · have := hold.2 hp
        simp only [List.mem_append, List.mem_cons] at this
        rcases this with h | h | h
        · exact Or.inl (Or.inl h)
        · exact Or.inl (Or.inr h)
        · exact Or.inr (Or.inl h)
      · have : k ∈ (relax cnt (v.dependents q)).2 := hn.2 ⟨h0, by omega⟩
        exact Or.inr (Or.inr this)
  · simp only [List.reverse_append, List.reverse_cons, List.reverse_nil, List.nil_append,
      List.singleton_append, TopoRev]
    refine ⟨?_, inv.topo⟩
    intro d hd
    simp
    exact (pending_zero_iff v res q).1 hq0 d hd

end Godi.Kahn
