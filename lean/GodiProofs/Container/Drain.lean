import GodiProofs.Container.Ledger
import GodiProofs.Container.Cascade
/-!
# Nothing is leaked: after `Provider.Close` no disposal list holds anything

`Tidy st`: a closed scope has handed in its disposal list, and every open scope other than the root
is entered in the provider's scope table. Both hold at every operation boundary of an open provider;
inside `Close` the first is suspended for the scopes whose `Close` is on the stack (`DrainedExcept`).
`Provider.Close` closes every scope of the table and the root scope, so afterwards every scope is
closed, hence drained; with the ledger (`Ledger.lean`): everything owed has been closed exactly once.
-/
namespace Godi.Container

def DrainedExcept (A : Nat → Prop) (st : State) : Prop :=
  ∀ x, ¬ A x → (st.scope x).disposed = true → (st.scope x).disposables = none

/-- every open scope other than the root (and other than the exempt ones: a scope that is being
created) is in the provider's table -/
def RegEx (B : Nat → Prop) (st : State) : Prop :=
  ∀ l, st.provScopes = some l → ∀ x, ¬ B x → x < st.nscopes → x ≠ rootScope → (st.scope x).disposed = false → x ∈ l

abbrev Registered (st : State) : Prop := RegEx (fun _ => False) st

structure Tidy (st : State) : Prop where
  drained : DrainedExcept (fun _ => False) st
  registered : Registered st
  tableOpen : st.disposed = false → st.provScopes.isSome

/-- a step that leaves the `disposed` flag and the disposal list of every scope alone -/
theorem drainedExcept_same {A : Nat → Prop} {st st' : State} (h : DrainedExcept A st)
    (hs : ∀ x, (st'.scope x).disposed = (st.scope x).disposed ∧ (st'.scope x).disposables = (st.scope x).disposables) :
    DrainedExcept A st' := by
  intro x hx hd
  rw [(hs x).1] at hd
  rw [(hs x).2]
  exact h x hx hd

theorem detach_scope_fields (st : State) (s x : Nat) :
    ((detach st s).scope x).disposed = (st.scope x).disposed ∧
    ((detach st s).scope x).disposables = (st.scope x).disposables := by
  unfold detach
  split
  next p _ =>
    simp only []
    by_cases hx : x = p
    · subst hx; simp [updScope]
    · simp [updScope, hx]
  · exact ⟨rfl, rfl⟩

theorem detach_provScopes (st : State) (s : Nat) :
    (detach st s).provScopes = st.provScopes.map (fun (l : List Nat) => List.erase l s) := by
  unfold detach
  split <;> rfl

theorem detach_nscopes (st : State) (s : Nat) : (detach st s).nscopes = st.nscopes ∧ (detach st s).disposed = st.disposed := by
  unfold detach
  split <;> exact ⟨rfl, rfl⟩

/-- what `Close` does to the tables the argument needs -/
structure CloseEff (st st' : State) : Prop where
  nscopes : st'.nscopes = st.nscopes
  pdisposed : st'.disposed = st.disposed
  provNone : st.provScopes = none → st'.provScopes = none
  provSome : st.provScopes.isSome → st'.provScopes.isSome

theorem CloseEff.refl (st : State) : CloseEff st st := ⟨rfl, rfl, fun h => h, fun h => h⟩
theorem CloseEff.trans {a b c : State} (h1 : CloseEff a b) (h2 : CloseEff b c) : CloseEff a c :=
  ⟨h2.nscopes.trans h1.nscopes, h2.pdisposed.trans h1.pdisposed, fun h => h2.provNone (h1.provNone h),
   fun h => h2.provSome (h1.provSome h)⟩

theorem closeEff_updScope (st : State) (s : Nat) (f : ScopeSt → ScopeSt) : CloseEff st (updScope st s f) :=
  ⟨rfl, rfl, fun h => h, fun h => h⟩

theorem closeLoop_closeEff (beh : Beh) (owner : Nat) (l : List Inst) (st : State) :
    CloseEff st (closeLoop beh owner st l).1 := by
  rw [closeLoop_eq]; exact ⟨rfl, rfl, fun h => h, fun h => h⟩

theorem detach_closeEff (st : State) (s : Nat) : CloseEff st (detach st s) := by
  refine ⟨(detach_nscopes st s).1, (detach_nscopes st s).2, ?_, ?_⟩
  · intro h; rw [detach_provScopes, h]; rfl
  · intro h; rw [detach_provScopes]; cases hp : st.provScopes with
    | none => rw [hp] at h; cases h
    | some l => rfl

theorem closeLoop_scope' (beh : Beh) (owner : Nat) (l : List Inst) (st : State) :
    (closeLoop beh owner st l).1.scope = st.scope := by rw [closeLoop_eq]

theorem closeLoop_provScopes (beh : Beh) (owner : Nat) (l : List Inst) (st : State) :
    (closeLoop beh owner st l).1.provScopes = st.provScopes := by rw [closeLoop_eq]

/-- `Close` of a scope (and of a list of scopes) keeps both parts of `Tidy`, the first one up to
the scopes whose `Close` is still running -/
theorem tidy_close (beh : Beh) (order : List Nat → List Nat) : ∀ fuel,
    (∀ (A B : Nat → Prop) st s, DrainedExcept A st → RegEx B st →
      DrainedExcept A (closeScope beh order fuel st s).1 ∧ RegEx B (closeScope beh order fuel st s).1 ∧
      CloseEff st (closeScope beh order fuel st s).1) ∧
    (∀ (A B : Nat → Prop) st l, DrainedExcept A st → RegEx B st →
      DrainedExcept A (closeChildren beh order fuel st l).1 ∧ RegEx B (closeChildren beh order fuel st l).1 ∧
      CloseEff st (closeChildren beh order fuel st l).1) := by
  intro fuel
  induction fuel with
  | zero =>
    exact ⟨fun A B st s hd hr => by simp [closeScope]; exact ⟨hd, hr, CloseEff.refl st⟩,
           fun A B st l hd hr => by simp [closeChildren]; exact ⟨hd, hr, CloseEff.refl st⟩⟩
  | succ f ih =>
    obtain ⟨ihS, ihC⟩ := ih
    refine ⟨?_, ?_⟩
    · intro A B st s hd hr
      unfold closeScope
      split
      · exact ⟨hd, hr, CloseEff.refl st⟩
      next hopen =>
        simp only []
        -- after marking: `s` is exempt while its children are closed
        have hd1 : DrainedExcept (fun x => A x ∨ x = s) (takeChildren (markDisposed st s) s) := by
          intro x hx hdx
          have hxs : x ≠ s := fun e => hx (Or.inr e)
          have hxa : ¬ A x := fun h => hx (Or.inl h)
          have e1 : (takeChildren (markDisposed st s) s).scope x = st.scope x := by
            simp [takeChildren, markDisposed, updScope, hxs]
          rw [e1] at hdx ⊢
          exact hd x hxa hdx
        have hr1 : RegEx B (takeChildren (markDisposed st s) s) := by
          intro l hl x hb hx hroot hdx
          have hxs : x ≠ s := by
            intro e; subst e
            simp [takeChildren, markDisposed, updScope] at hdx
          have e1 : (takeChildren (markDisposed st s) s).scope x = st.scope x := by
            simp [takeChildren, markDisposed, updScope, hxs]
          rw [e1] at hdx
          exact hr l hl x hb hx hroot hdx
        have e0 : CloseEff st (takeChildren (markDisposed st s) s) :=
          (closeEff_updScope st s _).trans (closeEff_updScope _ s _)
        have hs1 : ((takeChildren (markDisposed st s) s).scope s).disposed = true := by
          simp [takeChildren, markDisposed, updScope]
        obtain ⟨hd2, hr2, e2⟩ := ihC (fun x => A x ∨ x = s) B (takeChildren (markDisposed st s) s)
          (order ((st.scope s).children.getD [])) hd1 hr1
        have hs2 := (closeScope_dispMono beh order f).2 (takeChildren (markDisposed st s) s)
          (order ((st.scope s).children.getD [])) s hs1
        generalize closeChildren beh order f (takeChildren (markDisposed st s) s) (order ((st.scope s).children.getD [])) = r1
          at hd2 hr2 e2 hs2
        -- the own list is handed in
        have hd3 : DrainedExcept A (takeDisposables r1.1 s) := by
          intro x hx hdx
          by_cases hxs : x = s
          · subst hxs; simp [takeDisposables, updScope]
          · have e1 : (takeDisposables r1.1 s).scope x = r1.1.scope x := by simp [takeDisposables, updScope, hxs]
            rw [e1] at hdx ⊢
            exact hd2 x (fun h => h.elim hx hxs) hdx
        have hr3 : RegEx B (takeDisposables r1.1 s) := by
          intro l hl x hb hx hroot hdx
          have hxs : x ≠ s := by
            intro e; subst e
            have : ((takeDisposables r1.1 x).scope x).disposed = (r1.1.scope x).disposed := by simp [takeDisposables, updScope]
            rw [this, hs2] at hdx; cases hdx
          have e1 : (takeDisposables r1.1 s).scope x = r1.1.scope x := by simp [takeDisposables, updScope, hxs]
          rw [e1] at hdx
          exact hr2 l hl x hb hx hroot hdx
        have hs3 : ((takeDisposables r1.1 s).scope s).disposed = true := by
          have : ((takeDisposables r1.1 s).scope s).disposed = (r1.1.scope s).disposed := by simp [takeDisposables, updScope]
          rw [this]; exact hs2
        have e3 : CloseEff r1.1 (takeDisposables r1.1 s) := closeEff_updScope _ s _
        -- the drain loop only logs
        have hsc := closeLoop_scope' beh s ((r1.1.scope s).disposables.getD []).reverse (takeDisposables r1.1 s)
        have hps := closeLoop_provScopes beh s ((r1.1.scope s).disposables.getD []).reverse (takeDisposables r1.1 s)
        have e4 := closeLoop_closeEff beh s ((r1.1.scope s).disposables.getD []).reverse (takeDisposables r1.1 s)
        generalize closeLoop beh s (takeDisposables r1.1 s) ((r1.1.scope s).disposables.getD []).reverse = r2 at hsc hps e4
        have hd4 : DrainedExcept A r2.1 := drainedExcept_same hd3 (fun x => by rw [hsc]; exact ⟨rfl, rfl⟩)
        have hr4 : RegEx B r2.1 := by
          intro l hl x hb hx hroot hdx
          rw [hps] at hl; rw [hsc] at hdx; rw [e4.nscopes] at hx
          exact hr3 l hl x hb hx hroot hdx
        have hs4 : (r2.1.scope s).disposed = true := by rw [hsc]; exact hs3
        -- detach: `s` leaves the tables; it is closed
        have hd5 : DrainedExcept A (detach r2.1 s) := drainedExcept_same hd4 (detach_scope_fields r2.1 s)
        have hr5 : RegEx B (detach r2.1 s) := by
          intro l hl x hb hx hroot hdx
          rw [detach_provScopes] at hl
          rw [(detach_scope_fields r2.1 s x).1] at hdx
          rw [(detach_nscopes r2.1 s).1] at hx
          cases hp : r2.1.provScopes with
          | none => rw [hp] at hl; cases hl
          | some l0 =>
            rw [hp] at hl
            simp only [Option.map_some, Option.some.injEq] at hl
            subst hl
            have hxs : x ≠ s := fun e => by subst e; rw [hs4] at hdx; cases hdx
            exact (List.mem_erase_of_ne hxs).2 (hr4 l0 hp x hb hx hroot hdx)
        have e5 := detach_closeEff r2.1 s
        -- dropInstances
        have hd6 : DrainedExcept A (dropInstances (detach r2.1 s) s) :=
          drainedExcept_same hd5 (fun x => by
            by_cases hxs : x = s
            · subst hxs; simp [dropInstances, updScope]
            · simp [dropInstances, updScope, hxs])
        have hr6 : RegEx B (dropInstances (detach r2.1 s) s) := by
          intro l hl x hb hx hroot hdx
          have : ((dropInstances (detach r2.1 s) s).scope x).disposed = ((detach r2.1 s).scope x).disposed := by
            by_cases hxs : x = s
            · subst hxs; simp [dropInstances, updScope]
            · simp [dropInstances, updScope, hxs]
          rw [this] at hdx
          exact hr5 l hl x hb hx hroot hdx
        exact ⟨hd6, hr6, ((((e0.trans e2).trans e3).trans e4).trans e5).trans (closeEff_updScope _ s _)⟩
    · intro A B st l hd hr
      cases l with
      | nil => unfold closeChildren; exact ⟨hd, hr, CloseEff.refl st⟩
      | cons c rest =>
        unfold closeChildren
        obtain ⟨hd1, hr1, e1⟩ := ihS A B st c hd hr
        obtain ⟨hd2, hr2, e2⟩ := ihC A B _ rest hd1 hr1
        exact ⟨hd2, hr2, e1.trans e2⟩

end Godi.Container

namespace Godi.Container

/-! ### operations of an open provider keep `Tidy` -/

theorem resolve_disposed (beh : Beh) (f : Nat) (st : State) (s ty key : Nat) (h : (st.scope s).disposed = true) :
    (resolve beh f st s ty key).1 = st := by
  cases f with
  | zero => simp [resolve]
  | succ f => unfold resolve; simp [h]

theorem getGroup_disposed (beh : Beh) (f : Nat) (st : State) (s ty grp : Nat) (h : (st.scope s).disposed = true) :
    (getGroup beh f st s ty grp).1 = st := by
  cases f with
  | zero => simp [getGroup]
  | succ f => unfold getGroup; simp [h]

/-- a resolution in an open scope: it stays open, every other scope is untouched, the tables too -/
theorem tidy_ext {B : Nat → Prop} {st st' : State} {s : Nat} (e : Ext st st' s)
    (hopen : (st.scope s).disposed = false)
    (hd : DrainedExcept (fun _ => False) st) (hr : RegEx B st) :
    DrainedExcept (fun _ => False) st' ∧ RegEx B st' := by
  refine ⟨?_, ?_⟩
  · intro x hx hdx
    by_cases hxs : x = s
    · subst hxs; rw [e.sdisposed, hopen] at hdx; cases hdx
    · rw [e.others x hxs] at hdx ⊢; exact hd x hx hdx
  · intro l hl x hb hx hroot hdx
    rw [e.provScopes] at hl; rw [e.nscopes] at hx
    have : (st.scope x).disposed = false := by
      by_cases hxs : x = s
      · subst hxs; exact hopen
      · rw [e.others x hxs] at hdx; exact hdx
    exact hr l hl x hb hx hroot this

structure OpenEff (st st' : State) : Prop where
  pdisposed : st'.disposed = st.disposed
  provSome : st.provScopes.isSome → st'.provScopes.isSome

theorem OpenEff.refl (st : State) : OpenEff st st := ⟨rfl, fun h => h⟩
theorem OpenEff.trans {a b c : State} (h1 : OpenEff a b) (h2 : OpenEff b c) : OpenEff a c :=
  ⟨h2.pdisposed.trans h1.pdisposed, fun h => h2.provSome (h1.provSome h)⟩
theorem Ext.openEff {st st' : State} {s : Nat} (e : Ext st st' s) : OpenEff st st' :=
  ⟨e.disposed, fun h => by rw [e.provScopes]; exact h⟩
theorem CloseEff.openEff {st st' : State} (e : CloseEff st st') : OpenEff st st' := ⟨e.pdisposed, e.provSome⟩

theorem tidy_runInitializers (beh : Beh) (B : Nat → Prop) (s : Nat) : ∀ (ids : List Nat) (st : State), WF st.descs →
    (∀ id ∈ ids, ∀ d, findDesc st.descs id = some d → d.life = .scoped) →
    (st.scope s).disposed = false → DrainedExcept (fun _ => False) st → RegEx B st →
    DrainedExcept (fun _ => False) (runInitializers beh st s ids).1 ∧ RegEx B (runInitializers beh st s ids).1 ∧
    OpenEff st (runInitializers beh st s ids).1 ∧ (runInitializers beh st s ids).1.nscopes = st.nscopes := by
  intro ids
  induction ids with
  | nil => intro st _ _ _ hd hr; exact ⟨hd, hr, OpenEff.refl st, rfl⟩
  | cons id rest ih =>
    intro st wf hi hopen hd hr
    unfold runInitializers
    split
    · exact ih st wf (fun x hx => hi x (List.mem_cons_of_mem _ hx)) hopen hd hr
    next d hfd =>
      have hl : d.life ≠ .singleton := by rw [hi id (by simp) d hfd]; simp
      have e1 := (frame beh (fuelFor st)).2.2.2.2.2 st s d wf (findDesc_mem hfd) hl
      obtain ⟨hd1, hr1⟩ := tidy_ext e1 hopen hd hr
      simp only []
      split
      · obtain ⟨a, b, c, n⟩ := ih _ (by rw [e1.descs]; exact wf)
          (by rw [e1.descs]; exact fun x hx => hi x (List.mem_cons_of_mem _ hx))
          (by rw [e1.sdisposed]; exact hopen) hd1 hr1
        exact ⟨a, b, e1.openEff.trans c, n.trans e1.nscopes⟩
      · exact ⟨hd1, hr1, e1.openEff, e1.nscopes⟩

/-- `newScope`: on success the new scope is the only unregistered one; on failure it has been closed -/
theorem tidy_newScope (beh : Beh) (st : State) (parent : Option Nat) (ctx : Nat) (wf : WF st.descs) (i : InitOK st)
    (hd : DrainedExcept (fun _ => False) st) (hr : Registered st) :
    DrainedExcept (fun _ => False) (newScope beh st parent ctx true).1 ∧
    OpenEff st (newScope beh st parent ctx true).1 ∧
    (newScope beh st parent ctx true).1.nscopes = st.nscopes + 1 ∧
    (∀ s, (newScope beh st parent ctx true).2 = .ok s →
      s = st.nscopes ∧ RegEx (fun x => x = st.nscopes) (newScope beh st parent ctx true).1) ∧
    (∀ e, (newScope beh st parent ctx true).2 = .error e → Registered (newScope beh st parent ctx true).1) := by
  unfold newScope
  simp only [↓reduceIte]
  have hopen0 : ((allocScope st parent ctx).scope st.nscopes).disposed = false := by simp [allocScope]
  have hd0 : DrainedExcept (fun _ => False) (allocScope st parent ctx) := by
    intro x hx hdx
    by_cases hxs : x = st.nscopes
    · subst hxs; rw [hopen0] at hdx; cases hdx
    · have : (allocScope st parent ctx).scope x = st.scope x := by simp [allocScope, hxs]
      rw [this] at hdx ⊢; exact hd x hx hdx
  have hr0 : RegEx (fun x => x = st.nscopes) (allocScope st parent ctx) := by
    intro l hl x hb hx hroot hdx
    have hxs : x ≠ st.nscopes := hb
    have : (allocScope st parent ctx).scope x = st.scope x := by simp [allocScope, hxs]
    rw [this] at hdx
    have hx' : x < st.nscopes + 1 := hx
    exact hr l hl x (fun h => h) (by omega) hroot hdx
  obtain ⟨hd1, hr1, e1, n1⟩ := tidy_runInitializers beh (fun x => x = st.nscopes) st.nscopes
    (allocScope st parent ctx).initializers (allocScope st parent ctx) wf i hopen0 hd0 hr0
  have e0 : OpenEff st (allocScope st parent ctx) := ⟨rfl, fun h => h⟩
  generalize runInitializers beh (allocScope st parent ctx) st.nscopes (allocScope st parent ctx).initializers = r
    at hd1 hr1 e1 n1
  have n1' : r.1.nscopes = st.nscopes + 1 := n1
  cases hr2 : r.2 with
  | ok u =>
    simp only []
    refine ⟨hd1, e0.trans e1, n1', ?_, ?_⟩
    · intro s hs; injection hs with hs; exact ⟨hs.symm, hr1⟩
    · intro e he; cases he
  | error err =>
    simp only []
    obtain ⟨f, hf⟩ : ∃ f, closeFuel r.1 = f + 1 := ⟨closeFuel r.1 - 1, by unfold closeFuel; omega⟩
    obtain ⟨hd2, hr2', e2⟩ := (tidy_close beh id (closeFuel r.1)).1 (fun _ => False) (fun x => x = st.nscopes) r.1 st.nscopes hd1 hr1
    have hdisp : (((closeScope beh id (closeFuel r.1) r.1 st.nscopes).1).scope st.nscopes).disposed = true := by
      rw [hf]; exact closeScope_disposes_self beh id f r.1 st.nscopes
    refine ⟨hd2, (e0.trans e1).trans e2.openEff, e2.nscopes.trans n1', ?_, ?_⟩
    · intro s hs; cases hs
    · intro e _ l hl x _ hx hroot hdx
      by_cases hxs : x = st.nscopes
      · subst hxs; rw [hdisp] at hdx; cases hdx
      · exact hr2' l hl x hxs hx hroot hdx

/-- closing the scope that is being created removes the exemption -/
theorem regEx_closed (beh : Beh) (st : State) (n : Nat) (hd : DrainedExcept (fun _ => False) st)
    (hr : RegEx (fun x => x = n) st) :
    DrainedExcept (fun _ => False) (closeScope beh id (closeFuel st) st n).1 ∧
    Registered (closeScope beh id (closeFuel st) st n).1 ∧ CloseEff st (closeScope beh id (closeFuel st) st n).1 := by
  obtain ⟨f, hf⟩ : ∃ f, closeFuel st = f + 1 := ⟨closeFuel st - 1, by unfold closeFuel; omega⟩
  obtain ⟨hd2, hr2, e2⟩ := (tidy_close beh id (closeFuel st)).1 (fun _ => False) (fun x => x = n) st n hd hr
  have hdisp : (((closeScope beh id (closeFuel st) st n).1).scope n).disposed = true := by
    rw [hf]; exact closeScope_disposes_self beh id f st n
  refine ⟨hd2, ?_, e2⟩
  intro l hl x _ hx hroot hdx
  by_cases hxs : x = n
  · subst hxs; rw [hdisp] at hdx; cases hdx
  · exact hr2 l hl x hxs hx hroot hdx

theorem regEx_addProvScope (st : State) (n : Nat) (hr : RegEx (fun x => x = n) st) : Registered (addProvScope st n) := by
  intro l hl x _ hx hroot hdx
  unfold addProvScope at hl
  cases hp : st.provScopes with
  | none => simp [hp] at hl
  | some l0 =>
    simp only [hp, Option.map_some, Option.some.injEq] at hl
    subst hl
    by_cases hxs : x = n
    · subst hxs; simp
    · exact List.mem_append_left _ (hr l0 hp x hxs hx hroot hdx)

theorem tidy_providerCreateScope (beh : Beh) (st : State) (ctx : Nat) (wf : WF st.descs) (i : InitOK st) (T : Tidy st) :
    Tidy (providerCreateScope beh st ctx).1 ∧ (providerCreateScope beh st ctx).1.disposed = st.disposed := by
  unfold providerCreateScope
  split
  · exact ⟨T, rfl⟩
  next hopen =>
    have hopen' : st.disposed = false := by simpa using hopen
    obtain ⟨hd1, e1, n1, hok, herr⟩ := tidy_newScope beh st none ctx wf i T.drained T.registered
    generalize newScope beh st none ctx true = r at hd1 e1 n1 hok herr
    simp only []
    cases hr2 : r.2 with
    | error e =>
      simp only []
      exact ⟨⟨hd1, herr e hr2, fun h => e1.provSome (T.tableOpen (by rw [← e1.pdisposed]; exact h))⟩, e1.pdisposed⟩
    | ok s =>
      simp only []
      obtain ⟨hs, hrx⟩ := hok s hr2
      subst hs
      split
      · obtain ⟨a, b, c⟩ := regEx_closed beh r.1 st.nscopes hd1 hrx
        exact ⟨⟨a, b, fun h => c.provSome (e1.provSome (T.tableOpen (by rw [← e1.pdisposed, ← c.pdisposed]; exact h)))⟩,
          c.pdisposed.trans e1.pdisposed⟩
      · refine ⟨⟨drainedExcept_same hd1 (fun _ => ⟨rfl, rfl⟩), regEx_addProvScope r.1 st.nscopes hrx, ?_⟩, e1.pdisposed⟩
        intro _
        have := e1.provSome (T.tableOpen hopen')
        unfold addProvScope
        cases hp : r.1.provScopes with
        | none => rw [hp] at this; cases this
        | some l => rfl

theorem tidy_scopeCreateScope (beh : Beh) (st : State) (p ctx : Nat) (wf : WF st.descs) (i : InitOK st) (T : Tidy st) :
    Tidy (scopeCreateScope beh st p ctx).1 ∧ (scopeCreateScope beh st p ctx).1.disposed = st.disposed := by
  unfold scopeCreateScope
  split
  · exact ⟨T, rfl⟩
  · obtain ⟨hd1, e1, n1, hok, herr⟩ := tidy_newScope beh st (some p) ctx wf i T.drained T.registered
    generalize newScope beh st (some p) ctx true = r at hd1 e1 n1 hok herr
    have topen : ∀ st', OpenEff r.1 st' → st'.disposed = false → st'.provScopes.isSome := by
      intro st' e h
      exact e.provSome (e1.provSome (T.tableOpen (by rw [← e1.pdisposed, ← e.pdisposed]; exact h)))
    simp only []
    cases hr2 : r.2 with
    | error e =>
      simp only []
      exact ⟨⟨hd1, herr e hr2, topen r.1 (OpenEff.refl _)⟩, e1.pdisposed⟩
    | ok s =>
      simp only []
      obtain ⟨hs, hrx⟩ := hok s hr2
      subst hs
      split
      · obtain ⟨a, b, c⟩ := regEx_closed beh r.1 st.nscopes hd1 hrx
        exact ⟨⟨a, b, topen _ c.openEff⟩, c.pdisposed.trans e1.pdisposed⟩
      · have hd2 : DrainedExcept (fun _ => False) (addChild r.1 p st.nscopes) :=
          drainedExcept_same hd1 (fun x => by
            by_cases hx : x = p
            · subst hx; simp [addChild, updScope]
            · simp [addChild, updScope, hx])
        have hrx2 : RegEx (fun x => x = st.nscopes) (addChild r.1 p st.nscopes) := by
          intro l hl x hb hx hroot hdx
          have : ((addChild r.1 p st.nscopes).scope x).disposed = (r.1.scope x).disposed := by
            by_cases hx' : x = p
            · subst hx'; simp [addChild, updScope]
            · simp [addChild, updScope, hx']
          rw [this] at hdx
          exact hrx l hl x hb hx hroot hdx
        have e2 : OpenEff r.1 (addChild r.1 p st.nscopes) := ⟨rfl, fun h => h⟩
        split
        · obtain ⟨a, b, c⟩ := regEx_closed beh _ st.nscopes hd2 hrx2
          exact ⟨⟨a, b, topen _ (e2.trans c.openEff)⟩, c.pdisposed.trans e1.pdisposed⟩
        · refine ⟨⟨drainedExcept_same hd2 (fun _ => ⟨rfl, rfl⟩), regEx_addProvScope _ st.nscopes hrx2, ?_⟩, e1.pdisposed⟩
          intro h
          have := topen (addChild r.1 p st.nscopes) e2 h
          unfold addProvScope
          cases hp : (addChild r.1 p st.nscopes).provScopes with
          | none => rw [hp] at this; cases this
          | some l => rfl

theorem tidy_stepOp (beh : Beh) (st : State) (op : Op) (wf : WF st.descs) (i : InitOK st) (T : Tidy st) :
    Tidy (stepOp beh st op) ∧ (stepOp beh st op).disposed = st.disposed := by
  have hres : ∀ (st' : State) (s : Nat), Ext st st' s → ((st.scope s).disposed = true → st' = st) →
      Tidy st' ∧ st'.disposed = st.disposed := by
    intro st' s e hdisp
    by_cases h : (st.scope s).disposed = true
    · rw [hdisp h]; exact ⟨T, rfl⟩
    · have h' : (st.scope s).disposed = false := by simpa using h
      obtain ⟨a, b⟩ := tidy_ext e h' T.drained T.registered
      exact ⟨⟨a, b, fun hh => by rw [e.provScopes]; exact T.tableOpen (by rw [← e.disposed]; exact hh)⟩, e.disposed⟩
  cases op with
  | get s ty key =>
    cases s with
    | none =>
      show Tidy (providerGet beh st ty key).1 ∧ (providerGet beh st ty key).1.disposed = st.disposed
      unfold providerGet; split
      · exact ⟨T, rfl⟩
      · exact hres _ rootScope ((frame beh _).1 st rootScope ty key wf) (resolve_disposed beh _ st rootScope ty key)
    | some s => exact hres _ s ((frame beh _).1 st s ty key wf) (resolve_disposed beh _ st s ty key)
  | getGroup s ty grp =>
    cases s with
    | none =>
      show Tidy (providerGetGroup beh st ty grp).1 ∧ (providerGetGroup beh st ty grp).1.disposed = st.disposed
      unfold providerGetGroup; split
      · exact ⟨T, rfl⟩
      · exact hres _ rootScope ((frame beh _).2.2.1 st rootScope ty grp wf) (getGroup_disposed beh _ st rootScope ty grp)
    | some s => exact hres _ s ((frame beh _).2.2.1 st s ty grp wf) (getGroup_disposed beh _ st s ty grp)
  | createScope p ctx =>
    cases p with
    | none => exact tidy_providerCreateScope beh st ctx wf i T
    | some p => exact tidy_scopeCreateScope beh st p ctx wf i T
  | closeScope s order =>
    obtain ⟨a, b, c⟩ := (tidy_close beh order (closeFuel st)).1 (fun _ => False) (fun _ => False) st s T.drained T.registered
    exact ⟨⟨a, b, fun h => c.provSome (T.tableOpen (by rw [← c.pdisposed]; exact h))⟩, c.pdisposed⟩

theorem tidy_run (beh : Beh) : ∀ (ops : List Op) (st : State), WF st.descs → InitOK st → Tidy st →
    Tidy (run beh st ops) ∧ (run beh st ops).disposed = st.disposed := by
  intro ops
  induction ops with
  | nil => intro st _ _ T; exact ⟨T, rfl⟩
  | cons op rest ih =>
    intro st wf i T
    have s1 := stepOp_stable beh st op wf i
    obtain ⟨T1, d1⟩ := tidy_stepOp beh st op wf i T
    obtain ⟨T2, d2⟩ := ih _ (s1.wf wf) (s1.initOK i) T1
    exact ⟨T2, d2.trans d1⟩

end Godi.Container

namespace Godi.Container

/-! ### `Provider.Close` leaves nothing behind -/

theorem closeScope_nscopes (beh : Beh) (order : List Nat → List Nat) (fuel : Nat) (st : State) (s : Nat) :
    (closeScope beh order fuel st s).1.nscopes = st.nscopes :=
  ((tidy_close beh order fuel).1 (fun _ => True) (fun _ => True) st s (fun _ h => absurd trivial h)
    (fun _ _ _ h => absurd trivial h)).2.2.nscopes

/-- NOTHING LEAKED: when an open, tidy provider is closed (its `Close` visiting every scope of its
table, in any order), no disposal list — of any scope or of the provider — holds anything afterwards -/
theorem closeProvider_all_closed (beh : Beh) (order : List Nat → List Nat) (hord : ∀ l x, x ∈ l → x ∈ order l)
    (st : State) (L : Ledger st) (T : Tidy st) (hopen : st.disposed = false) :
    ∀ i, ¬ Tracked (closeProvider beh order st).1 i := by
  obtain ⟨l, hl⟩ : ∃ l, st.provScopes = some l := by
    have := T.tableOpen hopen
    cases hp : st.provScopes with
    | none => rw [hp] at this; cases this
    | some l => exact ⟨l, rfl⟩
  have hL := ledger_closeProvider beh order st L
  unfold closeProvider at hL ⊢
  simp only [hopen, Bool.false_eq_true, ↓reduceIte] at hL ⊢
  -- closing the table
  have hd0 : DrainedExcept (fun _ => False) { st with disposed := true, provScopes := none } := T.drained
  have hr0 : Registered { st with disposed := true, provScopes := none } := by
    intro l' hl' ; cases hl'
  obtain ⟨hd1, _, e1⟩ := (tidy_close beh order (closeFuel { st with disposed := true, provScopes := none } +
    (order (st.provScopes.getD [])).length + 2)).2 (fun _ => False) (fun _ => False)
    { st with disposed := true, provScopes := none } (order (st.provScopes.getD [])) hd0 hr0
  have hall1 := closeChildren_disposes_all beh order (order (st.provScopes.getD []))
    (closeFuel { st with disposed := true, provScopes := none } + (order (st.provScopes.getD [])).length + 2)
    { st with disposed := true, provScopes := none } (by omega)
  have hm1 := (closeScope_dispMono beh order (closeFuel { st with disposed := true, provScopes := none } +
    (order (st.provScopes.getD [])).length + 2)).2 { st with disposed := true, provScopes := none } (order (st.provScopes.getD []))
  generalize closeChildren beh order _ { st with disposed := true, provScopes := none } (order (st.provScopes.getD [])) = r1
    at hd1 e1 hall1 hm1 hL ⊢
  -- closing the root scope
  obtain ⟨f, hf⟩ : ∃ f, closeFuel r1.1 = f + 1 := ⟨closeFuel r1.1 - 1, by unfold closeFuel; omega⟩
  obtain ⟨hd2, _, e2⟩ := (tidy_close beh order (closeFuel r1.1)).1 (fun _ => False) (fun _ => False) r1.1 rootScope hd1
    (by intro l' hl'; rw [e1.provNone rfl] at hl'; cases hl')
  have hroot2 : (((closeScope beh order (closeFuel r1.1) r1.1 rootScope).1).scope rootScope).disposed = true := by
    rw [hf]; exact closeScope_disposes_self beh order f r1.1 rootScope
  have hm2 := (closeScope_dispMono beh order (closeFuel r1.1)).1 r1.1 rootScope
  generalize closeScope beh order (closeFuel r1.1) r1.1 rootScope = r2 at hd2 e2 hroot2 hm2 hL ⊢
  -- every scope is closed now
  have hclosed : ∀ x, x < st.nscopes → (r2.1.scope x).disposed = true := by
    intro x hx
    by_cases hxr : x = rootScope
    · subst hxr; exact hroot2
    · by_cases hdx : (st.scope x).disposed = true
      · exact hm2 x (hm1 x hdx)
      · have hdx' : (st.scope x).disposed = false := by simpa using hdx
        have hin := T.registered l hl x (fun h => h) hx hxr hdx'
        apply hm2 x
        apply hall1 x
        rw [hl]; exact hord l x hin
  have hn2 : r2.1.nscopes = st.nscopes := e2.nscopes.trans e1.nscopes
  -- the ledger of the final state says lists beyond `nscopes` are empty
  have hprist := hL.ledger.pristine
  rw [closeLoop_eq] at hprist ⊢
  intro i ht
  rcases ht with ⟨x, hx⟩ | hp
  · change i ∈ dispOf r2.1 x at hx
    by_cases hxn : x < st.nscopes
    · have := hd2 x (fun h => h) (hclosed x hxn)
      unfold dispOf at hx; rw [this] at hx; cases hx
    · have := hprist x (by show r2.1.nscopes ≤ x; rw [hn2]; omega)
      change dispOf r2.1 x = [] at this
      rw [this] at hx; cases hx
  · cases hp

end Godi.Container
