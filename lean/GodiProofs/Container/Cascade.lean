import GodiProofs.Container.Close
/-! `disposed` flags only ever go from false to true, `Close` sets them for the scope and its children. -/
namespace Godi.Container

def DispMono (st st' : State) : Prop := ∀ x, (st.scope x).disposed = true → (st'.scope x).disposed = true

theorem DispMono.refl (st : State) : DispMono st st := fun _ h => h
theorem DispMono.trans {a b c : State} (h1 : DispMono a b) (h2 : DispMono b c) : DispMono a c :=
  fun x h => h2 x (h1 x h)

theorem updScope_dispMono (st : State) (s : Nat) (f : ScopeSt → ScopeSt)
    (h : ∀ sc, sc.disposed = true → (f sc).disposed = true) : DispMono st (updScope st s f) := by
  intro x hx
  by_cases hxs : x = s
  · subst hxs; simp [updScope]; exact h _ hx
  · simp [updScope, hxs]; exact hx

theorem closeLoop_scope (beh : Beh) (owner : Nat) (l : List Inst) (st : State) :
    (closeLoop beh owner st l).1.scope = st.scope := (closeLoop_spec beh owner l st).2.2.1

theorem detach_dispMono (st : State) (s : Nat) : DispMono st (detach st s) := by
  unfold detach
  intro x hx
  split
  next p _ =>
    simp only []
    have := updScope_dispMono st p
      (fun sc => { sc with children := sc.children.map (fun (l : List Nat) => List.erase l s) }) (fun _ h => h) x hx
    exact this
  · exact hx

theorem detach_disposed_self (st : State) (s : Nat) (h : (st.scope s).disposed = true) :
    ((detach st s).scope s).disposed = true := detach_dispMono st s s h

theorem closeScope_dispMono (beh : Beh) (order : List Nat → List Nat) : ∀ fuel,
    (∀ st s, DispMono st (closeScope beh order fuel st s).1) ∧
    (∀ st l, DispMono st (closeChildren beh order fuel st l).1) := by
  intro fuel
  induction fuel with
  | zero => exact ⟨fun st s => by simp [closeScope]; exact DispMono.refl st, fun st l => by simp [closeChildren]; exact DispMono.refl st⟩
  | succ f ih =>
    obtain ⟨ihS, ihC⟩ := ih
    refine ⟨?_, ?_⟩
    · intro st s
      unfold closeScope
      split
      · exact DispMono.refl st
      · simp only []
        have h1 : DispMono st (markDisposed st s) := updScope_dispMono st s _ (fun _ _ => rfl)
        have h2 : DispMono (markDisposed st s) (takeChildren (markDisposed st s) s) := updScope_dispMono _ s _ (fun _ h => h)
        have h3 := ihC (takeChildren (markDisposed st s) s) (order ((st.scope s).children.getD []))
        generalize closeChildren beh order f (takeChildren (markDisposed st s) s) (order ((st.scope s).children.getD [])) = r1 at h3
        have h4 : DispMono r1.1 (takeDisposables r1.1 s) := updScope_dispMono _ s _ (fun _ h => h)
        have h5 : DispMono (takeDisposables r1.1 s)
            (closeLoop beh s (takeDisposables r1.1 s) ((r1.1.scope s).disposables.getD []).reverse).1 := by
          intro x hx; rw [closeLoop_scope]; exact hx
        generalize closeLoop beh s (takeDisposables r1.1 s) ((r1.1.scope s).disposables.getD []).reverse = r2 at h5
        have h6 := detach_dispMono r2.1 s
        have h7 : DispMono (detach r2.1 s) (dropInstances (detach r2.1 s) s) := updScope_dispMono _ s _ (fun _ h => h)
        exact (((((h1.trans h2).trans h3).trans h4).trans h5).trans h6).trans h7
    · intro st l
      cases l with
      | nil => unfold closeChildren; exact DispMono.refl st
      | cons c rest =>
        unfold closeChildren
        exact (ihS st c).trans (ihC _ rest)

/-- Close (with at least one unit of fuel) leaves the scope disposed -/
theorem closeScope_disposes_self (beh : Beh) (order : List Nat → List Nat) (f : Nat) (st : State) (s : Nat) :
    (((closeScope beh order (f + 1) st s).1).scope s).disposed = true := by
  by_cases h : (st.scope s).disposed = true
  · exact (closeScope_dispMono beh order (f + 1)).1 st s s h
  · have hm : ((markDisposed st s).scope s).disposed = true := by simp [markDisposed, updScope]
    -- everything after `markDisposed` is monotone
    have hmono : DispMono (markDisposed st s) (closeScope beh order (f + 1) st s).1 := by
      unfold closeScope
      simp only [h, Bool.false_eq_true, ↓reduceIte]
      have h2 : DispMono (markDisposed st s) (takeChildren (markDisposed st s) s) := updScope_dispMono _ s _ (fun _ h => h)
      have h3 := (closeScope_dispMono beh order f).2 (takeChildren (markDisposed st s) s) (order ((st.scope s).children.getD []))
      generalize closeChildren beh order f (takeChildren (markDisposed st s) s) (order ((st.scope s).children.getD [])) = r1 at h3
      have h4 : DispMono r1.1 (takeDisposables r1.1 s) := updScope_dispMono _ s _ (fun _ h => h)
      have h5 : DispMono (takeDisposables r1.1 s)
          (closeLoop beh s (takeDisposables r1.1 s) ((r1.1.scope s).disposables.getD []).reverse).1 := by
        intro x hx; rw [closeLoop_scope]; exact hx
      generalize closeLoop beh s (takeDisposables r1.1 s) ((r1.1.scope s).disposables.getD []).reverse = r2 at h5
      have h6 := detach_dispMono r2.1 s
      have h7 : DispMono (detach r2.1 s) (dropInstances (detach r2.1 s) s) := updScope_dispMono _ s _ (fun _ h => h)
      exact ((((h2.trans h3).trans h4).trans h5).trans h6).trans h7
    exact hmono s hm

/-- closing a list of scopes (with fuel for every element) leaves every one of them disposed -/
theorem closeChildren_disposes_all (beh : Beh) (order : List Nat → List Nat) : ∀ (l : List Nat) (fuel : Nat) (st : State),
    l.length + 1 ≤ fuel → ∀ c ∈ l, (((closeChildren beh order fuel st l).1).scope c).disposed = true := by
  intro l
  induction l with
  | nil => intro fuel st _ c hc; simp at hc
  | cons a rest ih =>
    intro fuel st hf c hc
    obtain ⟨f, rfl⟩ : ∃ f, fuel = f + 1 := ⟨fuel - 1, by simp at hf; omega⟩
    unfold closeChildren
    simp only []
    have hf' : rest.length + 1 ≤ f := by simp at hf; omega
    rcases List.mem_cons.1 hc with rfl | hc
    · obtain ⟨f', rfl⟩ : ∃ f', f = f' + 1 := ⟨f - 1, by omega⟩
      exact (closeScope_dispMono beh order (f' + 1)).2 _ rest c (closeScope_disposes_self beh order f' st c)
    · exact ih f _ hf' c hc

/-- CASCADE, one level (apply again for grandchildren): after `Close`, the scope and every child it
had are disposed; nothing that was disposed becomes usable again -/
theorem closeScope_cascade (beh : Beh) (order : List Nat → List Nat) (f : Nat) (st : State) (s : Nat)
    (hopen : (st.scope s).disposed = false) (hf : (order ((st.scope s).children.getD [])).length + 1 ≤ f) :
    (((closeScope beh order (f + 1) st s).1).scope s).disposed = true ∧
    ∀ c ∈ order ((st.scope s).children.getD []), (((closeScope beh order (f + 1) st s).1).scope c).disposed = true := by
  refine ⟨closeScope_disposes_self beh order f st s, ?_⟩
  intro c hc
  have hkids := closeChildren_disposes_all beh order (order ((st.scope s).children.getD [])) f
    (takeChildren (markDisposed st s) s) hf c hc
  unfold closeScope
  simp only [hopen, Bool.false_eq_true, ↓reduceIte]
  generalize closeChildren beh order f (takeChildren (markDisposed st s) s) (order ((st.scope s).children.getD [])) = r1 at hkids
  have h4 : DispMono r1.1 (takeDisposables r1.1 s) := updScope_dispMono _ s _ (fun _ h => h)
  have h5 : DispMono (takeDisposables r1.1 s)
      (closeLoop beh s (takeDisposables r1.1 s) ((r1.1.scope s).disposables.getD []).reverse).1 := by
    intro x hx; rw [closeLoop_scope]; exact hx
  generalize closeLoop beh s (takeDisposables r1.1 s) ((r1.1.scope s).disposables.getD []).reverse = r2 at h5
  have h6 := detach_dispMono r2.1 s
  have h7 : DispMono (detach r2.1 s) (dropInstances (detach r2.1 s) s) := updScope_dispMono _ s _ (fun _ h => h)
  exact (((h4.trans h5).trans h6).trans h7) c hkids

end Godi.Container
