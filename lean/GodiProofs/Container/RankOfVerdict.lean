import GodiProofs.Container.BuildOrder
import GodiProofs.Container.ScopedOnce
/-!
# A Build that passes the cycle check has a rank

`Ranked descs rank` — a rank on constructors that strictly decreases along every declared dependency —
is the acyclicity hypothesis of the resolution theorems (`one_instance_per_scope`, termination). Here it
is *derived* from what `doBuild` checks: if phase 2 (`DetectCycles` on the graph phase 1 built) does not
report a cycle, the rank

  `rankOf descs c` = number of graph nodes reachable from the node of a descriptor constructed by `c`

is such a rank. Reachability counts strictly decrease along an edge of an acyclic digraph
(the target is reachable from the source but not from itself), descriptors of one registration have
the same out-edges and hence the same count, and a group dependency goes through the group's node to
every member.
-/
namespace Godi.Container
open Godi.Graph Godi.Spec
open Godi.Kahn (Key)

/-! ### generic: reachability counts in an acyclic digraph -/

theorem countP_lt_of_imp {α} (p q : α → Bool) : ∀ (l : List α), (∀ x ∈ l, p x = true → q x = true) →
    (∃ x ∈ l, q x = true ∧ p x = false) → l.countP p < l.countP q := by
  intro l
  induction l with
  | nil => intro _ ⟨x, hx, _⟩; cases hx
  | cons a rest ih =>
    intro himp ⟨x, hx, hq, hp⟩
    have hle : rest.countP p ≤ rest.countP q := by
      apply List.countP_mono_left
      intro y hy hpy; exact himp y (List.mem_cons_of_mem _ hy) hpy
    rcases List.mem_cons.1 hx with rfl | hx'
    · rw [List.countP_cons_of_pos hq, List.countP_cons_of_neg (by simp [hp])]
      omega
    · have ih' := ih (fun y hy => himp y (List.mem_cons_of_mem _ hy)) ⟨x, hx', hq, hp⟩
      by_cases hpa : p a = true
      · rw [List.countP_cons_of_pos hpa, List.countP_cons_of_pos (himp a (List.mem_cons_self ..) hpa)]
        omega
      · rw [List.countP_cons_of_neg hpa]
        by_cases hqa : q a = true
        · rw [List.countP_cons_of_pos hqa]; omega
        · rw [List.countP_cons_of_neg hqa]; exact ih'

open Classical in
/-- number of nodes reachable (by one or more edges) from `k` -/
noncomputable def reachCount (E : Key → List Key) (nodes : List Key) (k : Key) : Nat :=
  nodes.countP (fun c => decide (Reach E k c))

theorem reach_src_congr {E : Key → List Key} {a a' c : Key} (h : ∀ x, x ∈ E a ↔ x ∈ E a') (r : Reach E a c) :
    Reach E a' c := by
  cases r with
  | single hb => exact .single ((h _).1 hb)
  | cons hb r' => exact .cons ((h _).1 hb) r'

open Classical in
theorem reachCount_congr (E : Key → List Key) (nodes : List Key) (a a' : Key) (h : ∀ x, x ∈ E a ↔ x ∈ E a') :
    reachCount E nodes a = reachCount E nodes a' := by
  unfold reachCount
  congr 1
  funext c
  have : Reach E a c ↔ Reach E a' c := ⟨reach_src_congr h, reach_src_congr (fun x => (h x).symm)⟩
  simp [this]

open Classical in
theorem reachCount_lt (E : Key → List Key) (nodes : List Key) (hac : ∀ k, ¬ Reach E k k) (a b : Key)
    (hb : b ∈ E a) (hn : b ∈ nodes) : reachCount E nodes b < reachCount E nodes a := by
  unfold reachCount
  apply countP_lt_of_imp
  · intro x _ hx
    have : Reach E b x := of_decide_eq_true hx
    exact decide_eq_true (Reach.cons hb this)
  · exact ⟨b, hn, decide_eq_true (Reach.single hb), decide_eq_false (hac b)⟩

/-! ### the registry's graph -/

/-- descriptors of one registration (one constructor) declare the same dependencies -/
def SibDeps (descs : List Desc) : Prop := ∀ d ∈ descs, ∀ d' ∈ descs, d'.ctor = d.ctor → d'.deps = d.deps

/-- a group dependency carries no key (`In` fields are either named or grouped) -/
def DepKeys (descs : List Desc) : Prop := ∀ d ∈ descs, ∀ dep ∈ d.deps, dep.grp ≠ 0 → dep.key = 0

theorem key_mem_graphInput_of_desc (descs : List Desc) (d : Desc) (hd : d ∈ descs) :
    (encode d.ident, d.id + 1, d.deps.map (fun dep => encode (depIdent dep))) ∈ graphInput descs :=
  (mem_graphInput descs _).2 (Or.inl ⟨d, hd, rfl⟩)

/-- out-edges of a descriptor's node: exactly its declared dependencies -/
theorem desc_edges (descs : List Desc) (hk : KeysDistinct descs) (d : Desc) (hd : d ∈ descs) (b : Key) :
    b ∈ (buildGraph descs).edges (encode d.ident) ↔ ∃ dep ∈ d.deps, encode (depIdent dep) = b := by
  rw [buildGraph_edge_mem descs hk]
  constructor
  · rintro ⟨e, he, hka, hb⟩
    have := eq_of_nodup_keys hk (key_mem_graphInput_of_desc descs d hd) he (by simpa using hka)
    subst this
    obtain ⟨dep, hdep, rfl⟩ := List.mem_map.1 hb
    exact ⟨dep, hdep, rfl⟩
  · rintro ⟨dep, hdep, rfl⟩
    exact ⟨_, key_mem_graphInput_of_desc descs d hd, rfl, List.mem_map_of_mem hdep⟩

/-- out-edges of a group's node: its members -/
theorem group_edges (descs : List Desc) (hk : KeysDistinct descs) (ty grp : Nat) (m : Desc)
    (hm : m ∈ groupMembers descs ty grp) :
    encode m.ident ∈ (buildGraph descs).edges (encode ⟨ty, 0, grp⟩) := by
  rw [buildGraph_edge_mem descs hk]
  obtain ⟨hm1, hm2, hm3, hg⟩ := (mem_groupMembers descs ty grp m).1 hm
  have hgk : (ty, grp) ∈ groupKeys descs :=
    (mem_groupKeys descs (ty, grp)).2 ⟨m, hm1, by rw [hm3]; exact hg, by rw [hm2, hm3]⟩
  exact ⟨_, (mem_graphInput descs _).2 (Or.inr ⟨(ty, grp), hgk, rfl⟩), rfl, List.mem_map_of_mem hm⟩

theorem desc_node (descs : List Desc) (d : Desc) (hd : d ∈ descs) : encode d.ident ∈ (buildGraph descs).nodes :=
  (buildGraph_node_mem descs _).2 ⟨_, key_mem_graphInput_of_desc descs d hd, Or.inl rfl⟩

theorem dep_node (descs : List Desc) (d : Desc) (hd : d ∈ descs) (dep : Dep) (hdep : dep ∈ d.deps) :
    encode (depIdent dep) ∈ (buildGraph descs).nodes :=
  (buildGraph_node_mem descs _).2 ⟨_, key_mem_graphInput_of_desc descs d hd, Or.inr (List.mem_map_of_mem hdep)⟩

/-- the graph passes the cycle check: no node reaches itself -/
theorem acyclic_of_check (descs : List Desc) (h : (detectCycles (buildGraph descs)).2 = .ok) :
    ∀ k, ¬ Reach (buildGraph descs).edges k k := by
  intro k hr
  have hn := (cycle_phase_exact descs).1 h
  exact hn ⟨k, Godi.Props.C05.mem_nodes_of_reach (buildGraph_base descs) hr, hr⟩

noncomputable def keyRank (descs : List Desc) (k : Key) : Nat :=
  reachCount (buildGraph descs).edges (buildGraph descs).nodes k

/-- the rank of a constructor: the reachability count of (any) one of its descriptors -/
noncomputable def rankOf (descs : List Desc) (c : Nat) : Nat :=
  match descs.find? (fun d => d.ctor == c) with
  | some d => keyRank descs (encode d.ident)
  | none => 0

theorem rankOf_eq (descs : List Desc) (hk : KeysDistinct descs) (hs : SibDeps descs) (d : Desc) (hd : d ∈ descs) :
    rankOf descs d.ctor = keyRank descs (encode d.ident) := by
  unfold rankOf
  cases hf : descs.find? (fun x => x.ctor == d.ctor) with
  | none =>
    have := List.find?_eq_none.1 hf d hd
    simp at this
  | some d0 =>
    have hd0 : d0 ∈ descs := List.mem_of_find?_eq_some hf
    have hc : d0.ctor = d.ctor := by have := List.find?_some hf; simpa using this
    have hdeps : d0.deps = d.deps := hs d hd d0 hd0 hc
    simp only
    unfold keyRank
    apply reachCount_congr
    intro x
    rw [desc_edges descs hk d0 hd0, desc_edges descs hk d hd, hdeps]

/-- MAIN: a registry whose graph passes phase 2 of Build is ranked -/
theorem ranked_of_check (descs : List Desc) (hk : KeysDistinct descs) (hs : SibDeps descs) (hdk : DepKeys descs)
    (h : (detectCycles (buildGraph descs)).2 = .ok) : Ranked descs (rankOf descs) := by
  intro d hd dep hdep t ht
  have hac := acyclic_of_check descs h
  rcases ht with ⟨hg, hm⟩ | ⟨hg, hf⟩
  · -- group dependency: d → group node → member
    have htd : t ∈ descs := groupMembers_mem hm
    rw [rankOf_eq descs hk hs d hd, rankOf_eq descs hk hs t htd]
    have hkey := hdk d hd dep hdep hg
    have hnode : encode (depIdent dep) = encode ⟨dep.ty, 0, dep.grp⟩ := by unfold depIdent; rw [hkey]
    have e1 : encode (depIdent dep) ∈ (buildGraph descs).edges (encode d.ident) :=
      (desc_edges descs hk d hd _).2 ⟨dep, hdep, rfl⟩
    have e2 := group_edges descs hk dep.ty dep.grp t hm
    have l1 := reachCount_lt _ (buildGraph descs).nodes hac _ _ e1 (dep_node descs d hd dep hdep)
    have l2 := reachCount_lt _ (buildGraph descs).nodes hac _ _ e2 (desc_node descs t htd)
    rw [hnode] at l1
    unfold keyRank
    omega
  · have htd : t ∈ descs := findService_mem hf
    rw [rankOf_eq descs hk hs d hd, rankOf_eq descs hk hs t htd]
    have hp := List.find?_some hf
    simp only [Bool.and_eq_true, beq_iff_eq] at hp
    have hid : t.ident = depIdent dep := by
      unfold depIdent
      cases hti : t.ident with
      | mk ty key grp => rw [hti] at hp; simp at hp; simp [hp.1.1, hp.1.2, hp.2, hg]
    have e1 : encode t.ident ∈ (buildGraph descs).edges (encode d.ident) :=
      (desc_edges descs hk d hd _).2 ⟨dep, hdep, by rw [hid]⟩
    exact reachCount_lt _ (buildGraph descs).nodes hac _ _ e1 (desc_node descs t htd)

/-- in the words of `doBuild`: every verdict other than "circular" comes with a rank -/
theorem ranked_of_verdict (descs : List Desc) (hk : KeysDistinct descs) (hs : SibDeps descs) (hdk : DepKeys descs)
    (h : verdict descs ≠ .circular) : Ranked descs (rankOf descs) := by
  apply ranked_of_check descs hk hs hdk
  unfold verdict at h
  cases hd : (detectCycles (buildGraph descs)).2 with
  | ok => rfl
  | fuel => rw [hd] at h; simp at h
  | cycle k p => rw [hd] at h; simp at h

end Godi.Container
