import GodiProofs.Container.NoCaptive
/-!
# Transient instances are never stored (C03, globally)

`TC`: neither the singleton table nor any scope cache ever holds an instance that a constructor of a
transient registration produced. Every transient resolution therefore constructs (`always_constructs`),
gets a fresh id (`fresh_instance`), and that id can never be answered again by a later look-up: the only
way to obtain it is the one return of the call that created it.
-/
namespace Godi.Container

def TransCtor (descs : List Desc) (c : Nat) : Prop := ∃ d ∈ descs, d.ctor = c ∧ d.life = .transient

/-- not an instance of a transient registration (and an id that has been handed out) -/
def NotTrans (descs : List Desc) (st : State) : Val → Prop
  | .inst i => ¬ TransCtor descs (st.instMeta i).1 ∧ i < st.next
  | .group _ => False        -- group slices are never stored
  | _ => True

structure TC (descs : List Desc) (st : State) : Prop where
  descsEq : st.descs = descs
  tbl : ∀ k v, lookup st.singletons k = some v → NotTrans descs st v
  cache : ∀ s k v, lookup ((st.scope s).instances.getD []) k = some v → NotTrans descs st v
  insts : ∀ d ∈ descs, ∀ v, d.kind = .inst v → NotTrans descs st (.inst v)

theorem notTrans_stable {descs : List Desc} {st st' : State} (hn : st.next ≤ st'.next)
    (hm : ∀ i, i < st.next → st'.instMeta i = st.instMeta i) {v : Val} (h : NotTrans descs st v) : NotTrans descs st' v := by
  cases v with
  | inst i =>
    obtain ⟨a, b⟩ := h
    exact ⟨by rw [hm i b]; exact a, Nat.lt_of_lt_of_le b hn⟩
  | group l => exact h
  | _ => trivial

/-- transport along a step that leaves table and caches alone -/
theorem TC.step {descs : List Desc} {st st' : State} (tc : TC descs st) (hd : st'.descs = st.descs)
    (hs : st'.singletons = st.singletons) (hn : st.next ≤ st'.next)
    (hm : ∀ i, i < st.next → st'.instMeta i = st.instMeta i)
    (hi : ∀ s, (st'.scope s).instances = (st.scope s).instances ∨ (st'.scope s).instances = none) : TC descs st' := by
  refine ⟨hd.trans tc.descsEq, ?_, ?_, ?_⟩
  · intro k v hv; rw [hs] at hv; exact notTrans_stable hn hm (tc.tbl k v hv)
  · intro s k v hv
    rcases hi s with h | h
    · rw [h] at hv; exact notTrans_stable hn hm (tc.cache s k v hv)
    · rw [h] at hv; simp [lookup] at hv
  · intro d hd' v hk; exact notTrans_stable hn hm (tc.insts d hd' v hk)

theorem tc_updScope {descs : List Desc} {st : State} (tc : TC descs st) (s : Nat) (f : ScopeSt → ScopeSt)
    (hf : ∀ sc, (f sc).instances = sc.instances ∨ (f sc).instances = none) : TC descs (updScope st s f) :=
  tc.step rfl rfl (Nat.le_refl _) (fun _ _ => rfl) (fun x => by
    by_cases hx : x = s
    · subst hx
      have : ((updScope st x f).scope x).instances = (f (st.scope x)).instances := by simp [updScope]
      rw [this]; exact hf _
    · left; simp [updScope, hx])

theorem tc_logEv {descs : List Desc} {st : State} (tc : TC descs st) (e : Event) : TC descs (logEv st e) :=
  tc.step rfl rfl (Nat.le_refl _) (fun _ _ => rfl) (fun _ => Or.inl rfl)

theorem tc_bumpInv {descs : List Desc} {st : State} (tc : TC descs st) (c : Nat) : TC descs (bumpInv st c) :=
  tc.step rfl rfl (Nat.le_refl _) (fun _ _ => rfl) (fun _ => Or.inl rfl)

theorem tc_alloc {descs : List Desc} {st : State} (tc : TC descs st) (k c n : Nat) : TC descs (alloc st k c n) :=
  tc.step rfl rfl (Nat.le_add_right _ _) (fun i hi => by
    show (if st.next ≤ i ∧ i < st.next + k then (c, n) else st.instMeta i) = st.instMeta i
    rw [if_neg]; exact fun h => Nat.lt_irrefl _ (Nat.lt_of_lt_of_le hi h.1)) (fun _ => Or.inl rfl)

theorem tc_track {descs : List Desc} {st : State} (tc : TC descs st) (s : Nat) (v : Val) (disp : Bool) :
    TC descs (track st s v disp).1 := by
  unfold track
  split
  · split
    · split
      · exact tc_logEv tc _
      · exact tc
    · split
      next i _ _ => exact tc_updScope tc s (fun sc => { sc with disposables := some ((sc.disposables.getD []) ++ [i]) }) (fun _ => Or.inl rfl)
      · exact tc
  · split <;> exact tc

theorem tc_putInstance {descs : List Desc} {st : State} (tc : TC descs st) (s : Nat) (k : Ident) (v : Val)
    (hv : NotTrans descs st v) : TC descs (putInstance st s k v) := by
  refine ⟨tc.descsEq, tc.tbl, ?_, tc.insts⟩
  intro x k' v' hlk
  unfold putInstance updScope at hlk
  by_cases hx : x = s
  · subst hx
    simp only [↓reduceIte] at hlk
    cases hm : (st.scope x).instances with
    | none => rw [hm] at hlk; simp [lookup] at hlk
    | some m =>
      rw [hm] at hlk
      simp only [Option.map_some, Option.getD_some] at hlk
      by_cases hk : k' = k
      · subst hk; rw [lookup_put_self] at hlk; injection hlk with hlk; subst hlk; exact hv
      · rw [lookup_put_ne m k k' v hk] at hlk
        exact tc.cache x k' v' (by rw [hm]; exact hlk)
  · simp only [hx, ↓reduceIte] at hlk
    exact tc.cache x k' v' hlk

theorem tc_storeSingleton {descs : List Desc} {st : State} (tc : TC descs st) (k : Ident) (v : Val)
    (hv : NotTrans descs st v) : TC descs (storeSingleton st k v) := by
  refine ⟨tc.descsEq, ?_, tc.cache, tc.insts⟩
  intro k' v' hlk
  unfold storeSingleton at hlk
  by_cases hk : k' = k
  · subst hk; rw [lookup_put_self] at hlk; injection hlk with hlk; subst hlk; exact hv
  · rw [lookup_put_ne _ k k' v hk] at hlk; exact tc.tbl k' v' hlk

/-- storing what a registration produced: only transient products bypass every table -/
theorem tc_setInstance {descs : List Desc} {st : State} (tc : TC descs st) (s : Nat) (d : Desc) (k : Ident) (v : Val)
    (hv : d.life ≠ .transient → NotTrans descs st v) : TC descs (setInstance st s d k v).1 := by
  unfold setInstance
  split
  next hl =>
    have h1 := tc_storeSingleton tc k v (hv (by rw [hl]; simp))
    cases v with
    | inst i =>
      simp only []
      split
      · exact h1.step rfl rfl (Nat.le_refl _) (fun _ _ => rfl) (fun _ => Or.inl rfl)
      · exact h1
    | _ => exact h1
  next hl => exact tc_track (tc_putInstance tc s k v (hv (by rw [hl]; simp))) s v d.disp
  · exact tc_track tc s v d.disp

theorem tc_shareInstance {descs : List Desc} {st : State} (tc : TC descs st) (s : Nat) (d : Desc) (k : Ident) (v : Val)
    (hv : d.life ≠ .transient → NotTrans descs st v) : TC descs (shareInstance st s d k v) := by
  unfold shareInstance
  split
  next hl => exact tc_storeSingleton tc k v (hv (by rw [hl]; simp))
  next hl => exact tc_putInstance tc s k v (hv (by rw [hl]; simp))
  · exact tc

theorem notTrans_metaSame {descs : List Desc} {st st' : State} (m : MetaSame st st') {v : Val}
    (h : NotTrans descs st v) : NotTrans descs st' v :=
  notTrans_stable (Nat.le_of_eq m.2.symm) (fun i _ => by rw [m.1]) h

theorem setInstance_metaSame' (st : State) (s : Nat) (d : Desc) (k : Ident) (v : Val) : MetaSame st (setInstance st s d k v).1 := by
  unfold setInstance
  split
  · cases v with
    | inst i => simp only []; split <;> exact ⟨rfl, rfl⟩
    | _ => exact ⟨rfl, rfl⟩
  · exact MetaSame.trans (a := st) (b := putInstance st s k v) ⟨rfl, rfl⟩ (track_metaSame _ s v d.disp)
  · exact track_metaSame st s v d.disp

theorem tc_shareAll {descs : List Desc} (s self : Nat) (v : Val) : ∀ (sibs : List Desc) (st : State), TC descs st →
    (∀ d ∈ sibs, d.life ≠ .transient → NotTrans descs st v) → TC descs (shareAll st s self sibs v) := by
  intro sibs
  induction sibs with
  | nil => intro st tc _; exact tc
  | cons d ds ih =>
    intro st tc h
    unfold shareAll
    simp only [List.foldl_cons]
    have hrest := fun st' tc' h' => ih st' tc' h'
    unfold shareAll at hrest
    split
    · exact hrest st tc (fun x hx => h x (List.mem_cons_of_mem _ hx))
    · refine hrest _ (tc_shareInstance tc s d d.ident v (h d (by simp))) ?_
      intro x hx hl
      exact notTrans_metaSame (shareInstance_metaSame st s d d.ident v) (h x (List.mem_cons_of_mem _ hx) hl)

theorem tc_storeOuts {descs : List Desc} (s : Nat) : ∀ (sibs : List Desc) (outs : List Inst) (st : State), TC descs st →
    (∀ d ∈ sibs, d.life ≠ .transient → ∀ o ∈ outs, NotTrans descs st (.inst o)) → TC descs (storeOuts st s sibs outs).1 := by
  intro sibs
  induction sibs with
  | nil => intro outs st tc _; unfold storeOuts; exact tc
  | cons d ds ih =>
    intro outs st tc h
    cases outs with
    | nil => unfold storeOuts; exact tc
    | cons o os =>
      unfold storeOuts
      refine ih os _ (tc_setInstance tc s d d.ident (.inst o) (fun hl => h d (by simp) hl o (by simp))) ?_
      intro x hx hl o' ho'
      exact notTrans_metaSame (setInstance_metaSame' st s d d.ident _) (h x (List.mem_cons_of_mem _ hx) hl o' (List.mem_cons_of_mem _ ho'))

theorem tc_markAbsent {descs : List Desc} {st : State} (tc : TC descs st) (s : Nat) (sibs0 : List Desc) (nil? : Option Nat) :
    TC descs (markAbsent st s sibs0 nil?) := by
  unfold markAbsent
  split
  · split
    · exact tc_shareInstance tc s _ _ .absent (fun _ => trivial)
    · exact tc
  · exact tc

end Godi.Container

namespace Godi.Container

structure TCfg (descs : List Desc) : Prop where
  wf : WF descs
  reg : RegWF descs

theorem notTransCtor_of {descs : List Desc} (cfg : TCfg descs) (d : Desc) (hd : d ∈ descs) (hl : d.life ≠ .transient) :
    ¬ TransCtor descs d.ctor := by
  rintro ⟨d', hd', hc, ht⟩
  rcases cfg.reg.sameCtor d hd d' hd' hc with h | h
  · subst h; exact hl ht
  · rw [cfg.wf.sibLife d hd d'.id h d' (cfg.wf.uniqueIds d' hd')] at ht; exact hl ht

/-- RESOLUTION NEVER STORES A TRANSIENT INSTANCE: by induction on fuel, for every lifetime of the
descriptor being created -/
theorem tc_frame (beh : Beh) (descs : List Desc) (cfg : TCfg descs) : ∀ fuel,
    (∀ st s ty key, TC descs st → TC descs (resolve beh fuel st s ty key).1) ∧
    (∀ st s d, TC descs st → d ∈ descs → TC descs (resolveDesc beh fuel st s d).1) ∧
    (∀ st s ty grp, TC descs st → TC descs (getGroup beh fuel st s ty grp).1) ∧
    (∀ st s ds acc, TC descs st → (∀ d ∈ ds, d ∈ descs) → TC descs (resolveMembers beh fuel st s ds acc).1) ∧
    (∀ st s deps acc, TC descs st → TC descs (buildArgs beh fuel st s deps acc).1) ∧
    (∀ st s d, TC descs st → d ∈ descs → TC descs (createInstance beh fuel st s d).1) := by
  intro fuel
  induction fuel with
  | zero =>
    refine ⟨?_, ?_, ?_, ?_, ?_, ?_⟩ <;> intros <;>
      simp only [resolve, resolveDesc, getGroup, resolveMembers, buildArgs, createInstance] <;> assumption
  | succ f ih =>
    obtain ⟨ihR, ihD, ihG, ihM, ihA, ihC⟩ := ih
    refine ⟨?_, ?_, ?_, ?_, ?_, ?_⟩
    · intro st s ty key tc
      unfold resolve
      split; · exact tc
      split; · exact tc
      split; · exact tc
      split; · exact tc
      split
      · exact tc
      next d hd => rw [tc.descsEq] at hd; exact ihD st s d tc (findService_mem hd)
    · intro st s d tc hd
      unfold resolveDesc
      split
      · split <;> exact tc
      · split
        · exact tc
        · exact tc
        · exact ihC st s d tc hd
      · exact ihC st s d tc hd
    · intro st s ty grp tc
      unfold getGroup
      split; · exact tc
      rw [tc.descsEq]
      exact ihM st s _ [] tc (fun d hd => groupMembers_mem hd)
    · intro st s ds acc tc hds
      cases ds with
      | nil => unfold resolveMembers; exact tc
      | cons d rest =>
        unfold resolveMembers
        have h1 := ihD st s d tc (hds d (by simp))
        have hrest : ∀ x ∈ rest, x ∈ descs := fun x hx => hds x (List.mem_cons_of_mem _ hx)
        simp only []
        split
        · exact ihM _ s rest _ h1 hrest
        · exact ihM _ s rest _ h1 hrest
        · exact h1
    · intro st s deps acc tc
      cases deps with
      | nil => unfold buildArgs; exact tc
      | cons dep rest =>
        unfold buildArgs
        simp only []
        generalize hr : (if dep.grp != 0 then getGroup beh f st s dep.ty dep.grp
            else resolve beh f st s dep.ty dep.key) = r
        have h1 : TC descs r.1 := by
          rw [← hr]; split
          · exact ihG st s _ _ tc
          · exact ihR st s _ _ tc
        split
        · exact ihA r.1 s rest _ h1
        · split
          · exact ihA r.1 s rest _ h1
          · exact h1
    · intro st s d tc hd
      have hde := tc.descsEq
      have hnt : d.life ≠ .transient → ¬ TransCtor descs d.ctor := notTransCtor_of cfg d hd
      have hsibl : ∀ (descs' : List Desc), descs' = descs → ∀ sd ∈ d.sibs.filterMap (findDesc descs'), sd.life = d.life := by
        intro descs' he sd hsd
        obtain ⟨sid, hsid, hf⟩ := List.mem_filterMap.1 hsd
        rw [he] at hf
        exact cfg.wf.sibLife d hd sid hsid sd hf
      unfold createInstance
      split
      next v hk =>
        simp only []
        have hv : d.life ≠ .transient → NotTrans descs st (.inst v) := fun _ => tc.insts d hd v hk
        have t1 := tc_setInstance tc s d d.ident (.inst v) hv
        split
        · exact t1
        · refine tc_shareAll s d.id (.inst v) _ _ t1 ?_
          intro sd hsd hl
          rw [hsibl _ hde sd hsd] at hl
          exact notTrans_metaSame (setInstance_metaSame' st s d d.ident _) (hv hl)
      next hk =>
        simp only []
        have tA := ihA st s d.deps [] tc
        generalize buildArgs beh f st s d.deps [] = ra at tA
        split
        · exact tA
        next args _ =>
          have t2 := tc_bumpInv tA d.ctor
          have hd2 : (bumpInv ra.1 d.ctor).descs = descs := tA.descsEq
          split
          · exact tc_logEv t2 _
          · exact tc_logEv t2 _
          · exact tc_logEv t2 _
          · split
            · exact tc_setInstance (tc_logEv t2 _) s d d.ident .unit (fun _ => trivial)
            · -- multi
              have hmulti : ∀ (sibs' sibs0 : List Desc) (nil? : Option Nat), (∀ sd ∈ sibs', sd.life = d.life) →
                  TC descs (markAbsent (storeOuts
                    (logEv (alloc (bumpInv ra.1 d.ctor) sibs'.length d.ctor ((bumpInv ra.1 d.ctor).invs d.ctor))
                      (.ctor d.id d.ctor ((bumpInv ra.1 d.ctor).invs d.ctor) s args
                        (allocOuts (bumpInv ra.1 d.ctor).next sibs'.length)))
                    s sibs' (allocOuts (bumpInv ra.1 d.ctor).next sibs'.length)).1 s sibs0 nil?) := by
                intro sibs' sibs0 nil? hlife'
                have t3 := tc_logEv (tc_alloc t2 sibs'.length d.ctor ((bumpInv ra.1 d.ctor).invs d.ctor))
                  (.ctor d.id d.ctor ((bumpInv ra.1 d.ctor).invs d.ctor) s args (allocOuts (bumpInv ra.1 d.ctor).next sibs'.length))
                refine tc_markAbsent (tc_storeOuts s sibs' _ _ t3 ?_) s sibs0 nil?
                intro sd hsd hl o ho
                rw [hlife' sd hsd] at hl
                obtain ⟨lo, hi⟩ := mem_allocOuts ho
                refine ⟨?_, hi⟩
                rw [instMeta_alloc_log _ _ _ _ _ _ _ _ _ lo hi]
                exact hnt hl
              have h0 : ∀ sd ∈ (if (d.sibs.filterMap (findDesc (bumpInv ra.1 d.ctor).descs)).isEmpty then [d]
                  else d.sibs.filterMap (findDesc (bumpInv ra.1 d.ctor).descs)), sd.life = d.life := by
                split
                · intro sd hsd; simp at hsd; subst hsd; rfl
                · exact hsibl _ hd2
              generalize (if (d.sibs.filterMap (findDesc (bumpInv ra.1 d.ctor).descs)).isEmpty then [d]
                  else d.sibs.filterMap (findDesc (bumpInv ra.1 d.ctor).descs)) = sibs0 at h0 ⊢
              cases beh.nilField d.ctor ((bumpInv ra.1 d.ctor).invs d.ctor) with
              | none => exact hmulti sibs0 sibs0 none h0
              | some k => exact hmulti (sibs0.eraseIdx k) sibs0 (some k) (fun sd hsd => h0 sd (List.mem_of_mem_eraseIdx hsd))
            · -- plain
              have t3 := tc_logEv (tc_alloc t2 1 d.ctor ((bumpInv ra.1 d.ctor).invs d.ctor))
                (.ctor d.id d.ctor ((bumpInv ra.1 d.ctor).invs d.ctor) s args [(bumpInv ra.1 d.ctor).next])
              have hv3 : d.life ≠ .transient → NotTrans descs
                  (logEv (alloc (bumpInv ra.1 d.ctor) 1 d.ctor ((bumpInv ra.1 d.ctor).invs d.ctor))
                    (.ctor d.id d.ctor ((bumpInv ra.1 d.ctor).invs d.ctor) s args [(bumpInv ra.1 d.ctor).next]))
                  (.inst (bumpInv ra.1 d.ctor).next) := by
                intro hl
                refine ⟨?_, Nat.lt_succ_self _⟩
                rw [instMeta_alloc_log _ _ _ _ _ _ _ _ _ (Nat.le_refl _) (Nat.lt_succ_self _)]
                exact hnt hl
              have t4 := tc_setInstance t3 s d d.ident (.inst (bumpInv ra.1 d.ctor).next) hv3
              split
              · exact t4
              · refine tc_shareAll s d.id _ _ _ t4 ?_
                intro sd hsd hl
                rw [hsibl _ hd2 sd hsd] at hl
                exact notTrans_metaSame (setInstance_metaSame' _ s d d.ident _) (hv3 hl)

end Godi.Container

namespace Godi.Container

theorem tc_closeLoop {descs : List Desc} (beh : Beh) (owner : Nat) : ∀ (l : List Inst) (st : State), TC descs st →
    TC descs (closeLoop beh owner st l).1 := by
  intro l
  induction l with
  | nil => intro st tc; exact tc
  | cons i rest ih => intro st tc; unfold closeLoop; exact ih _ (tc_logEv tc _)

theorem tc_detach {descs : List Desc} {st : State} (tc : TC descs st) (s : Nat) : TC descs (detach st s) := by
  unfold detach
  have h1 : TC descs (match (st.scope s).parent with
      | some p => updScope st p (fun sc => { sc with children := sc.children.map (fun (l : List Nat) => List.erase l s) })
      | none => st) := by
    split
    · exact tc_updScope tc _ _ (fun _ => Or.inl rfl)
    · exact tc
  exact h1.step rfl rfl (Nat.le_refl _) (fun _ _ => rfl) (fun _ => Or.inl rfl)

theorem tc_close {descs : List Desc} (beh : Beh) (order : List Nat → List Nat) : ∀ fuel,
    (∀ st s, TC descs st → TC descs (closeScope beh order fuel st s).1) ∧
    (∀ st l, TC descs st → TC descs (closeChildren beh order fuel st l).1) := by
  intro fuel
  induction fuel with
  | zero => exact ⟨fun st s tc => by simp [closeScope]; exact tc, fun st l tc => by simp [closeChildren]; exact tc⟩
  | succ f ih =>
    obtain ⟨ihS, ihC⟩ := ih
    refine ⟨?_, ?_⟩
    · intro st s tc
      unfold closeScope
      split
      · exact tc
      · simp only []
        have h0 : TC descs (markDisposed st s) := tc_updScope tc s (fun sc => { sc with disposed := true }) (fun _ => Or.inl rfl)
        have h1 : TC descs (takeChildren (markDisposed st s) s) :=
          tc_updScope h0 s (fun sc => { sc with children := none }) (fun _ => Or.inl rfl)
        have h2 := ihC _ (order ((st.scope s).children.getD [])) h1
        generalize closeChildren beh order f (takeChildren (markDisposed st s) s) (order ((st.scope s).children.getD [])) = r1 at h2
        have h3 : TC descs (takeDisposables r1.1 s) := tc_updScope h2 s (fun sc => { sc with disposables := none }) (fun _ => Or.inl rfl)
        have h4 := tc_closeLoop beh s ((r1.1.scope s).disposables.getD []).reverse _ h3
        generalize closeLoop beh s (takeDisposables r1.1 s) ((r1.1.scope s).disposables.getD []).reverse = r2 at h4
        exact tc_updScope (tc_detach h4 s) s (fun sc => { sc with instances := none }) (fun _ => Or.inr rfl)
    · intro st l tc
      cases l with
      | nil => unfold closeChildren; exact tc
      | cons c rest => unfold closeChildren; exact ihC _ rest (ihS st c tc)

theorem tc_allocScope {descs : List Desc} {st : State} (tc : TC descs st) (parent : Option Nat) (ctx : Nat) :
    TC descs (allocScope st parent ctx) := by
  refine ⟨tc.descsEq, tc.tbl, ?_, tc.insts⟩
  intro x k v hv
  unfold allocScope at hv
  by_cases hx : x = st.nscopes
  · subst hx; simp [lookup] at hv
  · simp only [hx, ↓reduceIte] at hv; exact tc.cache x k v hv

theorem tc_runInitializers {descs : List Desc} (beh : Beh) (cfg : TCfg descs) (s : Nat) : ∀ (ids : List Nat) (st : State),
    TC descs st → TC descs (runInitializers beh st s ids).1 := by
  intro ids
  induction ids with
  | nil => intro st tc; exact tc
  | cons id rest ih =>
    intro st tc
    unfold runInitializers
    rw [tc.descsEq]
    split
    · exact ih st tc
    next d hd =>
      have h1 := (tc_frame beh descs cfg (fuelFor st)).2.2.2.2.2 st s d tc (findDesc_mem hd)
      simp only []
      split
      · exact ih _ h1
      · exact h1

theorem tc_newScope {descs : List Desc} (beh : Beh) (cfg : TCfg descs) (st : State) (parent : Option Nat) (ctx : Nat)
    (ri : Bool) (tc : TC descs st) : TC descs (newScope beh st parent ctx ri).1 := by
  unfold newScope
  simp only []
  have h0 := tc_allocScope tc parent ctx
  split
  · have h1 := tc_runInitializers beh cfg st.nscopes (allocScope st parent ctx).initializers (allocScope st parent ctx) h0
    split
    · exact h1
    · exact (tc_close beh id _).1 _ _ h1
  · exact h0

theorem tc_stepOp {descs : List Desc} (beh : Beh) (cfg : TCfg descs) (st : State) (op : Op) (tc : TC descs st) :
    TC descs (stepOp beh st op) := by
  have hsame : ∀ (st1 st2 : State), TC descs st1 → st2.descs = st1.descs → st2.singletons = st1.singletons →
      st2.next = st1.next → st2.instMeta = st1.instMeta → st2.scope = st1.scope → TC descs st2 :=
    fun st1 st2 t a b c d e => t.step a b (Nat.le_of_eq c.symm) (fun i _ => by rw [d]) (fun s => Or.inl (by rw [e]))
  cases op with
  | get s ty key =>
    cases s with
    | none =>
      show TC descs (providerGet beh st ty key).1
      unfold providerGet; split
      · exact tc
      · exact (tc_frame beh descs cfg _).1 st rootScope ty key tc
    | some s => exact (tc_frame beh descs cfg _).1 st s ty key tc
  | getGroup s ty grp =>
    cases s with
    | none =>
      show TC descs (providerGetGroup beh st ty grp).1
      unfold providerGetGroup; split
      · exact tc
      · exact (tc_frame beh descs cfg _).2.2.1 st rootScope ty grp tc
    | some s => exact (tc_frame beh descs cfg _).2.2.1 st s ty grp tc
  | createScope p ctx =>
    cases p with
    | none =>
      show TC descs (providerCreateScope beh st ctx).1
      unfold providerCreateScope
      split
      · exact tc
      · have h1 := tc_newScope beh cfg st none ctx true tc
        simp only []
        split
        · exact h1
        · split
          · exact (tc_close beh id _).1 _ _ h1
          · exact hsame _ _ h1 rfl rfl rfl rfl rfl
    | some p =>
      show TC descs (scopeCreateScope beh st p ctx).1
      unfold scopeCreateScope
      split
      · exact tc
      · have h1 := tc_newScope beh cfg st (some p) ctx true tc
        simp only []
        split
        · exact h1
        · split
          · exact (tc_close beh id _).1 _ _ h1
          next s _ _ =>
            have h2 : TC descs (addChild (newScope beh st (some p) ctx true).1 p s) := tc_updScope h1 p _ (fun _ => Or.inl rfl)
            split
            · exact (tc_close beh id _).1 _ _ h2
            · exact hsame _ _ h2 rfl rfl rfl rfl rfl
  | closeScope s order => exact (tc_close beh order _).1 st s tc

theorem tc_run {descs : List Desc} (beh : Beh) (cfg : TCfg descs) : ∀ (ops : List Op) (st : State), TC descs st →
    TC descs (run beh st ops) := by
  intro ops
  induction ops with
  | nil => intro st tc; exact tc
  | cons op rest ih => intro st tc; exact ih _ (tc_stepOp beh cfg st op tc)

theorem tc_createSingletons {descs : List Desc} (beh : Beh) (cfg : TCfg descs) : ∀ (order : List Nat) (st : State),
    TC descs st → TC descs (createSingletons beh st order).1 := by
  intro order
  induction order with
  | nil => intro st tc; exact tc
  | cons id rest ih =>
    intro st tc
    unfold createSingletons
    split
    · exact ih st tc
    next d hfd =>
      have hd : d ∈ descs := by rw [← tc.descsEq]; exact findDesc_mem hfd
      split
      · exact ih st tc
      · split
        · exact tc
        split
        · exact ih st tc
        · have h1 := (tc_frame beh descs cfg (fuelFor st)).2.2.2.2.2 st rootScope d tc hd
          simp only []
          split
          · exact ih _ h1
          · exact h1

/-- BUILD (success or failure) leaves a state in which no transient instance is stored anywhere
(`hz`: constructor id 0, the recorded producer of registered instance values, is no transient constructor) -/
theorem build_tc {descs : List Desc} (beh : Beh) (cfg : TCfg descs) (hz : ¬ TransCtor descs 0) (order : List Nat)
    (hok : (buildRuntime beh descs order).2 = .ok ()) : TC descs (buildRuntime beh descs order).1 := by
  unfold buildRuntime at hok ⊢
  have hn : newScope beh { descs := descs, next := firstFresh descs } none 0 false = (buildStart descs, .ok 0) := by
    unfold newScope buildStart; simp
  simp only [hn] at hok ⊢
  have tc0 : TC descs (buildStart descs) := by
    refine ⟨rfl, ?_, ?_, ?_⟩
    · intro k v hv; simp [buildStart, allocScope, lookup] at hv
    · intro s k v hv
      unfold buildStart allocScope at hv
      by_cases hs : s = 0 <;> simp [hs, lookup] at hv
    · intro d hd v hk
      exact ⟨hz, instVal_lt_firstFresh descs d hd v hk⟩
  have t2 := tc_createSingletons beh cfg order (buildStart descs) tc0
  generalize createSingletons beh (buildStart descs) order = r2 at t2 hok
  obtain ⟨st2, res2⟩ := r2
  cases res2 with
  | error e =>
    simp only [] at hok
    generalize closeProvider beh id st2 = r3 at hok
    obtain ⟨st3, ce⟩ := r3
    simp at hok
  | ok u =>
    simp only [] at hok ⊢
    have t2' : TC descs st2 := t2
    have t3 : TC descs { st2 with initializers := (descs.filter isInitializer).map (·.id) } :=
      TC.step (st' := { st2 with initializers := (descs.filter isInitializer).map (·.id) }) t2' rfl rfl (Nat.le_refl _)
        (fun _ _ => rfl) (fun _ => Or.inl rfl)
    have t4 := tc_runInitializers beh cfg rootScope ((descs.filter isInitializer).map (·.id))
      { st2 with initializers := (descs.filter isInitializer).map (·.id) } t3
    generalize runInitializers beh { st2 with initializers := (descs.filter isInitializer).map (·.id) } rootScope
      ((descs.filter isInitializer).map (·.id)) = r4 at t4 hok
    obtain ⟨st4, res4⟩ := r4
    cases res4 with
    | ok u4 => exact t4
    | error e4 =>
      simp only [] at hok
      generalize closeProvider beh id st4 = r5 at hok
      obtain ⟨st5, ce⟩ := r5
      simp at hok

end Godi.Container
