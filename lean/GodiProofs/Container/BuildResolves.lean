import GodiProofs.Container.KahnOrder
/-!
# After a successful Build everything resolves

`build_succeeds` says that Build returns without an error; this file keeps what its proof knows about the state it
returns — the registry is the registered one, the root scope is open, nothing is marked constructed-without-value, every
singleton is stored — and concludes, with `createInstance_succeeds`, that every registered service resolves in it.
-/
namespace Godi.Container
open Godi.Graph Godi.Spec
open Godi.Kahn (Key)

theorem runInitializers_keeps (beh : Beh) (gb : GoodBeh beh) (descs : List Desc) (s : Nat) :
    ∀ (ids : List Nat) (st : State), Cond descs st s →
      Cond descs (runInitializers beh st s ids).1 s ∧ Keep st (runInitializers beh st s ids).1 := by
  intro ids
  induction ids with
  | nil => intro st c; exact ⟨c, Keep.refl st⟩
  | cons id rest ih =>
    intro st c
    unfold runInitializers
    rw [c.descsEq]
    cases hfd : findDesc descs id with
    | none => simp only []; exact ih st c
    | some d =>
      simp only []
      have k1 := (keep_all beh gb (fuelFor st)).2.2.2.2.2 st s d
      have tf1 := (tframe_all beh (fuelFor st)).2.2.2.2.2 st s d
      have c1 := c.next ((descs_frame beh (fuelFor st)).2.2.2.2.2 st s d) tf1 k1
      cases hr : (createInstance beh (fuelFor st) st s d).2 with
      | error e => simp only []; exact ⟨c1, k1⟩
      | ok v =>
        simp only []
        obtain ⟨c2, k2⟩ := ih _ c1
        exact ⟨c2, k1.trans k2⟩

/-- the state a successful Build returns -/
theorem build_state (beh : Beh) (gb : GoodBeh beh) (descs : List Desc) (order : List Nat)
    (hyp : failedHyps descs = []) (hv : verdict descs = .ok)
    (hall : ∀ d ∈ descs, d.life = .singleton → d.id ∈ order)
    (hord : ∀ pre id post, order = pre ++ id :: post → ∀ d, findDesc descs id = some d → d.life = .singleton →
      ∀ t, ReachLong descs d t → t.life = .singleton → t.id ∈ pre) :
    Cond descs (build beh descs order).1 rootScope ∧
    ∀ t ∈ descs, t.life = .singleton → StoredS (build beh descs order).1 t := by
  have V := valid_of_check descs hyp hv
  unfold build
  rw [hv]
  simp only []
  unfold buildRuntime
  simp only [newScope, Bool.false_eq_true, ↓reduceIte]
  have c0 : Cond descs (allocScope { descs := descs, next := firstFresh descs } none 0) rootScope :=
    ⟨rfl, by rw [alloc_scope]; simp [rootScope], ⟨fun k => by simp [allocScope, lookup], fun x => by
      rw [alloc_scope]; split <;> (intro k; simp [lookup])⟩⟩
  obtain ⟨h1, c1, _, hst1⟩ := createSingletons_succeeds beh gb descs V order hord order [] _ rfl c0
    (fun id hid => by cases hid)
  generalize createSingletons beh (allocScope { descs := descs, next := firstFresh descs } none 0) order = r2 at h1 c1 hst1
  obtain ⟨st2, res2⟩ := r2
  simp only at h1
  subst h1
  simp only []
  have c3 : Cond descs { st2 with initializers := (descs.filter isInitializer).map (·.id) } rootScope :=
    ⟨c1.descsEq, c1.isOpen, ⟨c1.noAbs.sing, c1.noAbs.inst⟩⟩
  have hall3 : ∀ t ∈ descs, t.life = .singleton →
      StoredS { st2 with initializers := (descs.filter isInitializer).map (·.id) } t :=
    fun t ht htl => hst1 t.id (hall t ht htl) t (V.wf.uniqueIds t ht) htl
  have h4 := runInitializers_succeeds beh gb descs V rootScope ((descs.filter isInitializer).map (·.id)) _ c3 hall3
  obtain ⟨c4, k4⟩ := runInitializers_keeps beh gb descs rootScope ((descs.filter isInitializer).map (·.id)) _ c3
  generalize runInitializers beh { st2 with initializers := (descs.filter isInitializer).map (·.id) } rootScope
    ((descs.filter isInitializer).map (·.id)) = r4 at h4 c4 k4
  obtain ⟨st4, res4⟩ := r4
  simp only at h4
  subst h4
  simp only []
  exact ⟨c4, fun t ht htl => (hall3 t ht htl).keep k4⟩

/-- BUILD, THEN EVERYTHING RESOLVES: phases 1–6 with the order the sort returns, and in the provider that comes out every
registered service — whatever its lifetime — is constructed without an error from the provider's own scope. -/
theorem built_provider_resolves_everything (beh : Beh) (gb : GoodBeh beh) (descs : List Desc)
    (hyp : failedHyps descs = []) (hv : verdict descs = .ok) (l : List Key) (hl : Godi.Props.C06.ValidOrder (buildGraph descs) l)
    (d : Desc) (hd : d ∈ descs) :
    (build beh descs (orderIds descs l)).2 = .ok () ∧
    ∃ v, (createInstance beh (fuelFor (build beh descs (orderIds descs l)).1) (build beh descs (orderIds descs l)).1 rootScope d).2 = .ok v := by
  obtain ⟨wf, _, _, _, hk, _, _, _, _, hdk⟩ := hyps_of_check hyp
  obtain ⟨hall, hord⟩ := sorted_order_is_creation_order descs wf hk hdk l hl
  obtain ⟨c, hst⟩ := build_state beh gb descs (orderIds descs l) hyp hv hall hord
  refine ⟨build_succeeds beh gb descs (orderIds descs l) hyp hv hall hord, ?_⟩
  exact createInstance_succeeds beh gb descs (valid_of_check descs hyp hv) _ rootScope c d hd
    (fun t ht htl => hst t (reachLong_mem ht) htl)

end Godi.Container
