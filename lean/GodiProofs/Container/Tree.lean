import GodiProofs.Container.Drain
/-!
# The scope forest: tables hold live scopes only, and `Close` reaches every descendant

`TreeEx A st` is the structural invariant of the scope forest at an operation boundary (`A = ∅`), and —
with the scopes whose `Close` is on the stack exempted (`A`) — inside `Close`:

* the provider's scope table and every scope's child table are duplicate-free and hold only *open*
  scopes (C14: a closed scope is kept neither by the provider nor by its parent);
* an open scope's parent is open and lists it (so: a closed scope has no open descendant — C13, cascade);
* a closed scope has released its child table and its instance cache.

`tree_close` shows that `scope.Close` re-establishes it, for every iteration order of the child tables, with
an explicit fuel bound that `closeFuel` meets; parents are older than their children, so the recursion is
bounded by the scope ids.
-/
namespace Godi.Container

structure TreeEx (A N : Nat → Prop) (st : State) : Prop where
  older : ∀ c p, c < st.nscopes → (st.scope c).parent = some p → p < c
  kids : ∀ p C, (st.scope p).children = some C → C.Nodup ∧
    ∀ c ∈ C, c < st.nscopes ∧ (st.scope c).parent = some p ∧ ((st.scope c).disposed = false ∨ A c)
  tbl : ∀ l, st.provScopes = some l → l.Nodup ∧
    ∀ x ∈ l, x < st.nscopes ∧ x ≠ rootScope ∧ ((st.scope x).disposed = false ∨ A x)
  up : ∀ c p, c < st.nscopes → (st.scope c).parent = some p → (st.scope c).disposed = false →
    (st.scope p).disposed = false ∨ A p
  member : ∀ c p C, c < st.nscopes → (st.scope c).parent = some p → (st.scope c).disposed = false →
    (st.scope p).children = some C → c ∈ C ∨ N c
  openHas : ∀ x, (st.scope x).disposed = false → (st.scope x).children.isSome
  released : ∀ x, (st.scope x).disposed = true → ¬ A x → (st.scope x).children = none ∧ (st.scope x).instances = none

abbrev Tree (st : State) : Prop := TreeEx (fun _ => False) (fun _ => False) st

/-- the fields the invariant talks about -/
structure SameForest (a b : State) : Prop where
  nscopes : b.nscopes = a.nscopes
  prov : b.provScopes = a.provScopes
  disp : ∀ x, (b.scope x).disposed = (a.scope x).disposed
  parent : ∀ x, (b.scope x).parent = (a.scope x).parent
  children : ∀ x, (b.scope x).children = (a.scope x).children
  instances : ∀ x, (b.scope x).instances = (a.scope x).instances

theorem TreeEx.congr {A N : Nat → Prop} {a b : State} (h : SameForest a b) (t : TreeEx A N a) : TreeEx A N b := by
  refine ⟨?_, ?_, ?_, ?_, ?_, ?_, ?_⟩
  · intro c p hc hp; rw [h.nscopes] at hc; rw [h.parent] at hp; exact t.older c p hc hp
  · intro p C hC
    rw [h.children] at hC
    refine ⟨(t.kids p C hC).1, ?_⟩
    intro c hc
    have := (t.kids p C hC).2 c hc
    rw [h.nscopes, h.parent, h.disp]; exact this
  · intro l hl
    rw [h.prov] at hl
    refine ⟨(t.tbl l hl).1, ?_⟩
    intro x hx
    have := (t.tbl l hl).2 x hx
    rw [h.nscopes, h.disp]; exact this
  · intro c p hc hp hd
    rw [h.nscopes] at hc; rw [h.parent] at hp; rw [h.disp] at hd ⊢
    exact t.up c p hc hp hd
  · intro c p C hc hp hd hC
    rw [h.nscopes] at hc; rw [h.parent] at hp; rw [h.disp] at hd; rw [h.children] at hC
    exact t.member c p C hc hp hd hC
  · intro x hd; rw [h.disp] at hd; rw [h.children]; exact t.openHas x hd
  · intro x hd ha; rw [h.disp] at hd; rw [h.children, h.instances]; exact t.released x hd ha

/-- what `Close` never undoes -/
structure CFrame (st st' : State) : Prop where
  nscopes : st'.nscopes = st.nscopes
  parent : ∀ x, (st'.scope x).parent = (st.scope x).parent
  disp : ∀ x, (st.scope x).disposed = true → (st'.scope x).disposed = true
  kidsNone : ∀ x, (st.scope x).children = none → (st'.scope x).children = none

theorem CFrame.refl (st : State) : CFrame st st := ⟨rfl, fun _ => rfl, fun _ h => h, fun _ h => h⟩
theorem CFrame.trans {a b c : State} (h1 : CFrame a b) (h2 : CFrame b c) : CFrame a c :=
  ⟨h2.nscopes.trans h1.nscopes, fun x => (h2.parent x).trans (h1.parent x), fun x h => h2.disp x (h1.disp x h),
   fun x h => h2.kidsNone x (h1.kidsNone x h)⟩

theorem nodup_lt_length : ∀ (l : List Nat) (n : Nat), l.Nodup → (∀ x ∈ l, x < n) → l.length ≤ n := by
  intro l n hn hl
  have : l ⊆ List.range n := fun x hx => List.mem_range.2 (hl x hx)
  have := List.Nodup.length_le_of_subset hn this
  simpa using this

theorem scope_upd (st : State) (s x : Nat) (f : ScopeSt → ScopeSt) :
    (updScope st s f).scope x = if x = s then f (st.scope s) else st.scope x := rfl

/-! ### `detach` -/

theorem detach_scope (st : State) (s x : Nat) :
    (detach st s).scope x =
      if (st.scope s).parent = some x then
        { st.scope x with children := (st.scope x).children.map (fun (l : List Nat) => List.erase l s) }
      else st.scope x := by
  unfold detach
  cases hp : (st.scope s).parent with
  | none => simp
  | some p =>
    simp only [Option.some.injEq]
    by_cases hx : x = p
    · subst hx; simp [updScope]
    · have : ¬ p = x := fun e => hx e.symm
      simp [updScope, hx, this]

theorem detach_fields (st : State) (s x : Nat) :
    ((detach st s).scope x).disposed = (st.scope x).disposed ∧
    ((detach st s).scope x).parent = (st.scope x).parent ∧
    ((detach st s).scope x).instances = (st.scope x).instances := by
  rw [detach_scope]; split <;> exact ⟨rfl, rfl, rfl⟩

theorem detach_children (st : State) (s x : Nat) :
    ((detach st s).scope x).children =
      if (st.scope s).parent = some x then (st.scope x).children.map (fun (l : List Nat) => List.erase l s)
      else (st.scope x).children := by
  rw [detach_scope]; split <;> rfl

/-! ### marking a scope and taking its child table -/

theorem ar_step (n s : Nat) (h : s < n) : (n - s) * (n + 1) = (n - (s + 1)) * (n + 1) + (n + 1) := by
  have : n - s = (n - (s + 1)) + 1 := by omega
  rw [this, Nat.succ_mul]

theorem ar_mono (n m c : Nat) (h : m ≤ c) : (n - c) * (n + 1) ≤ (n - m) * (n + 1) :=
  Nat.mul_le_mul_right _ (by omega)

/-- the state right after `Close` has passed the gate: `s` is exempt from now on -/
theorem tree_mark {A N : Nat → Prop} {st : State} (t : TreeEx A N st) (s : Nat) :
    TreeEx (fun x => A x ∨ x = s) N (takeChildren (markDisposed st s) s) := by
  have e1 : ∀ x, x ≠ s → (takeChildren (markDisposed st s) s).scope x = st.scope x := by
    intro x hx; simp [takeChildren, markDisposed, updScope, hx]
  have es : (takeChildren (markDisposed st s) s).scope s = { st.scope s with disposed := true, children := none } := by
    simp [takeChildren, markDisposed, updScope]
  have par : ∀ x, ((takeChildren (markDisposed st s) s).scope x).parent = (st.scope x).parent := by
    intro x; by_cases hx : x = s
    · subst hx; rw [es]
    · rw [e1 x hx]
  have dis : ∀ x, ((takeChildren (markDisposed st s) s).scope x).disposed = false → (st.scope x).disposed = false ∧ x ≠ s := by
    intro x hd
    by_cases hx : x = s
    · subst hx; rw [es] at hd; cases hd
    · rw [e1 x hx] at hd; exact ⟨hd, hx⟩
  have disOr : ∀ x, ((st.scope x).disposed = false ∨ A x) →
      (((takeChildren (markDisposed st s) s).scope x).disposed = false ∨ (A x ∨ x = s)) := by
    intro x h
    by_cases hx : x = s
    · exact Or.inr (Or.inr hx)
    · rw [e1 x hx]; exact h.elim Or.inl (fun a => Or.inr (Or.inl a))
  refine ⟨?_, ?_, ?_, ?_, ?_, ?_, ?_⟩
  · intro c p hc hp; rw [par] at hp; exact t.older c p hc hp
  · intro p C hC
    have hps : p ≠ s := by intro e; subst e; rw [es] at hC; cases hC
    rw [e1 p hps] at hC
    refine ⟨(t.kids p C hC).1, ?_⟩
    intro c hc
    obtain ⟨h1, h2, h3⟩ := (t.kids p C hC).2 c hc
    exact ⟨h1, by rw [par]; exact h2, disOr c h3⟩
  · intro l hl
    have hl' : st.provScopes = some l := hl
    refine ⟨(t.tbl l hl').1, ?_⟩
    intro x hx
    obtain ⟨h1, h2, h3⟩ := (t.tbl l hl').2 x hx
    exact ⟨h1, h2, disOr x h3⟩
  · intro c p hc hp hd
    rw [par] at hp
    obtain ⟨hd', _⟩ := dis c hd
    exact disOr p (t.up c p hc hp hd')
  · intro c p C hc hp hd hC
    have hps : p ≠ s := by intro e; subst e; rw [es] at hC; cases hC
    rw [par] at hp; rw [e1 p hps] at hC
    exact t.member c p C hc hp (dis c hd).1 hC
  · intro x hd
    obtain ⟨hd', hxs⟩ := dis x hd
    rw [e1 x hxs]; exact t.openHas x hd'
  · intro x hd hna
    have hxs : x ≠ s := fun e => hna (Or.inr e)
    rw [e1 x hxs] at hd ⊢
    exact t.released x hd (fun a => hna (Or.inl a))

/-! ### leaving `Close`: the scope is detached and its cache dropped -/

theorem tree_unmark {A N : Nat → Prop} {r : State} (s : Nat) (t : TreeEx (fun x => A x ∨ x = s) N r)
    (hs : (r.scope s).disposed = true) (hk : (r.scope s).children = none)
    (hall : ∀ c, c < r.nscopes → (r.scope c).parent = some s → (r.scope c).disposed = true) :
    TreeEx A N (dropInstances (detach r s) s) := by
  have hn : (dropInstances (detach r s) s).nscopes = r.nscopes := (detach_nscopes r s).1
  have hpv : (dropInstances (detach r s) s).provScopes = r.provScopes.map (fun (l : List Nat) => List.erase l s) :=
    detach_provScopes r s
  have hd : ∀ x, ((dropInstances (detach r s) s).scope x).disposed = (r.scope x).disposed := by
    intro x; unfold dropInstances; rw [scope_upd]; split
    next h => subst h; exact (detach_fields r x x).1
    · exact (detach_fields r s x).1
  have hp : ∀ x, ((dropInstances (detach r s) s).scope x).parent = (r.scope x).parent := by
    intro x; unfold dropInstances; rw [scope_upd]; split
    next h => subst h; exact (detach_fields r x x).2.1
    · exact (detach_fields r s x).2.1
  have hc : ∀ x, ((dropInstances (detach r s) s).scope x).children =
      if (r.scope s).parent = some x then (r.scope x).children.map (fun (l : List Nat) => List.erase l s)
      else (r.scope x).children := by
    intro x; unfold dropInstances; rw [scope_upd]; split
    next h => subst h; exact detach_children r x x
    · exact detach_children r s x
  have hi : ∀ x, ((dropInstances (detach r s) s).scope x).instances = if x = s then none else (r.scope x).instances := by
    intro x; unfold dropInstances; rw [scope_upd]; split
    · rfl
    · exact (detach_fields r s x).2.2
  refine ⟨?_, ?_, ?_, ?_, ?_, ?_, ?_⟩
  · intro c p hcn hpp; rw [hn] at hcn; rw [hp] at hpp; exact t.older c p hcn hpp
  · intro p C' hC'
    rw [hc] at hC'
    split at hC'
    next hps =>
      cases hrc : (r.scope p).children with
      | none => rw [hrc] at hC'; cases hC'
      | some C =>
        rw [hrc] at hC'
        simp only [Option.map_some, Option.some.injEq] at hC'
        subst hC'
        obtain ⟨hnd, hel⟩ := t.kids p C hrc
        refine ⟨hnd.erase s, ?_⟩
        intro c hcm
        have hcs : c ≠ s ∧ c ∈ C := (hnd.mem_erase_iff).1 hcm
        obtain ⟨h1, h2, h3⟩ := hel c hcs.2
        refine ⟨by rw [hn]; exact h1, by rw [hp]; exact h2, ?_⟩
        rw [hd]
        rcases h3 with h | h | h
        · exact Or.inl h
        · exact Or.inr h
        · exact absurd h hcs.1
    next hps =>
      obtain ⟨hnd, hel⟩ := t.kids p C' hC'
      refine ⟨hnd, ?_⟩
      intro c hcm
      obtain ⟨h1, h2, h3⟩ := hel c hcm
      refine ⟨by rw [hn]; exact h1, by rw [hp]; exact h2, ?_⟩
      rw [hd]
      rcases h3 with h | h | h
      · exact Or.inl h
      · exact Or.inr h
      · subst h; exact absurd h2 hps
  · intro l' hl'
    rw [hpv] at hl'
    cases hrl : r.provScopes with
    | none => rw [hrl] at hl'; cases hl'
    | some l =>
      rw [hrl] at hl'
      simp only [Option.map_some, Option.some.injEq] at hl'
      subst hl'
      obtain ⟨hnd, hel⟩ := t.tbl l hrl
      refine ⟨hnd.erase s, ?_⟩
      intro x hxm
      have hxs : x ≠ s ∧ x ∈ l := (hnd.mem_erase_iff).1 hxm
      obtain ⟨h1, h2, h3⟩ := hel x hxs.2
      refine ⟨by rw [hn]; exact h1, h2, ?_⟩
      rw [hd]
      rcases h3 with h | h | h
      · exact Or.inl h
      · exact Or.inr h
      · exact absurd h hxs.1
  · intro c p hcn hpp hdc
    rw [hn] at hcn; rw [hp] at hpp; rw [hd] at hdc ⊢
    rcases t.up c p hcn hpp hdc with h | h | h
    · exact Or.inl h
    · exact Or.inr h
    · subst h
      have := hall c hcn hpp
      rw [hdc] at this; cases this
  · intro c p C' hcn hpp hdc hC'
    rw [hn] at hcn; rw [hp] at hpp; rw [hd] at hdc; rw [hc] at hC'
    split at hC'
    next hps =>
      cases hrc : (r.scope p).children with
      | none => rw [hrc] at hC'; cases hC'
      | some C =>
        rw [hrc] at hC'
        simp only [Option.map_some, Option.some.injEq] at hC'
        subst hC'
        have hcs : c ≠ s := by intro e; subst e; rw [hs] at hdc; cases hdc
        rcases t.member c p C hcn hpp hdc hrc with hcC | hN
        · exact Or.inl ((List.mem_erase_of_ne hcs).2 hcC)
        · exact Or.inr hN
    next hps => exact t.member c p C' hcn hpp hdc hC'
  · intro x hdx
    rw [hd] at hdx; rw [hc]
    have := t.openHas x hdx
    split
    · rw [Option.isSome_map]; exact this
    · exact this
  · intro x hdx hna
    rw [hd] at hdx; rw [hc, hi]
    by_cases hxs : x = s
    · subst hxs
      rw [hk]; simp
    · obtain ⟨h1, h2⟩ := t.released x hdx (fun h => h.elim hna hxs)
      rw [h1, h2]; simp [hxs]

/-! ### `Close` re-establishes the invariant -/

theorem cframe_upd (st : State) (s : Nat) (f : ScopeSt → ScopeSt) (hp : ∀ sc, (f sc).parent = sc.parent)
    (hd : ∀ sc, sc.disposed = true → (f sc).disposed = true) (hk : ∀ sc, sc.children = none → (f sc).children = none) :
    CFrame st (updScope st s f) := by
  refine ⟨rfl, ?_, ?_, ?_⟩ <;> intro x <;> rw [scope_upd] <;> split
  next h => subst h; exact hp _
  · rfl
  next h => subst h; exact hd _
  · exact fun h => h
  next h => subst h; exact hk _
  · exact fun h => h

theorem cframe_detach (st : State) (s : Nat) : CFrame st (detach st s) := by
  refine ⟨(detach_nscopes st s).1, fun x => (detach_fields st s x).2.1, ?_, ?_⟩
  · intro x h; rw [(detach_fields st s x).1]; exact h
  · intro x h; rw [detach_children]; split
    · rw [h]; rfl
    · exact h

theorem sameForest_closeLoop (beh : Beh) (owner : Nat) (l : List Inst) (st : State) :
    SameForest st (closeLoop beh owner st l).1 := by
  rw [closeLoop_eq]; exact ⟨rfl, rfl, fun _ => rfl, fun _ => rfl, fun _ => rfl, fun _ => rfl⟩

theorem sameForest_takeDisposables (st : State) (s : Nat) : SameForest st (takeDisposables st s) := by
  refine ⟨rfl, rfl, ?_, ?_, ?_, ?_⟩ <;> intro x <;> unfold takeDisposables <;> rw [scope_upd] <;> split
  all_goals first | rfl | (next h => subst h; rfl)

theorem SameForest.cframe {a b : State} (h : SameForest a b) : CFrame a b :=
  ⟨h.nscopes, h.parent, fun x hx => by rw [h.disp]; exact hx, fun x hx => by rw [h.children]; exact hx⟩

theorem tree_close (beh : Beh) (order : List Nat → List Nat) (hperm : ∀ l, (order l).Perm l) : ∀ fuel,
    (∀ (A N : Nat → Prop) (st : State) (s : Nat), TreeEx A N st → s < st.nscopes → (∀ c, N c → c ≤ s) →
      (st.nscopes - s) * (st.nscopes + 1) + 1 ≤ fuel →
      TreeEx A N (closeScope beh order fuel st s).1 ∧ CFrame st (closeScope beh order fuel st s).1 ∧
      (((closeScope beh order fuel st s).1).scope s).disposed = true) ∧
    (∀ (A N : Nat → Prop) (st : State) (l : List Nat) (m : Nat), TreeEx A N st → (∀ c ∈ l, m ≤ c ∧ c < st.nscopes) →
      (∀ c, N c → c ≤ m) →
      l.length + (st.nscopes - m) * (st.nscopes + 1) + 1 ≤ fuel →
      TreeEx A N (closeChildren beh order fuel st l).1 ∧ CFrame st (closeChildren beh order fuel st l).1 ∧
      ∀ c ∈ l, (((closeChildren beh order fuel st l).1).scope c).disposed = true) := by
  intro fuel
  induction fuel with
  | zero =>
    refine ⟨?_, ?_⟩
    · intro A N st s _ _ _ hf; omega
    · intro A N st l m _ _ _ hf; omega
  | succ f ih =>
    obtain ⟨ihS, ihC⟩ := ih
    refine ⟨?_, ?_⟩
    · intro A N st s t hs hN hf
      unfold closeScope
      split
      next hd => exact ⟨t, CFrame.refl st, hd⟩
      next hopen =>
        have hopen' : (st.scope s).disposed = false := by simpa using hopen
        simp only []
        obtain ⟨C, hC⟩ : ∃ C, (st.scope s).children = some C := Option.isSome_iff_exists.1 (t.openHas s hopen')
        have hK : (st.scope s).children.getD [] = C := by rw [hC]; rfl
        rw [hK]
        obtain ⟨hCnd, hCel⟩ := t.kids s C hC
        -- the kids, in the order the map is ranged over
        have hKmem : ∀ c, c ∈ order C ↔ c ∈ C := fun c => (hperm C).mem_iff
        have hKlen : (order C).length ≤ st.nscopes := by
          rw [(hperm C).length_eq]
          exact nodup_lt_length C st.nscopes hCnd (fun c hc => (hCel c hc).1)
        have t1 := tree_mark t s
        have fa : CFrame st (markDisposed st s) := by
          unfold markDisposed; exact cframe_upd st s _ (fun _ => rfl) (fun _ _ => rfl) (fun _ h => h)
        have fb : CFrame (markDisposed st s) (takeChildren (markDisposed st s) s) := by
          unfold takeChildren; exact cframe_upd _ s _ (fun _ => rfl) (fun _ h => h) (fun _ _ => rfl)
        have f1 : CFrame st (takeChildren (markDisposed st s) s) := fa.trans fb
        have hn1 : (takeChildren (markDisposed st s) s).nscopes = st.nscopes := rfl
        have hbound : (order C).length + ((takeChildren (markDisposed st s) s).nscopes - (s + 1)) *
            ((takeChildren (markDisposed st s) s).nscopes + 1) + 1 ≤ f := by
          rw [hn1]
          have := ar_step st.nscopes s hs
          omega
        obtain ⟨t2, f2, hall2⟩ := ihC (fun x => A x ∨ x = s) N (takeChildren (markDisposed st s) s) (order C) (s + 1) t1
          (by
            intro c hc
            have hcC := (hKmem c).1 hc
            obtain ⟨h1, h2, _⟩ := hCel c hcC
            exact ⟨t.older c s h1 h2, h1⟩) (fun c hc => Nat.le_succ_of_le (hN c hc)) hbound
        have hs1 : ((takeChildren (markDisposed st s) s).scope s).disposed = true := by
          simp [takeChildren, markDisposed, updScope]
        have hk1 : ((takeChildren (markDisposed st s) s).scope s).children = none := by
          simp [takeChildren, markDisposed, updScope]
        generalize closeChildren beh order f (takeChildren (markDisposed st s) s) (order C) = r1 at t2 f2 hall2
        have hs2 : (r1.1.scope s).disposed = true := f2.disp s hs1
        have hk2 : (r1.1.scope s).children = none := f2.kidsNone s hk1
        -- every scope whose parent is `s` is closed now
        have hall : ∀ c, c < r1.1.nscopes → (r1.1.scope c).parent = some s → (r1.1.scope c).disposed = true := by
          intro c hcn hcp
          rw [f2.nscopes, hn1] at hcn
          rw [f2.parent, f1.parent] at hcp
          by_cases hdc : (st.scope c).disposed = true
          · exact f2.disp c (f1.disp c hdc)
          · have hdc' : (st.scope c).disposed = false := by simpa using hdc
            rcases t.member c s C hcn hcp hdc' hC with hm | hNc
            · exact hall2 c ((hKmem c).2 hm)
            · have := t.older c s hcn hcp
              have := hN c hNc
              omega
        -- hand in the list, run the loop
        have sf3 := sameForest_takeDisposables r1.1 s
        have sf4 := sameForest_closeLoop beh s ((r1.1.scope s).disposables.getD []).reverse (takeDisposables r1.1 s)
        generalize closeLoop beh s (takeDisposables r1.1 s) ((r1.1.scope s).disposables.getD []).reverse = r2 at sf4
        have t4 : TreeEx (fun x => A x ∨ x = s) N r2.1 := (t2.congr sf3).congr sf4
        have f4 : CFrame r1.1 r2.1 := sf3.cframe.trans sf4.cframe
        have hs4 : (r2.1.scope s).disposed = true := f4.disp s hs2
        have hk4 : (r2.1.scope s).children = none := f4.kidsNone s hk2
        have hall4 : ∀ c, c < r2.1.nscopes → (r2.1.scope c).parent = some s → (r2.1.scope c).disposed = true := by
          intro c hcn hcp
          rw [f4.nscopes] at hcn; rw [f4.parent] at hcp
          exact f4.disp c (hall c hcn hcp)
        have t6 := tree_unmark s t4 hs4 hk4 hall4
        have f6 : CFrame r2.1 (dropInstances (detach r2.1 s) s) := by
          refine (cframe_detach r2.1 s).trans ?_
          unfold dropInstances
          exact cframe_upd _ s _ (fun _ => rfl) (fun _ h => h) (fun _ h => h)
        exact ⟨t6, ((f1.trans f2).trans f4).trans f6, f6.disp s hs4⟩
    · intro A N st l m t hl hN hf
      cases l with
      | nil => unfold closeChildren; exact ⟨t, CFrame.refl st, fun c hc => by cases hc⟩
      | cons c rest =>
        unfold closeChildren
        simp only []
        obtain ⟨hmc, hcn⟩ := hl c (List.mem_cons_self ..)
        have hb1 : (st.nscopes - c) * (st.nscopes + 1) + 1 ≤ f := by
          have := ar_mono st.nscopes m c hmc
          simp only [List.length_cons] at hf
          omega
        obtain ⟨t1, f1, hd1⟩ := ihS A N st c t hcn (fun x hx => Nat.le_trans (hN x hx) hmc) hb1
        generalize closeScope beh order f st c = r1 at t1 f1 hd1
        have hb2 : rest.length + (r1.1.nscopes - m) * (r1.1.nscopes + 1) + 1 ≤ f := by
          rw [f1.nscopes]
          simp only [List.length_cons] at hf
          omega
        obtain ⟨t2, f2, hd2⟩ := ihC A N r1.1 rest m t1
          (fun x hx => by rw [f1.nscopes]; exact hl x (List.mem_cons_of_mem _ hx)) hN hb2
        refine ⟨t2, f1.trans f2, ?_⟩
        intro x hx
        rcases List.mem_cons.1 hx with rfl | hx'
        · exact f2.disp x hd1
        · exact hd2 x hx'

/-! ### consequences at an operation boundary -/

/-- `x` is a proper descendant of `s` (through the `parent` links the scopes were created with) -/
inductive Below (st : State) (s : Nat) : Nat → Prop
  | child {x} : (st.scope x).parent = some s → Below st s x
  | step {x y} : (st.scope x).parent = some y → Below st s y → Below st s x

/-- CASCADE, whole subtree: in a forest state a closed scope has no open descendant -/
theorem closed_has_no_open_descendant {st : State} (t : Tree st) (s : Nat) (hs : (st.scope s).disposed = true)
    (x : Nat) (hx : x < st.nscopes) (hb : Below st s x) : (st.scope x).disposed = true := by
  induction hb with
  | @child x hp =>
    apply Classical.byContradiction
    intro hd
    have hd' : (st.scope x).disposed = false := by simpa using hd
    rcases t.up x s hx hp hd' with h | h
    · rw [hs] at h; cases h
    · exact h
  | @step x y hp _ ih =>
    apply Classical.byContradiction
    intro hd
    have hd' : (st.scope x).disposed = false := by simpa using hd
    have hy : y < st.nscopes := Nat.lt_trans (t.older x y hx hp) hx
    rcases t.up x y hx hp hd' with h | h
    · rw [ih hy] at h; cases h
    · exact h

/-- TABLES HOLD LIVE SCOPES ONLY: a closed scope is in nobody's table -/
theorem closed_scope_is_released {st : State} (t : Tree st) (s : Nat) (hs : (st.scope s).disposed = true) :
    (∀ l, st.provScopes = some l → s ∉ l) ∧ (∀ p C, (st.scope p).children = some C → s ∉ C) ∧
    (st.scope s).children = none ∧ (st.scope s).instances = none := by
  refine ⟨?_, ?_, (t.released s hs (fun h => h)).1, (t.released s hs (fun h => h)).2⟩
  · intro l hl hm
    rcases ((t.tbl l hl).2 s hm).2.2 with h | h
    · rw [hs] at h; cases h
    · exact h
  · intro p C hC hm
    rcases ((t.kids p C hC).2 s hm).2.2 with h | h
    · rw [hs] at h; cases h
    · exact h

/-- `Close` of a scope, with enough fuel, from a forest state: the forest invariant holds again, the scope
and every descendant are closed, and neither the provider nor any parent keeps one of them -/
theorem close_whole_subtree (beh : Beh) (order : List Nat → List Nat) (hperm : ∀ l, (order l).Perm l)
    (st : State) (t : Tree st) (s : Nat) (hs : s < st.nscopes) (fuel : Nat)
    (hf : (st.nscopes - s) * (st.nscopes + 1) + 1 ≤ fuel) :
    let st' := (closeScope beh order fuel st s).1
    Tree st' ∧ (st'.scope s).disposed = true ∧
    (∀ x, x < st.nscopes → Below st s x → (st'.scope x).disposed = true ∧
      (∀ l, st'.provScopes = some l → x ∉ l) ∧ (∀ p C, (st'.scope p).children = some C → x ∉ C)) := by
  obtain ⟨t', f', hd'⟩ := (tree_close beh order hperm fuel).1 (fun _ => False) (fun _ => False) st s t hs (fun _ h => h.elim) hf
  refine ⟨t', hd', ?_⟩
  intro x hx hb
  have hb' : Below (closeScope beh order fuel st s).1 s x := by
    clear hx
    induction hb with
    | child hp => exact .child (by rw [f'.parent]; exact hp)
    | step hp _ ih => exact .step (by rw [f'.parent]; exact hp) ih
  have hdx := closed_has_no_open_descendant t' s hd' x (by rw [f'.nscopes]; exact hx) hb'
  have := closed_scope_is_released t' x hdx
  exact ⟨hdx, this.1, this.2.1⟩

end Godi.Container
