import GodiProofs.Props.C05
import GodiModel.Build
/-! Decision logic of Build phases 1–3, characterised declaratively. -/
namespace Godi.Container
open Godi.Graph Godi.Spec

theorem addAllDeferred_base : ∀ (l : List (Nat × Nat × List Nat)) (g : Graph), Base g → Base (addAllDeferred g l) := by
  intro l
  induction l with
  | nil => intro g b; exact b
  | cons r rest ih =>
    intro g b
    obtain ⟨k, p, ds⟩ := r
    exact ih _ (addProviderDeferred_base g k p ds b)

theorem addAllDeferred_dirty : ∀ (l : List (Nat × Nat × List Nat)) (g : Graph), g.cycleDirty = true →
    (addAllDeferred g l).cycleDirty = true := by
  intro l
  induction l with
  | nil => intro g h; exact h
  | cons r rest ih =>
    intro g _
    obtain ⟨k, p, ds⟩ := r
    apply ih
    unfold Godi.Graph.addProviderDeferred; rfl

theorem buildGraph_base (descs : List Desc) : Base (buildGraph descs) :=
  addAllDeferred_base _ _ base_empty

/-- phase 2 answers "circular" exactly when the graph phase 1 built has a directed cycle -/
theorem cycle_phase_exact (descs : List Desc) :
    (detectCycles (buildGraph descs)).2 = .ok ↔ ¬ HasCycle (abs (buildGraph descs)) := by
  unfold detectCycles
  exact Godi.Props.C05.detectCycles_exact _ (buildGraph_base descs) (addAllDeferred_dirty _ _ rfl) _ _
    (List.Perm.refl _) (List.Perm.refl _)

/-- which registrations can satisfy a declared dependency -/
def Provides (descs : List Desc) (dep : Dep) (t : Desc) : Prop :=
  (dep.grp ≠ 0 ∧ t ∈ groupMembers descs dep.ty dep.grp) ∨
  (dep.grp = 0 ∧ findService descs dep.ty dep.key = some t)

theorem depScoped_iff (descs : List Desc) (dep : Dep) :
    depScoped descs dep = true ↔ ∃ t, Provides descs dep t ∧ t.life = .scoped := by
  unfold depScoped Provides
  by_cases hg : dep.grp = 0
  · simp only [hg, bne_self_eq_false, Bool.false_eq_true, ↓reduceIte, ne_eq, not_true_eq_false, false_and, true_and, false_or]
    cases hf : findService descs dep.ty dep.key with
    | none => simp
    | some t => simp
  · have : (dep.grp != 0) = true := by simp [hg]
    simp only [this, ↓reduceIte, List.any_eq_true, beq_iff_eq, ne_eq, hg, not_false_eq_true, true_and, false_and, or_false]

theorem lifetimeConflict_iff (descs : List Desc) :
    lifetimeConflict descs = true ↔
      ∃ d ∈ descs, d.life ≠ .scoped ∧ ∃ dep ∈ d.deps, ∃ t, Provides descs dep t ∧ t.life = .scoped := by
  unfold lifetimeConflict
  simp only [List.any_eq_true, Bool.and_eq_true, bne_iff_ne, ne_eq, depScoped_iff]

theorem missingDependency_iff (descs : List Desc) :
    missingDependency descs = true ↔
      ∃ d ∈ descs, ∃ dep ∈ d.deps, dep.optional = false ∧ dep.grp = 0 ∧ isBuiltin dep = false ∧
        findService descs dep.ty dep.key = none := by
  unfold missingDependency depMissing
  simp only [List.any_eq_true, Bool.and_eq_true, Bool.not_eq_eq_eq_not, Bool.not_true, beq_iff_eq,
    Option.isNone_iff_eq_none, and_assoc]

end Godi.Container
