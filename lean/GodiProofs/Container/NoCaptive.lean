import GodiProofs.Container.History
import GodiProofs.Container.Verdict
import GodiProofs.Container.BuildOnce
import GodiProofs.Container.Instances
import GodiProofs.Container.Ledger
import GodiProofs.Container.BuildLedger
/-!
# No captive dependencies, as a property of what constructors actually receive (C07)

`instMeta` records, for every instance id handed out, the constructor that produced it. An instance is
*clean* when that constructor does not belong to a scoped registration. The invariant `NC` says that
the singleton table holds clean values only and that every constructor event of a long-lived
(singleton or transient) registration lists clean arguments only — directly, through groups, keys,
aliases or parameter objects alike, because all of them go through `buildArgs`. It is preserved by
every resolution when validation has accepted the registry (`Accepted`: whatever provides a dependency
of a long-lived registration is itself long-lived); the indirect form ("through other singletons and
transients") is the same statement about the events of those other registrations.
-/
namespace Godi.Container

/-- `c` is not the constructor of a scoped registration -/
def LongCtor (descs : List Desc) (c : Nat) : Prop := ∀ d ∈ descs, d.ctor = c → d.life ≠ .scoped

def CleanInst (descs : List Desc) (st : State) (i : Inst) : Prop := LongCtor descs (st.instMeta i).1

def CleanVal (descs : List Desc) (st : State) : Val → Prop
  | .inst i => CleanInst descs st i
  | .group l => ∀ i ∈ l, CleanInst descs st i
  | _ => True

/-- every instance id in the value has been handed out already -/
def BelowVal (st : State) : Val → Prop
  | .inst i => i < st.next
  | .group l => ∀ i ∈ l, i < st.next
  | _ => True

/-- the descriptor with this id is a singleton or transient registration -/
def LongDesc (descs : List Desc) (id : Nat) : Prop := ∀ x, findDesc descs id = some x → x.life ≠ .scoped

/-- a constructor event of a long-lived registration lists clean arguments only -/
def EventOK (descs : List Desc) (st : State) : Event → Prop
  | .ctor d _ _ _ args _ => (∀ a ∈ args, BelowVal st a) ∧ (LongDesc descs d → ∀ a ∈ args, CleanVal descs st a)
  | _ => True

structure NC (descs : List Desc) (st : State) : Prop where
  descsEq : st.descs = descs
  tbl : ∀ k v, lookup st.singletons k = some v → CleanVal descs st v ∧ BelowVal st v
  evs : ∀ e ∈ st.log, EventOK descs st e
  cache : ∀ s k v, lookup ((st.scope s).instances.getD []) k = some v → BelowVal st v

/-- validation accepted the registry: what provides a dependency of a long-lived registration is long-lived -/
def Accepted (descs : List Desc) : Prop :=
  ∀ d ∈ descs, d.life ≠ .scoped → ∀ dep ∈ d.deps, ∀ t, Provides descs dep t → t.life ≠ .scoped

/-! ### stability: later steps do not rewrite who produced an existing instance -/

theorem belowVal_mono {st st' : State} (hn : st.next ≤ st'.next) {v : Val} (hb : BelowVal st v) : BelowVal st' v := by
  cases v with
  | inst i => exact Nat.lt_of_lt_of_le hb hn
  | group l => exact fun i hi => Nat.lt_of_lt_of_le (hb i hi) hn
  | _ => trivial

theorem cleanVal_stable {descs : List Desc} {st st' : State}
    (hm : ∀ i, i < st.next → st'.instMeta i = st.instMeta i) {v : Val} (hb : BelowVal st v)
    (hc : CleanVal descs st v) : CleanVal descs st' v := by
  cases v with
  | inst i =>
    show LongCtor descs (st'.instMeta i).1
    have hb' : i < st.next := hb
    have hc' : LongCtor descs (st.instMeta i).1 := hc
    rw [hm i hb']; exact hc'
  | group l =>
    intro i hi
    show LongCtor descs (st'.instMeta i).1
    have hb' : i < st.next := hb i hi
    have hc' : LongCtor descs (st.instMeta i).1 := hc i hi
    rw [hm i hb']; exact hc'
  | _ => trivial

theorem eventOK_stable {descs : List Desc} {st st' : State} (hn : st.next ≤ st'.next)
    (hm : ∀ i, i < st.next → st'.instMeta i = st.instMeta i) {e : Event} (h : EventOK descs st e) :
    EventOK descs st' e := by
  cases e with
  | ctor d c inv s args outs =>
    obtain ⟨hb, hc⟩ := h
    exact ⟨fun a ha => belowVal_mono hn (hb a ha), fun hl a ha => cleanVal_stable hm (hb a ha) (hc hl a ha)⟩
  | _ => trivial

/-- transport of the invariant along a step that keeps the table and the caches and only appends
acceptable events -/
theorem NC.step {descs : List Desc} {st st' : State} (nc : NC descs st) (hd : st'.descs = st.descs)
    (hs : st'.singletons = st.singletons) (hn : st.next ≤ st'.next)
    (hm : ∀ i, i < st.next → st'.instMeta i = st.instMeta i)
    (hl : ∃ new, st'.log = st.log ++ new ∧ ∀ e ∈ new, EventOK descs st' e)
    (hi : ∀ s, (st'.scope s).instances = (st.scope s).instances) : NC descs st' := by
  obtain ⟨new, hlog, hnew⟩ := hl
  refine ⟨hd.trans nc.descsEq, ?_, ?_, ?_⟩
  · intro k v hv
    rw [hs] at hv
    obtain ⟨c, b⟩ := nc.tbl k v hv
    exact ⟨cleanVal_stable hm b c, belowVal_mono hn b⟩
  · intro e he
    rw [hlog] at he
    rcases List.mem_append.1 he with h | h
    · exact eventOK_stable hn hm (nc.evs e h)
    · exact hnew e h
  · intro s k v hv
    rw [hi s] at hv
    exact belowVal_mono hn (nc.cache s k v hv)

/-- steps that touch neither the table, the caches, the log, the counter nor `instMeta` -/
theorem NC.same {descs : List Desc} {st st' : State} (nc : NC descs st) (hd : st'.descs = st.descs)
    (hs : st'.singletons = st.singletons) (hn : st'.next = st.next) (hm : st'.instMeta = st.instMeta)
    (hl : st'.log = st.log) (hi : ∀ s, (st'.scope s).instances = (st.scope s).instances) : NC descs st' :=
  nc.step hd hs (Nat.le_of_eq hn.symm) (fun i _ => by rw [hm]) ⟨[], by rw [hl]; simp, by simp⟩ hi

theorem nc_updScope {descs : List Desc} {st : State} (nc : NC descs st) (s : Nat) (f : ScopeSt → ScopeSt)
    (hf : ∀ sc, (f sc).instances = sc.instances) : NC descs (updScope st s f) :=
  nc.same rfl rfl rfl rfl rfl (fun x => by
    by_cases hx : x = s
    · subst hx; simp [updScope, hf]
    · simp [updScope, hx])

theorem nc_logClosed {descs : List Desc} {st : State} (nc : NC descs st) (o : Nat) (i : Inst) (ok : Bool) :
    NC descs (logClosed st o i ok) :=
  nc.step rfl rfl (Nat.le_refl _) (fun _ _ => rfl) ⟨[_], rfl, by intro e he; simp at he; subst he; trivial⟩ (fun _ => rfl)

theorem nc_track {descs : List Desc} {st : State} (nc : NC descs st) (s : Nat) (v : Val) (disp : Bool) :
    NC descs (track st s v disp).1 := by
  unfold track
  split
  · split
    · split
      · exact nc_logClosed nc _ _ _
      · exact nc
    · split
      next i _ _ => exact nc_updScope nc s (fun sc => { sc with disposables := some ((sc.disposables.getD []) ++ [i]) }) (fun _ => rfl)
      · exact nc
  · split <;> exact nc

theorem nc_putInstance {descs : List Desc} {st : State} (nc : NC descs st) (s : Nat) (k : Ident) (v : Val)
    (hb : BelowVal st v) : NC descs (putInstance st s k v) := by
  refine ⟨nc.descsEq, nc.tbl, nc.evs, ?_⟩
  intro x k' v' hv
  unfold putInstance updScope at hv
  by_cases hx : x = s
  · subst hx
    simp only [↓reduceIte] at hv
    cases hm : (st.scope x).instances with
    | none => rw [hm] at hv; simp [lookup] at hv
    | some m =>
      rw [hm] at hv
      simp only [Option.map_some, Option.getD_some] at hv
      by_cases hk : k' = k
      · subst hk; rw [lookup_put_self] at hv; injection hv with hv; subst hv; exact hb
      · rw [lookup_put_ne m k k' v hk] at hv
        exact nc.cache x k' v' (by rw [hm]; exact hv)
  · simp only [hx, ↓reduceIte] at hv
    exact nc.cache x k' v' hv

theorem nc_setInstance {descs : List Desc} {st : State} (nc : NC descs st) (s : Nat) (d : Desc) (k : Ident) (v : Val)
    (hl : d.life ≠ .singleton) (hb : BelowVal st v) : NC descs (setInstance st s d k v).1 := by
  unfold setInstance
  split
  · contradiction
  · exact nc_track (nc_putInstance nc s k v hb) s v d.disp
  · exact nc_track nc s v d.disp

theorem nc_shareInstance {descs : List Desc} {st : State} (nc : NC descs st) (s : Nat) (d : Desc) (k : Ident) (v : Val)
    (hl : d.life ≠ .singleton) (hb : BelowVal st v) : NC descs (shareInstance st s d k v) := by
  unfold shareInstance
  split
  · contradiction
  · exact nc_putInstance nc s k v hb
  · exact nc

theorem nc_shareAll {descs : List Desc} (s self : Nat) (v : Val) : ∀ (sibs : List Desc) (st : State), NC descs st →
    (∀ d ∈ sibs, d.life ≠ .singleton) → BelowVal st v → NC descs (shareAll st s self sibs v) := by
  intro sibs
  induction sibs with
  | nil => intro st nc _ _; exact nc
  | cons d ds ih =>
    intro st nc h hb
    unfold shareAll
    simp only [List.foldl_cons]
    have hrest := fun st' nc' hb' => ih st' nc' (fun x hx => h x (List.mem_cons_of_mem _ hx)) hb'
    unfold shareAll at hrest
    split
    · exact hrest st nc hb
    · refine hrest _ (nc_shareInstance nc s d d.ident v (h d (by simp)) hb) ?_
      have : (shareInstance st s d d.ident v).next = st.next := by unfold shareInstance; split <;> rfl
      cases v <;> simp only [BelowVal, this] at hb ⊢ <;> exact hb

theorem track_next (st : State) (s : Nat) (v : Val) (disp : Bool) : (track st s v disp).1.next = st.next := by
  unfold track
  split
  · split
    · split <;> rfl
    · split <;> rfl
  · split <;> rfl

theorem setInstance_next (st : State) (s : Nat) (d : Desc) (k : Ident) (v : Val) (hl : d.life ≠ .singleton) :
    (setInstance st s d k v).1.next = st.next := by
  unfold setInstance
  split
  · contradiction
  · rw [track_next]; rfl
  · rw [track_next]

theorem nc_storeOuts {descs : List Desc} (s : Nat) : ∀ (sibs : List Desc) (outs : List Inst) (st : State), NC descs st →
    (∀ d ∈ sibs, d.life ≠ .singleton) → (∀ o ∈ outs, o < st.next) → NC descs (storeOuts st s sibs outs).1 := by
  intro sibs
  induction sibs with
  | nil => intro outs st nc _ _; unfold storeOuts; exact nc
  | cons d ds ih =>
    intro outs st nc h hb
    cases outs with
    | nil => unfold storeOuts; exact nc
    | cons o os =>
      unfold storeOuts
      refine ih os _ (nc_setInstance nc s d d.ident (.inst o) (h d (by simp)) (hb o (by simp)))
        (fun x hx => h x (List.mem_cons_of_mem _ hx)) ?_
      intro o' ho'
      rw [setInstance_next st s d d.ident _ (h d (by simp))]
      exact hb o' (List.mem_cons_of_mem _ ho')

theorem nc_markAbsent {descs : List Desc} {st : State} (nc : NC descs st) (s : Nat) (sibs0 : List Desc) (nil? : Option Nat)
    (h : ∀ d ∈ sibs0, d.life ≠ .singleton) : NC descs (markAbsent st s sibs0 nil?) := by
  unfold markAbsent
  split
  · split
    next dk hk => exact nc_shareInstance nc s dk dk.ident .absent (h dk (List.mem_of_getElem? hk)) trivial
    · exact nc
  · exact nc

theorem nc_bumpInv {descs : List Desc} {st : State} (nc : NC descs st) (c : Nat) : NC descs (bumpInv st c) :=
  nc.same rfl rfl rfl rfl rfl (fun _ => rfl)

theorem nc_logFail {descs : List Desc} {st : State} (nc : NC descs st) (d c n s : Nat) (how : Outcome) :
    NC descs (logEv st (.ctorFail d c n s how)) :=
  nc.step rfl rfl (Nat.le_refl _) (fun _ _ => rfl) ⟨[_], rfl, by intro e he; simp at he; subst he; trivial⟩ (fun _ => rfl)

/-- allocating `k` ids for an invocation of `c` and logging the event with the arguments it received -/
theorem nc_alloc_log {descs : List Desc} {st : State} (nc : NC descs st) (k c n d s : Nat) (args : List Val) (outs : List Inst)
    (hb : ∀ a ∈ args, BelowVal st a) (hc : LongDesc descs d → ∀ a ∈ args, CleanVal descs st a) :
    NC descs (logEv (alloc st k c n) (.ctor d c n s args outs)) := by
  have hm : ∀ i, i < st.next → (logEv (alloc st k c n) (.ctor d c n s args outs)).instMeta i = st.instMeta i := by
    intro i hi
    show (if st.next ≤ i ∧ i < st.next + k then (c, n) else st.instMeta i) = st.instMeta i
    rw [if_neg]; exact fun h => Nat.lt_irrefl _ (Nat.lt_of_lt_of_le hi h.1)
  have hn : st.next ≤ (logEv (alloc st k c n) (.ctor d c n s args outs)).next := Nat.le_add_right _ _
  refine nc.step rfl rfl hn hm ⟨[_], rfl, ?_⟩ (fun _ => rfl)
  intro e he
  simp only [List.mem_singleton] at he
  subst he
  exact ⟨fun a ha => belowVal_mono hn (hb a ha), fun hl a ha => cleanVal_stable hm (hb a ha) (hc hl a ha)⟩

theorem nc_logCtor {descs : List Desc} {st : State} (nc : NC descs st) (c n d s : Nat) (args : List Val) (outs : List Inst)
    (hb : ∀ a ∈ args, BelowVal st a) (hc : LongDesc descs d → ∀ a ∈ args, CleanVal descs st a) :
    NC descs (logEv st (.ctor d c n s args outs)) := by
  refine nc.step rfl rfl (Nat.le_refl _) (fun _ _ => rfl) ⟨[_], rfl, ?_⟩ (fun _ => rfl)
  intro e he
  simp only [List.mem_singleton] at he
  subst he
  exact ⟨hb, hc⟩

theorem instMeta_alloc_log (st : State) (k c n d s : Nat) (args : List Val) (outs : List Inst) (i : Inst)
    (h1 : st.next ≤ i) (h2 : i < st.next + k) :
    (logEv (alloc st k c n) (.ctor d c n s args outs)).instMeta i = (c, n) := by
  show (if st.next ≤ i ∧ i < st.next + k then (c, n) else st.instMeta i) = (c, n)
  rw [if_pos ⟨h1, h2⟩]

end Godi.Container

namespace Godi.Container

/-- neither the producer table nor the counter changes -/
def MetaSame (st st' : State) : Prop := st'.instMeta = st.instMeta ∧ st'.next = st.next

theorem MetaSame.refl (st : State) : MetaSame st st := ⟨rfl, rfl⟩
theorem MetaSame.trans {a b c : State} (h1 : MetaSame a b) (h2 : MetaSame b c) : MetaSame a c :=
  ⟨h2.1.trans h1.1, h2.2.trans h1.2⟩

theorem track_metaSame (st : State) (s : Nat) (v : Val) (disp : Bool) : MetaSame st (track st s v disp).1 := by
  unfold track
  split
  · split
    · split <;> exact ⟨rfl, rfl⟩
    · split <;> exact ⟨rfl, rfl⟩
  · split <;> exact ⟨rfl, rfl⟩

theorem setInstance_metaSame (st : State) (s : Nat) (d : Desc) (k : Ident) (v : Val) (hl : d.life ≠ .singleton) :
    MetaSame st (setInstance st s d k v).1 := by
  unfold setInstance
  split
  · contradiction
  · exact MetaSame.trans (a := st) (b := putInstance st s k v) ⟨rfl, rfl⟩ (track_metaSame _ s v d.disp)
  · exact track_metaSame st s v d.disp

theorem shareInstance_metaSame (st : State) (s : Nat) (d : Desc) (k : Ident) (v : Val) :
    MetaSame st (shareInstance st s d k v) := by
  unfold shareInstance; split <;> exact ⟨rfl, rfl⟩

theorem shareAll_metaSame (s self : Nat) (v : Val) : ∀ (sibs : List Desc) (st : State), MetaSame st (shareAll st s self sibs v) := by
  intro sibs
  induction sibs with
  | nil => intro st; exact MetaSame.refl st
  | cons d ds ih =>
    intro st
    unfold shareAll
    simp only [List.foldl_cons]
    have hrest := fun st' => ih st'
    unfold shareAll at hrest
    split
    · exact hrest st
    · exact (shareInstance_metaSame st s d d.ident v).trans (hrest _)

theorem storeOuts_metaSame (s : Nat) : ∀ (sibs : List Desc) (outs : List Inst) (st : State),
    (∀ d ∈ sibs, d.life ≠ .singleton) → MetaSame st (storeOuts st s sibs outs).1 := by
  intro sibs
  induction sibs with
  | nil => intro outs st _; unfold storeOuts; exact MetaSame.refl st
  | cons d ds ih =>
    intro outs st h
    cases outs with
    | nil => unfold storeOuts; exact MetaSame.refl st
    | cons o os =>
      unfold storeOuts
      exact (setInstance_metaSame st s d d.ident _ (h d (by simp))).trans (ih os _ (fun x hx => h x (List.mem_cons_of_mem _ hx)))

theorem markAbsent_metaSame (st : State) (s : Nat) (sibs0 : List Desc) (nil? : Option Nat) :
    MetaSame st (markAbsent st s sibs0 nil?) := by
  unfold markAbsent
  split
  · split
    · exact shareInstance_metaSame st s _ _ _
    · exact MetaSame.refl st
  · exact MetaSame.refl st

theorem okOr_eq_ok {α} {r : Except Err Unit} {v v' : α} (h : okOr r v = .ok v') : v' = v := by
  cases r with
  | ok u => simp [okOr] at h; exact h.symm
  | error e => simp [okOr] at h

structure NCfg (descs : List Desc) : Prop where
  wf : WF descs
  reg : RegWF descs
  inst : InstSingleton descs
  acc : Accepted descs

/-- all descriptors of a long-lived registration share a constructor that no scoped registration uses -/
theorem longCtor_of {descs : List Desc} (cfg : NCfg descs) (d : Desc) (hd : d ∈ descs) (hl : d.life ≠ .scoped) :
    LongCtor descs d.ctor := by
  intro d' hd' hc
  rcases cfg.reg.sameCtor d hd d' hd' hc with h | h
  · subst h; exact hl
  · rw [cfg.wf.sibLife d hd d'.id h d' (cfg.wf.uniqueIds d' hd')]; exact hl

theorem idxOf_lt_of_contains {l : List Nat} {x : Nat} (h : l.contains x = true) : l.idxOf x < l.length := by
  apply List.idxOf_lt_length_of_mem
  simpa using h

/-- what one resolution step returns: an id that has been handed out, clean when the registration
that answered is long-lived -/
def ValOK (descs : List Desc) (st' : State) (long : Prop) (r : Except Err Val) : Prop :=
  ∀ v, r = .ok v → BelowVal st' v ∧ (long → CleanVal descs st' v)

/-- THE NO-CAPTIVE FRAME, by induction on fuel over the six mutually recursive functions -/
theorem nc_frame (beh : Beh) (descs : List Desc) (cfg : NCfg descs) : ∀ fuel,
    (∀ st s ty key, NC descs st →
      NC descs (resolve beh fuel st s ty key).1 ∧
      ValOK descs (resolve beh fuel st s ty key).1 (∀ t, findService descs ty key = some t → t.life ≠ .scoped)
        (resolve beh fuel st s ty key).2) ∧
    (∀ st s d, NC descs st → d ∈ descs →
      NC descs (resolveDesc beh fuel st s d).1 ∧
      ValOK descs (resolveDesc beh fuel st s d).1 (d.life ≠ .scoped) (resolveDesc beh fuel st s d).2) ∧
    (∀ st s ty grp, NC descs st →
      NC descs (getGroup beh fuel st s ty grp).1 ∧
      ValOK descs (getGroup beh fuel st s ty grp).1 (∀ m ∈ groupMembers descs ty grp, m.life ≠ .scoped)
        (getGroup beh fuel st s ty grp).2) ∧
    (∀ st s ds acc, NC descs st → (∀ d ∈ ds, d ∈ descs) → (∀ i ∈ acc, i < st.next) →
      NC descs (resolveMembers beh fuel st s ds acc).1 ∧
      ValOK descs (resolveMembers beh fuel st s ds acc).1
        ((∀ m ∈ ds, m.life ≠ .scoped) ∧ ∀ i ∈ acc, CleanInst descs st i) (resolveMembers beh fuel st s ds acc).2) ∧
    (∀ st s deps acc, NC descs st → (∀ a ∈ acc, BelowVal st a) →
      NC descs (buildArgs beh fuel st s deps acc).1 ∧
      ∀ args, (buildArgs beh fuel st s deps acc).2 = .ok args →
        (∀ a ∈ args, BelowVal (buildArgs beh fuel st s deps acc).1 a) ∧
        ((∀ dep ∈ deps, ∀ t, Provides descs dep t → t.life ≠ .scoped) → (∀ a ∈ acc, CleanVal descs st a) →
          ∀ a ∈ args, CleanVal descs (buildArgs beh fuel st s deps acc).1 a)) ∧
    (∀ st s d, NC descs st → d ∈ descs → d.life ≠ .singleton →
      NC descs (createInstance beh fuel st s d).1 ∧
      ValOK descs (createInstance beh fuel st s d).1 (d.life ≠ .scoped) (createInstance beh fuel st s d).2) := by
  intro fuel
  induction fuel with
  | zero =>
    refine ⟨?_, ?_, ?_, ?_, ?_, ?_⟩ <;> intros <;>
      simp only [resolve, resolveDesc, getGroup, resolveMembers, buildArgs, createInstance] <;>
      first
        | exact ⟨by assumption, fun v hv => by cases hv⟩
        | exact ⟨by assumption, fun args hv => by cases hv⟩
  | succ f ih =>
    obtain ⟨ihR, ihD, ihG, ihM, ihA, ihC⟩ := ih
    refine ⟨?_, ?_, ?_, ?_, ?_, ?_⟩
    · -- resolve
      intro st s ty key nc
      have hde := nc.descsEq
      unfold resolve
      split; · exact ⟨nc, fun v hv => by cases hv⟩
      split; · exact ⟨nc, fun v hv => by injection hv with hv; subst hv; exact ⟨trivial, fun _ => trivial⟩⟩
      split; · exact ⟨nc, fun v hv => by injection hv with hv; subst hv; exact ⟨trivial, fun _ => trivial⟩⟩
      split; · exact ⟨nc, fun v hv => by injection hv with hv; subst hv; exact ⟨trivial, fun _ => trivial⟩⟩
      split
      · exact ⟨nc, fun v hv => by cases hv⟩
      next d hd =>
        rw [hde] at hd
        obtain ⟨n1, v1⟩ := ihD st s d nc (findService_mem hd)
        exact ⟨n1, fun v hv => ⟨(v1 v hv).1, fun hl => (v1 v hv).2 (hl d hd)⟩⟩
    · -- resolveDesc
      intro st s d nc hd
      unfold resolveDesc
      split
      · split
        · exact ⟨nc, fun v hv => by cases hv⟩
        next v _ hlk =>
          refine ⟨nc, fun v' hv => ?_⟩
          injection hv with hv; subst hv
          exact ⟨(nc.tbl _ _ hlk).2, fun _ => (nc.tbl _ _ hlk).1⟩
        · exact ⟨nc, fun v hv => by cases hv⟩
      next hl =>
        split
        · exact ⟨nc, fun v hv => by cases hv⟩
        next v _ hlk =>
          refine ⟨nc, fun v' hv => ?_⟩
          injection hv with hv; subst hv
          exact ⟨nc.cache s _ _ hlk, fun h => absurd hl h⟩
        · exact ihC st s d nc hd (by rw [hl]; simp)
      next hl => exact ihC st s d nc hd (by rw [hl]; simp)
    · -- getGroup
      intro st s ty grp nc
      unfold getGroup
      split; · exact ⟨nc, fun v hv => by cases hv⟩
      rw [nc.descsEq]
      obtain ⟨n1, v1⟩ := ihM st s (groupMembers descs ty grp) [] nc (fun d hd => groupMembers_mem hd) (by simp)
      exact ⟨n1, fun v hv => ⟨(v1 v hv).1, fun hl => (v1 v hv).2 ⟨hl, by simp⟩⟩⟩
    · -- resolveMembers
      intro st s ds acc nc hds hacc
      cases ds with
      | nil =>
        unfold resolveMembers
        refine ⟨nc, fun v hv => ?_⟩
        injection hv with hv; subst hv
        exact ⟨hacc, fun h => h.2⟩
      | cons d rest =>
        unfold resolveMembers
        obtain ⟨n1, v1⟩ := ihD st s d nc (hds d (by simp))
        have e1 := (frame beh f).2.1 st s d (by rw [nc.descsEq]; exact cfg.wf) (by rw [nc.descsEq]; exact hds d (by simp))
        have hrest : ∀ x ∈ rest, x ∈ descs := fun x hx => hds x (List.mem_cons_of_mem _ hx)
        have hacc1 : ∀ i ∈ acc, i < (resolveDesc beh f st s d).1.next := fun i hi => Nat.lt_of_lt_of_le (hacc i hi) e1.next
        have hclean1 : ∀ i ∈ acc, CleanInst descs st i → CleanInst descs (resolveDesc beh f st s d).1 i := by
          intro i hi hc
          unfold CleanInst at *
          rw [e1.metaStable i (hacc i hi)]; exact hc
        simp only []
        split
        next i hok =>
          have hv := v1 _ hok
          obtain ⟨n2, v2⟩ := ihM _ s rest (acc ++ [i]) n1 hrest (by
            intro j hj
            rcases List.mem_append.1 hj with h | h
            · exact hacc1 j h
            · simp at h; subst h; exact hv.1)
          refine ⟨n2, fun v hv' => ⟨(v2 v hv').1, fun hl => (v2 v hv').2 ⟨fun m hm => hl.1 m (List.mem_cons_of_mem _ hm), ?_⟩⟩⟩
          intro j hj
          rcases List.mem_append.1 hj with h | h
          · exact hclean1 j h (hl.2 j h)
          · simp at h; subst h; exact hv.2 (hl.1 d (by simp))
        next =>
          obtain ⟨n2, v2⟩ := ihM _ s rest acc n1 hrest hacc1
          exact ⟨n2, fun v hv' => ⟨(v2 v hv').1, fun hl => (v2 v hv').2
            ⟨fun m hm => hl.1 m (List.mem_cons_of_mem _ hm), fun j hj => hclean1 j hj (hl.2 j hj)⟩⟩⟩
        · exact ⟨n1, fun v hv => by cases hv⟩
    · -- buildArgs
      intro st s deps acc nc hacc
      cases deps with
      | nil =>
        unfold buildArgs
        refine ⟨nc, fun args hv => ?_⟩
        injection hv with hv; subst hv
        exact ⟨hacc, fun _ hc => hc⟩
      | cons dep rest =>
        unfold buildArgs
        simp only []
        generalize hr : (if dep.grp != 0 then getGroup beh f st s dep.ty dep.grp
            else resolve beh f st s dep.ty dep.key) = r
        have h1 : NC descs r.1 ∧ Ext st r.1 s ∧
            ValOK descs r.1 (∀ t, Provides descs dep t → t.life ≠ .scoped) r.2 := by
          rw [← hr]
          have wf' : WF st.descs := by rw [nc.descsEq]; exact cfg.wf
          split
          next hg =>
            have hg' : dep.grp ≠ 0 := by simpa using hg
            obtain ⟨n1, v1⟩ := ihG st s dep.ty dep.grp nc
            exact ⟨n1, (frame beh f).2.2.1 st s _ _ wf', fun v hv => ⟨(v1 v hv).1, fun hl => (v1 v hv).2
              (fun m hm => hl m (Or.inl ⟨hg', hm⟩))⟩⟩
          next hg =>
            have hg' : dep.grp = 0 := by simpa using hg
            obtain ⟨n1, v1⟩ := ihR st s dep.ty dep.key nc
            exact ⟨n1, (frame beh f).1 st s _ _ wf', fun v hv => ⟨(v1 v hv).1, fun hl => (v1 v hv).2
              (fun t ht => hl t (Or.inr ⟨hg', ht⟩))⟩⟩
        obtain ⟨n1, e1, v1⟩ := h1
        have hacc1 : ∀ a ∈ acc, BelowVal r.1 a := fun a ha => belowVal_mono e1.next (hacc a ha)
        have hclean1 : ∀ a ∈ acc, CleanVal descs st a → CleanVal descs r.1 a :=
          fun a ha hc => cleanVal_stable e1.metaStable (hacc a ha) hc
        split
        next v hok =>
          have hv := v1 v hok
          obtain ⟨n2, a2⟩ := ihA r.1 s rest (acc ++ [v]) n1 (by
            intro a ha
            rcases List.mem_append.1 ha with h | h
            · exact hacc1 a h
            · simp at h; subst h; exact hv.1)
          refine ⟨n2, fun args hargs => ⟨(a2 args hargs).1, fun hl hc => (a2 args hargs).2
            (fun dep' hd' => hl dep' (List.mem_cons_of_mem _ hd')) ?_⟩⟩
          intro a ha
          rcases List.mem_append.1 ha with h | h
          · exact hclean1 a h (hc a h)
          · simp at h; subst h; exact hv.2 (hl dep (by simp))
        next e hok =>
          split
          · obtain ⟨n2, a2⟩ := ihA r.1 s rest (acc ++ [.zero]) n1 (by
              intro a ha
              rcases List.mem_append.1 ha with h | h
              · exact hacc1 a h
              · simp at h; subst h; trivial)
            refine ⟨n2, fun args hargs => ⟨(a2 args hargs).1, fun hl hc => (a2 args hargs).2
              (fun dep' hd' => hl dep' (List.mem_cons_of_mem _ hd')) ?_⟩⟩
            intro a ha
            rcases List.mem_append.1 ha with h | h
            · exact hclean1 a h (hc a h)
            · simp at h; subst h; trivial
          · exact ⟨n1, fun args hv => by cases hv⟩
    · -- createInstance
      intro st s d nc hd hl
      have hde := nc.descsEq
      have wf' : WF st.descs := by rw [hde]; exact cfg.wf
      unfold createInstance
      split
      next v hk => exact absurd (cfg.inst d hd v hk) hl
      next hk =>
        simp only []
        obtain ⟨nA, aA⟩ := ihA st s d.deps [] nc (by simp)
        have eA := (frame beh f).2.2.2.2.1 st s d.deps [] wf'
        generalize buildArgs beh f st s d.deps [] = ra at nA aA eA
        split
        · exact ⟨nA, fun v hv => by cases hv⟩
        next args hargs =>
          obtain ⟨hbelow, hclean⟩ := aA args hargs
          have hcl : LongDesc descs d.id → ∀ a ∈ args, CleanVal descs ra.1 a := by
            intro hlong
            have hls : d.life ≠ .scoped := hlong d (cfg.wf.uniqueIds d hd)
            exact hclean (fun dep hdep t ht => cfg.acc d hd hls dep hdep t ht) (by simp)
          have n2 := nc_bumpInv nA d.ctor
          have hd2 : (bumpInv ra.1 d.ctor).descs = descs := nA.descsEq
          have hsibs : ∀ sd ∈ d.sibs.filterMap (findDesc (bumpInv ra.1 d.ctor).descs), sd.life ≠ .singleton := by
            intro sd hsd
            obtain ⟨sid, hsid, hf⟩ := List.mem_filterMap.1 hsd
            rw [hd2] at hf
            rw [cfg.wf.sibLife d hd sid hsid sd hf]; exact hl
          have hlc : d.life ≠ .scoped → LongCtor descs d.ctor := longCtor_of cfg d hd
          split
          · exact ⟨nc_logFail n2 _ _ _ _ _, fun v hv => by cases hv⟩
          · exact ⟨nc_logFail n2 _ _ _ _ _, fun v hv => by cases hv⟩
          · exact ⟨nc_logFail n2 _ _ _ _ _, fun v hv => by cases hv⟩
          · split
            · -- void
              have n3' := nc_logCtor n2 d.ctor ((bumpInv ra.1 d.ctor).invs d.ctor) d.id s args [] hbelow hcl
              refine ⟨nc_setInstance n3' s d d.ident .unit hl trivial, fun v hv => ?_⟩
              have : v = .unit := by
                cases hs : (setInstance (logEv (bumpInv ra.1 d.ctor) (.ctor d.id d.ctor ((bumpInv ra.1 d.ctor).invs d.ctor) s args [])) s d d.ident .unit).2 with
                | ok u => rw [hs] at hv; simp [okOr] at hv; exact hv.symm
                | error e => rw [hs] at hv; simp [okOr] at hv
              subst this; exact ⟨trivial, fun _ => trivial⟩
            · -- multi
              have h0 : ∀ sd ∈ (if (d.sibs.filterMap (findDesc (bumpInv ra.1 d.ctor).descs)).isEmpty then [d]
                  else d.sibs.filterMap (findDesc (bumpInv ra.1 d.ctor).descs)), sd.life ≠ .singleton := by
                split
                · intro sd hsd; simp at hsd; subst hsd; exact hl
                · exact hsibs
              have hmulti : ∀ (sibs' sibs0 : List Desc) (nil? : Option Nat), (∀ sd ∈ sibs', sd.life ≠ .singleton) →
                  (∀ sd ∈ sibs0, sd.life ≠ .singleton) →
                  NC descs (markAbsent (storeOuts
                    (logEv (alloc (bumpInv ra.1 d.ctor) sibs'.length d.ctor ((bumpInv ra.1 d.ctor).invs d.ctor))
                      (.ctor d.id d.ctor ((bumpInv ra.1 d.ctor).invs d.ctor) s args
                        (allocOuts (bumpInv ra.1 d.ctor).next sibs'.length)))
                    s sibs' (allocOuts (bumpInv ra.1 d.ctor).next sibs'.length)).1 s sibs0 nil?) ∧
                  ValOK descs (markAbsent (storeOuts
                    (logEv (alloc (bumpInv ra.1 d.ctor) sibs'.length d.ctor ((bumpInv ra.1 d.ctor).invs d.ctor))
                      (.ctor d.id d.ctor ((bumpInv ra.1 d.ctor).invs d.ctor) s args
                        (allocOuts (bumpInv ra.1 d.ctor).next sibs'.length)))
                    s sibs' (allocOuts (bumpInv ra.1 d.ctor).next sibs'.length)).1 s sibs0 nil?) (d.life ≠ .scoped)
                    (if (sibs'.map (·.id)).contains d.id then
                        okOr (storeOuts
                          (logEv (alloc (bumpInv ra.1 d.ctor) sibs'.length d.ctor ((bumpInv ra.1 d.ctor).invs d.ctor))
                            (.ctor d.id d.ctor ((bumpInv ra.1 d.ctor).invs d.ctor) s args
                              (allocOuts (bumpInv ra.1 d.ctor).next sibs'.length)))
                          s sibs' (allocOuts (bumpInv ra.1 d.ctor).next sibs'.length)).2
                          (.inst ((allocOuts (bumpInv ra.1 d.ctor).next sibs'.length).getD (idxOfDesc sibs' d.id) 0))
                      else match (storeOuts
                          (logEv (alloc (bumpInv ra.1 d.ctor) sibs'.length d.ctor ((bumpInv ra.1 d.ctor).invs d.ctor))
                            (.ctor d.id d.ctor ((bumpInv ra.1 d.ctor).invs d.ctor) s args
                              (allocOuts (bumpInv ra.1 d.ctor).next sibs'.length)))
                          s sibs' (allocOuts (bumpInv ra.1 d.ctor).next sibs'.length)).2 with
                        | .error e => .error e
                        | .ok _ => .error [.validation]) := by
                intro sibs' sibs0 nil? hlife' hlife0
                have n3 := nc_alloc_log n2 sibs'.length d.ctor ((bumpInv ra.1 d.ctor).invs d.ctor) d.id s args
                  (allocOuts (bumpInv ra.1 d.ctor).next sibs'.length) hbelow hcl
                have houts : ∀ o ∈ allocOuts (bumpInv ra.1 d.ctor).next sibs'.length,
                    o < (logEv (alloc (bumpInv ra.1 d.ctor) sibs'.length d.ctor ((bumpInv ra.1 d.ctor).invs d.ctor))
                      (.ctor d.id d.ctor ((bumpInv ra.1 d.ctor).invs d.ctor) s args
                        (allocOuts (bumpInv ra.1 d.ctor).next sibs'.length))).next := fun o ho => (mem_allocOuts ho).2
                have n4 := nc_storeOuts s sibs' _ _ n3 hlife' houts
                have m4 := storeOuts_metaSame s sibs' (allocOuts (bumpInv ra.1 d.ctor).next sibs'.length)
                  (logEv (alloc (bumpInv ra.1 d.ctor) sibs'.length d.ctor ((bumpInv ra.1 d.ctor).invs d.ctor))
                    (.ctor d.id d.ctor ((bumpInv ra.1 d.ctor).invs d.ctor) s args
                      (allocOuts (bumpInv ra.1 d.ctor).next sibs'.length))) hlife'
                have m5 := m4.trans (markAbsent_metaSame _ s sibs0 nil?)
                refine ⟨nc_markAbsent n4 s sibs0 nil? hlife0, ?_⟩
                intro v hv
                split at hv
                next hcont =>
                  have hv' := okOr_eq_ok hv
                  subst hv'
                  have hidx : idxOfDesc sibs' d.id < (allocOuts (bumpInv ra.1 d.ctor).next sibs'.length).length := by
                    have := idxOf_lt_of_contains hcont
                    simpa [idxOfDesc, allocOuts] using this
                  have hmem : (allocOuts (bumpInv ra.1 d.ctor).next sibs'.length).getD (idxOfDesc sibs' d.id) 0 ∈
                      allocOuts (bumpInv ra.1 d.ctor).next sibs'.length := by
                    rw [List.getD_eq_getElem?_getD, List.getElem?_eq_getElem hidx]; exact List.getElem_mem _
                  obtain ⟨lo, hi⟩ := mem_allocOuts hmem
                  refine ⟨?_, fun hls => ?_⟩
                  · show _ < _
                    rw [m5.2]; exact hi
                  · show LongCtor descs _
                    rw [m5.1, instMeta_alloc_log _ _ _ _ _ _ _ _ _ lo hi]
                    exact hlc hls
                next => split at hv <;> cases hv
              generalize (if (d.sibs.filterMap (findDesc (bumpInv ra.1 d.ctor).descs)).isEmpty then [d]
                  else d.sibs.filterMap (findDesc (bumpInv ra.1 d.ctor).descs)) = sibs0 at h0 ⊢
              cases beh.nilField d.ctor ((bumpInv ra.1 d.ctor).invs d.ctor) with
              | none => exact hmulti sibs0 sibs0 none h0 h0
              | some k => exact hmulti (sibs0.eraseIdx k) sibs0 (some k) (fun sd hsd => h0 sd (List.mem_of_mem_eraseIdx hsd)) h0
            · -- plain
              have n3 := nc_alloc_log n2 1 d.ctor ((bumpInv ra.1 d.ctor).invs d.ctor) d.id s args
                [(bumpInv ra.1 d.ctor).next] hbelow hcl
              have hb3 : BelowVal (logEv (alloc (bumpInv ra.1 d.ctor) 1 d.ctor ((bumpInv ra.1 d.ctor).invs d.ctor))
                  (.ctor d.id d.ctor ((bumpInv ra.1 d.ctor).invs d.ctor) s args [(bumpInv ra.1 d.ctor).next]))
                  (.inst (bumpInv ra.1 d.ctor).next) := Nat.lt_succ_self _
              have n4 := nc_setInstance n3 s d d.ident (.inst (bumpInv ra.1 d.ctor).next) hl hb3
              have m4 := setInstance_metaSame
                (logEv (alloc (bumpInv ra.1 d.ctor) 1 d.ctor ((bumpInv ra.1 d.ctor).invs d.ctor))
                  (.ctor d.id d.ctor ((bumpInv ra.1 d.ctor).invs d.ctor) s args [(bumpInv ra.1 d.ctor).next])) s d d.ident
                (.inst (bumpInv ra.1 d.ctor).next) hl
              split
              · exact ⟨n4, fun v hv => by cases hv⟩
              · have hb4 : BelowVal (setInstance
                    (logEv (alloc (bumpInv ra.1 d.ctor) 1 d.ctor ((bumpInv ra.1 d.ctor).invs d.ctor))
                      (.ctor d.id d.ctor ((bumpInv ra.1 d.ctor).invs d.ctor) s args [(bumpInv ra.1 d.ctor).next])) s d d.ident
                    (.inst (bumpInv ra.1 d.ctor).next)).1 (.inst (bumpInv ra.1 d.ctor).next) := by
                  show _ < _
                  rw [m4.2]; exact Nat.lt_succ_self _
                have m5 := m4.trans (shareAll_metaSame s d.id (.inst (bumpInv ra.1 d.ctor).next)
                  (d.sibs.filterMap (findDesc (bumpInv ra.1 d.ctor).descs)) _)
                refine ⟨nc_shareAll s d.id _ _ _ n4 hsibs hb4, fun v hv => ?_⟩
                injection hv with hv; subst hv
                refine ⟨?_, fun hls => ?_⟩
                · show _ < _
                  rw [m5.2]; exact Nat.lt_succ_self _
                · show LongCtor descs _
                  rw [m5.1, instMeta_alloc_log _ _ _ _ _ _ _ _ _ (Nat.le_refl _) (Nat.lt_succ_self _)]
                  exact hlc hls

end Godi.Container

namespace Godi.Container

/-! ### Close, scope creation, histories -/

theorem nc_updScope' {descs : List Desc} {st : State} (nc : NC descs st) (s : Nat) (f : ScopeSt → ScopeSt)
    (hf : ∀ sc, (f sc).instances = sc.instances ∨ (f sc).instances = none) : NC descs (updScope st s f) := by
  refine ⟨nc.descsEq, nc.tbl, nc.evs, ?_⟩
  intro x k v hv
  by_cases hx : x = s
  · subst hx
    have : ((updScope st x f).scope x).instances = (f (st.scope x)).instances := by simp [updScope]
    rw [this] at hv
    rcases hf (st.scope x) with h | h
    · rw [h] at hv; exact nc.cache x k v hv
    · rw [h] at hv; simp [lookup] at hv
  · have : (updScope st s f).scope x = st.scope x := by simp [updScope, hx]
    rw [this] at hv; exact nc.cache x k v hv

theorem nc_closeLoop {descs : List Desc} (beh : Beh) (owner : Nat) : ∀ (l : List Inst) (st : State), NC descs st →
    NC descs (closeLoop beh owner st l).1 := by
  intro l
  induction l with
  | nil => intro st nc; exact nc
  | cons i rest ih =>
    intro st nc
    unfold closeLoop
    exact ih _ (nc_logClosed nc _ _ _)

theorem nc_detach {descs : List Desc} {st : State} (nc : NC descs st) (s : Nat) : NC descs (detach st s) := by
  unfold detach
  have h1 : NC descs (match (st.scope s).parent with
      | some p => updScope st p (fun sc => { sc with children := sc.children.map (fun (l : List Nat) => List.erase l s) })
      | none => st) := by
    split
    · exact nc_updScope nc _ _ (fun _ => rfl)
    · exact nc
  exact h1.same rfl rfl rfl rfl rfl (fun _ => rfl)

theorem nc_close {descs : List Desc} (beh : Beh) (order : List Nat → List Nat) : ∀ fuel,
    (∀ st s, NC descs st → NC descs (closeScope beh order fuel st s).1) ∧
    (∀ st l, NC descs st → NC descs (closeChildren beh order fuel st l).1) := by
  intro fuel
  induction fuel with
  | zero => exact ⟨fun st s nc => by simp [closeScope]; exact nc, fun st l nc => by simp [closeChildren]; exact nc⟩
  | succ f ih =>
    obtain ⟨ihS, ihC⟩ := ih
    refine ⟨?_, ?_⟩
    · intro st s nc
      unfold closeScope
      split
      · exact nc
      · simp only []
        have h0 : NC descs (markDisposed st s) := nc_updScope nc s (fun sc => { sc with disposed := true }) (fun _ => rfl)
        have h1 : NC descs (takeChildren (markDisposed st s) s) :=
          nc_updScope h0 s (fun sc => { sc with children := none }) (fun _ => rfl)
        have h2 := ihC _ (order ((st.scope s).children.getD [])) h1
        generalize closeChildren beh order f (takeChildren (markDisposed st s) s) (order ((st.scope s).children.getD [])) = r1 at h2
        have h3 : NC descs (takeDisposables r1.1 s) := nc_updScope h2 s (fun sc => { sc with disposables := none }) (fun _ => rfl)
        have h4 := nc_closeLoop beh s ((r1.1.scope s).disposables.getD []).reverse _ h3
        generalize closeLoop beh s (takeDisposables r1.1 s) ((r1.1.scope s).disposables.getD []).reverse = r2 at h4
        exact nc_updScope' (nc_detach h4 s) s (fun sc => { sc with instances := none }) (fun _ => Or.inr rfl)
    · intro st l nc
      cases l with
      | nil => unfold closeChildren; exact nc
      | cons c rest =>
        unfold closeChildren
        exact ihC _ rest (ihS st c nc)

theorem nc_allocScope {descs : List Desc} {st : State} (nc : NC descs st) (parent : Option Nat) (ctx : Nat) :
    NC descs (allocScope st parent ctx) := by
  refine ⟨nc.descsEq, nc.tbl, nc.evs, ?_⟩
  intro x k v hv
  unfold allocScope at hv
  by_cases hx : x = st.nscopes
  · subst hx; simp [lookup] at hv
  · simp only [hx, ↓reduceIte] at hv; exact nc.cache x k v hv

theorem nc_runInitializers {descs : List Desc} (beh : Beh) (cfg : NCfg descs) (s : Nat) : ∀ (ids : List Nat) (st : State),
    NC descs st → (∀ id ∈ ids, ∀ d, findDesc descs id = some d → d.life = .scoped) →
    NC descs (runInitializers beh st s ids).1 := by
  intro ids
  induction ids with
  | nil => intro st nc _; exact nc
  | cons id rest ih =>
    intro st nc hi
    unfold runInitializers
    rw [nc.descsEq]
    split
    · exact ih st nc (fun x hx => hi x (List.mem_cons_of_mem _ hx))
    next d hd =>
      have hl : d.life ≠ .singleton := by rw [hi id (by simp) d hd]; simp
      have h1 := ((nc_frame beh descs cfg (fuelFor st)).2.2.2.2.2 st s d nc (findDesc_mem hd) hl).1
      simp only []
      split
      · exact ih _ h1 (fun x hx => hi x (List.mem_cons_of_mem _ hx))
      · exact h1

theorem nc_newScope {descs : List Desc} (beh : Beh) (cfg : NCfg descs) (st : State) (parent : Option Nat) (ctx : Nat)
    (ri : Bool) (nc : NC descs st) (hi : ∀ id ∈ st.initializers, ∀ d, findDesc descs id = some d → d.life = .scoped) :
    NC descs (newScope beh st parent ctx ri).1 := by
  unfold newScope
  simp only []
  have h0 := nc_allocScope nc parent ctx
  split
  · have h1 := nc_runInitializers beh cfg st.nscopes (allocScope st parent ctx).initializers (allocScope st parent ctx) h0 hi
    split
    · exact h1
    · exact (nc_close beh id _).1 _ _ h1
  · exact h0

theorem nc_stepOp {descs : List Desc} (beh : Beh) (cfg : NCfg descs) (st : State) (op : Op) (nc : NC descs st)
    (hi : ∀ id ∈ st.initializers, ∀ d, findDesc descs id = some d → d.life = .scoped) :
    NC descs (stepOp beh st op) := by
  cases op with
  | get s ty key =>
    cases s with
    | none =>
      show NC descs (providerGet beh st ty key).1
      unfold providerGet; split
      · exact nc
      · exact ((nc_frame beh descs cfg _).1 st rootScope ty key nc).1
    | some s => exact ((nc_frame beh descs cfg _).1 st s ty key nc).1
  | getGroup s ty grp =>
    cases s with
    | none =>
      show NC descs (providerGetGroup beh st ty grp).1
      unfold providerGetGroup; split
      · exact nc
      · exact ((nc_frame beh descs cfg _).2.2.1 st rootScope ty grp nc).1
    | some s => exact ((nc_frame beh descs cfg _).2.2.1 st s ty grp nc).1
  | createScope p ctx =>
    cases p with
    | none =>
      show NC descs (providerCreateScope beh st ctx).1
      unfold providerCreateScope
      split
      · exact nc
      · have h1 := nc_newScope beh cfg st none ctx true nc hi
        simp only []
        split
        · exact h1
        · split
          · exact (nc_close beh id _).1 _ _ h1
          · exact h1.same rfl rfl rfl rfl rfl (fun _ => rfl)
    | some p =>
      show NC descs (scopeCreateScope beh st p ctx).1
      unfold scopeCreateScope
      split
      · exact nc
      · have h1 := nc_newScope beh cfg st (some p) ctx true nc hi
        simp only []
        split
        · exact h1
        · split
          · exact (nc_close beh id _).1 _ _ h1
          next s _ _ =>
            have h2 : NC descs (addChild (newScope beh st (some p) ctx true).1 p s) := nc_updScope h1 p _ (fun _ => rfl)
            split
            · exact (nc_close beh id _).1 _ _ h2
            · exact h2.same rfl rfl rfl rfl rfl (fun _ => rfl)
  | closeScope s order => exact (nc_close beh order _).1 st s nc

/-- NO CAPTIVE DEPENDENCY, over all histories -/
theorem nc_run {descs : List Desc} (beh : Beh) (cfg : NCfg descs) : ∀ (ops : List Op) (st : State), NC descs st →
    InitOK st → NC descs (run beh st ops) := by
  intro ops
  induction ops with
  | nil => intro st nc _; exact nc
  | cons op rest ih =>
    intro st nc hi
    have wf : WF st.descs := by rw [nc.descsEq]; exact cfg.wf
    have hi' : ∀ id ∈ st.initializers, ∀ d, findDesc descs id = some d → d.life = .scoped := by
      intro id hid d hd; exact hi id hid d (by rw [nc.descsEq]; exact hd)
    have s1 := stepOp_stable beh st op wf hi
    exact ih _ (nc_stepOp beh cfg st op nc hi') (s1.initOK hi)

end Godi.Container

namespace Godi.Container

/-! ### Build: the singleton table is filled with clean values only -/

theorem nc_storeSingleton {descs : List Desc} {st : State} (nc : NC descs st) (k : Ident) (v : Val)
    (hc : CleanVal descs st v) (hb : BelowVal st v) : NC descs (storeSingleton st k v) := by
  refine ⟨nc.descsEq, ?_, nc.evs, nc.cache⟩
  intro k' v' hv
  unfold storeSingleton at hv
  by_cases hk : k' = k
  · subst hk; rw [lookup_put_self] at hv; injection hv with hv; subst hv; exact ⟨hc, hb⟩
  · rw [lookup_put_ne _ k k' v hk] at hv; exact nc.tbl k' v' hv

theorem nc_setInstance_sing {descs : List Desc} {st : State} (nc : NC descs st) (s : Nat) (d : Desc) (k : Ident) (v : Val)
    (hl : d.life = .singleton) (hc : CleanVal descs st v) (hb : BelowVal st v) :
    NC descs (setInstance st s d k v).1 ∧ MetaSame st (setInstance st s d k v).1 := by
  unfold setInstance
  simp only [hl]
  have h1 := nc_storeSingleton nc k v hc hb
  cases v with
  | inst i =>
    simp only []
    split
    · exact ⟨h1.same rfl rfl rfl rfl rfl (fun _ => rfl), ⟨rfl, rfl⟩⟩
    · exact ⟨h1, ⟨rfl, rfl⟩⟩
  | _ => exact ⟨h1, ⟨rfl, rfl⟩⟩

theorem nc_shareAll_sing {descs : List Desc} (s self : Nat) (v : Val) : ∀ (sibs : List Desc) (st : State), NC descs st →
    (∀ d ∈ sibs, d.life = .singleton) → CleanVal descs st v → BelowVal st v →
    NC descs (shareAll st s self sibs v) := by
  intro sibs
  induction sibs with
  | nil => intro st nc _ _ _; exact nc
  | cons d ds ih =>
    intro st nc h hc hb
    unfold shareAll
    simp only [List.foldl_cons]
    have hrest := fun st' nc' hc' hb' => ih st' nc' (fun x hx => h x (List.mem_cons_of_mem _ hx)) hc' hb'
    unfold shareAll at hrest
    split
    · exact hrest st nc hc hb
    · have : shareInstance st s d d.ident v = storeSingleton st d.ident v := by
        unfold shareInstance; simp only [h d (by simp)]
      rw [this]
      refine hrest _ (nc_storeSingleton nc d.ident v hc hb) ?_ ?_
      · cases v <;> exact hc
      · cases v <;> exact hb

theorem nc_storeOuts_sing {descs : List Desc} (s : Nat) : ∀ (sibs : List Desc) (outs : List Inst) (st : State), NC descs st →
    (∀ d ∈ sibs, d.life = .singleton) → (∀ o ∈ outs, o < st.next ∧ CleanInst descs st o) →
    NC descs (storeOuts st s sibs outs).1 ∧ MetaSame st (storeOuts st s sibs outs).1 := by
  intro sibs
  induction sibs with
  | nil => intro outs st nc _ _; unfold storeOuts; exact ⟨nc, MetaSame.refl st⟩
  | cons d ds ih =>
    intro outs st nc h ho
    cases outs with
    | nil => unfold storeOuts; exact ⟨nc, MetaSame.refl st⟩
    | cons o os =>
      unfold storeOuts
      obtain ⟨n1, m1⟩ := nc_setInstance_sing nc s d d.ident (.inst o) (h d (by simp)) (ho o (by simp)).2 (ho o (by simp)).1
      obtain ⟨n2, m2⟩ := ih os _ n1 (fun x hx => h x (List.mem_cons_of_mem _ hx)) (by
        intro o' ho'
        obtain ⟨a, b⟩ := ho o' (List.mem_cons_of_mem _ ho')
        refine ⟨by rw [m1.2]; exact a, ?_⟩
        unfold CleanInst at *; rw [m1.1]; exact b)
      exact ⟨n2, m1.trans m2⟩

theorem nc_markAbsent_sing {descs : List Desc} {st : State} (nc : NC descs st) (s : Nat) (sibs0 : List Desc) (nil? : Option Nat)
    (h : ∀ d ∈ sibs0, d.life = .singleton) : NC descs (markAbsent st s sibs0 nil?) := by
  unfold markAbsent
  split
  · split
    next dk hk =>
      have : shareInstance st s dk dk.ident .absent = storeSingleton st dk.ident .absent := by
        unfold shareInstance; simp only [h dk (List.mem_of_getElem? hk)]
      rw [this]; exact nc_storeSingleton nc _ _ trivial trivial
    · exact nc
  · exact nc

/-- registered instance values are clean and below the counter -/
def InstOK (descs : List Desc) (st : State) : Prop :=
  ∀ d ∈ descs, ∀ v, d.kind = .inst v → CleanInst descs st v ∧ v < st.next

theorem instOK_stable {descs : List Desc} {st st' : State} (h : InstOK descs st) (hn : st.next ≤ st'.next)
    (hm : ∀ i, i < st.next → st'.instMeta i = st.instMeta i) : InstOK descs st' := by
  intro d hd v hk
  obtain ⟨a, b⟩ := h d hd v hk
  exact ⟨by unfold CleanInst at *; rw [hm v b]; exact a, Nat.lt_of_lt_of_le b hn⟩

/-- one singleton creation during Build -/
theorem nc_create_sing {descs : List Desc} (beh : Beh) (cfg : NCfg descs) (f : Nat) (st : State) (d : Desc)
    (nc : NC descs st) (io : InstOK descs st) (hd : d ∈ descs) (hl : d.life = .singleton) :
    NC descs (createInstance beh (f + 1) st rootScope d).1 ∧ InstOK descs (createInstance beh (f + 1) st rootScope d).1 := by
  have hde := nc.descsEq
  have wf' : WF st.descs := by rw [hde]; exact cfg.wf
  have hls : d.life ≠ .scoped := by rw [hl]; simp
  have hlc := longCtor_of cfg d hd hls
  have hsib : ∀ (descs' : List Desc), descs' = descs → ∀ sd ∈ d.sibs.filterMap (findDesc descs'), sd.life = .singleton := by
    intro descs' he sd hsd
    obtain ⟨sid, hsid, hf⟩ := List.mem_filterMap.1 hsd
    rw [he] at hf
    rw [cfg.wf.sibLife d hd sid hsid sd hf]; exact hl
  unfold createInstance
  split
  next v hk =>
    simp only []
    obtain ⟨cv, bv⟩ := io d hd v hk
    obtain ⟨n1, m1⟩ := nc_setInstance_sing nc rootScope d d.ident (.inst v) hl cv bv
    have ok1 : (setInstance st rootScope d d.ident (.inst v)).2 = .ok () :=
      (setInstance_singleton (fun _ => True) st rootScope d d.ident (.inst v) hl trivial).2.2
    simp only [ok1]
    have cv1 : CleanVal descs (setInstance st rootScope d d.ident (.inst v)).1 (.inst v) := by
      show LongCtor descs _; rw [m1.1]; exact cv
    have bv1 : BelowVal (setInstance st rootScope d d.ident (.inst v)).1 (.inst v) := by
      show _ < _; rw [m1.2]; exact bv
    have m2 := m1.trans (shareAll_metaSame rootScope d.id (.inst v) (d.sibs.filterMap (findDesc st.descs)) _)
    exact ⟨nc_shareAll_sing rootScope d.id (.inst v) _ _ n1 (hsib _ hde) cv1 bv1,
      instOK_stable io (Nat.le_of_eq m2.2.symm) (fun i _ => by rw [m2.1])⟩
  next hk =>
    simp only []
    obtain ⟨nA, aA⟩ := (nc_frame beh descs cfg f).2.2.2.2.1 st rootScope d.deps [] nc (by simp)
    have eA := (frame beh f).2.2.2.2.1 st rootScope d.deps [] wf'
    have ioA := instOK_stable io eA.next eA.metaStable
    generalize buildArgs beh f st rootScope d.deps [] = ra at nA aA eA ioA
    split
    · exact ⟨nA, ioA⟩
    next args hargs =>
      obtain ⟨hbelow, hclean⟩ := aA args hargs
      have hcl : LongDesc descs d.id → ∀ a ∈ args, CleanVal descs ra.1 a := fun _ =>
        hclean (fun dep hdep t ht => cfg.acc d hd hls dep hdep t ht) (by simp)
      have n2 := nc_bumpInv nA d.ctor
      have io2 : InstOK descs (bumpInv ra.1 d.ctor) := ioA
      have hd2 : (bumpInv ra.1 d.ctor).descs = descs := nA.descsEq
      split
      · exact ⟨nc_logFail n2 _ _ _ _ _, io2⟩
      · exact ⟨nc_logFail n2 _ _ _ _ _, io2⟩
      · exact ⟨nc_logFail n2 _ _ _ _ _, io2⟩
      · split
        · -- void
          have n3 := nc_logCtor n2 d.ctor ((bumpInv ra.1 d.ctor).invs d.ctor) d.id rootScope args [] hbelow hcl
          obtain ⟨n4, m4⟩ := nc_setInstance_sing n3 rootScope d d.ident .unit hl trivial trivial
          exact ⟨n4, instOK_stable io2 (Nat.le_of_eq m4.2.symm) (fun i _ => by rw [m4.1]; rfl)⟩
        · -- multi
          have h0 : ∀ sd ∈ (if (d.sibs.filterMap (findDesc (bumpInv ra.1 d.ctor).descs)).isEmpty then [d]
              else d.sibs.filterMap (findDesc (bumpInv ra.1 d.ctor).descs)), sd.life = .singleton := by
            split
            · intro sd hsd; simp at hsd; subst hsd; exact hl
            · exact hsib _ hd2
          have hmulti : ∀ (sibs' sibs0 : List Desc) (nil? : Option Nat), (∀ sd ∈ sibs', sd.life = .singleton) →
              (∀ sd ∈ sibs0, sd.life = .singleton) →
              NC descs (markAbsent (storeOuts
                (logEv (alloc (bumpInv ra.1 d.ctor) sibs'.length d.ctor ((bumpInv ra.1 d.ctor).invs d.ctor))
                  (.ctor d.id d.ctor ((bumpInv ra.1 d.ctor).invs d.ctor) rootScope args
                    (allocOuts (bumpInv ra.1 d.ctor).next sibs'.length)))
                rootScope sibs' (allocOuts (bumpInv ra.1 d.ctor).next sibs'.length)).1 rootScope sibs0 nil?) ∧
              InstOK descs (markAbsent (storeOuts
                (logEv (alloc (bumpInv ra.1 d.ctor) sibs'.length d.ctor ((bumpInv ra.1 d.ctor).invs d.ctor))
                  (.ctor d.id d.ctor ((bumpInv ra.1 d.ctor).invs d.ctor) rootScope args
                    (allocOuts (bumpInv ra.1 d.ctor).next sibs'.length)))
                rootScope sibs' (allocOuts (bumpInv ra.1 d.ctor).next sibs'.length)).1 rootScope sibs0 nil?) := by
            intro sibs' sibs0 nil? hlife' hlife0
            have n3 := nc_alloc_log n2 sibs'.length d.ctor ((bumpInv ra.1 d.ctor).invs d.ctor) d.id rootScope args
              (allocOuts (bumpInv ra.1 d.ctor).next sibs'.length) hbelow hcl
            have io3 : InstOK descs (logEv (alloc (bumpInv ra.1 d.ctor) sibs'.length d.ctor ((bumpInv ra.1 d.ctor).invs d.ctor))
                (.ctor d.id d.ctor ((bumpInv ra.1 d.ctor).invs d.ctor) rootScope args
                  (allocOuts (bumpInv ra.1 d.ctor).next sibs'.length))) :=
              instOK_stable io2 (Nat.le_add_right _ _) (fun i hi => by
                show (if (bumpInv ra.1 d.ctor).next ≤ i ∧ i < (bumpInv ra.1 d.ctor).next + sibs'.length then _ else _) = _
                rw [if_neg]; exact fun h => Nat.lt_irrefl _ (Nat.lt_of_lt_of_le hi h.1))
            obtain ⟨n4, m4⟩ := nc_storeOuts_sing rootScope sibs' (allocOuts (bumpInv ra.1 d.ctor).next sibs'.length) _ n3 hlife' (by
              intro o ho
              obtain ⟨lo, hi⟩ := mem_allocOuts ho
              refine ⟨hi, ?_⟩
              show LongCtor descs _
              rw [instMeta_alloc_log _ _ _ _ _ _ _ _ _ lo hi]; exact hlc)
            have m5 := m4.trans (markAbsent_metaSame _ rootScope sibs0 nil?)
            exact ⟨nc_markAbsent_sing n4 rootScope sibs0 nil? hlife0,
              instOK_stable io3 (Nat.le_of_eq m5.2.symm) (fun i _ => by rw [m5.1])⟩
          generalize (if (d.sibs.filterMap (findDesc (bumpInv ra.1 d.ctor).descs)).isEmpty then [d]
              else d.sibs.filterMap (findDesc (bumpInv ra.1 d.ctor).descs)) = sibs0 at h0 ⊢
          cases beh.nilField d.ctor ((bumpInv ra.1 d.ctor).invs d.ctor) with
          | none => exact hmulti sibs0 sibs0 none h0 h0
          | some k => exact hmulti (sibs0.eraseIdx k) sibs0 (some k) (fun sd hsd => h0 sd (List.mem_of_mem_eraseIdx hsd)) h0
        · -- plain
          have n3 := nc_alloc_log n2 1 d.ctor ((bumpInv ra.1 d.ctor).invs d.ctor) d.id rootScope args
            [(bumpInv ra.1 d.ctor).next] hbelow hcl
          have io3 : InstOK descs (logEv (alloc (bumpInv ra.1 d.ctor) 1 d.ctor ((bumpInv ra.1 d.ctor).invs d.ctor))
              (.ctor d.id d.ctor ((bumpInv ra.1 d.ctor).invs d.ctor) rootScope args [(bumpInv ra.1 d.ctor).next])) :=
            instOK_stable io2 (Nat.le_add_right _ _) (fun i hi => by
              show (if (bumpInv ra.1 d.ctor).next ≤ i ∧ i < (bumpInv ra.1 d.ctor).next + 1 then _ else _) = _
              rw [if_neg]; exact fun h => Nat.lt_irrefl _ (Nat.lt_of_lt_of_le hi h.1))
          have cv3 : CleanVal descs (logEv (alloc (bumpInv ra.1 d.ctor) 1 d.ctor ((bumpInv ra.1 d.ctor).invs d.ctor))
              (.ctor d.id d.ctor ((bumpInv ra.1 d.ctor).invs d.ctor) rootScope args [(bumpInv ra.1 d.ctor).next]))
              (.inst (bumpInv ra.1 d.ctor).next) := by
            show LongCtor descs _
            rw [instMeta_alloc_log _ _ _ _ _ _ _ _ _ (Nat.le_refl _) (Nat.lt_succ_self _)]; exact hlc
          have bv3 : BelowVal (logEv (alloc (bumpInv ra.1 d.ctor) 1 d.ctor ((bumpInv ra.1 d.ctor).invs d.ctor))
              (.ctor d.id d.ctor ((bumpInv ra.1 d.ctor).invs d.ctor) rootScope args [(bumpInv ra.1 d.ctor).next]))
              (.inst (bumpInv ra.1 d.ctor).next) := Nat.lt_succ_self _
          obtain ⟨n4, m4⟩ := nc_setInstance_sing n3 rootScope d d.ident (.inst (bumpInv ra.1 d.ctor).next) hl cv3 bv3
          have io4 := instOK_stable io3 (Nat.le_of_eq m4.2.symm) (fun i _ => by rw [m4.1])
          split
          · exact ⟨n4, io4⟩
          · have cv4 : CleanVal descs (setInstance (logEv (alloc (bumpInv ra.1 d.ctor) 1 d.ctor ((bumpInv ra.1 d.ctor).invs d.ctor))
                (.ctor d.id d.ctor ((bumpInv ra.1 d.ctor).invs d.ctor) rootScope args [(bumpInv ra.1 d.ctor).next])) rootScope d d.ident
                (.inst (bumpInv ra.1 d.ctor).next)).1 (.inst (bumpInv ra.1 d.ctor).next) := by
              show LongCtor descs _; rw [m4.1]; exact cv3
            have bv4 : BelowVal (setInstance (logEv (alloc (bumpInv ra.1 d.ctor) 1 d.ctor ((bumpInv ra.1 d.ctor).invs d.ctor))
                (.ctor d.id d.ctor ((bumpInv ra.1 d.ctor).invs d.ctor) rootScope args [(bumpInv ra.1 d.ctor).next])) rootScope d d.ident
                (.inst (bumpInv ra.1 d.ctor).next)).1 (.inst (bumpInv ra.1 d.ctor).next) := by
              show _ < _; rw [m4.2]; exact bv3
            have m5 := shareAll_metaSame rootScope d.id (.inst (bumpInv ra.1 d.ctor).next)
              (d.sibs.filterMap (findDesc (bumpInv ra.1 d.ctor).descs))
              (setInstance (logEv (alloc (bumpInv ra.1 d.ctor) 1 d.ctor ((bumpInv ra.1 d.ctor).invs d.ctor))
                (.ctor d.id d.ctor ((bumpInv ra.1 d.ctor).invs d.ctor) rootScope args [(bumpInv ra.1 d.ctor).next])) rootScope d d.ident
                (.inst (bumpInv ra.1 d.ctor).next)).1
            exact ⟨nc_shareAll_sing rootScope d.id _ _ _ n4 (hsib _ hd2) cv4 bv4,
              instOK_stable io4 (Nat.le_of_eq m5.2.symm) (fun i _ => by rw [m5.1])⟩

end Godi.Container

namespace Godi.Container

theorem nc_createSingletons {descs : List Desc} (beh : Beh) (cfg : NCfg descs) : ∀ (order : List Nat) (st : State),
    NC descs st → InstOK descs st →
    NC descs (createSingletons beh st order).1 ∧ InstOK descs (createSingletons beh st order).1 := by
  intro order
  induction order with
  | nil => intro st nc io; exact ⟨nc, io⟩
  | cons id rest ih =>
    intro st nc io
    unfold createSingletons
    split
    · exact ih st nc io
    next d hfd =>
      have hd : d ∈ descs := by rw [← nc.descsEq]; exact findDesc_mem hfd
      split
      · exact ih st nc io
      next hl =>
        have hl' : d.life = .singleton := by simpa using hl
        split
        · exact ⟨nc, io⟩
        split
        · exact ih st nc io
        · obtain ⟨f, hf⟩ : ∃ f, fuelFor st = f + 1 := ⟨fuelFor st - 1, by unfold fuelFor; omega⟩
          obtain ⟨n1, i1⟩ := nc_create_sing beh cfg f st d nc io hd hl'
          rw [← hf] at n1 i1
          simp only []
          split
          · exact ih _ n1 i1
          · exact ⟨n1, i1⟩

/-- BUILD: when validation has accepted the registry, the provider Build returns satisfies the
no-captive invariant (`hz`: constructor id 0 — the "producer" of registered instance values — belongs
to no scoped registration) -/
theorem build_nc {descs : List Desc} (beh : Beh) (cfg : NCfg descs) (hz : LongCtor descs 0) (order : List Nat)
    (hok : (buildRuntime beh descs order).2 = .ok ()) : NC descs (buildRuntime beh descs order).1 := by
  unfold buildRuntime at hok ⊢
  have hn : newScope beh { descs := descs, next := firstFresh descs } none 0 false = (buildStart descs, .ok 0) := by
    unfold newScope buildStart; simp
  simp only [hn] at hok ⊢
  have nc0 : NC descs (buildStart descs) := by
    refine ⟨rfl, ?_, ?_, ?_⟩
    · intro k v hv; simp [buildStart, allocScope, lookup] at hv
    · intro e he; simp [buildStart, allocScope] at he
    · intro s k v hv
      unfold buildStart allocScope at hv
      by_cases hs : s = 0 <;> simp [hs, lookup] at hv
  have io0 : InstOK descs (buildStart descs) := by
    intro d hd v hk
    exact ⟨hz, instVal_lt_firstFresh descs d hd v hk⟩
  obtain ⟨n2, _⟩ := nc_createSingletons beh cfg order (buildStart descs) nc0 io0
  generalize createSingletons beh (buildStart descs) order = r2 at n2 hok
  obtain ⟨st2, res2⟩ := r2
  cases res2 with
  | error e =>
    simp only [] at hok
    generalize closeProvider beh id st2 = r3 at hok
    obtain ⟨st3, ce⟩ := r3
    simp at hok
  | ok u =>
    simp only [] at hok ⊢
    have n2' : NC descs st2 := n2
    have n3 : NC descs { st2 with initializers := (descs.filter isInitializer).map (·.id) } :=
      NC.same (st' := { st2 with initializers := (descs.filter isInitializer).map (·.id) }) n2' rfl rfl rfl rfl rfl (fun _ => rfl)
    have n4 := nc_runInitializers beh cfg rootScope ((descs.filter isInitializer).map (·.id))
      { st2 with initializers := (descs.filter isInitializer).map (·.id) } n3 (initializers_scoped descs cfg.wf)
    generalize runInitializers beh { st2 with initializers := (descs.filter isInitializer).map (·.id) } rootScope
      ((descs.filter isInitializer).map (·.id)) = r4 at n4 hok
    obtain ⟨st4, res4⟩ := r4
    cases res4 with
    | ok u4 => exact n4
    | error e4 =>
      simp only [] at hok
      generalize closeProvider beh id st4 = r5 at hok
      obtain ⟨st5, ce⟩ := r5
      simp at hok

/-- what the invariant says about an event: a constructor of a singleton or transient registration
never receives — as a plain, keyed or aliased argument, as a parameter-object field, or as a member of
a group argument — an instance produced by a constructor of a scoped registration -/
theorem NC.event_args_clean {descs : List Desc} {st : State} (nc : NC descs st) (did c inv s : Nat) (args : List Val)
    (outs : List Inst) (he : Event.ctor did c inv s args outs ∈ st.log)
    (x : Desc) (hx : findDesc descs did = some x) (hlong : x.life ≠ .scoped) :
    (∀ i, Val.inst i ∈ args → LongCtor descs (st.instMeta i).1) ∧
    (∀ l i, Val.group l ∈ args → i ∈ l → LongCtor descs (st.instMeta i).1) := by
  have h := nc.evs _ he
  have hl : LongDesc descs did := by
    intro y hy; rw [hx] at hy; injection hy with hy; subst hy; exact hlong
  exact ⟨fun i hi => (h.2 hl _ hi), fun l i hlm hi => (h.2 hl _ hlm) i hi⟩

end Godi.Container
