import GodiProofs.Container.History
import GodiProofs.Container.Close
/-!
# The disposal ledger (C10, globally)

`Ledger st`: every instance id sits in at most one disposal list, at most once; an instance that is
still listed has no `closed` event; no instance has more than one `closed` event; ids that are
listed or closed were handed out before (`< st.next`), so a freshly allocated id is new to the ledger.

`Owed st i` (listed, or closed exactly once) is monotone under every operation: once the container
has taken responsibility for an instance it either still holds it or has closed it exactly once.
-/
namespace Godi.Container

def dispOf (st : State) (s : Nat) : List Inst := (st.scope s).disposables.getD []
def provD (st : State) : List Inst := st.provDisposables.getD []

def isClosedOf (i : Inst) : Event → Bool
  | .closed _ j _ => j == i
  | _ => false

def closedCount (log : List Event) (i : Inst) : Nat := log.countP (isClosedOf i)

def Tracked (st : State) (i : Inst) : Prop := (∃ s, i ∈ dispOf st s) ∨ i ∈ provD st

def Fresh (st : State) (i : Inst) : Prop := ¬ Tracked st i ∧ closedCount st.log i = 0

def Owed (st : State) (i : Inst) : Prop := Tracked st i ∨ closedCount st.log i = 1

structure Ledger (st : State) : Prop where
  nodupS : ∀ s, (dispOf st s).Nodup
  nodupP : (provD st).Nodup
  disjS : ∀ s s' i, i ∈ dispOf st s → i ∈ dispOf st s' → s = s'
  disjP : ∀ s i, i ∈ dispOf st s → i ∉ provD st
  pending : ∀ i, Tracked st i → closedCount st.log i = 0
  once : ∀ i, closedCount st.log i ≤ 1
  known : ∀ i, (Tracked st i ∨ 0 < closedCount st.log i) → i < st.next
  pristine : ∀ s, st.nscopes ≤ s → dispOf st s = []

/-- one step of the ledger: the invariant holds afterwards and nothing owed is forgotten -/
structure LStep (st st' : State) : Prop where
  ledger : Ledger st'
  mono : ∀ i, Owed st i → Owed st' i

theorem LStep.refl {st : State} (h : Ledger st) : LStep st st := ⟨h, fun _ h => h⟩
theorem LStep.trans {a b c : State} (h1 : LStep a b) (h2 : LStep b c) : LStep a c :=
  ⟨h2.ledger, fun i h => h2.mono i (h1.mono i h)⟩

theorem Ledger.fresh_of_ge {st : State} (L : Ledger st) {i : Inst} (h : st.next ≤ i) : Fresh st i := by
  refine ⟨fun ht => ?_, ?_⟩
  · exact Nat.lt_irrefl _ (Nat.lt_of_lt_of_le (L.known i (Or.inl ht)) h)
  · cases hc : closedCount st.log i with
    | zero => rfl
    | succ n => exact absurd (Nat.lt_of_lt_of_le (L.known i (Or.inr (by rw [hc]; exact Nat.succ_pos n))) h) (Nat.lt_irrefl _)

@[simp] theorem closedCount_nil (i : Inst) : closedCount [] i = 0 := rfl
theorem closedCount_append (a b : List Event) (i : Inst) :
    closedCount (a ++ b) i = closedCount a i + closedCount b i := by simp [closedCount, List.countP_append]
theorem closedCount_ctor (d c inv s : Nat) (a : List Val) (o : List Inst) (i : Inst) :
    closedCount [.ctor d c inv s a o] i = 0 := by simp [closedCount, isClosedOf]
theorem closedCount_ctorFail (d c inv s : Nat) (how : Outcome) (i : Inst) :
    closedCount [.ctorFail d c inv s how] i = 0 := by simp [closedCount, isClosedOf]
theorem closedCount_closed (o j : Nat) (ok : Bool) (i : Inst) :
    closedCount [.closed o j ok] i = if j = i then 1 else 0 := by
  by_cases h : j = i <;> simp [closedCount, isClosedOf, h]

/-! ### steps that leave the ledger's inputs alone -/

/-- transport: same lists, same counts, counters not lowered -/
theorem LStep.same {st st' : State} (L : Ledger st) (hd : ∀ s, dispOf st' s = dispOf st s)
    (hp : provD st' = provD st) (hl : ∀ i, closedCount st'.log i = closedCount st.log i)
    (hn : st.next ≤ st'.next) (hs : st.nscopes ≤ st'.nscopes) : LStep st st' := by
  have ht : ∀ i, Tracked st' i ↔ Tracked st i := by
    intro i; unfold Tracked; simp only [hd, hp]
  refine ⟨⟨?_, ?_, ?_, ?_, ?_, ?_, ?_, ?_⟩, ?_⟩
  · intro s; rw [hd]; exact L.nodupS s
  · rw [hp]; exact L.nodupP
  · intro s s' i h1 h2; rw [hd] at h1 h2; exact L.disjS s s' i h1 h2
  · intro s i h1; rw [hd] at h1; rw [hp]; exact L.disjP s i h1
  · intro i h; rw [hl]; exact L.pending i ((ht i).1 h)
  · intro i; rw [hl]; exact L.once i
  · intro i h; rw [hl, ht] at h; exact Nat.lt_of_lt_of_le (L.known i h) hn
  · intro s h; rw [hd]; exact L.pristine s (Nat.le_trans hs h)
  · intro i h; unfold Owed at *; rw [hl, ht]; exact h

theorem dispOf_updScope (st : State) (s : Nat) (f : ScopeSt → ScopeSt)
    (h : (f (st.scope s)).disposables = (st.scope s).disposables) (x : Nat) :
    dispOf (updScope st s f) x = dispOf st x := by
  unfold dispOf updScope
  by_cases hx : x = s
  · subst hx; simp [h]
  · simp [hx]

theorem lstep_updScope (st : State) (L : Ledger st) (s : Nat) (f : ScopeSt → ScopeSt)
    (h : (f (st.scope s)).disposables = (st.scope s).disposables) : LStep st (updScope st s f) :=
  LStep.same L (dispOf_updScope st s f h) rfl (fun _ => rfl) (Nat.le_refl _) (Nat.le_refl _)

theorem lstep_putInstance (st : State) (L : Ledger st) (s : Nat) (k : Ident) (v : Val) :
    LStep st (putInstance st s k v) := lstep_updScope st L s _ rfl

theorem lstep_bumpInv (st : State) (L : Ledger st) (c : Nat) : LStep st (bumpInv st c) :=
  LStep.same L (fun _ => rfl) rfl (fun _ => rfl) (Nat.le_refl _) (Nat.le_refl _)

theorem lstep_alloc (st : State) (L : Ledger st) (k c n : Nat) : LStep st (alloc st k c n) :=
  LStep.same L (fun _ => rfl) rfl (fun _ => rfl) (Nat.le_add_right _ _) (Nat.le_refl _)

theorem lstep_logCtor (st : State) (L : Ledger st) (d c inv s : Nat) (a : List Val) (o : List Inst) :
    LStep st (logEv st (.ctor d c inv s a o)) :=
  LStep.same L (fun _ => rfl) rfl (fun i => by
    show closedCount (st.log ++ [_]) i = _
    rw [closedCount_append, closedCount_ctor]; rfl) (Nat.le_refl _) (Nat.le_refl _)

theorem lstep_logFail (st : State) (L : Ledger st) (d c inv s : Nat) (how : Outcome) :
    LStep st (logEv st (.ctorFail d c inv s how)) :=
  LStep.same L (fun _ => rfl) rfl (fun i => by
    show closedCount (st.log ++ [_]) i = _
    rw [closedCount_append, closedCount_ctorFail]; rfl) (Nat.le_refl _) (Nat.le_refl _)

theorem lstep_storeSingleton (st : State) (L : Ledger st) (k : Ident) (v : Val) : LStep st (storeSingleton st k v) :=
  LStep.same L (fun _ => rfl) rfl (fun _ => rfl) (Nat.le_refl _) (Nat.le_refl _)

theorem lstep_shareInstance (st : State) (L : Ledger st) (s : Nat) (d : Desc) (k : Ident) (v : Val) :
    LStep st (shareInstance st s d k v) := by
  unfold shareInstance
  split
  · exact lstep_storeSingleton st L k v
  · exact lstep_putInstance st L s k v
  · exact LStep.refl L

theorem lstep_shareAll (s self : Nat) (v : Val) : ∀ (sibs : List Desc) (st : State), Ledger st →
    LStep st (shareAll st s self sibs v) := by
  intro sibs
  induction sibs with
  | nil => intro st L; exact LStep.refl L
  | cons d ds ih =>
    intro st L
    unfold shareAll
    simp only [List.foldl_cons]
    have hrest := fun st' L' => ih st' L'
    unfold shareAll at hrest
    split
    · exact hrest st L
    · have h1 := lstep_shareInstance st L s d d.ident v
      exact h1.trans (hrest _ h1.ledger)

theorem lstep_markAbsent (st : State) (L : Ledger st) (s : Nat) (sibs0 : List Desc) (nil? : Option Nat) :
    LStep st (markAbsent st s sibs0 nil?) := by
  unfold markAbsent
  split
  · split
    · exact lstep_shareInstance st L s _ _ _
    · exact LStep.refl L
  · exact LStep.refl L

/-- what a step may do to the other instances: nothing -/
def Untouched (st st' : State) (i : Inst) : Prop :=
  ∀ j, j ≠ i → (Tracked st' j ↔ Tracked st j) ∧ closedCount st'.log j = closedCount st.log j

theorem Untouched.fresh {st st' : State} {i j : Inst} (h : Untouched st st' i) (hj : j ≠ i) (hf : Fresh st j) :
    Fresh st' j := by
  obtain ⟨h1, h2⟩ := h j hj
  exact ⟨fun ht => hf.1 (h1.1 ht), by rw [h2]; exact hf.2⟩

/-! ### `track` -/

theorem mem_dispOf_append (st : State) (s : Nat) (i : Inst) (x : Nat) (j : Inst) :
    j ∈ dispOf (updScope st s (fun sc => { sc with disposables := some ((sc.disposables.getD []) ++ [i]) })) x ↔
      j ∈ dispOf st x ∨ (x = s ∧ j = i) := by
  unfold dispOf updScope
  by_cases hx : x = s
  · subst hx; simp
  · simp [hx]

/-- a new instance enters the ledger: appended to the scope's list, or — when the scope is already
closed — closed on the spot -/
theorem track_lstep (st : State) (L : Ledger st) (s : Nat) (i : Inst) (disp : Bool) (hs : s < st.nscopes)
    (hf : Fresh st i) (hi : i < st.next) :
    LStep st (track st s (.inst i) disp).1 ∧ Untouched st (track st s (.inst i) disp).1 i ∧
    (track st s (.inst i) disp).1.next = st.next ∧ (track st s (.inst i) disp).1.nscopes = st.nscopes ∧
    (disp = true → Owed (track st s (.inst i) disp).1 i) := by
  unfold track
  simp only []
  by_cases hdsp : (st.scope s).disposed = true
  · simp only [hdsp, ↓reduceIte]
    cases disp with
    | false =>
      simp only [Bool.false_eq_true, ↓reduceIte]
      exact ⟨LStep.refl L, fun j _ => ⟨Iff.rfl, rfl⟩, by trivial, by trivial, fun h => by cases h⟩
    | true =>
      simp only [↓reduceIte]
      have hcc : ∀ j, closedCount (logClosed st s i true).log j = closedCount st.log j + (if i = j then 1 else 0) := by
        intro j
        show closedCount (st.log ++ [_]) j = _
        rw [closedCount_append, closedCount_closed]
      have htr : ∀ j, Tracked (logClosed st s i true) j ↔ Tracked st j := fun j => Iff.rfl
      refine ⟨⟨⟨L.nodupS, L.nodupP, L.disjS, L.disjP, ?_, ?_, ?_, L.pristine⟩, ?_⟩, ?_, rfl, rfl, ?_⟩
      · intro j hj
        rw [hcc]
        have hne : i ≠ j := fun e => hf.1 (e ▸ hj)
        simp [hne, L.pending j hj]
      · intro j
        rw [hcc]
        by_cases hij : i = j
        · subst hij; simp [hf.2]
        · simp [hij]; exact L.once j
      · intro j hj
        by_cases hij : i = j
        · subst hij; exact hi
        · rw [hcc] at hj; simp only [hij, ↓reduceIte, Nat.add_zero] at hj
          exact L.known j hj
      · intro j hj
        unfold Owed at *
        rw [hcc]
        by_cases hij : i = j
        · subst hij
          rcases hj with h | h
          · exact absurd h hf.1
          · rw [hf.2] at h; cases h
        · simp only [hij, ↓reduceIte, Nat.add_zero]; exact hj
      · intro j hj
        refine ⟨Iff.rfl, ?_⟩
        rw [hcc]; simp [Ne.symm hj]
      · intro _
        right
        rw [hcc]; simp [hf.2]
  · have hdsp' : (st.scope s).disposed = false := by simpa using hdsp
    simp only [hdsp', Bool.false_eq_true, ↓reduceIte]
    cases disp with
    | false =>
      simp only [Bool.false_eq_true, ↓reduceIte]
      exact ⟨LStep.refl L, fun j _ => ⟨Iff.rfl, rfl⟩, by trivial, by trivial, fun h => by cases h⟩
    | true =>
      simp only [↓reduceIte]
      have hm := mem_dispOf_append st s i
      have hnot : ∀ x, i ∉ dispOf st x := fun x hx => hf.1 (Or.inl ⟨x, hx⟩)
      have htr : ∀ j, Tracked (updScope st s (fun sc => { sc with disposables := some ((sc.disposables.getD []) ++ [i]) })) j ↔
          Tracked st j ∨ j = i := by
        intro j
        unfold Tracked
        constructor
        · rintro (⟨x, hx⟩ | h)
          · rcases (hm x j).1 hx with h | ⟨_, h⟩
            · exact Or.inl (Or.inl ⟨x, h⟩)
            · exact Or.inr h
          · exact Or.inl (Or.inr h)
        · rintro ((⟨x, hx⟩ | h) | h)
          · exact Or.inl ⟨x, (hm x j).2 (Or.inl hx)⟩
          · exact Or.inr h
          · exact Or.inl ⟨s, (hm s j).2 (Or.inr ⟨rfl, h⟩)⟩
      refine ⟨⟨⟨?_, L.nodupP, ?_, ?_, ?_, L.once, ?_, ?_⟩, ?_⟩, ?_, rfl, rfl, ?_⟩
      · intro x
        by_cases hx : x = s
        · subst hx
          have : dispOf (updScope st x (fun sc => { sc with disposables := some ((sc.disposables.getD []) ++ [i]) })) x =
              dispOf st x ++ [i] := by unfold dispOf updScope; simp
          rw [this]
          exact List.nodup_append.2 ⟨L.nodupS x, by simp, by
            intro a ha b hb; simp at hb; subst hb; intro e; subst e; exact hnot x ha⟩
        · have : dispOf (updScope st s (fun sc => { sc with disposables := some ((sc.disposables.getD []) ++ [i]) })) x =
              dispOf st x := by unfold dispOf updScope; simp [hx]
          rw [this]; exact L.nodupS x
      · intro x x' j h1 h2
        rcases (hm x j).1 h1 with a1 | ⟨hx, hj⟩
        · rcases (hm x' j).1 h2 with a2 | ⟨hx', hj'⟩
          · exact L.disjS x x' j a1 a2
          · rw [hj'] at a1; exact absurd a1 (hnot x)
        · rcases (hm x' j).1 h2 with a2 | ⟨hx', hj'⟩
          · rw [hj] at a2; exact absurd a2 (hnot x')
          · rw [hx, hx']
      · intro x j h1
        rcases (hm x j).1 h1 with h1 | ⟨_, hj⟩
        · exact L.disjP x j h1
        · subst hj; exact fun h => hf.1 (Or.inr h)
      · intro j hj
        rcases (htr j).1 hj with h | h
        · exact L.pending j h
        · subst h; exact hf.2
      · intro j hj
        rcases hj with hj | hj
        · rcases (htr j).1 hj with h | h
          · exact L.known j (Or.inl h)
          · subst h; exact hi
        · exact L.known j (Or.inr hj)
      · intro x hx
        have hx' : st.nscopes ≤ x := hx
        have hxs : x ≠ s := fun e => by subst e; omega
        have : dispOf (updScope st s (fun sc => { sc with disposables := some ((sc.disposables.getD []) ++ [i]) })) x =
            dispOf st x := by unfold dispOf updScope; simp [hxs]
        rw [this]; exact L.pristine x hx
      · intro j hj
        unfold Owed at *
        rcases hj with h | h
        · exact Or.inl ((htr j).2 (Or.inl h))
        · exact Or.inr h
      · intro j hj
        refine ⟨?_, rfl⟩
        rw [htr]; constructor
        · rintro (h | h); exact h; exact absurd h hj
        · exact Or.inl
      · intro _; exact Or.inl ((htr i).2 (Or.inr rfl))

theorem track_other (st : State) (s : Nat) (v : Val) (disp : Bool) (hv : ∀ i, v ≠ .inst i) :
    (track st s v disp).1 = st := by
  unfold track
  cases v with
  | inst i => exact absurd rfl (hv i)
  | _ => simp only []; split <;> rfl

end Godi.Container

namespace Godi.Container

/-! ### `setInstance`, `storeOuts` for scoped and transient registrations -/

theorem tracked_putInstance (st : State) (s : Nat) (k : Ident) (v : Val) (j : Inst) :
    Tracked (putInstance st s k v) j ↔ Tracked st j := by
  unfold Tracked
  have : ∀ x, dispOf (putInstance st s k v) x = dispOf st x := dispOf_updScope st s _ rfl
  simp only [this]
  exact Iff.rfl

theorem fresh_putInstance (st : State) (s : Nat) (k : Ident) (v : Val) (j : Inst) (h : Fresh st j) :
    Fresh (putInstance st s k v) j := ⟨fun ht => h.1 ((tracked_putInstance st s k v j).1 ht), h.2⟩

theorem setInstance_ns_lstep (st : State) (L : Ledger st) (s : Nat) (d : Desc) (k : Ident) (i : Inst)
    (hl : d.life ≠ .singleton) (hs : s < st.nscopes) (hf : Fresh st i) (hi : i < st.next) :
    LStep st (setInstance st s d k (.inst i)).1 ∧ Untouched st (setInstance st s d k (.inst i)).1 i ∧
    (setInstance st s d k (.inst i)).1.next = st.next ∧ (setInstance st s d k (.inst i)).1.nscopes = st.nscopes ∧
    (d.disp = true → Owed (setInstance st s d k (.inst i)).1 i) := by
  unfold setInstance
  split
  · contradiction
  · have h1 := lstep_putInstance st L s k (.inst i)
    obtain ⟨h2, u2, n2, s2, o2⟩ := track_lstep (putInstance st s k (.inst i)) h1.ledger s i d.disp hs
      (fresh_putInstance st s k _ i hf) hi
    refine ⟨h1.trans h2, ?_, n2, s2, o2⟩
    intro j hj
    obtain ⟨a, b⟩ := u2 j hj
    exact ⟨a.trans (tracked_putInstance st s k _ j), b⟩
  · exact track_lstep st L s i d.disp hs hf hi

theorem setInstance_ns_other (st : State) (L : Ledger st) (s : Nat) (d : Desc) (k : Ident) (v : Val)
    (hv : ∀ i, v ≠ .inst i) (hl : d.life ≠ .singleton) : LStep st (setInstance st s d k v).1 := by
  unfold setInstance
  split
  · contradiction
  · rw [track_other _ s v d.disp hv]; exact lstep_putInstance st L s k v
  · rw [track_other _ s v d.disp hv]; exact LStep.refl L

theorem storeOuts_lstep (s : Nat) : ∀ (sibs : List Desc) (outs : List Inst) (st : State), Ledger st → s < st.nscopes →
    (∀ d ∈ sibs, d.life ≠ .singleton) → outs.Nodup → (∀ o ∈ outs, Fresh st o ∧ o < st.next) →
    LStep st (storeOuts st s sibs outs).1 ∧
    (∀ p ∈ sibs.zip outs, p.1.disp = true → Owed (storeOuts st s sibs outs).1 p.2) := by
  intro sibs
  induction sibs with
  | nil => intro outs st L _ _ _ _; unfold storeOuts; exact ⟨LStep.refl L, by simp⟩
  | cons d ds ih =>
    intro outs st L hs hlife hnd hfresh
    cases outs with
    | nil => unfold storeOuts; exact ⟨LStep.refl L, by simp⟩
    | cons o os =>
      unfold storeOuts
      simp only []
      obtain ⟨h1, u1, n1, s1, o1⟩ := setInstance_ns_lstep st L s d d.ident o (hlife d (by simp)) hs
        (hfresh o (by simp)).1 (hfresh o (by simp)).2
      have hnd' := List.nodup_cons.1 hnd
      obtain ⟨h2, o2⟩ := ih os (setInstance st s d d.ident (.inst o)).1 h1.ledger (by rw [s1]; exact hs)
        (fun x hx => hlife x (List.mem_cons_of_mem _ hx)) hnd'.2
        (fun o' ho' => ⟨u1.fresh (fun e => hnd'.1 (e ▸ ho')) (hfresh o' (List.mem_cons_of_mem _ ho')).1,
          by rw [n1]; exact (hfresh o' (List.mem_cons_of_mem _ ho')).2⟩)
      refine ⟨h1.trans h2, ?_⟩
      intro p hp hd
      simp only [List.zip_cons_cons, List.mem_cons] at hp
      rcases hp with rfl | hp
      · exact h2.mono _ (o1 hd)
      · exact o2 p hp hd

theorem allocOuts_nodup (next n : Nat) : (allocOuts next n).Nodup := by
  unfold allocOuts List.Nodup
  rw [List.pairwise_map]
  exact List.Pairwise.imp (fun h e => h (by simpa using e)) List.nodup_range

theorem mem_allocOuts {next n o : Nat} (h : o ∈ allocOuts next n) : next ≤ o ∧ o < next + n := by
  unfold allocOuts at h
  obtain ⟨k, hk, rfl⟩ := List.mem_map.1 h
  have := List.mem_range.1 hk
  omega

/-- instance values are registered as singletons only (a scoped or transient instance value would be
tracked anew by every scope that resolves it; such a value is not created by the container) -/
def InstSingleton (descs : List Desc) : Prop := ∀ d ∈ descs, ∀ v, d.kind = .inst v → d.life = .singleton

/-! ### resolution keeps the ledger -/

theorem ledger_frame (beh : Beh) : ∀ fuel,
    (∀ st s ty key, WF st.descs → InstSingleton st.descs → Ledger st → s < st.nscopes →
      LStep st (resolve beh fuel st s ty key).1) ∧
    (∀ st s d, WF st.descs → InstSingleton st.descs → Ledger st → s < st.nscopes → d ∈ st.descs →
      LStep st (resolveDesc beh fuel st s d).1) ∧
    (∀ st s ty grp, WF st.descs → InstSingleton st.descs → Ledger st → s < st.nscopes →
      LStep st (getGroup beh fuel st s ty grp).1) ∧
    (∀ st s ds acc, WF st.descs → InstSingleton st.descs → Ledger st → s < st.nscopes → (∀ d ∈ ds, d ∈ st.descs) →
      LStep st (resolveMembers beh fuel st s ds acc).1) ∧
    (∀ st s deps acc, WF st.descs → InstSingleton st.descs → Ledger st → s < st.nscopes →
      LStep st (buildArgs beh fuel st s deps acc).1) ∧
    (∀ st s d, WF st.descs → InstSingleton st.descs → Ledger st → s < st.nscopes → d ∈ st.descs →
      d.life ≠ .singleton → LStep st (createInstance beh fuel st s d).1) := by
  intro fuel
  induction fuel with
  | zero =>
    refine ⟨?_, ?_, ?_, ?_, ?_, ?_⟩ <;> intros <;>
      simp [resolve, resolveDesc, getGroup, resolveMembers, buildArgs, createInstance] <;> apply LStep.refl <;> assumption
  | succ f ih =>
    obtain ⟨ihR, ihD, ihG, ihM, ihA, ihC⟩ := ih
    refine ⟨?_, ?_, ?_, ?_, ?_, ?_⟩
    · intro st s ty key wf is L hs
      unfold resolve
      split; · exact LStep.refl L
      split; · exact LStep.refl L
      split; · exact LStep.refl L
      split; · exact LStep.refl L
      split
      · exact LStep.refl L
      next d hd => exact ihD st s d wf is L hs (findService_mem hd)
    · intro st s d wf is L hs hd
      unfold resolveDesc
      split
      · split <;> exact LStep.refl L
      next hl =>
        split
        · exact LStep.refl L
        · exact LStep.refl L
        · exact ihC st s d wf is L hs hd (by rw [hl]; simp)
      next hl => exact ihC st s d wf is L hs hd (by rw [hl]; simp)
    · intro st s ty grp wf is L hs
      unfold getGroup
      split; · exact LStep.refl L
      exact ihM st s _ [] wf is L hs (fun d hd => groupMembers_mem hd)
    · intro st s ds acc wf is L hs hds
      cases ds with
      | nil => unfold resolveMembers; exact LStep.refl L
      | cons d rest =>
        unfold resolveMembers
        have h1 := ihD st s d wf is L hs (hds d (by simp))
        have e1 := (frame beh f).2.1 st s d wf (hds d (by simp))
        have wf1 : WF (resolveDesc beh f st s d).1.descs := by rw [e1.descs]; exact wf
        have is1 : InstSingleton (resolveDesc beh f st s d).1.descs := by rw [e1.descs]; exact is
        have hs1 : s < (resolveDesc beh f st s d).1.nscopes := by rw [e1.nscopes]; exact hs
        have hrest : ∀ x ∈ rest, x ∈ (resolveDesc beh f st s d).1.descs := by
          intro x hx; rw [e1.descs]; exact hds x (List.mem_cons_of_mem _ hx)
        simp only []
        split
        · exact h1.trans (ihM _ s rest _ wf1 is1 h1.ledger hs1 hrest)
        · exact h1.trans (ihM _ s rest _ wf1 is1 h1.ledger hs1 hrest)
        · exact h1
    · intro st s deps acc wf is L hs
      cases deps with
      | nil => unfold buildArgs; exact LStep.refl L
      | cons dep rest =>
        unfold buildArgs
        simp only []
        generalize hr : (if dep.grp != 0 then getGroup beh f st s dep.ty dep.grp
            else resolve beh f st s dep.ty dep.key) = r
        have h1 : LStep st r.1 ∧ Ext st r.1 s := by
          rw [← hr]
          split
          · exact ⟨ihG st s _ _ wf is L hs, (frame beh f).2.2.1 st s _ _ wf⟩
          · exact ⟨ihR st s _ _ wf is L hs, (frame beh f).1 st s _ _ wf⟩
        obtain ⟨h1, e1⟩ := h1
        have wf1 : WF r.1.descs := by rw [e1.descs]; exact wf
        have is1 : InstSingleton r.1.descs := by rw [e1.descs]; exact is
        have hs1 : s < r.1.nscopes := by rw [e1.nscopes]; exact hs
        split
        · exact h1.trans (ihA r.1 s rest _ wf1 is1 h1.ledger hs1)
        · split
          · exact h1.trans (ihA r.1 s rest _ wf1 is1 h1.ledger hs1)
          · exact h1
    · intro st s d wf is L hs hd hl
      unfold createInstance
      split
      next v hk => exact absurd (is d hd v hk) hl
      next hk =>
        simp only []
        have hA := ihA st s d.deps [] wf is L hs
        have eA := (frame beh f).2.2.2.2.1 st s d.deps [] wf
        generalize buildArgs beh f st s d.deps [] = ra at hA eA
        split
        · exact hA
        next args _ =>
          have h2 := hA.trans (lstep_bumpInv ra.1 hA.ledger d.ctor)
          have hs2 : s < (bumpInv ra.1 d.ctor).nscopes := by show s < ra.1.nscopes; rw [eA.nscopes]; exact hs
          have hd2 : (bumpInv ra.1 d.ctor).descs = st.descs := eA.descs
          have hsibs : ∀ sd ∈ d.sibs.filterMap (findDesc (bumpInv ra.1 d.ctor).descs), sd.life ≠ .singleton := by
            intro sd hsd
            obtain ⟨sid, hsid, hf⟩ := List.mem_filterMap.1 hsd
            rw [hd2] at hf
            rw [wf.sibLife d hd sid hsid sd hf]; exact hl
          split
          · exact h2.trans (lstep_logFail _ h2.ledger _ _ _ _ _)
          · exact h2.trans (lstep_logFail _ h2.ledger _ _ _ _ _)
          · exact h2.trans (lstep_logFail _ h2.ledger _ _ _ _ _)
          · split
            · -- void
              have h3 := h2.trans (lstep_logCtor _ h2.ledger d.id d.ctor ((bumpInv ra.1 d.ctor).invs d.ctor) s args [])
              exact h3.trans (setInstance_ns_other _ h3.ledger s d d.ident .unit (fun i h => by cases h) hl)
            · -- multi
              have h0 : ∀ sd ∈ (if (d.sibs.filterMap (findDesc (bumpInv ra.1 d.ctor).descs)).isEmpty then [d]
                  else d.sibs.filterMap (findDesc (bumpInv ra.1 d.ctor).descs)), sd.life ≠ .singleton := by
                split
                · intro sd hsd; simp at hsd; subst hsd; exact hl
                · exact hsibs
              have hmulti : ∀ (sibs' sibs0 : List Desc) (nil? : Option Nat), (∀ sd ∈ sibs', sd.life ≠ .singleton) →
                  LStep st (markAbsent (storeOuts
                    (logEv (alloc (bumpInv ra.1 d.ctor) sibs'.length d.ctor ((bumpInv ra.1 d.ctor).invs d.ctor))
                      (.ctor d.id d.ctor ((bumpInv ra.1 d.ctor).invs d.ctor) s args
                        (allocOuts (bumpInv ra.1 d.ctor).next sibs'.length)))
                    s sibs' (allocOuts (bumpInv ra.1 d.ctor).next sibs'.length)).1 s sibs0 nil?) := by
                intro sibs' sibs0 nil? hlife'
                have h3a := lstep_alloc _ h2.ledger sibs'.length d.ctor ((bumpInv ra.1 d.ctor).invs d.ctor)
                have h3 := h3a.trans (lstep_logCtor _ h3a.ledger d.id d.ctor ((bumpInv ra.1 d.ctor).invs d.ctor) s args
                  (allocOuts (bumpInv ra.1 d.ctor).next sibs'.length))
                have hfr : ∀ o ∈ allocOuts (bumpInv ra.1 d.ctor).next sibs'.length,
                    Fresh (logEv (alloc (bumpInv ra.1 d.ctor) sibs'.length d.ctor ((bumpInv ra.1 d.ctor).invs d.ctor))
                      (.ctor d.id d.ctor ((bumpInv ra.1 d.ctor).invs d.ctor) s args
                        (allocOuts (bumpInv ra.1 d.ctor).next sibs'.length))) o ∧
                    o < (logEv (alloc (bumpInv ra.1 d.ctor) sibs'.length d.ctor ((bumpInv ra.1 d.ctor).invs d.ctor))
                      (.ctor d.id d.ctor ((bumpInv ra.1 d.ctor).invs d.ctor) s args
                        (allocOuts (bumpInv ra.1 d.ctor).next sibs'.length))).next := by
                  intro o ho
                  obtain ⟨lo, hi⟩ := mem_allocOuts ho
                  have hf2 := h2.ledger.fresh_of_ge lo
                  refine ⟨⟨hf2.1, ?_⟩, hi⟩
                  show closedCount ((bumpInv ra.1 d.ctor).log ++ [_]) o = 0
                  rw [closedCount_append, closedCount_ctor]; exact hf2.2
                obtain ⟨h4, _⟩ := storeOuts_lstep s sibs' (allocOuts (bumpInv ra.1 d.ctor).next sibs'.length) _ h3.ledger hs2
                  hlife' (allocOuts_nodup _ _) hfr
                exact ((h2.trans h3).trans h4).trans (lstep_markAbsent _ h4.ledger s sibs0 nil?)
              generalize (if (d.sibs.filterMap (findDesc (bumpInv ra.1 d.ctor).descs)).isEmpty then [d]
                  else d.sibs.filterMap (findDesc (bumpInv ra.1 d.ctor).descs)) = sibs0 at h0 ⊢
              cases hnf : beh.nilField d.ctor ((bumpInv ra.1 d.ctor).invs d.ctor) with
              | none => exact hmulti sibs0 sibs0 none h0
              | some k => exact hmulti (sibs0.eraseIdx k) sibs0 (some k) (fun sd hsd => h0 sd (List.mem_of_mem_eraseIdx hsd))
            · -- plain
              have h3a := lstep_alloc _ h2.ledger 1 d.ctor ((bumpInv ra.1 d.ctor).invs d.ctor)
              have h3 := h3a.trans (lstep_logCtor _ h3a.ledger d.id d.ctor ((bumpInv ra.1 d.ctor).invs d.ctor) s args
                [(bumpInv ra.1 d.ctor).next])
              have hf2 := h2.ledger.fresh_of_ge (Nat.le_refl (bumpInv ra.1 d.ctor).next)
              obtain ⟨h4, _, _, _, _⟩ := setInstance_ns_lstep
                (logEv (alloc (bumpInv ra.1 d.ctor) 1 d.ctor ((bumpInv ra.1 d.ctor).invs d.ctor))
                  (.ctor d.id d.ctor ((bumpInv ra.1 d.ctor).invs d.ctor) s args [(bumpInv ra.1 d.ctor).next]))
                h3.ledger s d d.ident (bumpInv ra.1 d.ctor).next hl hs2
                ⟨hf2.1, by
                  show closedCount ((bumpInv ra.1 d.ctor).log ++ [_]) _ = 0
                  rw [closedCount_append, closedCount_ctor]; exact hf2.2⟩
                (Nat.lt_succ_self _)
              have h34 := (h2.trans h3).trans h4
              split
              · exact h34
              · exact h34.trans (lstep_shareAll s d.id _ _ _ h4.ledger)

end Godi.Container

namespace Godi.Container

/-! ### draining a disposal list -/

theorem closedEv_logClosed (beh : Beh) (st : State) (o : Nat) (i : Inst) (ok : Bool) (owner : Nat) :
    closedEv beh (logClosed st o i ok) owner = closedEv beh st owner := rfl

/-- the drain loop is exactly "append one `closed` event per element" -/
theorem closeLoop_eq (beh : Beh) (owner : Nat) : ∀ (l : List Inst) (st : State),
    (closeLoop beh owner st l).1 = { st with log := st.log ++ l.map (closedEv beh st owner) } := by
  intro l
  induction l with
  | nil => intro st; simp [closeLoop]
  | cons i rest ih =>
    intro st
    unfold closeLoop
    simp only []
    rw [ih]
    simp only [closedEv_logClosed, List.map_cons]
    show ({ logClosed st owner i _ with log := (st.log ++ [_]) ++ _ } : State) = _
    simp only [List.append_assoc, List.singleton_append]
    rfl

theorem closedCount_map_closedEv (beh : Beh) (st : State) (owner : Nat) (l : List Inst) (j : Inst) :
    closedCount (l.map (closedEv beh st owner)) j = l.count j := by
  induction l with
  | nil => rfl
  | cons a rest ih =>
    have : closedCount ((a :: rest).map (closedEv beh st owner)) j =
        closedCount [closedEv beh st owner a] j + closedCount (rest.map (closedEv beh st owner)) j := by
      rw [← closedCount_append]; rfl
    rw [this, ih]
    unfold closedEv
    rw [closedCount_closed, List.count_cons]
    by_cases h : a = j
    · subst h; simp; omega
    · have : (a == j) = false := by simpa using h
      simp [h, this]

/-- general drain step: some disposal lists are emptied wholesale, every instance that was on them
gets exactly one `closed` event, nothing else changes -/
theorem drain_lstep {st st' : State} (L : Ledger st) (l : List Inst)
    (hS : ∀ x, dispOf st' x = dispOf st x ∨ (dispOf st' x = [] ∧ ∀ j ∈ dispOf st x, j ∈ l))
    (hP : provD st' = provD st ∨ (provD st' = [] ∧ ∀ j ∈ provD st, j ∈ l))
    (hl : ∀ j ∈ l, Tracked st j ∧ ¬ Tracked st' j)
    (hc : ∀ j, closedCount st'.log j = closedCount st.log j + (if j ∈ l then 1 else 0))
    (hn : st'.next = st.next) (hs : st'.nscopes = st.nscopes) : LStep st st' := by
  have subS : ∀ x j, j ∈ dispOf st' x → j ∈ dispOf st x := by
    intro x j hj
    rcases hS x with h | ⟨h, _⟩
    · rw [h] at hj; exact hj
    · rw [h] at hj; cases hj
  have subP : ∀ j, j ∈ provD st' → j ∈ provD st := by
    intro j hj
    rcases hP with h | ⟨h, _⟩
    · rw [h] at hj; exact hj
    · rw [h] at hj; cases hj
  have subT : ∀ j, Tracked st' j → Tracked st j := by
    rintro j (⟨x, hx⟩ | h)
    · exact Or.inl ⟨x, subS x j hx⟩
    · exact Or.inr (subP j h)
  have notl : ∀ j, Tracked st' j → j ∉ l := fun j ht hjl => (hl j hjl).2 ht
  refine ⟨⟨?_, ?_, ?_, ?_, ?_, ?_, ?_, ?_⟩, ?_⟩
  · intro x
    rcases hS x with h | ⟨h, _⟩
    · rw [h]; exact L.nodupS x
    · rw [h]; exact List.nodup_nil
  · rcases hP with h | ⟨h, _⟩
    · rw [h]; exact L.nodupP
    · rw [h]; exact List.nodup_nil
  · intro x x' j h1 h2; exact L.disjS x x' j (subS x j h1) (subS x' j h2)
  · intro x j h1 h2; exact L.disjP x j (subS x j h1) (subP j h2)
  · intro j ht
    rw [hc, if_neg (notl j ht), L.pending j (subT j ht)]
  · intro j
    rw [hc]
    by_cases hjl : j ∈ l
    · rw [if_pos hjl, L.pending j (hl j hjl).1]; exact Nat.le_refl _
    · rw [if_neg hjl]; exact L.once j
  · intro j hj
    rw [hn]
    rcases hj with ht | hcnt
    · exact L.known j (Or.inl (subT j ht))
    · by_cases hjl : j ∈ l
      · exact L.known j (Or.inl (hl j hjl).1)
      · rw [hc, if_neg hjl] at hcnt; exact L.known j (Or.inr hcnt)
  · intro x hx
    rw [hs] at hx
    rcases hS x with h | ⟨h, _⟩
    · rw [h]; exact L.pristine x hx
    · exact h
  · intro j hj
    unfold Owed at *
    by_cases hjl : j ∈ l
    · right; rw [hc, if_pos hjl, L.pending j (hl j hjl).1]
    · rw [hc, if_neg hjl]
      rcases hj with ht | hcnt
      · left
        rcases ht with ⟨x, hx⟩ | hp
        · rcases hS x with h | ⟨_, h⟩
          · exact Or.inl ⟨x, by rw [h]; exact hx⟩
          · exact absurd (h j hx) hjl
        · rcases hP with h | ⟨_, h⟩
          · exact Or.inr (by rw [h]; exact hp)
          · exact absurd (h j hp) hjl
      · exact Or.inr hcnt

theorem count_reverse_nodup {l : List Inst} (h : l.Nodup) (j : Inst) :
    l.reverse.count j = if j ∈ l then 1 else 0 := by
  rw [List.count_reverse]
  exact h.count

/-- `scope.Close` drains the scope's own list: every instance on it is closed exactly once -/
theorem drain_scope_lstep (beh : Beh) (st : State) (L : Ledger st) (s : Nat) :
    LStep st (closeLoop beh s (takeDisposables st s) (dispOf st s).reverse).1 := by
  rw [closeLoop_eq]
  apply drain_lstep L (dispOf st s)
  · intro x
    by_cases hx : x = s
    · subst hx
      right
      exact ⟨by unfold dispOf takeDisposables updScope; simp, fun j hj => hj⟩
    · left; unfold dispOf takeDisposables updScope; simp [hx]
  · left; rfl
  · intro j hj
    refine ⟨Or.inl ⟨s, hj⟩, ?_⟩
    rintro (⟨x, hx⟩ | hp)
    · by_cases hxs : x = s
      · subst hxs
        have : dispOf (takeDisposables st x) x = [] := by unfold dispOf takeDisposables updScope; simp
        change j ∈ dispOf (takeDisposables st x) x at hx
        rw [this] at hx; cases hx
      · have : dispOf (takeDisposables st s) x = dispOf st x := by unfold dispOf takeDisposables updScope; simp [hxs]
        change j ∈ dispOf (takeDisposables st s) x at hx
        rw [this] at hx
        exact hxs (L.disjS x s j hx hj)
    · exact L.disjP s j hj hp
  · intro j
    show closedCount (st.log ++ _) j = _
    rw [closedCount_append, closedCount_map_closedEv, count_reverse_nodup (L.nodupS s)]
  · rfl
  · rfl

/-- `provider.Close` drains the singleton list -/
theorem drain_provider_lstep (beh : Beh) (st : State) (L : Ledger st) :
    LStep st (closeLoop beh providerOwner { st with provDisposables := none } (provD st).reverse).1 := by
  rw [closeLoop_eq]
  apply drain_lstep L (provD st)
  · intro x; left; rfl
  · right; exact ⟨rfl, fun j hj => hj⟩
  · intro j hj
    refine ⟨Or.inr hj, ?_⟩
    rintro (⟨x, hx⟩ | hp)
    · exact L.disjP x j hx hj
    · cases hp
  · intro j
    show closedCount (st.log ++ _) j = _
    rw [closedCount_append, closedCount_map_closedEv, count_reverse_nodup L.nodupP]
  · rfl
  · rfl

/-! ### `Close` -/

theorem lstep_detach (st : State) (L : Ledger st) (s : Nat) : LStep st (detach st s) := by
  unfold detach
  apply LStep.same L
  · intro x
    show dispOf (match (st.scope s).parent with
      | some p => updScope st p (fun sc => { sc with children := sc.children.map (fun (l : List Nat) => List.erase l s) })
      | none => st) x = _
    split
    · exact dispOf_updScope st _ _ rfl x
    · rfl
  · show provD (match (st.scope s).parent with
      | some p => updScope st p (fun sc => { sc with children := sc.children.map (fun (l : List Nat) => List.erase l s) })
      | none => st) = _
    split <;> rfl
  · intro i
    show closedCount (match (st.scope s).parent with
      | some p => updScope st p (fun sc => { sc with children := sc.children.map (fun (l : List Nat) => List.erase l s) })
      | none => st).log i = _
    split <;> rfl
  · show st.next ≤ (match (st.scope s).parent with
      | some p => updScope st p (fun sc => { sc with children := sc.children.map (fun (l : List Nat) => List.erase l s) })
      | none => st).next
    split <;> exact Nat.le_refl _
  · show st.nscopes ≤ (match (st.scope s).parent with
      | some p => updScope st p (fun sc => { sc with children := sc.children.map (fun (l : List Nat) => List.erase l s) })
      | none => st).nscopes
    split <;> exact Nat.le_refl _

theorem ledger_close (beh : Beh) (order : List Nat → List Nat) : ∀ fuel,
    (∀ st s, Ledger st → LStep st (closeScope beh order fuel st s).1) ∧
    (∀ st l, Ledger st → LStep st (closeChildren beh order fuel st l).1) := by
  intro fuel
  induction fuel with
  | zero =>
    exact ⟨fun st s L => by simp [closeScope]; exact LStep.refl L, fun st l L => by simp [closeChildren]; exact LStep.refl L⟩
  | succ f ih =>
    obtain ⟨ihS, ihC⟩ := ih
    refine ⟨?_, ?_⟩
    · intro st s L
      unfold closeScope
      split
      · exact LStep.refl L
      · simp only []
        have h1 : LStep st (markDisposed st s) := lstep_updScope st L s _ rfl
        have h2 : LStep (markDisposed st s) (takeChildren (markDisposed st s) s) := lstep_updScope _ h1.ledger s _ rfl
        have h3 := ihC (takeChildren (markDisposed st s) s) (order ((st.scope s).children.getD [])) h2.ledger
        generalize closeChildren beh order f (takeChildren (markDisposed st s) s) (order ((st.scope s).children.getD [])) = r1 at h3
        have h4 := drain_scope_lstep beh r1.1 h3.ledger s
        have h4' : LStep r1.1 (closeLoop beh s (takeDisposables r1.1 s) ((r1.1.scope s).disposables.getD []).reverse).1 := h4
        generalize closeLoop beh s (takeDisposables r1.1 s) ((r1.1.scope s).disposables.getD []).reverse = r2 at h4'
        have h5 := lstep_detach r2.1 h4'.ledger s
        have h6 : LStep (detach r2.1 s) (dropInstances (detach r2.1 s) s) := lstep_updScope _ h5.ledger s _ rfl
        exact ((((h1.trans h2).trans h3).trans h4').trans h5).trans h6
    · intro st l L
      cases l with
      | nil => unfold closeChildren; exact LStep.refl L
      | cons c rest =>
        unfold closeChildren
        have h1 := ihS st c L
        exact h1.trans (ihC _ rest h1.ledger)

end Godi.Container

namespace Godi.Container

/-! ### scope creation and whole histories -/

theorem lstep_allocScope (st : State) (L : Ledger st) (parent : Option Nat) (ctx : Nat) :
    LStep st (allocScope st parent ctx) := by
  apply LStep.same L
  · intro x
    unfold dispOf allocScope
    by_cases hx : x = st.nscopes
    · subst hx
      have := L.pristine st.nscopes (Nat.le_refl _)
      unfold dispOf at this
      simp [this]
    · simp [hx]
  · rfl
  · intro _; rfl
  · exact Nat.le_refl _
  · exact Nat.le_succ _

theorem lstep_addProvScope (st : State) (L : Ledger st) (s : Nat) : LStep st (addProvScope st s) :=
  LStep.same L (fun _ => rfl) rfl (fun _ => rfl) (Nat.le_refl _) (Nat.le_refl _)

theorem lstep_addChild (st : State) (L : Ledger st) (p s : Nat) : LStep st (addChild st p s) :=
  lstep_updScope st L p _ rfl

theorem ledger_runInitializers (beh : Beh) (s : Nat) : ∀ (ids : List Nat) (st : State), WF st.descs →
    InstSingleton st.descs → Ledger st → s < st.nscopes →
    (∀ id ∈ ids, ∀ d, findDesc st.descs id = some d → d.life = .scoped) →
    LStep st (runInitializers beh st s ids).1 := by
  intro ids
  induction ids with
  | nil => intro st _ _ L _ _; exact LStep.refl L
  | cons id rest ih =>
    intro st wf is L hs hi
    unfold runInitializers
    split
    · exact ih st wf is L hs (fun x hx => hi x (List.mem_cons_of_mem _ hx))
    next d hd =>
      have hl : d.life ≠ .singleton := by rw [hi id (by simp) d hd]; simp
      have h1 := (ledger_frame beh (fuelFor st)).2.2.2.2.2 st s d wf is L hs (findDesc_mem hd) hl
      have e1 := (frame beh (fuelFor st)).2.2.2.2.2 st s d wf (findDesc_mem hd) hl
      simp only []
      split
      · refine h1.trans (ih _ (by rw [e1.descs]; exact wf) (by rw [e1.descs]; exact is) h1.ledger
          (by rw [e1.nscopes]; exact hs) ?_)
        rw [e1.descs]; exact fun x hx => hi x (List.mem_cons_of_mem _ hx)
      · exact h1

theorem ledger_newScope (beh : Beh) (st : State) (parent : Option Nat) (ctx : Nat) (ri : Bool)
    (wf : WF st.descs) (is : InstSingleton st.descs) (i : InitOK st) (L : Ledger st) :
    LStep st (newScope beh st parent ctx ri).1 := by
  unfold newScope
  simp only []
  have h0 := lstep_allocScope st L parent ctx
  split
  · have h1 := ledger_runInitializers beh st.nscopes (allocScope st parent ctx).initializers (allocScope st parent ctx)
      wf is h0.ledger (Nat.lt_succ_self _) i
    split
    · exact h0.trans h1
    · exact (h0.trans h1).trans ((ledger_close beh id _).1 _ _ h1.ledger)
  · exact h0

theorem ledger_providerCreateScope (beh : Beh) (st : State) (ctx : Nat) (wf : WF st.descs)
    (is : InstSingleton st.descs) (i : InitOK st) (L : Ledger st) : LStep st (providerCreateScope beh st ctx).1 := by
  unfold providerCreateScope
  split
  · exact LStep.refl L
  · have h1 := ledger_newScope beh st none ctx true wf is i L
    simp only []
    split
    · exact h1
    · split
      · exact h1.trans ((ledger_close beh id _).1 _ _ h1.ledger)
      · exact h1.trans (lstep_addProvScope _ h1.ledger _)

theorem ledger_scopeCreateScope (beh : Beh) (st : State) (p ctx : Nat) (wf : WF st.descs)
    (is : InstSingleton st.descs) (i : InitOK st) (L : Ledger st) : LStep st (scopeCreateScope beh st p ctx).1 := by
  unfold scopeCreateScope
  split
  · exact LStep.refl L
  · have h1 := ledger_newScope beh st (some p) ctx true wf is i L
    simp only []
    split
    · exact h1
    · split
      · exact h1.trans ((ledger_close beh id _).1 _ _ h1.ledger)
      next s _ _ =>
        have h2 := h1.trans (lstep_addChild _ h1.ledger p s)
        split
        · exact h2.trans ((ledger_close beh id _).1 _ _ h2.ledger)
        · exact h2.trans (lstep_addProvScope _ h2.ledger _)

/-- the scope ids an operation mentions exist -/
def validOpL (st : State) : Op → Prop
  | .get (some s) _ _ => s < st.nscopes
  | .get none _ _ => 0 < st.nscopes
  | .getGroup (some s) _ _ => s < st.nscopes
  | .getGroup none _ _ => 0 < st.nscopes
  | .createScope _ _ => True
  | .closeScope _ _ => True

def ValidHistL (beh : Beh) : State → List Op → Prop
  | _, [] => True
  | st, op :: rest => validOpL st op ∧ ValidHistL beh (stepOp beh st op) rest

theorem ledger_stepOp (beh : Beh) (st : State) (op : Op) (wf : WF st.descs) (is : InstSingleton st.descs)
    (i : InitOK st) (L : Ledger st) (hv : validOpL st op) : LStep st (stepOp beh st op) := by
  cases op with
  | get s ty key =>
    cases s with
    | none =>
      show LStep st (providerGet beh st ty key).1
      unfold providerGet; split
      · exact LStep.refl L
      · exact (ledger_frame beh _).1 st rootScope ty key wf is L hv
    | some s => exact (ledger_frame beh _).1 st s ty key wf is L hv
  | getGroup s ty grp =>
    cases s with
    | none =>
      show LStep st (providerGetGroup beh st ty grp).1
      unfold providerGetGroup; split
      · exact LStep.refl L
      · exact (ledger_frame beh _).2.2.1 st rootScope ty grp wf is L hv
    | some s => exact (ledger_frame beh _).2.2.1 st s ty grp wf is L hv
  | createScope p ctx =>
    cases p with
    | none => exact ledger_providerCreateScope beh st ctx wf is i L
    | some p => exact ledger_scopeCreateScope beh st p ctx wf is i L
  | closeScope s order => exact (ledger_close beh order _).1 st s L

/-- THE LEDGER OVER HISTORIES: after any history of resolutions, scope creations and closes (with
constructors and Close methods failing wherever they like) the ledger invariant holds and nothing
that was owed at any earlier point has been forgotten -/
theorem ledger_run (beh : Beh) : ∀ (ops : List Op) (st : State), WF st.descs → InstSingleton st.descs → InitOK st →
    Ledger st → ValidHistL beh st ops → LStep st (run beh st ops) := by
  intro ops
  induction ops with
  | nil => intro st _ _ _ L _; exact LStep.refl L
  | cons op rest ih =>
    intro st wf is i L hv
    have h1 := ledger_stepOp beh st op wf is i L hv.1
    have s1 := stepOp_stable beh st op wf i
    exact h1.trans (ih _ (s1.wf wf) (by rw [s1.descs]; exact is) (s1.initOK i) h1.ledger hv.2)

/-- `Provider.Close` keeps the ledger and forgets nothing -/
theorem ledger_closeProvider (beh : Beh) (order : List Nat → List Nat) (st : State) (L : Ledger st) :
    LStep st (closeProvider beh order st).1 := by
  unfold closeProvider
  split
  · exact LStep.refl L
  · simp only []
    have h0 : LStep st { st with disposed := true, provScopes := none } :=
      LStep.same L (fun _ => rfl) rfl (fun _ => rfl) (Nat.le_refl _) (Nat.le_refl _)
    have h1 := (ledger_close beh order (closeFuel { st with disposed := true, provScopes := none } +
      (order (st.provScopes.getD [])).length + 2)).2 { st with disposed := true, provScopes := none }
      (order (st.provScopes.getD [])) h0.ledger
    generalize closeChildren beh order _ { st with disposed := true, provScopes := none } (order (st.provScopes.getD [])) = r1 at h1
    have h2 := (ledger_close beh order (closeFuel r1.1)).1 r1.1 rootScope h1.ledger
    generalize closeScope beh order (closeFuel r1.1) r1.1 rootScope = r2 at h2
    have h3 := drain_provider_lstep beh r2.1 h2.ledger
    have h3' : LStep r2.1 (closeLoop beh providerOwner { r2.1 with provDisposables := none }
      (r2.1.provDisposables.getD []).reverse).1 := h3
    generalize closeLoop beh providerOwner { r2.1 with provDisposables := none } (r2.1.provDisposables.getD []).reverse = r3 at h3'
    have h4 : LStep r3.1 { r3.1 with singletons := [], initializers := [] } :=
      LStep.same h3'.ledger (fun _ => rfl) rfl (fun _ => rfl) (Nat.le_refl _) (Nat.le_refl _)
    exact (((h0.trans h1).trans h2).trans h3').trans h4

end Godi.Container

namespace Godi.Container

/-! ### resolution never touches an instance that existed before (`OldSame`) -/

/-- ids handed out before the step are neither (un)listed nor closed by it -/
structure OldSame (st st' : State) : Prop where
  next : st.next ≤ st'.next
  same : ∀ j, j < st.next → (Tracked st' j ↔ Tracked st j) ∧ closedCount st'.log j = closedCount st.log j

theorem OldSame.refl (st : State) : OldSame st st := ⟨Nat.le_refl _, fun _ _ => ⟨Iff.rfl, rfl⟩⟩
theorem OldSame.trans {a b c : State} (h1 : OldSame a b) (h2 : OldSame b c) : OldSame a c :=
  ⟨Nat.le_trans h1.next h2.next, fun j hj => by
    obtain ⟨x1, y1⟩ := h1.same j hj
    obtain ⟨x2, y2⟩ := h2.same j (Nat.lt_of_lt_of_le hj h1.next)
    exact ⟨x2.trans x1, y2.trans y1⟩⟩

/-- all instances are left alone -/
def AllSame (st st' : State) : Prop :=
  ∀ j, (Tracked st' j ↔ Tracked st j) ∧ closedCount st'.log j = closedCount st.log j

theorem AllSame.refl (st : State) : AllSame st st := fun _ => ⟨Iff.rfl, rfl⟩
theorem AllSame.trans {a b c : State} (h1 : AllSame a b) (h2 : AllSame b c) : AllSame a c :=
  fun j => ⟨(h2 j).1.trans (h1 j).1, (h2 j).2.trans (h1 j).2⟩
theorem AllSame.old {st st' : State} (h : AllSame st st') (hn : st.next ≤ st'.next) : OldSame st st' :=
  ⟨hn, fun j _ => h j⟩

theorem allSame_of_fields {st st' : State} (hd : ∀ s, dispOf st' s = dispOf st s) (hp : provD st' = provD st)
    (hl : ∀ i, closedCount st'.log i = closedCount st.log i) : AllSame st st' := by
  intro j
  refine ⟨?_, hl j⟩
  unfold Tracked; simp only [hd, hp]

theorem allSame_putInstance (st : State) (s : Nat) (k : Ident) (v : Val) : AllSame st (putInstance st s k v) :=
  allSame_of_fields (dispOf_updScope st s _ rfl) rfl (fun _ => rfl)

theorem allSame_shareInstance (st : State) (s : Nat) (d : Desc) (k : Ident) (v : Val) :
    AllSame st (shareInstance st s d k v) ∧ (shareInstance st s d k v).next = st.next := by
  unfold shareInstance
  split
  · exact ⟨allSame_of_fields (fun _ => rfl) rfl (fun _ => rfl), rfl⟩
  · exact ⟨allSame_putInstance st s k v, rfl⟩
  · exact ⟨AllSame.refl st, rfl⟩

theorem allSame_shareAll (s self : Nat) (v : Val) : ∀ (sibs : List Desc) (st : State),
    AllSame st (shareAll st s self sibs v) ∧ (shareAll st s self sibs v).next = st.next := by
  intro sibs
  induction sibs with
  | nil => intro st; exact ⟨AllSame.refl st, rfl⟩
  | cons d ds ih =>
    intro st
    unfold shareAll
    simp only [List.foldl_cons]
    have hrest := fun st' => ih st'
    unfold shareAll at hrest
    split
    · exact hrest st
    · obtain ⟨a1, n1⟩ := allSame_shareInstance st s d d.ident v
      obtain ⟨a2, n2⟩ := hrest (shareInstance st s d d.ident v)
      exact ⟨a1.trans a2, n2.trans n1⟩

theorem allSame_markAbsent (st : State) (s : Nat) (sibs0 : List Desc) (nil? : Option Nat) :
    AllSame st (markAbsent st s sibs0 nil?) ∧ (markAbsent st s sibs0 nil?).next = st.next := by
  unfold markAbsent
  split
  · split
    · exact allSame_shareInstance st s _ _ _
    · exact ⟨AllSame.refl st, rfl⟩
  · exact ⟨AllSame.refl st, rfl⟩

theorem untouched_of_allSame {st st' : State} (h : AllSame st st') (i : Inst) : Untouched st st' i := fun j _ => h j

theorem Untouched.trans_all {a b c : State} {i : Inst} (h1 : AllSame a b) (h2 : Untouched b c i) : Untouched a c i :=
  fun j hj => ⟨(h2 j hj).1.trans (h1 j).1, (h2 j hj).2.trans (h1 j).2⟩

theorem Untouched.trans_all' {a b c : State} {i : Inst} (h1 : Untouched a b i) (h2 : AllSame b c) : Untouched a c i :=
  fun j hj => ⟨(h2 j).1.trans (h1 j hj).1, (h2 j).2.trans (h1 j hj).2⟩

/-- `track` touches the tracked instance only (no hypothesis about the ledger) -/
theorem track_untouched (st : State) (s : Nat) (i : Inst) (disp : Bool) :
    Untouched st (track st s (.inst i) disp).1 i ∧ (track st s (.inst i) disp).1.next = st.next := by
  unfold track
  simp only []
  by_cases hdsp : (st.scope s).disposed = true
  · simp only [hdsp, ↓reduceIte]
    cases disp with
    | false => simp only [Bool.false_eq_true, ↓reduceIte]; exact ⟨fun j _ => ⟨Iff.rfl, rfl⟩, by trivial⟩
    | true =>
      simp only [↓reduceIte]
      refine ⟨fun j hj => ⟨Iff.rfl, ?_⟩, rfl⟩
      show closedCount (st.log ++ [_]) j = _
      rw [closedCount_append, closedCount_closed]; simp [Ne.symm hj]
  · have hdsp' : (st.scope s).disposed = false := by simpa using hdsp
    simp only [hdsp', Bool.false_eq_true, ↓reduceIte]
    cases disp with
    | false => simp only [Bool.false_eq_true, ↓reduceIte]; exact ⟨fun j _ => ⟨Iff.rfl, rfl⟩, by trivial⟩
    | true =>
      simp only [↓reduceIte]
      refine ⟨fun j hj => ⟨?_, rfl⟩, rfl⟩
      have hm := mem_dispOf_append st s i
      unfold Tracked
      constructor
      · rintro (⟨x, hx⟩ | h)
        · rcases (hm x j).1 hx with h | ⟨_, h⟩
          · exact Or.inl ⟨x, h⟩
          · exact absurd h hj
        · exact Or.inr h
      · rintro (⟨x, hx⟩ | h)
        · exact Or.inl ⟨x, (hm x j).2 (Or.inl hx)⟩
        · exact Or.inr h

/-- `setInstance` of an instance value, any lifetime: only that instance is touched -/
theorem setInstance_untouched (st : State) (s : Nat) (d : Desc) (k : Ident) (i : Inst) :
    Untouched st (setInstance st s d k (.inst i)).1 i ∧ (setInstance st s d k (.inst i)).1.next = st.next := by
  unfold setInstance
  split
  · simp only []
    split
    · refine ⟨fun j hj => ⟨?_, rfl⟩, rfl⟩
      unfold Tracked provD storeSingleton
      simp only [Option.getD_some, List.mem_append, List.mem_singleton]
      constructor
      · rintro (h | h | h)
        · exact Or.inl h
        · exact Or.inr h
        · exact absurd h hj
      · rintro (h | h)
        · exact Or.inl h
        · exact Or.inr (Or.inl h)
    · exact ⟨fun j _ => ⟨Iff.rfl, rfl⟩, rfl⟩
  · obtain ⟨u, n⟩ := track_untouched (putInstance st s k (.inst i)) s i d.disp
    exact ⟨Untouched.trans_all (allSame_putInstance st s k _) u, n⟩
  · exact track_untouched st s i d.disp

theorem setInstance_other_allSame (st : State) (s : Nat) (d : Desc) (k : Ident) (v : Val) (hv : ∀ i, v ≠ .inst i) :
    AllSame st (setInstance st s d k v).1 ∧ (setInstance st s d k v).1.next = st.next := by
  unfold setInstance
  split
  · cases v with
    | inst i => exact absurd rfl (hv i)
    | _ => exact ⟨allSame_of_fields (fun _ => rfl) rfl (fun _ => rfl), rfl⟩
  · rw [track_other _ s v d.disp hv]; exact ⟨allSame_putInstance st s k v, rfl⟩
  · rw [track_other _ s v d.disp hv]; exact ⟨AllSame.refl st, rfl⟩

/-- `storeOuts` touches its outputs only -/
theorem storeOuts_untouched (s : Nat) : ∀ (sibs : List Desc) (outs : List Inst) (st : State),
    (∀ j, j ∉ outs → (Tracked (storeOuts st s sibs outs).1 j ↔ Tracked st j) ∧
      closedCount (storeOuts st s sibs outs).1.log j = closedCount st.log j) ∧
    (storeOuts st s sibs outs).1.next = st.next := by
  intro sibs
  induction sibs with
  | nil => intro outs st; unfold storeOuts; exact ⟨fun _ _ => ⟨Iff.rfl, rfl⟩, rfl⟩
  | cons d ds ih =>
    intro outs st
    cases outs with
    | nil => unfold storeOuts; exact ⟨fun _ _ => ⟨Iff.rfl, rfl⟩, rfl⟩
    | cons o os =>
      unfold storeOuts
      simp only []
      obtain ⟨u1, n1⟩ := setInstance_untouched st s d d.ident o
      obtain ⟨u2, n2⟩ := ih os (setInstance st s d d.ident (.inst o)).1
      refine ⟨?_, n2.trans n1⟩
      intro j hj
      have hjo : j ≠ o := fun e => hj (by rw [e]; simp)
      have hjos : j ∉ os := fun h => hj (List.mem_cons_of_mem _ h)
      exact ⟨(u2 j hjos).1.trans (u1 j hjo).1, (u2 j hjos).2.trans (u1 j hjo).2⟩

theorem allSame_bumpInv (st : State) (c : Nat) : AllSame st (bumpInv st c) := fun _ => ⟨Iff.rfl, rfl⟩
theorem allSame_alloc (st : State) (k c n : Nat) : AllSame st (alloc st k c n) := fun _ => ⟨Iff.rfl, rfl⟩
theorem allSame_logCtor (st : State) (d c inv s : Nat) (a : List Val) (o : List Inst) :
    AllSame st (logEv st (.ctor d c inv s a o)) := fun j => ⟨Iff.rfl, by
  show closedCount (st.log ++ [_]) j = _
  rw [closedCount_append, closedCount_ctor]; rfl⟩
theorem allSame_logFail (st : State) (d c inv s : Nat) (how : Outcome) :
    AllSame st (logEv st (.ctorFail d c inv s how)) := fun j => ⟨Iff.rfl, by
  show closedCount (st.log ++ [_]) j = _
  rw [closedCount_append, closedCount_ctorFail]; rfl⟩

/-- what `createInstance` does after the arguments are built — invocation counter, constructor
outcome, allocation of fresh ids, storing them — leaves alone every id below the counter it started
from; for every lifetime (`hk`: not an instance value) -/
theorem create_tail_old (beh : Beh) (f : Nat) (st : State) (s : Nat) (d : Desc) (hk : ∀ v, d.kind ≠ .inst v)
    (hA : OldSame st (buildArgs beh f st s d.deps []).1) :
    OldSame st (createInstance beh (f + 1) st s d).1 := by
  unfold createInstance
  split
  next v hkv => exact absurd hkv (hk v)
  · simp only []
    generalize buildArgs beh f st s d.deps [] = ra at hA
    split
    · exact hA
    next args _ =>
      have h2 : OldSame st (bumpInv ra.1 d.ctor) := hA.trans ((allSame_bumpInv ra.1 d.ctor).old (Nat.le_refl _))
      split
      · exact h2.trans ((allSame_logFail _ _ _ _ _ _).old (Nat.le_refl _))
      · exact h2.trans ((allSame_logFail _ _ _ _ _ _).old (Nat.le_refl _))
      · exact h2.trans ((allSame_logFail _ _ _ _ _ _).old (Nat.le_refl _))
      · split
        · -- void
          obtain ⟨a, n⟩ := setInstance_other_allSame
            (logEv (bumpInv ra.1 d.ctor) (.ctor d.id d.ctor ((bumpInv ra.1 d.ctor).invs d.ctor) s args [])) s d d.ident .unit
            (fun i h => by cases h)
          exact (h2.trans ((allSame_logCtor _ _ _ _ _ _ _).old (Nat.le_refl _))).trans (a.old (Nat.le_of_eq n.symm))
        · -- multi
          have hmulti : ∀ (sibs' sibs0 : List Desc) (nil? : Option Nat), OldSame st (markAbsent (storeOuts
              (logEv (alloc (bumpInv ra.1 d.ctor) sibs'.length d.ctor ((bumpInv ra.1 d.ctor).invs d.ctor))
                (.ctor d.id d.ctor ((bumpInv ra.1 d.ctor).invs d.ctor) s args
                  (allocOuts (bumpInv ra.1 d.ctor).next sibs'.length)))
              s sibs' (allocOuts (bumpInv ra.1 d.ctor).next sibs'.length)).1 s sibs0 nil?) := by
            intro sibs' sibs0 nil?
            refine OldSame.trans ?_ ((allSame_markAbsent _ s sibs0 nil?).1.old (Nat.le_of_eq (allSame_markAbsent _ s sibs0 nil?).2.symm))
            obtain ⟨u, n⟩ := storeOuts_untouched s sibs' (allocOuts (bumpInv ra.1 d.ctor).next sibs'.length)
              (logEv (alloc (bumpInv ra.1 d.ctor) sibs'.length d.ctor ((bumpInv ra.1 d.ctor).invs d.ctor))
                (.ctor d.id d.ctor ((bumpInv ra.1 d.ctor).invs d.ctor) s args
                  (allocOuts (bumpInv ra.1 d.ctor).next sibs'.length)))
            have h3 : OldSame st (logEv (alloc (bumpInv ra.1 d.ctor) sibs'.length d.ctor ((bumpInv ra.1 d.ctor).invs d.ctor))
                (.ctor d.id d.ctor ((bumpInv ra.1 d.ctor).invs d.ctor) s args
                  (allocOuts (bumpInv ra.1 d.ctor).next sibs'.length))) :=
              (h2.trans ((allSame_alloc _ _ _ _).old (Nat.le_add_right _ _))).trans
                ((allSame_logCtor _ _ _ _ _ _ _).old (Nat.le_refl _))
            refine ⟨Nat.le_trans h3.next (Nat.le_of_eq n.symm), ?_⟩
            intro j hj
            have hjn : j ∉ allocOuts (bumpInv ra.1 d.ctor).next sibs'.length := by
              intro hm
              exact Nat.lt_irrefl _ (Nat.lt_of_lt_of_le hj (Nat.le_trans h2.next (mem_allocOuts hm).1))
            obtain ⟨x1, y1⟩ := h3.same j hj
            obtain ⟨x2, y2⟩ := u j hjn
            exact ⟨x2.trans x1, y2.trans y1⟩
          generalize (if (d.sibs.filterMap (findDesc (bumpInv ra.1 d.ctor).descs)).isEmpty then [d]
              else d.sibs.filterMap (findDesc (bumpInv ra.1 d.ctor).descs)) = sibs0
          cases beh.nilField d.ctor ((bumpInv ra.1 d.ctor).invs d.ctor) with
          | none => exact hmulti sibs0 sibs0 none
          | some k => exact hmulti (sibs0.eraseIdx k) sibs0 (some k)
        · -- plain
          have h3 : OldSame st (logEv (alloc (bumpInv ra.1 d.ctor) 1 d.ctor ((bumpInv ra.1 d.ctor).invs d.ctor))
              (.ctor d.id d.ctor ((bumpInv ra.1 d.ctor).invs d.ctor) s args [(bumpInv ra.1 d.ctor).next])) :=
            (h2.trans ((allSame_alloc _ _ _ _).old (Nat.le_add_right _ _))).trans
              ((allSame_logCtor _ _ _ _ _ _ _).old (Nat.le_refl _))
          obtain ⟨u, n⟩ := setInstance_untouched
            (logEv (alloc (bumpInv ra.1 d.ctor) 1 d.ctor ((bumpInv ra.1 d.ctor).invs d.ctor))
              (.ctor d.id d.ctor ((bumpInv ra.1 d.ctor).invs d.ctor) s args [(bumpInv ra.1 d.ctor).next])) s d d.ident
            (bumpInv ra.1 d.ctor).next
          have h4 : OldSame st (setInstance
              (logEv (alloc (bumpInv ra.1 d.ctor) 1 d.ctor ((bumpInv ra.1 d.ctor).invs d.ctor))
                (.ctor d.id d.ctor ((bumpInv ra.1 d.ctor).invs d.ctor) s args [(bumpInv ra.1 d.ctor).next])) s d d.ident
              (.inst (bumpInv ra.1 d.ctor).next)).1 := by
            refine ⟨Nat.le_trans h3.next (Nat.le_of_eq n.symm), ?_⟩
            intro j hj
            have hjn : j ≠ (bumpInv ra.1 d.ctor).next := by
              intro e; rw [e] at hj
              exact Nat.lt_irrefl _ (Nat.lt_of_lt_of_le hj h2.next)
            obtain ⟨x1, y1⟩ := h3.same j hj
            obtain ⟨x2, y2⟩ := u j hjn
            exact ⟨x2.trans x1, y2.trans y1⟩
          split
          · exact h4
          · obtain ⟨a, n2⟩ := allSame_shareAll s d.id (.inst (bumpInv ra.1 d.ctor).next)
              (d.sibs.filterMap (findDesc (bumpInv ra.1 d.ctor).descs)) _
            exact h4.trans (a.old (Nat.le_of_eq n2.symm))

/-- materialising a registered instance value touches that value only -/
theorem create_inst_untouched (beh : Beh) (f : Nat) (st : State) (s : Nat) (d : Desc) (v : Inst) (hk : d.kind = .inst v) :
    Untouched st (createInstance beh (f + 1) st s d).1 v ∧ (createInstance beh (f + 1) st s d).1.next = st.next := by
  unfold createInstance
  split
  next v' hk' =>
    have : v' = v := by rw [hk] at hk'; injection hk' with h; exact h.symm
    subst this
    simp only []
    obtain ⟨u1, n1⟩ := setInstance_untouched st s d d.ident v'
    split
    · exact ⟨u1, n1⟩
    · obtain ⟨a, n2⟩ := allSame_shareAll s d.id (.inst v') (d.sibs.filterMap (findDesc st.descs))
        (setInstance st s d d.ident (.inst v')).1
      exact ⟨Untouched.trans_all' u1 a, n2.trans n1⟩
  next hne => exact absurd hk (hne v)

/-- RESOLUTION LEAVES EXISTING INSTANCES ALONE: nothing that was handed out before is listed,
unlisted or closed by a resolution (scoped and transient registrations are constructor-registered) -/
theorem old_frame (beh : Beh) : ∀ fuel,
    (∀ st s ty key, WF st.descs → InstSingleton st.descs → OldSame st (resolve beh fuel st s ty key).1) ∧
    (∀ st s d, WF st.descs → InstSingleton st.descs → d ∈ st.descs → OldSame st (resolveDesc beh fuel st s d).1) ∧
    (∀ st s ty grp, WF st.descs → InstSingleton st.descs → OldSame st (getGroup beh fuel st s ty grp).1) ∧
    (∀ st s ds acc, WF st.descs → InstSingleton st.descs → (∀ d ∈ ds, d ∈ st.descs) →
      OldSame st (resolveMembers beh fuel st s ds acc).1) ∧
    (∀ st s deps acc, WF st.descs → InstSingleton st.descs → OldSame st (buildArgs beh fuel st s deps acc).1) ∧
    (∀ st s d, WF st.descs → InstSingleton st.descs → (∀ v, d.kind ≠ .inst v) →
      OldSame st (createInstance beh fuel st s d).1) := by
  intro fuel
  induction fuel with
  | zero =>
    refine ⟨?_, ?_, ?_, ?_, ?_, ?_⟩ <;> intros <;>
      simp [resolve, resolveDesc, getGroup, resolveMembers, buildArgs, createInstance] <;> exact OldSame.refl _
  | succ f ih =>
    obtain ⟨ihR, ihD, ihG, ihM, ihA, ihC⟩ := ih
    refine ⟨?_, ?_, ?_, ?_, ?_, ?_⟩
    · intro st s ty key wf is
      unfold resolve
      split; · exact OldSame.refl _
      split; · exact OldSame.refl _
      split; · exact OldSame.refl _
      split; · exact OldSame.refl _
      split
      · exact OldSame.refl _
      next d hd => exact ihD st s d wf is (findService_mem hd)
    · intro st s d wf is hd
      have hk : d.life ≠ .singleton → ∀ v, d.kind ≠ .inst v := fun hl v hv => hl (is d hd v hv)
      unfold resolveDesc
      split
      · split <;> exact OldSame.refl _
      next hl =>
        split
        · exact OldSame.refl _
        · exact OldSame.refl _
        · exact ihC st s d wf is (hk (by rw [hl]; simp))
      next hl => exact ihC st s d wf is (hk (by rw [hl]; simp))
    · intro st s ty grp wf is
      unfold getGroup
      split; · exact OldSame.refl _
      exact ihM st s _ [] wf is (fun d hd => groupMembers_mem hd)
    · intro st s ds acc wf is hds
      cases ds with
      | nil => unfold resolveMembers; exact OldSame.refl _
      | cons d rest =>
        unfold resolveMembers
        have h1 := ihD st s d wf is (hds d (by simp))
        have e1 := (frame beh f).2.1 st s d wf (hds d (by simp))
        have wf1 : WF (resolveDesc beh f st s d).1.descs := by rw [e1.descs]; exact wf
        have is1 : InstSingleton (resolveDesc beh f st s d).1.descs := by rw [e1.descs]; exact is
        have hrest : ∀ x ∈ rest, x ∈ (resolveDesc beh f st s d).1.descs := by
          intro x hx; rw [e1.descs]; exact hds x (List.mem_cons_of_mem _ hx)
        simp only []
        split
        · exact h1.trans (ihM _ s rest _ wf1 is1 hrest)
        · exact h1.trans (ihM _ s rest _ wf1 is1 hrest)
        · exact h1
    · intro st s deps acc wf is
      cases deps with
      | nil => unfold buildArgs; exact OldSame.refl _
      | cons dep rest =>
        unfold buildArgs
        simp only []
        generalize hr : (if dep.grp != 0 then getGroup beh f st s dep.ty dep.grp
            else resolve beh f st s dep.ty dep.key) = r
        have h1 : OldSame st r.1 ∧ Ext st r.1 s := by
          rw [← hr]
          split
          · exact ⟨ihG st s _ _ wf is, (frame beh f).2.2.1 st s _ _ wf⟩
          · exact ⟨ihR st s _ _ wf is, (frame beh f).1 st s _ _ wf⟩
        obtain ⟨h1, e1⟩ := h1
        have wf1 : WF r.1.descs := by rw [e1.descs]; exact wf
        have is1 : InstSingleton r.1.descs := by rw [e1.descs]; exact is
        split
        · exact h1.trans (ihA r.1 s rest _ wf1 is1)
        · split
          · exact h1.trans (ihA r.1 s rest _ wf1 is1)
          · exact h1
    · intro st s d wf is hk
      exact create_tail_old beh f st s d hk (ihA st s d.deps [] wf is)

end Godi.Container
