import GodiProofs.Container.Stable
import GodiModel.History
/-! Every user operation other than `Provider.Close` is `Stable`; so is every history of them. -/
namespace Godi.Container

/-- the registered initializers are scoped registrations -/
def InitOK (st : State) : Prop :=
  ∀ id ∈ st.initializers, ∀ d, findDesc st.descs id = some d → d.life = .scoped

theorem findDesc_mem {descs : List Desc} {id : Nat} {d : Desc} (h : findDesc descs id = some d) : d ∈ descs :=
  List.mem_of_find?_eq_some h

theorem Stable.wf {st st' : State} (h : Stable st st') (wf : WF st.descs) : WF st'.descs := by rw [h.descs]; exact wf

theorem Stable.initOK {st st' : State} (h : Stable st st') (i : InitOK st) : InitOK st' := by
  unfold InitOK; rw [h.descs, h.initializers]; exact i

theorem scopeGet_stable (beh : Beh) (st : State) (s ty key : Nat) (wf : WF st.descs) :
    Stable st (scopeGet beh st s ty key).1 := ((frame beh _).1 st s ty key wf).stable

theorem scopeGetGroup_stable (beh : Beh) (st : State) (s ty grp : Nat) (wf : WF st.descs) :
    Stable st (scopeGetGroup beh st s ty grp).1 := ((frame beh _).2.2.1 st s ty grp wf).stable

theorem providerGet_stable (beh : Beh) (st : State) (ty key : Nat) (wf : WF st.descs) :
    Stable st (providerGet beh st ty key).1 := by
  unfold providerGet; split
  · exact Stable.refl st
  · exact scopeGet_stable beh st _ ty key wf

theorem providerGetGroup_stable (beh : Beh) (st : State) (ty grp : Nat) (wf : WF st.descs) :
    Stable st (providerGetGroup beh st ty grp).1 := by
  unfold providerGetGroup; split
  · exact Stable.refl st
  · exact scopeGetGroup_stable beh st _ ty grp wf

theorem runInitializers_stable (beh : Beh) (s : Nat) : ∀ (ids : List Nat) (st : State), WF st.descs →
    (∀ id ∈ ids, ∀ d, findDesc st.descs id = some d → d.life = .scoped) →
    Stable st (runInitializers beh st s ids).1 := by
  intro ids
  induction ids with
  | nil => intro st _ _; exact Stable.refl st
  | cons id rest ih =>
    intro st wf hi
    unfold runInitializers
    split
    · exact ih st wf (fun x hx => hi x (List.mem_cons_of_mem _ hx))
    next d hd =>
      have hl : d.life ≠ .singleton := by rw [hi id (by simp) d hd]; simp
      have h1 := ((frame beh (fuelFor st)).2.2.2.2.2 st s d wf (findDesc_mem hd) hl).stable
      simp only []
      split
      · refine h1.trans (ih _ (h1.wf wf) ?_)
        rw [h1.descs]; exact fun x hx => hi x (List.mem_cons_of_mem _ hx)
      · exact h1

theorem closeScope_stable' (beh : Beh) (order : List Nat → List Nat) (fuel : Nat) (st : State) (s : Nat) :
    Stable st (closeScope beh order fuel st s).1 := (closeScope_stable beh order fuel).1 st s

theorem allocScope_stable (st : State) (parent : Option Nat) (ctx : Nat) : Stable st (allocScope st parent ctx) :=
  ⟨rfl, rfl, rfl, rfl, ⟨[], by simp [allocScope], by simp⟩, Nat.le_refl _⟩

theorem addChild_stable (st : State) (p s : Nat) : Stable st (addChild st p s) := updScope_stable _ _ _

theorem addProvScope_stable (st : State) (s : Nat) : Stable st (addProvScope st s) :=
  ⟨rfl, rfl, rfl, rfl, ⟨[], by simp [addProvScope], by simp⟩, Nat.le_refl _⟩

theorem newScope_stable (beh : Beh) (st : State) (parent : Option Nat) (ctx : Nat) (ri : Bool)
    (wf : WF st.descs) (i : InitOK st) : Stable st (newScope beh st parent ctx ri).1 := by
  unfold newScope
  simp only []
  have h0 := allocScope_stable st parent ctx
  split
  · have h1 := runInitializers_stable beh st.nscopes _ _ (h0.wf wf) (h0.initOK i)
    split
    · exact h0.trans h1
    · exact (h0.trans h1).trans (closeScope_stable' beh id _ _ _)
  · exact h0

theorem providerCreateScope_stable (beh : Beh) (st : State) (ctx : Nat) (wf : WF st.descs) (i : InitOK st) :
    Stable st (providerCreateScope beh st ctx).1 := by
  unfold providerCreateScope
  split
  · exact Stable.refl st
  · have h1 := newScope_stable beh st none ctx true wf i
    simp only []
    split
    · exact h1
    · split
      · exact h1.trans (closeScope_stable' beh id _ _ _)
      · exact h1.trans (addProvScope_stable _ _)

theorem scopeCreateScope_stable (beh : Beh) (st : State) (p ctx : Nat) (wf : WF st.descs) (i : InitOK st) :
    Stable st (scopeCreateScope beh st p ctx).1 := by
  unfold scopeCreateScope
  split
  · exact Stable.refl st
  · have h1 := newScope_stable beh st (some p) ctx true wf i
    simp only []
    split
    · exact h1
    · split
      · exact h1.trans (closeScope_stable' beh id _ _ _)
      next s _ _ =>
        have h2 := h1.trans (addChild_stable _ p s)
        split
        · exact h2.trans (closeScope_stable' beh id _ _ _)
        · exact h2.trans (addProvScope_stable _ _)

theorem stepOp_stable (beh : Beh) (st : State) (op : Op) (wf : WF st.descs) (i : InitOK st) :
    Stable st (stepOp beh st op) := by
  cases op with
  | get s ty key => cases s with
    | none => exact providerGet_stable beh st ty key wf
    | some s => exact scopeGet_stable beh st s ty key wf
  | getGroup s ty grp => cases s with
    | none => exact providerGetGroup_stable beh st ty grp wf
    | some s => exact scopeGetGroup_stable beh st s ty grp wf
  | createScope p ctx => cases p with
    | none => exact providerCreateScope_stable beh st ctx wf i
    | some p => exact scopeCreateScope_stable beh st p ctx wf i
  | closeScope s order => exact closeScope_stable' beh order _ st s

/-- every history of user operations (short of `Provider.Close`) is stable -/
theorem run_stable (beh : Beh) : ∀ (ops : List Op) (st : State), WF st.descs → InitOK st →
    Stable st (run beh st ops) := by
  intro ops
  induction ops with
  | nil => intro st _ _; exact Stable.refl st
  | cons op rest ih =>
    intro st wf i
    have h1 := stepOp_stable beh st op wf i
    exact h1.trans (ih _ (h1.wf wf) (h1.initOK i))

end Godi.Container
